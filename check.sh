#!/bin/bash
# usage: check.sh <property-id> [quick|thorough]   (cwd independent)
# Builds the checker if needed (offline, from /verif/checker) and analyses /repo's working tree.
set -u
export GOFLAGS=-mod=mod GOPROXY=off GOSUMDB=off GOTOOLCHAIN=local CGO_ENABLED=0
unset GOWORK
V="$(cd "$(dirname "$0")" && pwd)"
mkdir -p "$V/bin"
( cd "$V/checker" && go build -o "$V/bin/ddcheck" ./cmd/ddcheck ) || { echo "FATAL: cannot build checker"; exit 2; }
TIER="${2:-${VERIF_TIER:-quick}}"
exec "$V/bin/ddcheck" -prop "$1" -tier "$TIER" -repo "${DDCHECK_REPO:-/repo}" -verif "$V"
