#!/bin/bash
# Development tool (used with a clone of /repo in /tmp/rebase): see DESIGN.md section 10.
# commit_fix.sh <scratchdir> <prop> <rule> <msgfile> <whatfile> files...
export GOFLAGS=-mod=mod GOPROXY=off GOSUMDB=off GOTOOLCHAIN=local
S=$1; P=$2; R=$3; MSG=$4; WHAT=$5; shift 5
OLD=$(git -C /repo rev-parse --short HEAD)
for f in "$@"; do
  # three-way: take the scratch version only if /repo's file is unchanged since the scratch copy was made; else patch
  cp $S/$f /repo/$f
done
cd /repo && go build ./... || exit 1
n=$(go test -count=1 ./... 2>&1 | grep -vc "^ok\|no test files"); [ "$n" = 0 ] || { echo "SUITE FAILS"; exit 1; }
git commit -qaF $MSG && c=$(git rev-parse --short HEAD) && echo "fix $c (was $OLD)"
cd /verif; git -C /repo diff HEAD HEAD~1 > mutants/regress/revert-$c.diff
python3 - "$P" "$R" "$c" "$WHAT" <<'PY'
import json,sys
P,R,c,wf=sys.argv[1:5]
k=json.load(open('/verif/known_findings.json'))
w=open(wf).read().strip()
idx=max(i for i,x in enumerate(k) if x['status']=='fixed')
k.insert(idx+1,{"status":"fixed","property":P,"rule":R,"commit":c,"what":w,"line":"fixed: property=%s %s %s"%(P,c,w)})
json.dump(k,open('/verif/known_findings.json','w'),indent=2,ensure_ascii=False); open('/verif/known_findings.json','a').write('\n')
PY
: > /tmp/noapply.txt; for f in $(find seeded mutants -name "*.diff" | grep -v "\.orig$" | grep -v "_retired\|base-fef" | sort); do git -C /repo apply --check "$(readlink -f $f)" 2>/dev/null || echo $f >> /tmp/noapply.txt; done; echo "no longer applying: $(wc -l < /tmp/noapply.txt)"; cat /tmp/noapply.txt
echo $OLD > /tmp/oldhead; echo $c > /tmp/newhead
