#!/usr/bin/env python3
"""Regenerates /verif/MANIFEST.json from the table below (development tool)."""
import json, os
V = os.path.dirname(os.path.dirname(os.path.abspath(__file__)))
props = [json.loads(l) for l in open(os.path.join(V, 'properties.jsonl'))]

TRUST = "Trusted: go/types and go/ssa (x/tools v0.29.0) as a faithful view of /repo's working tree; anchor names (functions, fields) listed in the rule files; std library contracts; reviewed tables rules/exceptions.json. Loops are abstracted to 0/1 iterations in decision-list rules."

CLAIMS = {
 "C01": dict(
   technique="interprocedural nil-link typestate (may-return-nil / dereferences-parameter summaries + guard-cut of nil tests), linear-arithmetic bound proofs for index and slice expressions (Fourier-Motzkin elimination over the branch conditions that dominate the expression; nothing executed, no external solver), guard-cut rules for cross-object slice bounds and partial operations with a reviewed exception table, placeholder-balance path enumeration, must-pass-through for the result shape, loop-variant recognition on natural loops (iterator / bounded counter incl. delete-and-stay / single-direction link walk) and descent check for recursion",
   text="Decides four necessary conditions of panic-freedom on every path of the reachable module code: maybe-nil DOM links are only dereferenced under a nil test (26 sites rely on reviewed DOM invariants, each named), offsets taken from another value's length are bounded by a case-sensitive prefix/length test, constant indexes/assertions/divisions are guarded or structurally safe, start/end placeholders are balanced so the retainer's stack never underflows, Apply returns an error or a fresh div, no goroutine is started, every loop of reachable module code has a recognised variant and every recursive call descends the (finite) tree - one document-order walk is a reviewed exception; a pointer to a module record that a module function may answer as nil is dereferenced only under a nil test (T9, with infeasible nil edges recognised; two sites rest on a reviewed invariant); an update of a nested map is preceded by the creation of its entry (T10). Relational index arithmetic in pagination/pattern, nil pointers paired with error/ok results, termination inside third-party code and third-party panics are NOT decided.",
   design="4/C01"),
 "C02": dict(
   technique="structural order-preservation rules on SSA: forward child loops, who-writes/how-writes rule for the sequence-carrying fields (append-to-self / shift-left delete idiom only), disjoint-window rule for the text builder, loop transition extraction of the emitters, must-pass-through of flushBlock",
   text="Decides that no step between the document-order walk and the concatenated output can reorder or duplicate: children are visited and attached first-to-last, the five sequence fields are only appended to or shrunk by the shift-left idiom and never sorted or overwritten, each Text gets a disjoint window of the collected nodes, emitters walk forward and skip exactly non-content elements, non-text elements flush pending text first, captions/table text are rendered from the clone by the visibility-aware renderer, the visibility predicate is the documented decision list, and whole subtrees enter the output only through the conforming per-node gate or as reviewed Image/Figure copies pruned to img/source (nothing is emitted a second time inside a copied element). Not decided: which words are selected, and fabrication inside third-party code.",
   design="4/C02"),
 "C03": dict(
   technique="sibling-iteration loop discovery on SSA + effect summaries (PEA, callbacks closed over the call graph) for iterator invalidation; table extraction for inline-tag handling; who-writes rule for the flush flag; loop transition extraction for ApplyToModel",
   text="Decides the structural causes by which a simple paragraph could be cut: (I1) no sibling walk anywhere in the analysed program can have its cursor's link rewritten by a call made before the cursor advances (the WalkNodes defect class), (I2) the nine simple inline tags are inline, never flush or label a block, are never dropped unconditionally, and only SkipNode/StartNode raise the flush flag, (I3) a content block marks every one of its Text elements, (I4) the element visitor never skips an inline element except for a decision on its own marking attributes (class, id, rel, role, itemprop, data-*; of the href only the documented mediawiki test) or visibility, and the javascript: anchor rewrite hands over the whole (single text) content, (I5) the builder acts on the action of the very element it is given, (I6) output post-processing never restructures the clone. Not decided: the classifier's content decision itself.",
   design="4/C03"),
 "C04": dict(
   technique="path enumeration of the converter's element visitor with builder calls as events (visibility gate dominance), decision-list conformance of IsProbablyVisible / InnerText / the clone visitor / the node dispatcher, switch-table extraction for the skip list, reviewed table of wholesale copies",
   text="Decides that every route from source nodes to output is gated: nothing is admitted by the main walk, by the table/caption/embed cloner or by the text renderer unless the element was tested probably-visible (and is not script/style) first, on every path; the predicate looks at exactly the four documented signals with inline display overriding tag defaults; the listed non-reading tags are never walked; captions picked from the page are visibility-checked up to their figure; an inline display value is compared in lower case; what the image extractor stores as an Image/Figure element (deep-cloned later without filtering) is a fresh element, decided not to be a picture, or a picture pruned to img/source on every path. Not decided: CSS the port cannot see and the regex semantics.",
   design="4/C04"),
 "C05": dict(
   technique="sibling-agreement dataflow rule over all Element.GenerateOutput implementations (same-SSA-value strip-before-serialise with helper/field summaries, must-pass-through on the CFG), literal allow-list extraction, decision-list conformance of the clone visitor",
   text="Decides for every element kind and every path that whatever reaches dom.OuterHTML/InnerHTML has passed StripAttributes as the same value (or comes from a helper/field that always strips, or is the distiller's own placeholder wrapper with stripped children), that nothing is added afterwards, that the allow-list has no on* attribute and id/class/style are always dropped for root and descendants, that every element visited by StripAttributes gets its list replaced and an attribute is kept only after a positive allow-list lookup, and that script/style and hidden nodes cannot enter wholesale clones, pictures or the main walk. Not decided: the serializer and attribute values.",
   design="4/C05"),
 "C06": dict(
   technique="field-initialisation completeness over composite literals, same-SSA-value absolutise-before-serialise rule with helper/field summaries, constant coverage extraction, decision-list conformance of CreateAbsoluteURL, writer/reader tokeniser agreement, PEA for the stability of the base URL",
   text="Decides that every element that can carry a URL is given the page URL at construction, that each serialised tree was absolutised with the element's own PageURL on all paths, that the absolutisers cover href/poster/src/srcset and resolve exactly by the documented pass-through list, that ContentImages come from the serialised clones, that the base URL object is never written, and that Apply hands Options.OriginalURL itself to the content extractor on every path. Not decided: RFC 3986 resolution and the srcset grammar.",
   design="4/C06"),
 "C07": dict(
   technique="path enumeration of the converter visitor with emission events (balanced start/end placeholders), CanBeNested table extraction, loop transition-function extraction of the retainer, clone-as-unit and append-only rules",
   text="Decides the structural necessary conditions of nesting preservation: start and end placeholders are emitted under the same predicate application with the node's own tag name; a nestable element that got its start tag is always walked so its end tag follows; tags are never renamed across the nestable boundary; the stack pass is the last filter to change content flags; the retainer's per-element transition (boolean part) is the documented one; data tables are stored, cloned and serialised as one unit from an append-only node list; text rooted at a nestable element emits inner HTML and is never wrapped in clones of its parents as well; the per-node gate through which tables are cloned admits every element that is not script/style/hidden; the visibility pattern recognises the visibility property only. Not decided: the retainer's integer stack-mark logic and HTML re-parsing.",
   design="4/C07"),
 "C08": dict(
   technique="loop transition-function extraction (one iteration of RelevantElements.Process as a decision list over boolean loop state) + call ordering (must-pass-through) + layering (who-may-call) + loop/promotion rules",
   text="Decides that the retention automaton for non-text elements is exactly: content element opens a run, dropped text closes it, any other element is retained iff the run is open; that the filters run in the fixed order after text classification; that the lead-image promotion is a single SetIsContent(true) outside loops over candidates that are dropped images/figures before the last retained text; that elements enter the document after the text that precedes them (flush before append); that every embed extractor is offered every candidate node (complete loop over the extractor list, which holds every implementation); and that nobody else writes the content flag. This is the structural form of 'retained iff the nearest preceding text block is retained, plus at most one lead image'. Not decided: scorer arithmetic and the classifier's choice of text blocks.",
   design="4/C08"),
 "C09": dict(
   technique="single-source rule per GenerateOutput implementation (text and HTML return values traced to the same SSA value/field), canonical-expression checks of Apply's result stores, loop transition extraction of Document.GenerateOutput, decision-list conformance of ExtractContent",
   text="Decides that the views cannot diverge structurally: each element renders text and HTML from one processed clone (or has no text in either view) and the code that only one view executes removes nothing from that clone, ContentImages are read from the serialised clones with the same srcset tokeniser, Apply takes Text/Node/WordCount/ContentImages from one ExtractContent call and one Document, and the document emitters skip exactly non-content elements in list order. One implementation (Embed) violates the rule on the current tree and is a listed known finding. Not decided: word-level equality and the numeric WordCount relation.",
   design="4/C09"),
 "C10": dict(
   technique="whole-program provenance & effects analysis (summary-based may-write analysis over go/ssa with symbolic parameter regions, deferred higher-order calls, VTA call graph)",
   text="Decides for all inputs, options and entry points that no store, in-place append, copy or mutating library call reachable from Apply/ApplyForReader/ApplyForFile/ApplyForURL can target memory of the caller's node tree, Options value or URL. A may-analysis: it can only over-report, every report names the store and the call chain. Positive controls (known mutators must be seen mutating; dom.Clone must be classified fresh) guard against vacuity.",
   design="3.1, 4/C10"),
 "C11": dict(
   technique="exhaustive enumeration and structural classification of map-range loops (loop transition extraction), reviewed-exception table with machine-checked lemmas, scans for nondeterminism sources with a forward slice of clock values, PEA for state surviving a call, decision-list conformance of the delegating entry points",
   text="Decides that module code contains no source of run-to-run variation: every map iteration is order-insensitive by construction (insert-only, constant-exit scan, collect-then-sort) or a reviewed entry whose supporting lemma is re-checked; no goroutines, randomness, environment or pointer values; clock values flow only into timing data; nothing written during a call survives it or changes its inputs; ApplyForReader/ApplyForFile only parse/open and delegate. The one loop that used to be a reviewed-but-unproven exception (tie-break between equally good pagination patterns) turned out to be a genuine defect and was repaired (candidates are now visited in sorted order).",
   design="4/C11"),
 "C12": dict(
   technique="provenance & effects analysis for writes to package-level state + caller arguments; scan for goroutines/channels/sync in module code; import scan",
   text="Decides race-freedom structurally for all interleavings: (G1) no write to memory reachable from a package-level variable on any path from the entry points (except sync.Once-guarded initialisation), (G2) shared arguments are only read, (G3) no concurrency inside the module so per-call memory is private, (G4) no unsafe/reflect/cgo. Together these imply that two calls share no location that either writes, hence no data race and no cross-call influence.",
   design="4/C12"),
 "C13": dict(
   technique="control-dependence regions of log-flag branches checked with PEA effect summaries (write-only log regions, no value merged back), path enumeration of Apply with result stores as events, use-only-as-condition rules",
   text="Decides non-interference of the options structurally: log-flag predicates only steer branches whose regions neither store outside region-local memory/reviewed debug maps nor call anything with effects nor feed values back; in Apply the PaginationInfo store happens exactly under !SkipPagination && URL != nil, URL is OriginalURL.String() exactly when non-nil, all other fields are filled on all successful paths from option-independent expressions, no other branch exists, the finders leave document and URL untouched, modelled standard-library mutators inside log regions work on region-local data only, maps that are only filled by logging code are read only by logging code, and nothing below the entry points writes the Options or the URL they point to.",
   design="4/C13"),
 "C14": dict(
   technique="static decision-list extraction + guard-cut/ordering rules on SSA (accessor order, OpenGraph gate, first-non-empty getters, opt-out dominance, field/getter agreement)",
   text="Decides the combinator skeleton of the metadata precedence for all inputs: accessor list order [OpenGraph only if complete, schema.org, IE], each getter returns the first non-empty answer of the same-named accessor method, opt-out yields the zero record, each record field is filled from the same-named source, and Apply stores the record whole and never patches a field of it. Not decided: what each of the three parsers extracts from a document.",
   design="4/C14"),
 "C19": dict(
   technique="decision-list conformance of HasRootDomain + guard-cut dominance of every webdoc.Embed construction by the host test + constant allow-list extraction + converter switch table",
   text="Decides that an embed placeholder can only be constructed on paths where the parsed host of the tested URL equals an allow-listed root or ends with '.'+root, that the roots are exactly the four documented ones paired with the right service name, that the id is computed from the tested URL, that the placeholder is rendered through the DOM serializer, that unrecognised iframe/object/embed elements fall into a dropping clause, that frames nested in an embedded element or in a picture are removed before the clone reaches the output, and that the stored id is the last non-empty path segment of the tested URL (not embed/video) or the tweet-id attribute. Not decided: query parameter parsing.",
   design="4/C19"),
 "C20": dict(
   technique="decision-list conformance of ExtractContent with path-resolved phis; structural checks of the per-pass construction; guard-cut of the flag-dependent skips in the converter; global-reader scan",
   text="Decides the two-pass skeleton: pruning pass first, second pass with Default iff the first yields <= 499 words, document and count from the same pass; each pass uses fresh builder/converter over a deep clone; the flag-dependent skips are guarded by the complete documented exemptions (the ancestor test climbs to the root), no element reaches the builder before the flag was tested, and the patterns are used nowhere else; no other class/id test of the content packages reacts to a marker word of the unlikely pattern (two overlaps exist on the current tree and are listed known findings: the comment-section rule and the socialArea skip). Not decided: the metamorphic equalities themselves, and pagination (which reads class names of the original document).",
   design="4/C20"),
 "C15": dict(
   technique="decision-list conformance of the title candidate list, string-provenance walk over SSA for getDocumentTitle's results, belief rule (looked-up key must be inserted) and normalisation-chain agreement between the two sides of the title matcher, guard-cut for the title suppression",
   text="Decides that the markup title (when present) is candidate 0 and is what Result.Title reports; that the heuristic title can only consist of <title>/<h1> text cut by substring-preserving operations, with a character-counted 15..150 gate that leaves a plain title untouched; that the whole normalised title is registered as a potential title and blocks are normalised by the same chain; that a block labelled as title renders empty in both views; and that whoever receives the candidate list while the extractor holds it only reads it. Not decided: which separator-delimited part of a long title is chosen.",
   design="4/C15"),
 "C16": dict(
   technique="sink sanitisation by guard-cut (candidate admission in PrevNext), decision-path enumeration with URL stores as events (validators of numbered links, PrevPage/NextPage sinks), exhaustive classification of every PageInfo.URL / NextPagingURL writer in the module",
   text="Decides that every URL that can reach NextPage/PrevPage is \"\", or the normalised absolute href of an anchor that passed the parse + same-site (scheme://host/ prefix rendered unmodified by UnescapedString, or equal hosts) + http(s) scheme tests (PrevNext) resp. parse + host equality + http(s) scheme (PageNumber), or a copy of such a URL; the only other source (the current document's own URL inserted by the detector, as it is or with only the trailing slash of its path removed) is filtered by a normalised comparison before PrevPage is set; both finders are given the caller's Options.OriginalURL itself. Not decided: that the link is the right page (C17) and port/case subtleties of host comparison.",
   design="4/C16"),
 "C18": dict(
   technique="static decision-list extraction from SSA (normalised branch paths) compared with the documented cascade; literal-table key sets; guard-cut reachability",
   text="Decides, for every path through Classifier.Classify / getDirectDescendants and the converter's table case, that the branch structure equals the documented ordered cascade (order, thresholds, operands, tables by content, outcomes), that the converter walks into a table only after the classifier said it is not a data table, that the visibility predicate behind the has-valid-text question conforms, and that the converter hands the classifier an unmodified deep clone (hidden rows and cells count). Holds for all inputs because it is a statement about the code's decision structure, not about sampled tables. Not decided: row/column counting arithmetic and text validity helpers.",
   design="4/C18"),
}
NA = {
 "C17": "input/output table over pager shapes (N, k, URL family): needs executing the adjacency/consecutiveness arithmetic; no clause is visible in the shape of the code without a frozen-fragment proxy (DESIGN.md section 5)",
}
PENDING = "check not built yet in this revision (DESIGN.md section 4 describes the planned rule); not claimed"

# clauses added in round 4 (DESIGN.md section 4, "Added in round 4")
ADD4 = {
 "C01": "Also: a slice bound that is the answer of strings.Index & co. is reachable only where the search is known to have succeeded; pointer parameters of the entry points are dereferenced only under a nil test. nil *url.URL locals are dereferenced only where no nil edge can reach.",
 "C02": "Also: every text rendering of a non-Text element is InnerText of a tree or empty (no attribute value becomes a word); no HTML rendering that is concatenated with its neighbours comes from a trimming serializer (recognised by shape). The InnerText collector conforms to its decision list; no pass rewrites the clone before the walk.",
 "C03": "Also: the walker's child loop has no bound or filter of its own and always walks the child.",
 "C04": "Also: the compiled display/visibility pattern constants are asked about fixed declarations (!important, blanks around the colon, position in the style), and the text collector leaves out script/style by tag; template content is never rendered. The caption visibility walk starts at the element; no pass rewrites the clone before the gate; the foreign-content pass keeps only the children of a visible xmp/plaintext.",
 "C05": "Also: the element names whose text the x/net/html serializer writes unescaped (read from the sources of the version in use) are taken out of svg/math before the converter walks its clone, so escaped text cannot come back as markup when Apply parses the output again. A processed tree gets nothing back afterwards.",
 "C06": "Also: a video's sources get srcset absolutised, area[href] is covered, and the compiled srcset pattern yields exactly the candidate URLs of fixed values. ApplyForURL's base is the supplied URL as parsed.",
 "C07": "Also: a placeholder is appended behind the text that precedes it (flush rule shared with C02).",
 "C08": "Also: whether a media element exists at all is the documented visibility decision; a retained media element never renders as the empty string; a wrapper counts as empty only by its children, never by a count of descendants. No pass rewrites the clone before the walk; the InnerText collector conforms.",
 "C09": "Also: any text rendering that is not InnerText of the tree the HTML view serialises is reported; the HTML view does not glue words (no trimmed concatenation); the compiled word-counter patterns split at every Unicode white space. The counters do not split at format characters; aria-hidden is not kept by the allow-list.",
 "C11": "Also: third-party code reachable from Apply/ApplyForReader/ApplyForFile is scanned for goroutines/select (one known finding: the charset guesser of dom.Parse).",
 "C12": "Also: nothing but timing data depends on the clock (shared with C11).",
 "C13": "Also: filter-in-place appends inside log regions count as writes; ApplyForURL parses the supplied string fragment-aware. ApplyForURL copies the caller's options whole.",
 "C14": "Also: the OpenGraph prefix table is written only under the entry of the declared namespace, og:type is known before the type-dependent parsers run, property names match as a whole, nothing rewrites the document the parsers read, and schema.org types are recognised under the http and the https spelling.",
 "C15": "Also: no markup title for a page that opted out; InnerText changes nothing but whitespace; every block is compared with the potential titles.",
 "C16": "Also: relative hrefs are resolved against the caller's page URL itself, followed through the call graph to FindPagination's parameter.",
 "C19": "Also: a root domain only for http/https URLs; the tested value is the element's own address attribute; ids come from the path of url.Parse; srcdoc is not an allowed attribute. The literal-text round trip (C05-S4) is shared.",
 "C20": "Also: a pruned element makes no call on the document builder; roles of the unlikely-role table are compared nowhere else; with SkipUnlikelies set the unlikely candidates are removed from the clone before the walk by a pass that conforms to the documented decision list (pruned = deleted). The counters agree on text without CJK/Hangul characters.",
}
for _k, _v in ADD4.items():
    CLAIMS[_k]["text"] += " " + _v

# clauses added in round 6
ADD6 = {
 "C01": "Round 6: in pagination/pattern index and slice bounds are decided by a small linear-arithmetic prover over the comparisons that dominate the expression (mandatory for a string parameter indexed by stored offsets; elsewhere whenever the function itself compares the two sides).",
 "C05": "Round 6: no parser of the module runs with scripting disabled.",
 "C06": "Round 6: the reference is the value trimmed of ASCII white space only; data:/javascript: in any case; srcset descriptors with an exponent; ContentImages holds only what the elements' URL readers return.",
 "C08": "Round 6: Result.Node is not touched after the HTML rendering was parsed.",
 "C09": "Round 6: the InnerText collector pads every text node and nothing gets around it (C04-V5 shared); Result.Node is not touched after parsing.",
 "C10": "Round 6: filter-in-place appends into storage of the caller's document are seen through merges.",
 "C11": "Round 6: module code fills no synchronised container or atomic counter.",
 "C12": "Round 6: field stores through pointer parameters are instantiated at the call sites (records of a package-level table handed out by pointer).",
 "C14": "Round 6: the InnerText collector rule (C04-V5) is shared: text values read from elements leave out hidden parts, the element asked for included. The schema.org getImage implementations agree: no image record without a URL.",
 "C15": "Round 6: MarkupInfo.Title is the unchanged Title() answer.",
 "C16": "Round 6: Apply runs the finders only for a page URL with a host.",
 "C19": "Round 6: frame addresses are resolved against the caller's page URL only (C06-U6 shared).",
 "C20": "Round 6: the word counter for the threshold is chosen from the whole text of the document element.",
}
for _k, _v in ADD6.items():
    CLAIMS[_k]["text"] += " " + _v

checks, na = [], []
for p in props:
    pid = p['id']
    if pid in CLAIMS:
        c = CLAIMS[pid]
        checks.append({
            "property_id": pid,
            "quick_cmd": "./check.sh %s quick" % pid,
            "thorough_cmd": "./check.sh %s thorough" % pid,
            "evidence_file": "/verif/evidence/%s.json" % pid,
            "replay_cmd_template": "./bin/ddcheck -prop %s -replay {path}" % pid,
            "engine": "ddcheck",
            "level_claimed": {"category": "other", "text": c["text"], "design_ref": "DESIGN.md " + c["design"]},
            "level_note": c.get("note", TRUST),
            "technique": c["technique"],
        })
    else:
        na.append({"property_id": pid, "reason": NA.get(pid, PENDING)})
m = {
 "version": 1,
 "setup_cmd": "cd /verif/checker && GOFLAGS=-mod=mod GOPROXY=off GOSUMDB=off GOTOOLCHAIN=local CGO_ENABLED=0 go build -o /verif/bin/ddcheck ./cmd/ddcheck",
 "hooks": {"guard": "verif", "enable": "none: static analysis reads /repo's sources, no instrumentation is compiled in", "baseline_off_cmd": "cd /repo && GOFLAGS=-mod=mod GOPROXY=off GOSUMDB=off go test -vet=off -count=1 ./...", "source_commits": [], "add_only": True},
 "engines": [{"name": "ddcheck", "path": "/verif/checker", "serves_properties": sorted(CLAIMS), "kind_free_text": "repository-specific static analyser over go/packages + go/ssa + VTA call graph: decision-list extraction, guard-cut/must-pass-through CFG rules, provenance & effects summaries, table extraction"}],
 "checks": checks,
 "not_applicable": na,
 "notes": "Technique family: static analysis only. Every check type-checks /repo's current working tree and decides obligations (rule x construct) from the resolved program; nothing from /repo is executed. Genuine defects found are repaired by fix: commits in /repo and listed in known_findings.json.",
}
json.dump(m, open(os.path.join(V, 'MANIFEST.json'), 'w'), indent=1)
print("checks:", [c["property_id"] for c in checks], "na:", len(na))
