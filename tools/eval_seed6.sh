#!/bin/bash
# eval_seed6.sh Cxx : verify the round-6 mutants of a property and run all checks on each
P=$1
grep -q "^$P	" /tmp/seedout6/VERIFY.tsv 2>/dev/null || /verif/tools/verify_seed6.sh $P
grep "^$P	" /tmp/seedout6/VERIFY.tsv
for k in 1 2 3; do
  f=/tmp/seed6/$P/mutant$k.diff; [ -f $f ] || continue
  MUT_LINES=3 /verif/tools/allcheck.sh $f all | cut -c1-260 | sed "s/^ALL: /ALL $P-m$k: /"
done
