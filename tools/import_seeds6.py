#!/usr/bin/env python3
"""Development tool: imports the verified round-6 sub-agent changes from /tmp/seed6 into /verif/seeded/<prop>-<k> (k = 19..21)."""
import json, os, re, shutil, subprocess, sys
S='/tmp/seed6'
first={}  # alarms when first evaluated (before strengthening), from /tmp/seedout6/first.txt if present
if os.path.exists('/tmp/seedout6/first.txt'):
    for l in open('/tmp/seedout6/first.txt'):
        m=re.match(r'(C\d+)-m(\d) (.*)',l.strip())
        if m: first[(m.group(1),m.group(2))]=m.group(3)
ver={}
for l in open('/tmp/seedout6/VERIFY.tsv'):
    p=l.strip().split('\t'); ver[(p[0],p[1])]=p[2:]
head=subprocess.check_output(['git','-C','/repo','rev-parse','--short','HEAD']).decode().strip()
for (prop,k),v in sorted(ver.items()):
    if v!=['build=0','suite=0','demo_mut=1','demo_head=0']:
        print('NOT VERIFIED',prop,k,v); continue
    src=f'{S}/{prop}'; K=18+int(k); dst=f'/verif/seeded/{prop}-{K}'
    shutil.rmtree(dst,ignore_errors=True); os.makedirs(dst)
    shutil.copy(f'{src}/mutant{k}.diff', dst+'/patch.diff')
    if os.path.isfile(f'{src}/demo{k}/go.mod'):
        shutil.copytree(f'{src}/demo{k}', dst+'/demo', symlinks=False); run=''
    else:
        os.makedirs(dst+'/demo')
        for f in os.listdir(f'{src}/demo'):
            m=re.match(r'demo(\d)_test\.go',f)
            if m and m.group(1)!=k: continue
            pth=os.path.join(src,'demo',f)
            if os.path.isfile(pth): shutil.copy(pth, dst+'/demo/'+f)
        names=re.findall(r'^func (Test[A-Za-z0-9_]*)', open(f'{src}/demo/demo{k}_test.go').read(), re.M)
        run="-run '^(%s)$' "%'|'.join(names)
    for root,_,files in os.walk(dst+'/demo'):
        for f in files:
            if f=='go.mod':
                p=os.path.join(root,f); s=open(p).read(); s=re.sub(r'=> /tmp/wt7/C\d+','=> /repo',s); open(p,'w').write(s)
    rep=''
    if os.path.exists(f'{src}/REPORT.md'): rep=open(f'{src}/REPORT.md').read()
    sec=''
    m=list(re.finditer(r'(?mi)^(#+\s*|\*\*|- \*\*|\d+\.\s*\*\*)?\s*`?Mutant\s*%s\b.*$'%k, rep)) or list(re.finditer(r'(?mi)^.*mutant%s\.diff.*$'%k, rep))
    if m:
        start=m[0].start(); nxt=re.search(r'(?mi)^(#+\s*|\*\*|- \*\*|\d+\.\s*\*\*)?\s*`?Mutant\s*%d\b'%(int(k)+1), rep[start+10:]) or re.search(r'(?mi)^#+\s*(Observations|HEAD)', rep[start+10:])
        end=start+10+nxt.start() if nxt else min(len(rep),start+6000)
        sec=rep[start:end].strip()
    elif rep: sec=rep[:4000]
    race=' -race' if prop=='C12' else ''
    meta={"property":prop,"mutant":K,"round":6,"base_commit":head,
      "verified":{"builds":True,"existing_suite_passes":True,"demo_fails_with_patch":True,"demo_passes_without":True,
        "how":"applied the patch in a scratch worktree of /repo at base_commit; go build ./...; go test -vet=off -count=1 ./... (20 packages ok); ran the demonstration (FAIL); git checkout; ran it again (PASS). Script: tools/verify_seed6.sh"},
      "demo_cmd":"apply patch.diff to /repo (git -C /repo apply), then: cd demo && go test%s -count=1 %s./... ; undo with git -C /repo checkout -- ."%(race,run),
      "needs_to_manifest_and_rationale":sec[:6000],
      "alarms_when_first_evaluated":first.get((prop,k),''),
      "source":"independent sub-agent (round 6: at least one change outside the anchored files, at least one that adds something - a fast path, cache, special case, default, normalisation - rather than weakening a check) given only the property text and a scratch worktree"}
    json.dump(meta,open(dst+'/meta.json','w'),indent=1,ensure_ascii=False)
    print('imported',dst,'report' if sec else 'NO-REPORT')
