#!/bin/bash
# catches.sh [outdir]: runs every seeded change and every reverted fix against the check of its own
# property only and records which rules report it (development tool; feeds tools/catches.py).
O=${1:-/tmp/catches}; mkdir -p $O; rm -f $O/*.txt
cd /verif
{ for d in seeded/C*/; do n=$(basename $d); echo "$n ${n%-*} $d/patch.diff"; done
  for f in mutants/regress/revert-*.diff; do case $f in *.orig) continue;; esac; c=$(basename $f .diff | sed 's/revert-//'); p=$(jq -r --arg c "$c" '.[] | select(.commit==$c) | .property' known_findings.json | head -1); echo "revert-$c $p $f"; done
} > $O/list
cat $O/list | xargs -P ${FM_JOBS:-8} -L1 sh -c 'MUT_LINES=400 tools/allcheck.sh $2 $1 > '$O'/$0.txt 2>&1'
