#!/usr/bin/env python3
"""Development tool: imports verified sub-agent mutants from /tmp/seedout into /verif/seeded/<prop>-<k>/."""
import json, glob, os, re, shutil, subprocess
T='/tmp/claude-0/-verif/8b3562b2-cd22-4b81-9818-783e060cc49c/tasks/'
reports={}
for f in glob.glob(T+'*.output'):
    try:
        lines=open(f).read().splitlines()
        first=json.loads(lines[0]); m=re.search(r'/tmp/seedout/(C\d+)\.prompt', str(first.get('message',{}).get('content','')))
        if not m: continue
        last=json.loads(lines[-1]); txt=''.join(c.get('text','') for c in last['message']['content'] if c.get('type')=='text')
        reports[m.group(1)]=txt
    except Exception as e:
        print('skip',f,e)
ver={}
for l in open('/tmp/seedout/VERIFY.tsv'):
    p=l.strip().split('\t'); ver[(p[0],p[1])]=p[2:]
head=subprocess.check_output(['git','-C','/repo','rev-parse','--short','HEAD']).decode().strip()
for (prop,k),v in sorted(ver.items()):
    if v!=['build=0','suite=0','demo_mut=1','demo_head=0']:
        print('NOT VERIFIED',prop,k,v); continue
    src='/tmp/seedout/%s'%prop; dst='/verif/seeded/%s-%s'%(prop,k)
    shutil.rmtree(dst,ignore_errors=True); os.makedirs(dst+'/demo')
    shutil.copy(src+'/mutant%s.diff'%k, dst+'/patch.diff')
    # demonstration files
    if os.path.isdir(src+'/demo%s'%k): d=src+'/demo%s'%k; run='cd demo && go test -count=1 ./...'
    elif os.path.isdir(src+'/demo'): d=src+'/demo'; run="cd demo && go test -count=1 -run 'Demo%s([^0-9]|$)' ./..."%k
    else: d=src; run="cd demo && go test -count=1 -run 'Demo%s([^0-9]|$)' ./..."%k
    for f in os.listdir(d):
        if f.endswith('.go') or f in('go.mod','go.sum'):
            # for shared demo dirs keep only this mutant's demo file + helpers
            m=re.match(r'demo(\d)_test\.go',f)
            if m and m.group(1)!=k: continue
            shutil.copy(os.path.join(d,f), dst+'/demo/'+f)
    gm=dst+'/demo/go.mod'
    if os.path.exists(gm):
        s=open(gm).read(); s=re.sub(r'=> /tmp/wt/C\d+','=> /repo',s); open(gm,'w').write(s)
    rep=reports.get(prop,'')
    # cut the section of this mutant from the report
    sec=''
    m=list(re.finditer(r'(?mi)^(#+\s*|\*\*|- \*\*)?\s*Mutant\s*%s\b.*$'%k, rep))
    if m:
        start=m[0].start(); nxt=re.search(r'(?mi)^(#+\s*|\*\*|- \*\*)?\s*Mutant\s*%d\b'%(int(k)+1), rep[start+10:])
        end=start+10+nxt.start() if nxt else min(len(rep),start+6000)
        sec=rep[start:end].strip()
    meta={"property":prop,"mutant":int(k),"base_commit":head,
      "verified":{"builds":True,"existing_suite_passes":True,"demo_fails_with_patch":True,"demo_passes_without":True,
        "how":"applied patch.diff in a scratch worktree of /repo at base_commit; go build ./...; go test -vet=off -count=1 ./... (all packages ok); ran the demonstration (FAIL); git checkout; ran it again (PASS). Script: /tmp/seedout/verify_one.sh (copied to tools/verify_seed.sh)"},
      "demo_cmd":"apply patch.diff to /repo (git -C /repo apply), then: "+run+" ; undo with git -C /repo checkout -- .",
      "needs_to_manifest_and_rationale":sec[:5000],
      "source":"independent sub-agent given only the property text and a scratch worktree"}
    json.dump(meta,open(dst+'/meta.json','w'),indent=1)
    print('imported',dst)
