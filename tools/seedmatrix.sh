#!/bin/bash
# Development tool: runs each seeded mutant against the check of its own property (and prints
# whether it is detected). usage: seedmatrix.sh [prop-filter]
F="${1:-}"
for d in /verif/seeded/*${F}*/; do
  id=$(basename $d); P=${id%-*}
  grep -q "\"$P\"" /verif/MANIFEST.json || { echo "$id: property not claimed"; continue; }
  if ! grep -q "\"property_id\": \"$P\"" <(python3 -c "import json;print('\n'.join('\"property_id\": \"%s\"'%c['property_id'] for c in json.load(open('/verif/MANIFEST.json'))['checks']))"); then echo "$id: no check"; continue; fi
  out=$(MUT_LINES=3 /verif/tools/mutcheck.sh $d/patch.diff $P 2>&1 | tail -1)
  echo "$id: $out"
done
