#!/bin/bash
# Development tool: runs each seeded mutant against the check of its own property.
# usage: seedmatrix.sh [filter]   -> writes /verif/seeded/MATRIX.txt
F="${1:-}"
one() { d=$1; id=$(basename $d); P=${id%-*}; out=$(MUT_LINES=1 /verif/tools/mutcheck.sh $d/patch.diff $P 2>&1 | tail -1); echo "$id $out"; }
export -f one
ls -d /verif/seeded/*${F}*/ | xargs -P 5 -I{} bash -c 'one {}' | sort
