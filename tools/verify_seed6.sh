#!/bin/bash
# verify_seed6.sh Cxx -> appends lines to /tmp/seedout6/VERIFY.tsv
export GOFLAGS=-mod=mod GOPROXY=off GOSUMDB=off GOTOOLCHAIN=local
P=$1; WT=/tmp/wt7/$P; O=/tmp/seed6/$P; L=/tmp/seedout6
RACE=""; [ $P = C12 ] && RACE="-race"
rundemo() { # $1=k $2=tag
  k=$1
  # shared demo module with one file per mutant: run exactly the tests of demo<k>_test.go
  if [ -f "$O/demo/go.mod" ] && [ -f "$O/demo/demo${k}_test.go" ]; then
    names=$(grep -o '^func Test[A-Za-z0-9_]*' "$O/demo/demo${k}_test.go" | sed 's/^func //' | paste -sd'|')
    (cd "$O/demo" && go test $RACE -count=1 -run "^($names)\$" ./... >$L/$P.demo$k.$2.log 2>&1); return $?
  fi
  if [ -f "$O/demo$k/go.mod" ]; then (cd "$O/demo$k" && go test $RACE -count=1 ./... >$L/$P.demo$k.$2.log 2>&1); return $?
  elif [ -f "$O/go.mod" ] && [ -d "$O/demo$k" ]; then (cd "$O" && go test $RACE -count=1 ./demo$k/ >$L/$P.demo$k.$2.log 2>&1); return $?
  elif [ -f "$O/demo/go.mod" ]; then (cd "$O/demo" && go test $RACE -count=1 -run "(Demo|Mutant)$k([^0-9]|\$)" ./... >$L/$P.demo$k.$2.log 2>&1); return $?
  elif [ -f "$O/go.mod" ]; then (cd "$O" && go test $RACE -count=1 -run "(Demo|Mutant)$k([^0-9]|\$)" ./... >$L/$P.demo$k.$2.log 2>&1); return $?
  else return 99; fi
}
for k in 1 2 3; do
  [ -f "$O/mutant$k.diff" ] || continue
  git -C $WT checkout -q -- . ; git -C $WT clean -fdq
  rundemo $k head; dh=$?
  if ! git -C $WT apply "$O/mutant$k.diff" 2>/dev/null; then echo -e "$P\t$k\tAPPLY-FAIL" >> $L/VERIFY.tsv; continue; fi
  (cd $WT && go build ./... >/dev/null 2>&1); b=$?
  (cd $WT && go test -vet=off -count=1 ./... > $L/$P.suite$k.log 2>&1); s=$?
  rundemo $k mut; dm=$?
  git -C $WT checkout -q -- . ; git -C $WT clean -fdq
  echo -e "$P\t$k\tbuild=$b\tsuite=$s\tdemo_mut=$dm\tdemo_head=$dh" >> $L/VERIFY.tsv
done
