#!/bin/bash
# Development tool (used with a clone of /repo in /tmp/rebase): see DESIGN.md section 10.
# rebase_all.sh [portscript] : rebases /tmp/noapply.txt from /tmp/oldhead to /tmp/newhead
export GOFLAGS=-mod=mod GOPROXY=off GOSUMDB=off GOTOOLCHAIN=local
OLD=$(cat /tmp/oldhead); NEW=$(cat /tmp/newhead); PORT=$1
cd /tmp/rebase; git fetch -q origin
for f in $(cat /tmp/noapply.txt); do
  git reset -q --hard $OLD; git clean -fdq
  if ! git apply "/verif/$f" 2>/dev/null; then echo "NOBASE $f"; continue; fi
  git add -A; git commit -qm x
  if git cherry-pick $NEW >/dev/null 2>&1; then
     if go build ./... 2>/dev/null; then git diff $NEW HEAD > /tmp/rb.out; cp "/verif/$f" "/verif/${f%.diff}.base-$OLD.diff.orig"; cp /tmp/rb.out "/verif/$f"; echo "OK $f"; else echo "BUILDFAIL $f"; fi
  else git cherry-pick --abort
    if [ -n "$PORT" ] && python3 $PORT && go build ./...; then git add -A -N; git diff $NEW > /tmp/rb.out; cp "/verif/$f" "/verif/${f%.diff}.base-$OLD.diff.orig"; cp /tmp/rb.out "/verif/$f"; echo "PORTED $f"; else echo "CONFLICT $f"; fi
  fi
done
cd /verif; for f in $(cat /tmp/noapply.txt); do git -C /repo apply --check "$(readlink -f $f)" 2>/dev/null || echo STILL $f; done
