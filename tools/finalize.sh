#!/bin/bash
# Development tool: regenerates the quick evidence of all claimed checks against /repo, the MANIFEST,
# and validates both against the schemas.
export GOFLAGS=-mod=mod GOPROXY=off GOSUMDB=off GOTOOLCHAIN=local
cd /verif
fail=0
for i in 01 02 03 04 05 06 07 08 09 10 11 12 13 14 15 16 18 19 20; do
  ./check.sh C$i quick > /tmp/q_$i.log 2>&1; rc=$?
  [ $rc = 0 ] || { echo "C$i exit $rc"; fail=1; }
  grep -q "^VIOLATION" /tmp/q_$i.log && { echo "C$i prints VIOLATION"; fail=1; }
done
python3 tools/gen_manifest.py | tail -1
python3-vt - <<'PY'
import json,jsonschema,glob
jsonschema.validate(json.load(open('/verif/MANIFEST.json')),json.load(open('/root/.vp/MANIFEST.schema.json')))
sc=json.load(open('/root/.vp/EVIDENCE.schema.json'))
fs=sorted(glob.glob('/verif/evidence/*.json'))
for f in fs: jsonschema.validate(json.load(open(f)),sc)
print("schemas ok:",len(fs),"evidence files")
PY
exit $fail
