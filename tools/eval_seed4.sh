#!/bin/bash
# eval_seed3.sh Cxx : verify the round-3 mutants of a property and run all checks on each
P=$1
grep -q "^$P	" /tmp/seedout4/VERIFY.tsv 2>/dev/null || /verif/tools/verify_seed4.sh $P
grep "^$P	" /tmp/seedout4/VERIFY.tsv
for k in 1 2 3 4; do
  f=/tmp/seed4/$P/mutant$k.diff; [ -f $f ] || continue
  MUT_LINES=3 /verif/tools/allcheck.sh $f all | cut -c1-260 | sed "s/^ALL: /ALL $P-m$k: /"
done
