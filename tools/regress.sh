#!/bin/bash
# Development tool: each fix: commit of /repo reverted on a scratch copy must be re-detected by
# the check of the property it was recorded under (known_findings.json, status fixed).
python3 - <<'PY'
import json,subprocess
k=json.load(open('/verif/known_findings.json'))
for e in k:
    if e['status']!='fixed': continue
    d='/verif/mutants/regress/revert-%s.diff'%e['commit']
    out=subprocess.run(['/verif/tools/mutcheck.sh',d,e['property']],capture_output=True,text=True,env={**__import__('os').environ,'MUT_LINES':'1'}).stdout.strip().split('\n')[-1]
    print(e['commit'],e['property'],out)
PY
