#!/bin/bash
# Development tool: behaviour-preserving refactorings must leave the relevant checks silent.
# usage: preserving.sh  (runs each patch in mutants/preserving against the listed checks)
declare -A CHECKS=(
 [p01-classify-renames]="C18"
 [p02-inline-hasflag]="C20 C04 C07"
 [p03-apply-reorder]="C13 C09 C15 C01"
 [p04-reset-inlined]="C02"
 [p05-hasrootdomain-temps]="C19"
 [p06-getter-continue]="C14"
 [p07-relevant-switch]="C08"
 [p08-threshold-flipped]="C20 C09"
 [p09-outputnodes-merged-cond]="C04 C05 C07"
)
for f in /verif/mutants/preserving/*.diff; do
  n=$(basename $f .diff)
  MUT_LINES=4 /verif/tools/mutcheck.sh $f ${CHECKS[$n]} 2>&1 | grep -E "^MUT|^  " | sed "s/^/$n: /" | cut -c1-300
done
