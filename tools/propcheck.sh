#!/bin/bash
# usage: propcheck.sh <prop> [all]
# Development tool: runs the check of <prop> on (a) every seeded change and reverted fix recorded for
# <prop> (must alarm) and (b) the behaviour-preserving patches (must stay silent): by default those
# listed in /tmp/bres as having alarmed for <prop> before, with "all" every patch in mutants/benign
# and mutants/preserving.
P=$1; MODE=${2:-prev}
cd /verif
( cd checker && GOFLAGS=-mod=mod GOPROXY=off GOSUMDB=off GOTOOLCHAIN=local go build -o ../bin/ddcheck ./cmd/ddcheck ) || exit 2
run() { MUT_LINES=${MUT_LINES:-6} tools/allcheck.sh "$1" "$P" 2>&1; }
export -f run; export P MUT_LINES
{
for d in seeded/$P-*/; do echo "$d/patch.diff"; done
grep -l "property=$P " mutants/regress/*.meta 2>/dev/null
} > /tmp/pc_$P.must
jq -r --arg p "$P" '.[] | select(.status=="fixed" and .property==$p) | .commit' known_findings.json 2>/dev/null | while read c; do ls mutants/regress/revert-$c.diff 2>/dev/null; done >> /tmp/pc_$P.must
if [ "$MODE" = all ]; then ls mutants/benign/*.diff mutants/preserving/*.diff > /tmp/pc_$P.silent
else
  for f in $(grep -l "alarms=.*$P(" /tmp/bres/*.txt 2>/dev/null); do b=$(basename $f .txt); echo "mutants/benign/$(echo $b | sed 's/-refactor/-r/').diff"; done > /tmp/pc_$P.silent
  ls mutants/preserving/*.diff >> /tmp/pc_$P.silent
fi
echo "--- must alarm:"; cat /tmp/pc_$P.must | xargs -P 6 -I{} bash -c 'run {}' | grep -E "^ALL" | sed 's/^/  /'
echo "--- must be silent:"; cat /tmp/pc_$P.silent | xargs -P 6 -I{} bash -c 'run {}' | grep -vE "alarms=none" | cut -c1-420
