#!/usr/bin/env python3
"""Reads the output of tools/catches.sh and prints, per property, which rules report which
recorded change; with --design rewrites the `* **Catches**` lines of DESIGN.md section 4."""
import re, sys, os, glob, collections
O = '/tmp/catches'
rows = {}
for l in open(O + '/list'):
    name, prop, path = l.split()
    txt = open(f'{O}/{name}.txt', errors='replace').read() if os.path.exists(f'{O}/{name}.txt') else ''
    rules = []
    for m in re.finditer(r'^  ([A-Z]{1,2}\d+[a-z]?)(?:-[a-z]+)? ', txt, re.M):
        if m.group(1) not in rules:
            rules.append(m.group(1))
    head = txt.split('\n', 1)[0]
    rows[name] = (prop, rules, 'alarms=none' in head or not rules)
by = collections.defaultdict(lambda: collections.defaultdict(list))
missed = collections.defaultdict(list)
for name, (prop, rules, none) in sorted(rows.items(), key=lambda kv: (kv[1][0], [int(x) if x.isdigit() else x for x in re.split(r'(\d+)', kv[0])])):
    if none:
        missed[prop].append(name)
        continue
    by[prop]['/'.join(rules[:3])].append(name)
lines = {}
for prop in sorted(set(list(by) + list(missed))):
    parts = []
    for rs, names in by[prop].items():
        parts.append(', '.join(names) + ' (' + rs + ')')
    s = '* **Catches** ' + '; '.join(parts) + '.'
    if missed[prop]:
        s += ' Not reported by this property\'s own rules: ' + ', '.join(missed[prop]) + '.'
    lines[prop] = s
    print(prop, s[13:])
if '--design' in sys.argv:
    p = '/verif/DESIGN.md'
    c = open(p).read()
    for prop, s in lines.items():
        m = re.search(r'(### ' + prop + r' — .*?\n)(.*?)(?=\n### |\n-{20,})', c, re.S)
        if not m:
            print('no section for', prop); continue
        body = m.group(2)
        # wrap at ~100 columns
        words = s.split(' ')
        out, cur = [], ''
        for w in words:
            if len(cur) + len(w) + 1 > 100:
                out.append(cur); cur = '  ' + w
            else:
                cur = (cur + ' ' + w) if cur else w
        out.append(cur)
        new = '\n'.join(out)
        if '* **Catches**' in body:
            body2 = re.sub(r'\* \*\*Catches\*\*.*?(?=\n\* \*\*|\n\n|\Z)', lambda _: new, body, count=1, flags=re.S)
        else:
            body2 = body.rstrip('\n') + '\n' + new + '\n'
        c = c.replace(m.group(1) + body, m.group(1) + body2, 1)
    open(p, 'w').write(c)
