#!/bin/bash
# usage: allcheck.sh <patch.diff> [props (comma list, default all)]
# Development tool (not a registered check): copies /repo to a scratch dir, applies the patch,
# builds, runs the requested checks in ONE checker process against the copy, prints one summary
# line "ALL: <patch> alarms=<ids>" plus the first lines of each alarm, removes the copy.
set -u
export GOFLAGS=-mod=mod GOPROXY=off GOSUMDB=off GOTOOLCHAIN=local CGO_ENABLED=0
unset GOWORK
PATCH="$(readlink -f "$1")"; PROPS="${2:-all}"
S=$(mktemp -d /tmp/allXXXXXX)
trap 'rm -rf "$S"' EXIT
rsync -a --exclude .git /repo/ "$S/repo/"
( cd "$S/repo" && git init -q . 2>/dev/null && git apply --whitespace=nowarn "$PATCH" ) || { echo "ALL: $1 PATCH-DOES-NOT-APPLY"; exit 3; }
( cd "$S/repo" && go build ./... ) || { echo "ALL: $1 DOES-NOT-BUILD"; exit 3; }
if [ "${MUT_TESTS:-0}" = 1 ]; then ( cd "$S/repo" && go test -vet=off -count=1 ./... 2>&1 | grep -v '^ok\|no test files' | sed 's/^/SUITE: /' ); fi
BIN=${DDCHECK_BIN:-/verif/bin/ddcheck}
[ -x "$BIN" ] || ( cd /verif/checker && go build -o /verif/bin/ddcheck ./cmd/ddcheck )
out=$(DDCHECK_OUT="$S/out" "$BIN" -prop "$PROPS" -repo "$S/repo" -verif "${DDCHECK_VERIF:-/verif}" 2>&1); c=$?
alarms=$(echo "$out" | grep '^VIOLATION' | sed 's/.*property=\([A-Z0-9]*\).*/\1/' | sort | uniq -c | awk '{printf "%s(%s) ", $2, $1}')
echo "ALL: $(basename $(dirname $PATCH))/$(basename $PATCH) exit=$c alarms=${alarms:-none}"
echo "$out" | sed "s#$S/repo/##g" | grep -v '^VIOLATION\|^==\|KNOWN-FINDING\|^ *$' | head -${MUT_LINES:-10} | cut -c1-400
