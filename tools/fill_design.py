#!/usr/bin/env python3
"""Fills the @@MATRIX@@/@@SEEDED@@/@@REGRESS@@/@@BENIGN@@ placeholders of DESIGN.md (or refreshes
the sentences that replaced them) from the output directory of tools/fullmatrix.sh."""
import sys, os, re, glob, json, subprocess, datetime
O = sys.argv[1] if len(sys.argv) > 1 else '/tmp/fm'
kf = json.load(open('/verif/known_findings.json'))
prop_of = {x['commit']: x['property'] for x in kf if x.get('commit')}
def head(f):
    return open(f, errors='replace').readline().strip()
own = oth = none = 0
missed = []
for f in sorted(glob.glob(O + '/seeded_*.txt')):
    p = re.search(r'seeded_(C\d+)-', f).group(1)
    h = head(f)
    if p + '(' in h: own += 1
    elif 'alarms=none' in h: none += 1; missed.append(os.path.basename(f)[7:].split('_')[0])
    else: oth += 1; missed.append(os.path.basename(f)[7:].split('_')[0] + ' (others only)')
nseed = own + oth + none
rdet = rtot = 0
rmiss = []
for f in sorted(glob.glob(O + '/mutants_regress_*.txt')):
    c = re.search(r'revert-([0-9a-f]+)', f).group(1)
    rtot += 1
    if prop_of.get(c, '?') + '(' in head(f): rdet += 1
    else: rmiss.append(c)
bal = btot = 0
balarms = []
for f in sorted(glob.glob(O + '/mutants_benign*_*.txt') + glob.glob(O + '/mutants_preserving_*.txt')):
    btot += 1
    h = head(f)
    if 'alarms=none' not in h:
        bal += 1; balarms.append(re.sub(r'^ALL: ', '', h))
commit = subprocess.run(['git', '-C', '/repo', 'rev-parse', '--short', 'HEAD'], capture_output=True, text=True).stdout.strip()
vc = subprocess.run(['git', '-C', '/verif', 'rev-parse', '--short', 'HEAD'], capture_output=True, text=True).stdout.strip()
rep = {
 '@@MATRIX@@': f'{datetime.date.today().isoformat()}, /repo at {commit}, {nseed + rtot + btot} patches',
 '@@SEEDED@@': f'Last run: {own} of {nseed} are reported by the check of their own property, {oth} only by another property\'s check, {none} by none' + (f' ({", ".join(missed)})' if missed else ''),
 '@@REGRESS@@': f'{rdet} of {rtot}' + (f' (not re-detected: {", ".join(rmiss)})' if rmiss else ''),
 '@@BENIGN@@': f'Last run: {bal} of {btot} patches raise an alarm' + (f' ({"; ".join(balarms)})' if balarms else ''),
}
for k, v in rep.items(): print(k, v)
if '--write' in sys.argv:
    p = '/verif/DESIGN.md'
    c = open(p).read()
    for k, v in rep.items():
        c = c.replace(k, v)
    open(p, 'w').write(c)
