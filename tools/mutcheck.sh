#!/bin/bash
# usage: mutcheck.sh <patch.diff> <prop> [<prop>...]
# Development tool (not a registered check): copies /repo to a scratch dir, applies the patch,
# verifies that it still builds, runs the given checks against the copy, removes the copy.
set -u
export GOFLAGS=-mod=mod GOPROXY=off GOSUMDB=off GOTOOLCHAIN=local
PATCH="$(readlink -f "$1")"; shift
S=$(mktemp -d /tmp/mutXXXXXX)
trap 'rm -rf "$S"' EXIT
rsync -a --exclude .git /repo/ "$S/repo/"
( cd "$S/repo" && git init -q . 2>/dev/null && git apply --whitespace=nowarn "$PATCH" ) || { echo "MUT: patch does not apply"; exit 3; }
( cd "$S/repo" && go build ./... ) || { echo "MUT: does not build"; exit 3; }
if [ "${MUT_TESTS:-0}" = 1 ]; then ( cd "$S/repo" && go test -vet=off -count=1 ./... 2>&1 | grep -v '^ok\|no test files' ); fi
rc=0
for P in "$@"; do
  out=$(DDCHECK_REPO="$S/repo" DDCHECK_OUT="$S/out" /verif/check.sh "$P" "${MUT_TIER:-quick}" 2>&1); c=$?
  echo "$out" | sed "s#$S/repo/##g" | grep -v '^VIOLATION' | head -${MUT_LINES:-12}
  echo "MUT: $P exit=$c violations=$(echo "$out" | grep -c '^VIOLATION')"
done
