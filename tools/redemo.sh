#!/bin/bash
# redemo.sh <seeded-id>... : re-run the demonstration of seeded changes against /repo's current tree
# (scratch copy): it must pass without the patch and fail with it. Development tool.
export GOFLAGS=-mod=mod GOPROXY=off GOSUMDB=off GOTOOLCHAIN=local
for id in "$@"; do
  d=/verif/seeded/$id; S=$(mktemp -d /tmp/redemoXXXXXX)
  rsync -a --exclude .git /repo/ $S/repo/; cp -r $d/demo $S/demo
  mod=$(find $S/demo -name go.mod | head -1); dd=$(dirname $mod)
  sed -i "s#^replace github.com/markusmobius/go-domdistiller => .*#replace github.com/markusmobius/go-domdistiller => $S/repo#" $mod
  k=$(python3 -c "import json;print(json.load(open('$d/meta.json')).get('mutant',''))")
  run=$(python3 - "$d/meta.json" <<'PY'
import json,re,sys
m=json.load(open(sys.argv[1])); c=m.get('demo_cmd','')
r=re.search(r"-run '([^']+)'",c) or re.search(r'-run "([^"]+)"',c) or re.search(r"-run (\S+)",c)
print(r.group(1) if r else '')
PY
)
  race=""; case $id in C12-*) race="-race";; esac
  sub="./..."; echo "$(grep -o 'cd [^ ;&]*' <<<"$(python3 -c "import json;print(json.load(open('$d/meta.json')).get('demo_cmd',''))")" | head -1)" >/dev/null
  (cd $dd && go test $race -count=1 ${run:+-run "$run"} $sub > $S/head.log 2>&1); h=$?
  (cd $S/repo && git init -q . && git apply --whitespace=nowarn $d/patch.diff) || { echo "$id APPLY-FAIL"; rm -rf $S; continue; }
  (cd $dd && go test $race -count=1 ${run:+-run "$run"} $sub > $S/mut.log 2>&1); m=$?
  nt=$(grep -c "no tests to run" $S/mut.log)
  echo "$id demo_head=$h demo_mut=$m notests=$nt run='$run'"
  [ $h = 0 ] && [ $m != 0 ] && [ $nt = 0 ] || { tail -n 5 $S/head.log $S/mut.log | cut -c1-300; }
  rm -rf $S
done
