#!/bin/bash
# Development tool: runs ALL checks on every recorded patch (one scratch copy per patch) and prints
#  - seeded changes / reverted fixes whose own property does not alarm (missed),
#  - behaviour-preserving patches on which any check alarms (false alarms),
#  - the cross alarms (other properties alarming on a seeded change) for review.
# usage: fullmatrix.sh [outdir]   (default /tmp/fm)
O=${1:-/tmp/fm}; mkdir -p $O; rm -f $O/*.txt
cd /verif
( cd checker && GOFLAGS=-mod=mod GOPROXY=off GOSUMDB=off GOTOOLCHAIN=local go build -o ../bin/ddcheck ./cmd/ddcheck ) || exit 2
# the matrix runs with a frozen copy of the checker, so that work on the checker can go on meanwhile
cp bin/ddcheck $O/ddcheck.bin; export DDCHECK_BIN=$O/ddcheck.bin
rm -rf $O/verif; mkdir -p $O/verif; cp -r rules known_findings.json $O/verif/; export DDCHECK_VERIF=$O/verif
{ ls seeded/*/patch.diff mutants/regress/*.diff mutants/benign/*.diff mutants/benign2/*.diff mutants/benign3/*.diff mutants/benign4/*.diff mutants/benign5/*.diff mutants/benign6/*.diff mutants/preserving/*.diff mutants/variants/*.diff; } > $O/list
cat $O/list | xargs -P ${FM_JOBS:-6} -I{} sh -c 'n=$(echo {} | tr "/" "_"); MUT_LINES=40 tools/allcheck.sh {} > '$O'/$n.txt 2>&1'
echo "== missed (own property silent):"
for f in $O/seeded_*.txt; do p=$(basename $f | sed 's/seeded_\(C[0-9]*\)-.*/\1/'); grep -q "alarms=.*$p(" $f || echo "  $(basename $f)"; done
for f in $O/mutants_regress_*.txt; do c=$(basename $f | sed 's/.*revert-\([0-9a-f]*\).*/\1/'); p=$(jq -r --arg c "$c" '.[] | select(.commit==$c) | .property' known_findings.json | head -1); grep -q "alarms=.*$p(" $f || echo "  $(basename $f) ($p)"; done
for f in $O/mutants_variants_*.txt; do p=$(basename $f | sed 's/.*_v[0-9]*-\(C[0-9]*\)-.*/\1/'); grep -q "alarms=.*$p(" $f || echo "  $(basename $f) ($p)"; done
echo "== false alarms on behaviour-preserving patches:"
grep -L "alarms=none" $O/mutants_benign_*.txt $O/mutants_benign2_*.txt $O/mutants_benign3_*.txt $O/mutants_benign4_*.txt $O/mutants_benign5_*.txt $O/mutants_benign6_*.txt $O/mutants_preserving_*.txt 2>/dev/null | while read f; do grep "^ALL" $f; done
echo "== totals:"; echo "  seeded+regress+variants: $(ls $O/seeded_*.txt $O/mutants_regress_*.txt $O/mutants_variants_*.txt | wc -l)  preserving: $(ls $O/mutants_benign_*.txt $O/mutants_benign2_*.txt $O/mutants_benign3_*.txt $O/mutants_benign4_*.txt $O/mutants_benign5_*.txt $O/mutants_benign6_*.txt $O/mutants_preserving_*.txt | wc -l)"
