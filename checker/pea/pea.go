// Package pea implements the Provenance & Effects Analysis of DESIGN.md section 3.1:
// a summary-based, field-based, flow-insensitive may-analysis that answers, for every store in
// the analysed program, whose memory it may write (caller-owned arguments, package-level state,
// or memory allocated during the call).
//
// Labels name memory regions: the caller's document / options / URL, fresh objects of the
// tracked types allocated during the call, everything reachable from a package-level variable,
// the cell of an address-taken local, and - inside a function summary - "whatever parameter i
// points to". Calls instantiate callee summaries, so helper functions are analysed
// context-sensitively; heap cells (struct fields) are context-insensitive. Function-valued
// parameters are kept symbolic ("deferred calls") so that higher-order helpers such as
// domutil.WalkNodes are instantiated with the callbacks of each call site.
package pea

import (
	"fmt"
	"go/token"
	"go/types"
	"sort"
	"strings"

	"ddcheck/core"

	"golang.org/x/tools/go/callgraph"
	"golang.org/x/tools/go/ssa"
)

// ---- labels ---------------------------------------------------------------------------------

type Kind uint8

const (
	KCaller   Kind = iota // caller-owned region (doc, opts, url)
	KFresh                // objects of a tracked type allocated during the analysed call
	KGlob                 // package-level variable and everything reachable from it
	KSym                  // whatever parameter Idx of Fn points to / carries
	KSymDeref             // the URL reachable from the Options that parameter Idx of Fn points to
	KAddr                 // the cell of an address-taken local (Alloc)
	KGlobOwn              // a slice/map/chan header read out of a package-level variable: its backing store belongs to that variable
)

type LabelInfo struct {
	Kind Kind
	Name string        // CallerDoc, FreshNode, pkg.var ...
	TT   string        // tracked type of the region: "Node", "URL", "Options", "" (any)
	Fn   *ssa.Function // KSym/KSymDeref
	Idx  int           // parameter index
	Glob *ssa.Global   // KGlob
	Cell *Cell         // KAddr
}

type Set map[int32]struct{}

func (s Set) Has(l int32) bool { _, ok := s[l]; return ok }

func (s Set) addAll(o Set) bool {
	ch := false
	for l := range o {
		if _, ok := s[l]; !ok {
			s[l] = struct{}{}
			ch = true
		}
	}
	return ch
}

func (s Set) add(l int32) bool {
	if _, ok := s[l]; ok {
		return false
	}
	s[l] = struct{}{}
	return true
}

// Cell is a context-insensitive heap node (struct field, global content, local variable).
type Cell struct {
	Name  string
	Set   Set
	Owner *ssa.Function // for Alloc cells: the function containing the Alloc
}

// Effect is a possible write.
type Effect struct {
	Kind   string // "mod": store into a region; "cellwrite": deferred write of symbolic labels into a local cell
	Target int32
	Field  string
	Val    Set
	Cell   *Cell
	Pos    token.Pos     // the store instruction (origin)
	Fn     *ssa.Function // function containing the store
	Via    *Effect       // effect of the callee this one was instantiated from
	Site   token.Pos     // call site where it was instantiated
	SiteFn *ssa.Function
	Once   bool // the origin is only reachable through (*sync.Once).Do
	What   string
}

type effKey struct {
	kind   string
	target int32
	field  string
	pos    token.Pos
	cell   *Cell
}

// DeferredCall is a call through a function-valued parameter, kept in the summary.
type DeferredCall struct {
	Param int // index of the function-valued parameter that is called
	Args  []Set
	Site  ssa.CallInstruction
	Fn    *ssa.Function
}

// FnTarget is a possible value of a function-typed SSA value.
type FnTarget struct {
	Fn    *ssa.Function // concrete function (closure bodies read their FreeVars from FV cells)
	Param int           // >= 0: the function passed as parameter Param of the current function
}

type funcState struct {
	fn       *ssa.Function
	vals     map[ssa.Value]Set
	ft       map[ssa.Value]map[FnTarget]bool
	ret      Set
	effects  map[effKey]*Effect
	deferred map[string]*DeferredCall
	retFT    map[FnTarget]bool
	analysed bool
}

// Analysis holds the whole-program state.
type Analysis struct {
	P       *core.Program
	labels  []LabelInfo
	labelIx map[string]int32
	cells   map[string]*Cell
	fs      map[*ssa.Function]*funcState
	cg      *callgraph.Graph
	fns     []*ssa.Function
	changed bool

	CallerDoc, CallerOpts, CallerURL int32
	FreshNode, FreshURL, FreshOpts   int32
	Passes                           int
	GoStmts                          []token.Pos
	ExternalMutators                 map[string]bool
	unknownDyn                       int
	globTypeMemo                     map[*ssa.Global]map[string]bool
}

func (a *Analysis) Label(l int32) LabelInfo {
	if l < 0 || int(l) >= len(a.labels) {
		return LabelInfo{Kind: 255, Name: "-"}
	}
	return a.labels[l]
}

func (a *Analysis) intern(key string, li LabelInfo) int32 {
	if id, ok := a.labelIx[key]; ok {
		return id
	}
	id := int32(len(a.labels))
	a.labels = append(a.labels, li)
	a.labelIx[key] = id
	return id
}

func (a *Analysis) sym(fn *ssa.Function, i int) int32 {
	return a.intern(fmt.Sprintf("sym:%p:%d", fn, i), LabelInfo{Kind: KSym, Fn: fn, Idx: i, Name: fmt.Sprintf("param#%d of %s", i, core.ShortKey(fn))})
}

func (a *Analysis) symDeref(fn *ssa.Function, i int) int32 {
	return a.intern(fmt.Sprintf("symd:%p:%d", fn, i), LabelInfo{Kind: KSymDeref, Fn: fn, Idx: i, TT: "URL", Name: fmt.Sprintf("URL of options param#%d of %s", i, core.ShortKey(fn))})
}

func (a *Analysis) glob(g *ssa.Global) int32 {
	return a.intern("glob:"+g.Pkg.Pkg.Path()+"."+g.Name(), LabelInfo{Kind: KGlob, Glob: g, Name: g.Pkg.Pkg.Path() + "." + g.Name()})
}

func (a *Analysis) globOwn(g *ssa.Global) int32 {
	return a.intern("globown:"+g.Pkg.Pkg.Path()+"."+g.Name(), LabelInfo{Kind: KGlobOwn, Glob: g, Name: "storage of " + g.Pkg.Pkg.Path() + "." + g.Name()})
}

// fromGlobal labels a value of type t that was read out of the memory of g.
func (a *Analysis) fromGlobal(g *ssa.Global, t types.Type, out Set) {
	switch t.Underlying().(type) {
	case *types.Slice, *types.Map, *types.Chan:
		out[a.globOwn(g)] = struct{}{}
	case *types.Basic:
	default:
		out[a.glob(g)] = struct{}{}
	}
}

// globTypes returns the set of types (as strings) that occur in the declared type of g, i.e. the
// types of the memory that can be reachable from g. Interfaces and functions are opaque: the
// analysis assumes package-level variables of interface type do not hold objects of the tracked
// types (checked separately through the recorded content of such variables).
func (a *Analysis) globTypes(g *ssa.Global) map[string]bool {
	if m, ok := a.globTypeMemo[g]; ok {
		return m
	}
	m := map[string]bool{}
	a.globTypeMemo[g] = m
	var walk func(t types.Type, depth int)
	walk = func(t types.Type, depth int) {
		key := types.TypeString(t, nil)
		if m[key] || depth > 12 {
			return
		}
		m[key] = true
		switch u := t.Underlying().(type) {
		case *types.Pointer:
			walk(u.Elem(), depth+1)
		case *types.Slice:
			walk(u.Elem(), depth+1)
		case *types.Array:
			walk(u.Elem(), depth+1)
		case *types.Map:
			walk(u.Key(), depth+1)
			walk(u.Elem(), depth+1)
		case *types.Chan:
			walk(u.Elem(), depth+1)
		case *types.Struct:
			for i := 0; i < u.NumFields(); i++ {
				walk(u.Field(i).Type(), depth+1)
			}
		}
	}
	walk(derefType(g.Type()), 0)
	return m
}

// globMayBe reports whether a value of type t can be (part of) the memory reachable from g.
func (a *Analysis) globMayBe(g *ssa.Global, t types.Type) bool {
	m := a.globTypes(g)
	if m[types.TypeString(t, nil)] {
		return true
	}
	switch u := t.Underlying().(type) {
	case *types.Pointer:
		return m[types.TypeString(u.Elem(), nil)]
	case *types.Interface, *types.Signature:
		// a carrier of unknown dynamic type: keep the label
		return true
	}
	return false
}

func derefType(t types.Type) types.Type {
	if p, ok := t.Underlying().(*types.Pointer); ok {
		return p.Elem()
	}
	return t
}

func (a *Analysis) cell(key, name string) *Cell {
	c := a.cells[key]
	if c == nil {
		c = &Cell{Name: name, Set: Set{}}
		a.cells[key] = c
	}
	return c
}

func (a *Analysis) addrLabel(al *ssa.Alloc) int32 {
	key := fmt.Sprintf("alloc:%p", al)
	c := a.cell(key, "local "+al.Comment+" in "+core.ShortKey(al.Parent()))
	c.Owner = al.Parent()
	return a.intern("addr:"+key, LabelInfo{Kind: KAddr, Cell: c, Name: c.Name})
}

// LabelName renders a label.
func (a *Analysis) LabelName(l int32) string { return a.labels[l].Name }

// ---- types ----------------------------------------------------------------------------------

func trackedType(t types.Type) string {
	n := core.NamedOf(t)
	if n == nil || n.Obj().Pkg() == nil {
		return ""
	}
	switch n.Obj().Pkg().Path() + "." + n.Obj().Name() {
	case "golang.org/x/net/html.Node":
		return "Node"
	case "net/url.URL", "net/url.Userinfo":
		return "URL"
	case core.ModPath + ".Options":
		return "Options"
	}
	return ""
}

// trackedElem: the tracked type a pointer points to (only for direct pointers).
func trackedPointee(t types.Type) string {
	if p, ok := t.Underlying().(*types.Pointer); ok {
		if _, isNamed := p.Elem().(*types.Named); isNamed || true {
			if _, isPtr := p.Elem().Underlying().(*types.Pointer); !isPtr {
				return trackedType(p.Elem())
			}
		}
	}
	return ""
}

var carryMemo = map[types.Type]bool{}

// mayCarry reports whether a value of type t can hold (or be) a pointer.
func mayCarry(t types.Type) bool {
	if v, ok := carryMemo[t]; ok {
		return v
	}
	carryMemo[t] = true // recursion guard (recursive types carry pointers)
	res := true
	switch u := t.Underlying().(type) {
	case *types.Basic:
		res = u.Kind() == types.UnsafePointer
	case *types.Struct:
		res = false
		for i := 0; i < u.NumFields(); i++ {
			if mayCarry(u.Field(i).Type()) {
				res = true
				break
			}
		}
	case *types.Array:
		res = mayCarry(u.Elem())
	case *types.Tuple:
		res = false
		for i := 0; i < u.Len(); i++ {
			if mayCarry(u.At(i).Type()) {
				res = true
			}
		}
	}
	carryMemo[t] = res
	return res
}

// filter keeps the labels a value of type t can carry.
func (a *Analysis) filter(s Set, t types.Type) Set {
	if len(s) == 0 {
		return s
	}
	if !mayCarry(t) {
		// a slice of plain structs (e.g. []html.Attribute) still points INTO a region
		if sl, ok := t.Underlying().(*types.Slice); ok && !mayCarry(sl.Elem()) {
			return s
		}
		return nil
	}
	tt := trackedPointee(t)
	out := Set{}
	for l := range s {
		li := a.labels[l]
		switch li.Kind {
		case KCaller, KFresh, KSymDeref:
			if tt == "" || li.TT == tt {
				out[l] = struct{}{}
			}
		case KAddr:
			// a pointer to a tracked type never is the address of a local of another type
			if tt == "" {
				out[l] = struct{}{}
			}
		case KGlob:
			// a direct pointer can only point into g's memory if g's type contains its pointee;
			// carriers may carry pointers into g's memory whatever their own type is
			if _, isPtr := t.Underlying().(*types.Pointer); !isPtr || a.globMayBe(li.Glob, t) {
				out[l] = struct{}{}
			}
		case KGlobOwn:
			switch t.Underlying().(type) {
			case *types.Pointer, *types.Basic:
			default:
				out[l] = struct{}{}
			}
		default:
			out[l] = struct{}{}
		}
	}
	return out
}

// ---- construction ---------------------------------------------------------------------------

// New prepares the analysis of all functions reachable from the module (std excluded except net/url).
func New(p *core.Program) *Analysis {
	a := &Analysis{P: p, labelIx: map[string]int32{}, cells: map[string]*Cell{}, fs: map[*ssa.Function]*funcState{}, ExternalMutators: map[string]bool{}, globTypeMemo: map[*ssa.Global]map[string]bool{}}
	a.CallerDoc = a.intern("CallerDoc", LabelInfo{Kind: KCaller, Name: "CallerDoc", TT: "Node"})
	a.CallerOpts = a.intern("CallerOpts", LabelInfo{Kind: KCaller, Name: "CallerOpts", TT: "Options"})
	a.CallerURL = a.intern("CallerURL", LabelInfo{Kind: KCaller, Name: "CallerURL", TT: "URL"})
	a.FreshNode = a.intern("FreshNode", LabelInfo{Kind: KFresh, Name: "FreshNode", TT: "Node"})
	a.FreshURL = a.intern("FreshURL", LabelInfo{Kind: KFresh, Name: "FreshURL", TT: "URL"})
	a.FreshOpts = a.intern("FreshOpts", LabelInfo{Kind: KFresh, Name: "FreshOpts", TT: "Options"})
	a.cg = p.CallGraph()
	roots := p.ModFunctions(true)
	// package initialisers of all non-standard packages: they fill the package-level tables
	for _, sp := range p.Prog.AllPackages() {
		// only the module's own initialisers: third-party initialisers are huge table fills and
		// what a package-level variable holds is in any case labelled as that variable's region
		if !core.IsModPkg(sp.Pkg.Path()) {
			continue
		}
		if f := sp.Func("init"); f != nil {
			roots = append(roots, f)
		}
	}
	reach := p.ReachableFrom(roots...)
	for fn := range reach {
		if a.analysable(fn) {
			a.fns = append(a.fns, fn)
		}
	}
	sort.Slice(a.fns, func(i, j int) bool { return a.fns[i].String() < a.fns[j].String() })
	return a
}

// analysable: functions whose bodies are analysed. The standard library is trusted (modelled by
// the external table) except net/url, whose URL type is tracked.
func (a *Analysis) analysable(fn *ssa.Function) bool {
	if fn == nil || fn.Blocks == nil {
		return false
	}
	pp := core.FnPkgPath(fn)
	if pp == "" {
		// synthetic wrappers without package: analyse (they are thin)
		return true
	}
	if core.IsStdPkg(pp) && pp != "net/url" {
		return false
	}
	return true
}

func (a *Analysis) state(fn *ssa.Function) *funcState {
	st := a.fs[fn]
	if st == nil {
		st = &funcState{fn: fn, vals: map[ssa.Value]Set{}, ft: map[ssa.Value]map[FnTarget]bool{}, ret: Set{}, effects: map[effKey]*Effect{}, deferred: map[string]*DeferredCall{}, retFT: map[FnTarget]bool{}}
		a.fs[fn] = st
	}
	return st
}

// Run iterates all function summaries to a fixed point.
func (a *Analysis) Run() {
	for pass := 1; pass <= 60; pass++ {
		a.changed = false
		for _, fn := range a.fns {
			a.processFn(fn)
		}
		a.Passes = pass
		if !a.changed {
			return
		}
	}
}

// NumFunctions returns how many function bodies are analysed.
func (a *Analysis) NumFunctions() int { return len(a.fns) }

// Functions returns the analysed functions.
func (a *Analysis) Functions() []*ssa.Function { return a.fns }

// ---- helpers --------------------------------------------------------------------------------

func family(x, y *ssa.Function) bool {
	// y is x or a lexical ancestor of x
	for f := x; f != nil; f = f.Parent() {
		if f == y {
			return true
		}
	}
	return false
}

func isInit(fn *ssa.Function) bool {
	for f := fn; f != nil; f = f.Parent() {
		if f.Name() == "init" || strings.HasPrefix(f.Name(), "init#") {
			return true
		}
	}
	return false
}

func paramIndex(p *ssa.Parameter) int {
	for i, q := range p.Parent().Params {
		if q == p {
			return i
		}
	}
	return -1
}

func (a *Analysis) paramCell(fn *ssa.Function, i int) *Cell {
	return a.cell(fmt.Sprintf("param:%p:%d", fn, i), fmt.Sprintf("all arguments #%d of %s", i, core.ShortKey(fn)))
}

func (a *Analysis) fvCell(fn *ssa.Function, k int) *Cell {
	return a.cell(fmt.Sprintf("fv:%p:%d", fn, k), fmt.Sprintf("free variable #%d of %s", k, core.ShortKey(fn)))
}

func (a *Analysis) fieldCell(st *types.Struct, named string, f int) *Cell {
	key := "field:" + named + "." + st.Field(f).Name()
	return a.cell(key, named+"."+st.Field(f).Name())
}

func structKey(t types.Type) (string, *types.Struct) {
	st, ok := t.Underlying().(*types.Struct)
	if !ok {
		return "", nil
	}
	if n := core.NamedOf(t); n != nil && n.Obj().Pkg() != nil {
		return n.Obj().Pkg().Path() + "." + n.Obj().Name(), st
	}
	return st.String(), st
}

func (a *Analysis) fieldWriteCell(structKey, field string) *Cell {
	return a.cell("fw:"+structKey+"."+field, "field "+structKey+"."+field)
}

func (a *Analysis) regionContent(region int32, tt, field string) *Cell {
	return a.cell(fmt.Sprintf("rc:%d:%s.%s", region, tt, field), a.labels[region].Name+"."+field)
}

func (a *Analysis) globContent(g *ssa.Global) *Cell {
	return a.cell("gc:"+g.Pkg.Pkg.Path()+"."+g.Name(), "stored in "+g.Pkg.Pkg.Path()+"."+g.Name())
}

// concretize replaces symbolic labels by the union of all actual arguments.
func (a *Analysis) concretize(s Set, seen map[int32]bool) Set {
	out := Set{}
	for l := range s {
		li := a.labels[l]
		switch li.Kind {
		case KSym:
			if seen[l] {
				continue
			}
			seen[l] = true
			out.addAll(a.concretize(a.paramCell(li.Fn, li.Idx).Set, seen))
		case KSymDeref:
			if seen[l] {
				continue
			}
			seen[l] = true
			out.addAll(a.concretize(a.deref(a.paramCell(li.Fn, li.Idx).Set), seen))
		default:
			out[l] = struct{}{}
		}
	}
	return out
}

// deref: the URL regions reachable through Options.OriginalURL of the given Options regions.
func (a *Analysis) deref(s Set) Set {
	out := Set{}
	for l := range s {
		li := a.labels[l]
		switch li.Kind {
		case KCaller:
			if l == a.CallerOpts {
				out[a.CallerURL] = struct{}{}
			}
		case KFresh:
			if l == a.FreshOpts {
				out.addAll(a.regionContent(l, "Options", "OriginalURL").Set)
			}
		case KSym:
			out[a.symDeref(li.Fn, li.Idx)] = struct{}{}
		case KGlob:
			out[l] = struct{}{}
		}
	}
	return out
}

func (a *Analysis) growCell(c *Cell, s Set) {
	if c.Set.addAll(s) {
		a.changed = true
	}
}

// storable: may label l live in cell c without being concretized?
func (a *Analysis) storable(c *Cell, l int32) bool {
	li := a.labels[l]
	if li.Kind != KSym && li.Kind != KSymDeref {
		return true
	}
	return c.Owner != nil && family(c.Owner, li.Fn)
}

// writeCell stores labels into a cell, concretizing what may not stay symbolic there.
func (a *Analysis) writeCell(c *Cell, s Set) {
	if len(s) == 0 {
		return
	}
	out := Set{}
	var sym Set
	for l := range s {
		if a.storable(c, l) {
			out[l] = struct{}{}
		} else {
			if sym == nil {
				sym = Set{}
			}
			sym[l] = struct{}{}
		}
	}
	if sym != nil {
		out.addAll(a.concretize(sym, map[int32]bool{}))
	}
	a.growCell(c, out)
}

// readCell returns the content of a cell as seen from fn.
func (a *Analysis) readCell(c *Cell, fn *ssa.Function) Set {
	if c.Owner == nil {
		return c.Set
	}
	var foreign Set
	for l := range c.Set {
		li := a.labels[l]
		if (li.Kind == KSym || li.Kind == KSymDeref) && !family(fn, li.Fn) {
			if foreign == nil {
				foreign = Set{}
			}
			foreign[l] = struct{}{}
		}
	}
	if foreign == nil {
		return c.Set
	}
	out := Set{}
	for l := range c.Set {
		if !foreign.Has(l) {
			out[l] = struct{}{}
		}
	}
	out.addAll(a.concretize(foreign, map[int32]bool{}))
	return out
}
