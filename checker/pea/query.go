package pea

import (
	"fmt"
	"sort"

	"ddcheck/core"

	"golang.org/x/tools/go/ssa"
)

// SeedEntry declares what the caller passes to parameter i of an entry point.
func (a *Analysis) SeedEntry(fn *ssa.Function, i int, label int32) {
	a.writeCell(a.paramCell(fn, i), Set{label: {}})
}

// EntryEffects instantiates the summary of an entry point with the caller's regions bound to
// its parameters and returns the effects on non-fresh memory, concretized.
func (a *Analysis) EntryEffects(fn *ssa.Function, bind map[int]int32) []*Effect {
	st := a.fs[fn]
	if st == nil {
		return nil
	}
	var out []*Effect
	for _, e := range st.effects {
		if e.Kind != "mod" {
			continue
		}
		li := a.labels[e.Target]
		targets := Set{}
		switch li.Kind {
		case KSym:
			if li.Fn == fn {
				if l, ok := bind[li.Idx]; ok {
					targets[l] = struct{}{}
				}
			} else {
				targets.addAll(a.concretize(Set{e.Target: {}}, map[int32]bool{}))
			}
		case KSymDeref:
			if li.Fn == fn {
				if l, ok := bind[li.Idx]; ok {
					targets.addAll(a.deref(Set{l: {}}))
				}
			} else {
				targets.addAll(a.concretize(Set{e.Target: {}}, map[int32]bool{}))
			}
		default:
			targets[e.Target] = struct{}{}
		}
		for t := range targets {
			if !a.recordable(t) {
				continue
			}
			c := *e
			c.Target = t
			out = append(out, &c)
		}
	}
	sort.Slice(out, func(i, j int) bool {
		if out[i].Pos != out[j].Pos {
			return out[i].Pos < out[j].Pos
		}
		return out[i].Target < out[j].Target
	})
	return out
}

// Effects returns the raw summary effects of a function (targets may be symbolic).
func (a *Analysis) Effects(fn *ssa.Function) []*Effect {
	fn = a.orig(fn)
	st := a.fs[fn]
	if st == nil {
		return nil
	}
	var out []*Effect
	for _, e := range st.effects {
		out = append(out, e)
	}
	sort.Slice(out, func(i, j int) bool {
		if out[i].Pos != out[j].Pos {
			return out[i].Pos < out[j].Pos
		}
		if out[i].Target != out[j].Target {
			return out[i].Target < out[j].Target
		}
		return out[i].Field < out[j].Field
	})
	return out
}

// Analysed reports whether fn has a summary.
func (a *Analysis) Analysed(fn *ssa.Function) bool {
	st := a.fs[a.orig(fn)]
	return st != nil && st.analysed
}

// Chain renders the call chain through which an effect reaches the function that owns it.
func (a *Analysis) Chain(e *Effect) []string {
	var out []string
	for x := e; x != nil; x = x.Via {
		if x.SiteFn != nil {
			out = append(out, fmt.Sprintf("%s calls at %s", core.ShortKey(x.SiteFn), a.P.Pos(x.Site)))
		}
		if x.Via == nil {
			out = append(out, fmt.Sprintf("store in %s at %s: %s (%s)", core.ShortKey(x.Fn), a.P.Pos(x.Pos), x.Field, x.What))
		}
		if len(out) > 24 {
			out = append(out, "…")
			break
		}
	}
	return out
}

// ValueLabels returns the label set of an SSA value in its function (after Run).
func (a *Analysis) ValueLabels(v ssa.Value) []string {
	fn := v.Parent()
	if fn == nil {
		return nil
	}
	st := a.fs[fn]
	if st == nil {
		return nil
	}
	var out []string
	for l := range a.get(st, v) {
		out = append(out, a.labels[l].Name)
	}
	sort.Strings(out)
	return out
}

// ValueSet returns the raw label set of a value.
func (a *Analysis) ValueSet(v ssa.Value) Set {
	fn := v.Parent()
	if fn == nil {
		return nil
	}
	st := a.fs[fn]
	if st == nil {
		return nil
	}
	return a.get(st, v)
}

// CellDump lists heap cells and what they may hold (debugging / evidence).
func (a *Analysis) CellDump(filter func(name string) bool) []string {
	var out []string
	for _, c := range a.cells {
		if len(c.Set) == 0 || (filter != nil && !filter(c.Name)) {
			continue
		}
		var ls []string
		for l := range c.Set {
			ls = append(ls, a.labels[l].Name)
		}
		sort.Strings(ls)
		out = append(out, fmt.Sprintf("%s = %v", c.Name, ls))
	}
	sort.Strings(out)
	return out
}

// UnknownDynamicCalls is the number of dynamic call sites without any resolved callee.
func (a *Analysis) UnknownDynamicCalls() int { return a.unknownDyn }

// DeferredCalls returns how many calls through function-valued parameters the summary keeps symbolic.
func (a *Analysis) DeferredCalls(fn *ssa.Function) int {
	fn = a.orig(fn)
	st := a.fs[fn]
	if st == nil {
		return 0
	}
	return len(st.deferred)
}

// ParamMods returns the fields of the object(s) passed as parameter `param` of fn that fn may
// write (field name -> one witnessing effect). With closed=true the effects of callbacks invoked
// through function-valued parameters are included context-insensitively (all callees that the
// call graph knows for the deferred call sites), which is what a loop inside fn has to assume.
func (a *Analysis) ParamMods(fn *ssa.Function, param int, closed bool) map[string]*Effect {
	fn = a.orig(fn)
	out := map[string]*Effect{}
	a.paramMods(fn, param, closed, map[string]bool{}, out)
	return out
}

func (a *Analysis) paramMods(fn *ssa.Function, param int, closed bool, seen map[string]bool, out map[string]*Effect) {
	key := fmt.Sprintf("%p:%d", fn, param)
	if seen[key] {
		return
	}
	seen[key] = true
	st := a.fs[fn]
	if st == nil {
		return
	}
	symL := a.sym(fn, param)
	for _, e := range st.effects {
		if (e.Kind == "mod" || e.Kind == "contwrite") && e.Target == symL {
			if _, ok := out[e.Field]; !ok {
				out[e.Field] = e
			}
		}
	}
	if !closed {
		return
	}
	for _, d := range st.deferred {
		for j, s := range d.Args {
			if !s.Has(symL) {
				continue
			}
			for _, c := range a.siteCallees(d.Fn, d.Site) {
				if a.analysable(c) {
					a.paramMods(c, j, closed, seen, out)
				}
			}
		}
	}
}

// SitesCallees exposes the call-graph callees of a call site.
func (a *Analysis) SiteCallees(fn *ssa.Function, site ssa.CallInstruction) []*ssa.Function {
	if c := site.Common().StaticCallee(); c != nil {
		return []*ssa.Function{c}
	}
	return a.siteCallees(fn, site)
}

// Overlap reports whether two values may refer to objects of the same region.
func (a *Analysis) Overlap(x, y ssa.Value) bool {
	sx, sy := a.ValueSet(x), a.ValueSet(y)
	for l := range sx {
		if sy.Has(l) {
			return true
		}
	}
	return false
}

// FieldWrites returns the struct fields (of objects not created by fn itself) that fn or its
// callees may write: "pkg.Type.field" -> witness.
func (a *Analysis) FieldWrites(fn *ssa.Function) map[string]*Effect {
	fn = a.orig(fn)
	out := map[string]*Effect{}
	st := a.fs[fn]
	if st == nil {
		return out
	}
	for _, e := range st.effects {
		if e.Kind == "fieldwrite" {
			out[e.Field] = e
		}
	}
	return out
}

// TrackedMods returns the effects of fn on tracked regions, parameters and package-level state.
func (a *Analysis) TrackedMods(fn *ssa.Function) []*Effect {
	fn = a.orig(fn)
	var out []*Effect
	for _, e := range a.Effects(fn) {
		if e.Kind == "mod" || e.Kind == "ptrwrite" || e.Kind == "contwrite" {
			out = append(out, e)
		}
	}
	return out
}

// orig maps an inlined clone (core.Program.Inlined) back to the function the analysis knows.
func (a *Analysis) orig(fn *ssa.Function) *ssa.Function {
	if a.P != nil {
		return a.P.Original(fn)
	}
	return fn
}
