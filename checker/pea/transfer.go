package pea

import (
	"fmt"
	"go/token"
	"go/types"
	"sort"
	"strings"

	"ddcheck/core"

	"golang.org/x/tools/go/ssa"
)

// arg is an actual argument: its label set, its possible function targets and (when the call
// is a real call site) the SSA value.
type arg struct {
	set Set
	ft  map[FnTarget]bool
	val ssa.Value
}

func (a *Analysis) get(st *funcState, v ssa.Value) Set {
	switch x := v.(type) {
	case nil:
		return nil
	case *ssa.Const, *ssa.Function, *ssa.Builtin:
		return nil
	case *ssa.Global:
		if core.IsStdPkg(x.Pkg.Pkg.Path()) {
			return nil // state of the standard library is trusted, not tracked
		}
		return Set{a.glob(x): {}}
	case *ssa.FreeVar:
		for k, fv := range st.fn.FreeVars {
			if fv == x {
				return a.readCell(a.fvCell(st.fn, k), st.fn)
			}
		}
		return nil
	}
	return st.vals[v]
}

func (a *Analysis) setv(st *funcState, v ssa.Value, s Set) {
	if len(s) == 0 {
		return
	}
	s = a.filter(s, v.Type())
	if len(s) == 0 {
		return
	}
	cur := st.vals[v]
	if cur == nil {
		cur = Set{}
		st.vals[v] = cur
	}
	if cur.addAll(s) {
		a.changed = true
	}
}

func (a *Analysis) getFT(st *funcState, v ssa.Value) map[FnTarget]bool {
	switch x := v.(type) {
	case *ssa.Function:
		return map[FnTarget]bool{{Fn: x, Param: -1}: true}
	case *ssa.MakeClosure:
		if f, ok := x.Fn.(*ssa.Function); ok {
			return map[FnTarget]bool{{Fn: f, Param: -1}: true}
		}
	}
	return st.ft[v]
}

func (a *Analysis) addFT(st *funcState, v ssa.Value, ts map[FnTarget]bool) {
	if len(ts) == 0 {
		return
	}
	cur := st.ft[v]
	if cur == nil {
		cur = map[FnTarget]bool{}
		st.ft[v] = cur
	}
	for t := range ts {
		if !cur[t] {
			cur[t] = true
			a.changed = true
		}
	}
}

func isFuncType(t types.Type) bool {
	_, ok := t.Underlying().(*types.Signature)
	return ok
}

// ---- effects --------------------------------------------------------------------------------

func (a *Analysis) recordable(l int32) bool {
	switch a.labels[l].Kind {
	case KFresh, KAddr, KGlobOwn:
		return false
	}
	return true
}

// ownerLabel maps a storage-ownership label to the region that is written when the storage is.
func (a *Analysis) ownerLabel(l int32) (int32, bool) {
	li := a.labels[l]
	switch li.Kind {
	case KGlobOwn:
		return a.glob(li.Glob), true
	case KAddr:
		return l, false
	}
	return l, true
}

func (a *Analysis) addEffect(st *funcState, e *Effect) {
	// one effect per (kind, target, field): the first origin found is kept as the witness
	k := effKey{e.Kind, e.Target, e.Field, 0, e.Cell}
	if old, ok := st.effects[k]; ok {
		if len(e.Val) > 0 {
			if old.Val == nil {
				old.Val = Set{}
			}
			if old.Val.addAll(e.Val) {
				a.changed = true
			}
		}
		if old.Once && !e.Once {
			old.Once = false
			a.changed = true
		}
		return
	}
	if e.Val != nil {
		v := Set{}
		v.addAll(e.Val)
		e.Val = v // never alias a callee's set
	}
	st.effects[k] = e
	a.changed = true
}

// mod records a store into region l (field describes what is written).
func (a *Analysis) mod(st *funcState, l int32, field string, val Set, pos token.Pos, what string) {
	li := a.labels[l]
	// maintain the content of concrete regions
	if len(val) > 0 && (li.Kind == KCaller || li.Kind == KFresh) {
		a.writeCell(a.regionContent(l, li.TT, fieldKey(field)), val)
	}
	if !a.recordable(l) {
		return
	}
	var v Set
	if len(val) > 0 && (li.Kind == KSym || li.Kind == KSymDeref) {
		v = Set{}
		v.addAll(val)
	}
	a.addEffect(st, &Effect{Kind: "mod", Target: l, Field: field, Val: v, Pos: pos, Fn: st.fn, What: what})
}

// fieldKey reduces "Node.FirstChild" style names to the content cell they feed: all link fields
// of a tracked object share one content cell per region ("*").
func fieldKey(field string) string {
	if strings.HasPrefix(field, "Options.OriginalURL") {
		return "OriginalURL"
	}
	return "*"
}

// ---- loads / stores -------------------------------------------------------------------------

func (a *Analysis) structCells(t types.Type, depth int) []*Cell {
	key, st := structKey(t)
	if st == nil || depth > 3 {
		return nil
	}
	var out []*Cell
	for i := 0; i < st.NumFields(); i++ {
		ft := st.Field(i).Type()
		if !mayCarry(ft) {
			if sl, ok := ft.Underlying().(*types.Slice); !ok || mayCarry(sl.Elem()) {
				continue
			}
		}
		out = append(out, a.fieldCell(st, key, i))
		if _, isStruct := ft.Underlying().(*types.Struct); isStruct && trackedType(ft) == "" {
			out = append(out, a.structCells(ft, depth+1)...)
		}
	}
	return out
}

// regionLoad: what a pointer-ish field of a tracked object in region l may hold.
func (a *Analysis) regionLoad(l int32, tt, fieldName string) Set {
	li := a.labels[l]
	out := Set{}
	if tt == "Options" && fieldName == "OriginalURL" {
		out.addAll(a.deref(Set{l: {}}))
		return out
	}
	out[l] = struct{}{} // closure: objects linked from a region belong to it
	if li.Kind == KCaller || li.Kind == KFresh {
		out.addAll(a.regionContent(l, li.TT, "*").Set)
	}
	return out
}

func (a *Analysis) load(st *funcState, addr ssa.Value, resType types.Type) Set {
	out := Set{}
	switch x := addr.(type) {
	case *ssa.Global:
		if core.IsStdPkg(x.Pkg.Pkg.Path()) {
			return nil
		}
		a.fromGlobal(x, resType, out)
		out.addAll(a.readCell(a.globContent(x), st.fn))
		return a.filter(out, resType)
	case *ssa.Alloc:
		et := derefType(x.Type())
		if tt := trackedType(et); tt != "" {
			out.addAll(a.get(st, x))
			return out
		}
		if _, isStruct := et.Underlying().(*types.Struct); isStruct {
			for _, c := range a.structCells(et, 0) {
				out.addAll(a.readCell(c, st.fn))
			}
			return a.filter(out, resType)
		}
		if _, isArr := et.Underlying().(*types.Array); isArr {
			return a.filter(a.get(st, x), resType)
		}
		for l := range a.get(st, x) {
			if c := a.labels[l].Cell; c != nil {
				out.addAll(a.readCell(c, st.fn))
			}
		}
		return a.filter(out, resType)
	case *ssa.FieldAddr:
		bt := derefType(x.X.Type())
		base := a.get(st, x.X)
		if tt := trackedType(bt); tt != "" {
			stt := bt.Underlying().(*types.Struct)
			fname := stt.Field(x.Field).Name()
			for l := range base {
				if a.labels[l].Kind == KAddr {
					continue
				}
				out.addAll(a.regionLoad(l, tt, fname))
			}
			return a.filter(out, resType)
		}
		key, stt := structKey(bt)
		if stt != nil {
			out.addAll(a.readCell(a.fieldCell(stt, key, x.Field), st.fn))
			ft := stt.Field(x.Field).Type()
			if _, isStruct := ft.Underlying().(*types.Struct); isStruct && trackedType(ft) == "" {
				for _, c := range a.structCells(ft, 0) {
					out.addAll(a.readCell(c, st.fn))
				}
			}
		}
		for l := range base {
			if a.labels[l].Kind == KGlob {
				a.fromGlobal(a.labels[l].Glob, resType, out)
			}
		}
		return a.filter(out, resType)
	case *ssa.IndexAddr:
		for l := range a.get(st, x.X) {
			if a.labels[l].Kind == KGlobOwn {
				a.fromGlobal(a.labels[l].Glob, resType, out)
			} else {
				out[l] = struct{}{}
			}
		}
		return a.filter(out, resType)
	}
	// load through a pointer value
	et := derefType(addr.Type())
	tt := trackedType(et)
	for l := range a.get(st, addr) {
		li := a.labels[l]
		switch {
		case li.Kind == KAddr:
			out.addAll(a.readCell(li.Cell, st.fn))
		case tt != "":
			out[l] = struct{}{} // whole tracked struct copied: carries its region
		default:
			out[l] = struct{}{}
		}
	}
	if _, isStruct := et.Underlying().(*types.Struct); isStruct && tt == "" {
		for _, c := range a.structCells(et, 0) {
			out.addAll(a.readCell(c, st.fn))
		}
	}
	return a.filter(out, resType)
}

func (a *Analysis) store(st *funcState, addr ssa.Value, val Set, pos token.Pos) {
	switch x := addr.(type) {
	case *ssa.Global:
		if core.IsStdPkg(x.Pkg.Pkg.Path()) {
			return
		}
		a.mod(st, a.glob(x), "variable "+x.Name(), nil, pos, "assignment to package-level variable")
		a.writeCell(a.globContent(x), val)
		return
	case *ssa.Alloc:
		et := derefType(x.Type())
		if tt := trackedType(et); tt != "" {
			for l := range a.get(st, x) {
				a.mod(st, l, tt+".*", val, pos, "whole-object store")
			}
			return
		}
		if _, isStruct := et.Underlying().(*types.Struct); isStruct {
			for _, c := range a.structCells(et, 0) {
				a.writeCell(c, val)
			}
			return
		}
		if _, isArr := et.Underlying().(*types.Array); isArr {
			a.writeInto(st, x, val, pos, 0)
			return
		}
		for l := range a.get(st, x) {
			if c := a.labels[l].Cell; c != nil {
				a.cellWrite(st, c, val, pos)
			}
		}
		return
	case *ssa.FieldAddr:
		bt := derefType(x.X.Type())
		base := a.get(st, x.X)
		if tt := trackedType(bt); tt != "" {
			stt := bt.Underlying().(*types.Struct)
			fname := stt.Field(x.Field).Name()
			for l := range base {
				if a.labels[l].Kind == KAddr {
					continue
				}
				a.mod(st, l, tt+"."+fname, val, pos, "field store")
			}
			return
		}
		key, stt := structKey(bt)
		if stt != nil {
			c := a.fieldCell(stt, key, x.Field)
			// a store into a field of an object that was not just created here is a state change
			// that outlives the function (used by the log-region rule of C13)
			if _, fresh := x.X.(*ssa.Alloc); !fresh {
				a.addEffect(st, &Effect{Kind: "fieldwrite", Target: -1, Cell: a.fieldWriteCell(key, stt.Field(x.Field).Name()), Field: key + "." + stt.Field(x.Field).Name(), Pos: pos, Fn: st.fn, What: "store into a struct field"})
			}
			a.cellWrite(st, c, val, pos)
			ft := stt.Field(x.Field).Type()
			if _, isStruct := ft.Underlying().(*types.Struct); isStruct && trackedType(ft) == "" {
				for _, c2 := range a.structCells(ft, 0) {
					a.cellWrite(st, c2, val, pos)
				}
			}
			for l := range base {
				switch a.labels[l].Kind {
				case KGlob:
					a.mod(st, l, "field "+key+"."+stt.Field(x.Field).Name(), nil, pos, "field store into memory reachable from a package-level variable")
				case KSym:
					// the record belongs to whatever the caller handed in: decided at the call
					// sites (only package-level memory matters there: a record that merely
					// carries pointers into the caller's document is not that document)
					a.addEffect(st, &Effect{Kind: "ptrwrite", Target: l, Field: "field " + key + "." + stt.Field(x.Field).Name(), Pos: pos, Fn: st.fn})
				}
			}
		}
		return
	case *ssa.IndexAddr:
		et := x.X.Type()
		var elem types.Type
		switch u := derefType(et).Underlying().(type) {
		case *types.Slice:
			elem = u.Elem()
		case *types.Array:
			elem = u.Elem()
		}
		if sl, ok := et.Underlying().(*types.Slice); ok {
			elem = sl.Elem()
		}
		base := a.get(st, x.X)
		if elem != nil && !mayCarry(elem) {
			for l := range base {
				if o, ok := a.ownerLabel(l); ok {
					a.mod(st, o, "element of "+types.TypeString(et, func(p *types.Package) string { return p.Name() }), nil, pos, "element store")
				}
			}
			return
		}
		for l := range base {
			if a.labels[l].Kind == KGlobOwn {
				a.mod(st, a.glob(a.labels[l].Glob), "element", nil, pos, "element store into a package-level slice/array")
			}
		}
		if _, isArr := derefType(et).Underlying().(*types.Array); isArr {
			// array inside global memory (pointer to it carries the region label)
			for l := range base {
				if a.labels[l].Kind == KGlob {
					if _, isAlloc := x.X.(*ssa.Alloc); !isAlloc {
						a.mod(st, l, "array element", nil, pos, "element store into a package-level array")
					}
				}
			}
		}
		a.writeInto(st, x.X, val, pos, 0)
		return
	}
	// store through a pointer value
	et := derefType(addr.Type())
	tt := trackedType(et)
	for l := range a.get(st, addr) {
		li := a.labels[l]
		switch {
		case li.Kind == KAddr:
			a.cellWrite(st, li.Cell, val, pos)
		case tt != "":
			a.mod(st, l, tt+".*", val, pos, "whole-object store through pointer")
		case li.Kind == KGlob:
			a.mod(st, l, "*", nil, pos, "store through pointer into package-level memory")
		case li.Kind == KSym:
			v := Set{}
			v.addAll(val)
			a.addEffect(st, &Effect{Kind: "ptrwrite", Target: l, Field: "*", Val: v, Pos: pos, Fn: st.fn})
		}
	}
	if _, isStruct := et.Underlying().(*types.Struct); isStruct && tt == "" {
		for _, c := range a.structCells(et, 0) {
			a.cellWrite(st, c, val, pos)
		}
	}
}

// cellWrite writes into a cell; labels that must stay symbolic (the writer's own parameters
// written into a local of an enclosing/unrelated function) become a deferred effect.
func (a *Analysis) cellWrite(st *funcState, c *Cell, val Set, pos token.Pos) {
	if len(val) == 0 {
		return
	}
	direct := Set{}
	var deferred Set
	for l := range val {
		li := a.labels[l]
		if (li.Kind == KSym || li.Kind == KSymDeref) && !a.storable(c, l) && c.Owner != nil && family(st.fn, li.Fn) {
			if deferred == nil {
				deferred = Set{}
			}
			deferred[l] = struct{}{}
		} else {
			direct[l] = struct{}{}
		}
	}
	a.writeCell(c, direct)
	if deferred != nil {
		a.addEffect(st, &Effect{Kind: "cellwrite", Cell: c, Val: deferred, Pos: pos, Fn: st.fn, Target: -1})
	}
}

// writeInto adds labels to a container value (slice, map, array, channel) and to where it came from.
func (a *Analysis) writeInto(st *funcState, cont ssa.Value, val Set, pos token.Pos, depth int) {
	if depth > 6 {
		return
	}
	switch x := cont.(type) {
	case *ssa.Parameter:
		// also for plain data (no labels to propagate): that the caller's container is written is
		// an effect in itself - the container may be shared (a package-level table, the caller's
		// argument)
		if i := paramIndex(x); i >= 0 {
			v := Set{}
			v.addAll(val)
			a.addEffect(st, &Effect{Kind: "contwrite", Target: a.sym(st.fn, i), Field: "elements", Val: v, Pos: pos, Fn: st.fn})
		}
		return
	case *ssa.Const, *ssa.Global, *ssa.Function:
		return
	}
	if len(val) == 0 {
		// nothing to propagate; only look for a parameter at the root of the container expression
		switch x := cont.(type) {
		case *ssa.Phi:
			for _, e := range x.Edges {
				if e != cont {
					a.writeInto(st, e, val, pos, depth+1)
				}
			}
		case *ssa.Slice:
			a.writeInto(st, x.X, val, pos, depth+1)
		case *ssa.ChangeType:
			a.writeInto(st, x.X, val, pos, depth+1)
		case *ssa.Convert:
			a.writeInto(st, x.X, val, pos, depth+1)
		case *ssa.MakeInterface:
			a.writeInto(st, x.X, val, pos, depth+1)
		}
		return
	}
	cur := st.vals[cont]
	if cur == nil {
		cur = Set{}
		st.vals[cont] = cur
	}
	if cur.addAll(val) {
		a.changed = true
	}
	switch x := cont.(type) {
	case *ssa.UnOp:
		if x.Op == token.MUL {
			a.store(st, x.X, val, pos)
		}
	case *ssa.Phi:
		for _, e := range x.Edges {
			a.writeInto(st, e, val, pos, depth+1)
		}
	case *ssa.Slice:
		a.writeInto(st, x.X, val, pos, depth+1)
	case *ssa.ChangeType:
		a.writeInto(st, x.X, val, pos, depth+1)
	case *ssa.Convert:
		a.writeInto(st, x.X, val, pos, depth+1)
	case *ssa.MakeInterface:
		a.writeInto(st, x.X, val, pos, depth+1)
	case *ssa.Call:
		if b, ok := x.Call.Value.(*ssa.Builtin); ok && b.Name() == "append" {
			a.writeInto(st, x.Call.Args[0], val, pos, depth+1)
		}
	}
}

// ---- per function ---------------------------------------------------------------------------

func (a *Analysis) processFn(fn *ssa.Function) {
	st := a.state(fn)
	st.analysed = true
	for i, p := range fn.Params {
		if mayCarry(p.Type()) || isPlainSlice(p.Type()) {
			if st.vals[p] == nil {
				st.vals[p] = Set{a.sym(fn, i): {}}
				a.changed = true
			}
		}
		if isFuncType(p.Type()) && st.ft[p] == nil {
			st.ft[p] = map[FnTarget]bool{{Param: i}: true}
		}
	}
	for iter := 0; iter < 20; iter++ {
		before := a.changed
		a.changed = false
		for _, b := range fn.Blocks {
			for _, in := range b.Instrs {
				a.transfer(st, in)
			}
		}
		local := a.changed
		a.changed = before || local
		if !local {
			break
		}
	}
}

func isPlainSlice(t types.Type) bool {
	sl, ok := t.Underlying().(*types.Slice)
	return ok && !mayCarry(sl.Elem())
}

func (a *Analysis) transfer(st *funcState, in ssa.Instruction) {
	switch x := in.(type) {
	case *ssa.Alloc:
		et := derefType(x.Type())
		if tt := trackedType(et); tt != "" {
			var l int32
			switch tt {
			case "Node":
				l = a.FreshNode
			case "URL":
				l = a.FreshURL
			default:
				l = a.FreshOpts
			}
			a.setv(st, x, Set{l: {}})
			return
		}
		switch et.Underlying().(type) {
		case *types.Struct, *types.Array:
			return
		}
		if mayCarry(et) || isPlainSlice(et) || isFuncType(et) {
			cur := st.vals[x]
			if cur == nil {
				st.vals[x] = Set{a.addrLabel(x): {}}
				a.changed = true
			}
		}
	case *ssa.UnOp:
		if x.Op == token.MUL {
			a.setv(st, x, a.load(st, x.X, x.Type()))
		} else if x.Op == token.ARROW {
			a.setv(st, x, a.get(st, x.X))
		}
	case *ssa.Store:
		a.store(st, x.Addr, a.get(st, x.Val), x.Pos())
	case *ssa.Phi:
		for _, e := range x.Edges {
			a.setv(st, x, a.get(st, e))
			a.addFT(st, x, a.getFT(st, e))
		}
	case *ssa.FieldAddr:
		// the address of a field of a tracked object points into that object's region
		bt := derefType(x.X.Type())
		if trackedType(bt) != "" {
			s := Set{}
			for l := range a.get(st, x.X) {
				s[l] = struct{}{}
			}
			if len(s) > 0 {
				cur := st.vals[x]
				if cur == nil {
					cur = Set{}
					st.vals[x] = cur
				}
				if cur.addAll(s) {
					a.changed = true
				}
			}
		} else {
			for l := range a.get(st, x.X) {
				if a.labels[l].Kind == KGlob {
					cur := st.vals[x]
					if cur == nil {
						cur = Set{}
						st.vals[x] = cur
					}
					if cur.add(l) {
						a.changed = true
					}
				}
			}
		}
	case *ssa.IndexAddr:
		// pointer to an element: keep the container's labels (ownership for plain elements)
		cur := st.vals[x]
		if cur == nil {
			cur = Set{}
			st.vals[x] = cur
		}
		if cur.addAll(a.get(st, x.X)) {
			a.changed = true
		}
	case *ssa.Field:
		a.setv(st, x, a.get(st, x.X))
	case *ssa.Index:
		a.setv(st, x, a.get(st, x.X))
	case *ssa.Lookup:
		a.setv(st, x, a.get(st, x.X))
	case *ssa.Slice:
		a.setvRaw(st, x, a.get(st, x.X))
	case *ssa.ChangeType:
		a.setvRaw(st, x, a.get(st, x.X))
		a.addFT(st, x, a.getFT(st, x.X))
	case *ssa.Convert:
		a.setv(st, x, a.get(st, x.X))
	case *ssa.ChangeInterface:
		a.setv(st, x, a.get(st, x.X))
	case *ssa.MakeInterface:
		a.setvRaw(st, x, a.get(st, x.X))
		a.addFT(st, x, a.getFT(st, x.X))
	case *ssa.SliceToArrayPointer:
		a.setvRaw(st, x, a.get(st, x.X))
	case *ssa.TypeAssert:
		a.setv(st, x, a.get(st, x.X))
		a.addFT(st, x, a.getFT(st, x.X))
	case *ssa.Extract:
		a.setv(st, x, a.get(st, x.Tuple))
		a.addFT(st, x, a.getFT(st, x.Tuple))
	case *ssa.Range:
		a.setvRaw(st, x, a.get(st, x.X))
	case *ssa.Next:
		a.setvRaw(st, x, a.get(st, x.Iter))
	case *ssa.MakeClosure:
		f, _ := x.Fn.(*ssa.Function)
		all := Set{}
		for k, b := range x.Bindings {
			s := a.get(st, b)
			all.addAll(s)
			if f != nil {
				c := a.fvCell(f, k)
				c.Owner = f
				a.writeCell(c, s)
			}
		}
		a.setvRaw(st, x, all)
	case *ssa.MapUpdate:
		v := Set{}
		v.addAll(a.get(st, x.Key))
		v.addAll(a.get(st, x.Value))
		for l := range a.get(st, x.Map) {
			if a.labels[l].Kind == KGlobOwn {
				a.mod(st, a.glob(a.labels[l].Glob), "map entry", nil, x.Pos(), "update of a map reachable from a package-level variable")
			}
		}
		if ld, ok := x.Map.(*ssa.UnOp); ok {
			if fa, ok := ld.X.(*ssa.FieldAddr); ok {
				if key, stt := structKey(derefType(fa.X.Type())); stt != nil && trackedType(derefType(fa.X.Type())) == "" {
					if _, fresh := fa.X.(*ssa.Alloc); !fresh {
						a.addEffect(st, &Effect{Kind: "fieldwrite", Target: -1, Cell: a.fieldWriteCell(key, stt.Field(fa.Field).Name()), Field: key + "." + stt.Field(fa.Field).Name() + "[]", Pos: x.Pos(), Fn: st.fn, What: "update of a map held in a struct field"})
					}
				}
			}
		}
		a.writeInto(st, x.Map, v, x.Pos(), 0)
	case *ssa.Send:
		a.writeInto(st, x.Chan, a.get(st, x.X), x.Pos(), 0)
	case *ssa.Return:
		for _, r := range x.Results {
			if st.ret.addAll(a.get(st, r)) {
				a.changed = true
			}
			for t := range a.getFT(st, r) {
				if !st.retFT[t] {
					st.retFT[t] = true
					a.changed = true
				}
			}
		}
	case *ssa.Go:
		a.GoStmts = append(a.GoStmts, x.Pos())
		a.call(st, x)
	case *ssa.Defer:
		a.call(st, x)
	case *ssa.Call:
		a.call(st, x)
	}
}

// setvRaw is setv without the type filter (carriers whose static type hides the content).
func (a *Analysis) setvRaw(st *funcState, v ssa.Value, s Set) {
	if len(s) == 0 {
		return
	}
	cur := st.vals[v]
	if cur == nil {
		cur = Set{}
		st.vals[v] = cur
	}
	if cur.addAll(s) {
		a.changed = true
	}
}

// ---- calls ----------------------------------------------------------------------------------

func (a *Analysis) siteCallees(fn *ssa.Function, site ssa.CallInstruction) []*ssa.Function {
	n := a.cg.Nodes[fn]
	if n == nil {
		return nil
	}
	var out []*ssa.Function
	seen := map[*ssa.Function]bool{}
	for _, e := range n.Out {
		if e.Site == site && !seen[e.Callee.Func] {
			seen[e.Callee.Func] = true
			out = append(out, e.Callee.Func)
		}
	}
	sort.Slice(out, func(i, j int) bool { return out[i].String() < out[j].String() })
	return out
}

func (a *Analysis) call(st *funcState, site ssa.CallInstruction) {
	cc := site.Common()
	if b, ok := cc.Value.(*ssa.Builtin); ok {
		a.builtin(st, site, b)
		return
	}
	var vals []ssa.Value
	if cc.IsInvoke() {
		vals = append(vals, cc.Value)
	}
	vals = append(vals, cc.Args...)
	args := make([]arg, len(vals))
	for i, v := range vals {
		args[i] = arg{set: a.get(st, v), ft: a.getFT(st, v), val: v}
	}
	var res ssa.Value
	if v, ok := site.(ssa.Value); ok {
		res = v
	}
	if callee := cc.StaticCallee(); callee != nil {
		// closure called directly: free variables already bound at MakeClosure
		a.apply(st, site, callee, args, res, false)
		return
	}
	if !cc.IsInvoke() {
		fts := a.getFT(st, cc.Value)
		if len(fts) > 0 {
			for t := range fts {
				if t.Param >= 0 && t.Fn == nil {
					a.addDeferred(st, t.Param, args, site)
				} else if t.Fn != nil {
					a.apply(st, site, t.Fn, args, res, false)
				}
			}
			return
		}
	}
	callees := a.siteCallees(st.fn, site)
	if len(callees) == 0 {
		a.unknownDyn++
		return
	}
	for _, c := range callees {
		a.apply(st, site, c, args, res, false)
	}
}

func (a *Analysis) addDeferred(st *funcState, param int, args []arg, site ssa.CallInstruction) {
	key := fmt.Sprintf("%d|%p", param, site)
	d := st.deferred[key]
	if d == nil {
		d = &DeferredCall{Param: param, Site: site, Fn: st.fn}
		st.deferred[key] = d
		a.changed = true
	}
	for len(d.Args) < len(args) {
		d.Args = append(d.Args, Set{})
	}
	for i, ar := range args {
		if d.Args[i].addAll(ar.set) {
			a.changed = true
		}
	}
}

// subst instantiates a callee-side label set at a call site.
func (a *Analysis) subst(st *funcState, callee *ssa.Function, args []arg, s Set) Set {
	if len(s) == 0 {
		return nil
	}
	needs := false
	for l := range s {
		li := a.labels[l]
		if (li.Kind == KSym || li.Kind == KSymDeref) && li.Fn == callee {
			needs = true
			break
		}
	}
	if !needs {
		return s
	}
	out := Set{}
	for l := range s {
		li := a.labels[l]
		switch {
		case li.Kind == KSym && li.Fn == callee:
			if li.Idx < len(args) {
				for l2 := range args[li.Idx].set {
					out[l2] = struct{}{}
					if c := a.labels[l2].Cell; c != nil {
						// a pointer to a local: what the callee reads through it
						out.addAll(a.readCell(c, st.fn))
					}
				}
			}
		case li.Kind == KSymDeref && li.Fn == callee:
			if li.Idx < len(args) {
				out.addAll(a.deref(args[li.Idx].set))
			}
		default:
			out[l] = struct{}{}
		}
	}
	return out
}

func (a *Analysis) apply(st *funcState, site ssa.CallInstruction, callee *ssa.Function, args []arg, res ssa.Value, once bool) {
	if !a.analysable(callee) {
		a.external(st, site, callee, args, res)
		return
	}
	cs := a.state(callee)
	// an argument can only bring what the parameter's type can hold
	if len(args) > 0 {
		fargs := make([]arg, len(args))
		copy(fargs, args)
		for i := range fargs {
			if i < len(callee.Params) && len(fargs[i].set) > 0 {
				fargs[i].set = a.filter(fargs[i].set, callee.Params[i].Type())
			}
		}
		args = fargs
	}
	// context-insensitive record of the arguments
	for i, ar := range args {
		if i < len(callee.Params) {
			a.writeCell(a.paramCell(callee, i), ar.set)
		}
	}
	if res != nil {
		a.setv(st, res, a.subst(st, callee, args, cs.ret))
		for t := range cs.retFT {
			if t.Fn != nil {
				a.addFT(st, res, map[FnTarget]bool{t: true})
			} else if t.Param >= 0 && t.Param < len(args) {
				a.addFT(st, res, args[t.Param].ft)
			}
		}
	}
	// effects (iterate over a stable snapshot)
	effs := make([]*Effect, 0, len(cs.effects))
	for _, e := range cs.effects {
		effs = append(effs, e)
	}
	for _, e := range effs {
		val := a.subst(st, callee, args, e.Val)
		switch e.Kind {
		case "mod":
			for t := range a.subst(st, callee, args, Set{e.Target: {}}) {
				li := a.labels[t]
				if li.Kind == KAddr {
					continue
				}
				if len(val) > 0 && (li.Kind == KCaller || li.Kind == KFresh) {
					a.writeCell(a.regionContent(t, li.TT, fieldKey(e.Field)), val)
				}
				if !a.recordable(t) {
					continue
				}
				var v Set
				if len(val) > 0 && (li.Kind == KSym || li.Kind == KSymDeref) {
					v = val
				}
				a.addEffect(st, &Effect{Kind: "mod", Target: t, Field: e.Field, Val: v, Pos: e.Pos, Fn: e.Fn, Via: e, Site: site.Pos(), SiteFn: st.fn, Once: e.Once || once, What: e.What})
			}
		case "cellwrite":
			a.cellWriteVia(st, e, val, site, once)
		case "fieldwrite":
			a.addEffect(st, &Effect{Kind: "fieldwrite", Target: -1, Cell: e.Cell, Field: e.Field, Pos: e.Pos, Fn: e.Fn, Via: e, Site: site.Pos(), SiteFn: st.fn, What: e.What})
		case "ptrwrite":
			for t := range a.subst(st, callee, args, Set{e.Target: {}}) {
				li := a.labels[t]
				switch li.Kind {
				case KAddr:
					a.cellWrite(st, li.Cell, val, e.Pos)
				case KSym:
					a.addEffect(st, &Effect{Kind: "ptrwrite", Target: t, Field: e.Field, Val: val, Pos: e.Pos, Fn: e.Fn, Via: e, Site: site.Pos(), SiteFn: st.fn})
				case KGlob, KCaller:
					if e.Field != "*" {
						if li.Kind == KGlob {
							a.addEffect(st, &Effect{Kind: "mod", Target: t, Field: e.Field, Pos: e.Pos, Fn: e.Fn, Via: e, Site: site.Pos(), SiteFn: st.fn, Once: e.Once || once, What: "field store into memory reachable from a package-level variable"})
						}
						continue
					}
					a.addEffect(st, &Effect{Kind: "mod", Target: t, Field: "*", Pos: e.Pos, Fn: e.Fn, Via: e, Site: site.Pos(), SiteFn: st.fn, Once: e.Once || once, What: "store through pointer"})
				}
			}
		case "contwrite":
			idx := a.labels[e.Target].Idx
			if a.labels[e.Target].Fn == callee && idx < len(args) {
				if args[idx].val != nil {
					a.writeInto(st, args[idx].val, val, e.Pos, 0)
				}
				for l := range args[idx].set {
					if a.labels[l].Kind == KGlobOwn {
						l = a.glob(a.labels[l].Glob)
						a.addEffect(st, &Effect{Kind: "mod", Target: l, Field: "elements", Pos: e.Pos, Fn: e.Fn, Via: e, Site: site.Pos(), SiteFn: st.fn, Once: e.Once || once, What: "write into container"})
					}
				}
			}
		}
	}
	// deferred calls through function-valued parameters
	ds := make([]*DeferredCall, 0, len(cs.deferred))
	for _, d := range cs.deferred {
		ds = append(ds, d)
	}
	sort.Slice(ds, func(i, j int) bool { return ds[i].Site.Pos() < ds[j].Site.Pos() })
	for _, d := range ds {
		if d.Param >= len(args) {
			continue
		}
		dargs := make([]arg, len(d.Args))
		for i, s := range d.Args {
			dargs[i] = arg{set: a.subst(st, callee, args, s)}
		}
		fts := args[d.Param].ft
		if len(fts) == 0 {
			// unknown function value: fall back to the call graph at the callee's call site
			for _, c := range a.siteCallees(d.Fn, d.Site) {
				a.apply(st, site, c, dargs, nil, once)
			}
			continue
		}
		for t := range fts {
			if t.Fn != nil {
				a.apply(st, site, t.Fn, dargs, nil, once)
			} else if t.Param >= 0 {
				a.addDeferred(st, t.Param, dargs, d.Site)
			}
		}
	}
}

func (a *Analysis) cellWriteVia(st *funcState, e *Effect, val Set, site ssa.CallInstruction, once bool) {
	if len(val) == 0 {
		return
	}
	direct := Set{}
	var deferred Set
	for l := range val {
		li := a.labels[l]
		if (li.Kind == KSym || li.Kind == KSymDeref) && !a.storable(e.Cell, l) && family(st.fn, li.Fn) {
			if deferred == nil {
				deferred = Set{}
			}
			deferred[l] = struct{}{}
		} else {
			direct[l] = struct{}{}
		}
	}
	a.writeCell(e.Cell, direct)
	if deferred != nil {
		a.addEffect(st, &Effect{Kind: "cellwrite", Cell: e.Cell, Val: deferred, Pos: e.Pos, Fn: e.Fn, Target: -1, Via: e, Site: site.Pos(), SiteFn: st.fn})
	}
}

func (a *Analysis) builtin(st *funcState, site ssa.CallInstruction, b *ssa.Builtin) {
	cc := site.Common()
	res, _ := site.(ssa.Value)
	switch b.Name() {
	case "append":
		if res == nil || len(cc.Args) == 0 {
			return
		}
		s := Set{}
		s.addAll(a.get(st, cc.Args[0]))
		if len(cc.Args) > 1 {
			if sl, ok := cc.Args[1].Type().Underlying().(*types.Slice); ok && mayCarry(sl.Elem()) {
				s.addAll(a.get(st, cc.Args[1]))
			}
		}
		a.setvRaw(st, res, s)
		// the filter-in-place idiom `out := in[:0]; for ..{ out = append(out, x) }`: the appends
		// overwrite the elements of `in`; when `in` is (a view of) a parameter that is a write
		// into the caller's slice, whatever the element type
		for _, sl := range resliceRoots(cc.Args[0], 0, map[ssa.Value]bool{}) {
			a.writeInto(st, sl.X, Set{}, site.Pos(), 0)
		}
		// appending in place to a re-sliced view of someone else's storage writes that storage
		// (directly, or - the loop form of the filter-in-place idiom - through the merge of the
		// re-slice with earlier appends to it)
		roots := resliceRoots(cc.Args[0], 0, map[ssa.Value]bool{})
		if sl0, isSlice := cc.Args[0].(*ssa.Slice); isSlice {
			roots = append(roots, sl0)
		}
		doneRoot := map[*ssa.Slice]bool{}
		for _, root := range roots {
			if doneRoot[root] {
				continue
			}
			doneRoot[root] = true
			if sl, ok := root.Type().Underlying().(*types.Slice); ok && !mayCarry(sl.Elem()) {
				for l := range a.get(st, root) {
					if o, ok := a.ownerLabel(l); ok {
						l = o
						a.mod(st, l, "append into re-sliced "+types.TypeString(root.Type(), func(p *types.Package) string { return p.Name() }), nil, site.Pos(), "append may overwrite the shared backing array")
					}
				}
			}
		}
	case "copy":
		if len(cc.Args) == 2 {
			dst := cc.Args[0]
			var val Set
			if sl, ok := dst.Type().Underlying().(*types.Slice); ok && mayCarry(sl.Elem()) {
				val = a.get(st, cc.Args[1])
				a.writeInto(st, dst, val, site.Pos(), 0)
			}
			for l := range a.get(st, dst) {
				k := a.labels[l].Kind
				if k == KGlobOwn {
					a.mod(st, a.glob(a.labels[l].Glob), "copy into slice", nil, site.Pos(), "copy() writes the destination's backing array")
				} else if k == KCaller || k == KSym || k == KGlob {
					if sl, ok := dst.Type().Underlying().(*types.Slice); ok && !mayCarry(sl.Elem()) {
						a.mod(st, l, "copy into slice", nil, site.Pos(), "copy() writes the destination's backing array")
					}
				}
			}
		}
	case "delete", "clear":
		if len(cc.Args) >= 1 {
			for l := range a.get(st, cc.Args[0]) {
				if a.labels[l].Kind == KGlobOwn {
					a.mod(st, a.glob(a.labels[l].Glob), "map entry", nil, site.Pos(), b.Name()+"() on a container reachable from a package-level variable")
				}
			}
		}
	case "min", "max":
		if res != nil {
			for _, x := range cc.Args {
				a.setv(st, res, a.get(st, x))
			}
		}
	}
}

// ---- external (not analysed) callees --------------------------------------------------------

var externalFuncMutators = map[string][]int{
	"sort.Sort": {0}, "sort.Stable": {0}, "sort.Slice": {0}, "sort.SliceStable": {0}, "sort.Strings": {0}, "sort.Ints": {0}, "sort.Float64s": {0},
	"slices.Sort": {0}, "slices.SortFunc": {0}, "slices.SortStableFunc": {0}, "slices.Reverse": {0},
	"math/rand.Shuffle": {}, "io.ReadFull": {1}, "io.ReadAtLeast": {1}, "encoding/json.Unmarshal": {1},
	"strconv.AppendInt": {0}, "strconv.AppendQuote": {0}, "unicode/utf8.AppendRune": {0}, "unicode/utf8.EncodeRune": {0},
	"sync/atomic.AddInt32": {0}, "sync/atomic.AddInt64": {0}, "sync/atomic.StoreInt32": {0}, "sync/atomic.StoreInt64": {0},
	"sync/atomic.CompareAndSwapInt32": {0}, "sync/atomic.CompareAndSwapInt64": {0}, "sync/atomic.StorePointer": {0},
}

// standard-library functions that return a sub-slice of their first argument
var externalSubslicers = map[string]bool{
	"bytes.TrimSpace": true, "bytes.Trim": true, "bytes.TrimLeft": true, "bytes.TrimRight": true, "bytes.TrimPrefix": true,
	"bytes.TrimSuffix": true, "bytes.TrimFunc": true, "bytes.TrimLeftFunc": true, "bytes.TrimRightFunc": true,
	"slices.Clip": true, "slices.Compact": true, "slices.Delete": true, "slices.Insert": true, "slices.Grow": true,
}

// receiver types of the standard library whose pointer-receiver methods do not change state that a
// concurrent or later call could observe (immutable after construction or documented as safe for
// concurrent use).
var readOnlyStdReceivers = map[string]bool{
	"regexp.Regexp": true, "os.File": true, "time.Location": true, "time.Time": true, "log.Logger": true,
	"net/http.Client": true, "net/http.Transport": true, "sync.Once": true, "sync.Mutex": true, "sync.RWMutex": true,
	"sync.WaitGroup": true, "sync.Pool": true, "sync.Map": true, "reflect.rtype": true, "reflect.Value": true,
	"context.cancelCtx": true, "net.Resolver": true, "unicode.RangeTable": true, "strings.Replacer": true,
	"text/template.Template": true, "html/template.Template": true,
}

var stdReceiverMutatingExceptions = map[string]bool{
	"(*regexp.Regexp).Longest": true,
}

// ExternalMutates lists the argument positions an unanalysed (standard-library) callee writes
// through, according to the external model.
func (a *Analysis) ExternalMutates(callee *ssa.Function) []int { return a.externalMutates(callee) }

func (a *Analysis) externalMutates(callee *ssa.Function) []int {
	name := callee.String()
	if idx, ok := externalFuncMutators[name]; ok {
		return idx
	}
	if stdReceiverMutatingExceptions[name] {
		return []int{0}
	}
	recv := callee.Signature.Recv()
	if recv == nil {
		return nil
	}
	if _, isPtr := recv.Type().(*types.Pointer); !isPtr {
		return nil
	}
	n := core.NamedOf(recv.Type())
	if n == nil || n.Obj().Pkg() == nil {
		return nil
	}
	if readOnlyStdReceivers[n.Obj().Pkg().Path()+"."+n.Obj().Name()] {
		return nil
	}
	return []int{0}
}

func (a *Analysis) external(st *funcState, site ssa.CallInstruction, callee *ssa.Function, args []arg, res ssa.Value) {
	name := callee.String()
	// results: may be anything reachable from the arguments
	if res != nil && (mayCarry(res.Type()) || externalSubslicers[name]) {
		s := Set{}
		for i, ar := range args {
			if externalSubslicers[name] && i > 0 {
				break
			}
			s.addAll(ar.set)
		}
		a.setv(st, res, s)
	}
	for _, k := range a.externalMutates(callee) {
		if k < len(args) {
			for l := range args[k].set {
				if a.labels[l].Kind == KGlobOwn {
					l = a.glob(a.labels[l].Glob)
				}
				kind := a.labels[l].Kind
				if kind == KGlob || kind == KCaller || kind == KSym || kind == KSymDeref {
					a.ExternalMutators[name] = true
					a.addEffect(st, &Effect{Kind: "mod", Target: l, Field: "via " + name, Pos: site.Pos(), Fn: st.fn, What: "standard-library call that mutates its receiver/argument"})
				}
			}
		}
	}
	// callbacks handed to the standard library are invoked
	once := name == "(*sync.Once).Do"
	for i, ar := range args {
		for t := range ar.ft {
			all := Set{}
			for j, o := range args {
				if j != i {
					all.addAll(o.set)
				}
			}
			if t.Fn != nil {
				n := len(t.Fn.Params)
				cargs := make([]arg, n)
				for k := range cargs {
					cargs[k] = arg{set: all}
				}
				a.apply(st, site, t.Fn, cargs, nil, once)
			} else if t.Param >= 0 {
				a.addDeferred(st, t.Param, []arg{{set: all}, {set: all}, {set: all}}, site)
			}
		}
	}
}

// resliceRoots finds the re-slicing expressions x[:k] (k below the length: a constant) that the
// first argument of an append goes back to through merges and earlier appends.
func resliceRoots(v ssa.Value, depth int, seen map[ssa.Value]bool) []*ssa.Slice {
	if depth > 6 || seen[v] {
		return nil
	}
	seen[v] = true
	switch x := v.(type) {
	case *ssa.Slice:
		if _, isSliceT := x.X.Type().Underlying().(*types.Slice); isSliceT && x.High != nil {
			if _, isConst := x.High.(*ssa.Const); isConst {
				return []*ssa.Slice{x}
			}
		}
	case *ssa.Phi:
		var out []*ssa.Slice
		for _, e := range x.Edges {
			out = append(out, resliceRoots(e, depth+1, seen)...)
		}
		return out
	case *ssa.Call:
		if b, ok := x.Call.Value.(*ssa.Builtin); ok && b.Name() == "append" && len(x.Call.Args) > 0 {
			return resliceRoots(x.Call.Args[0], depth+1, seen)
		}
	}
	return nil
}
