// ddscan: developer tool - lists partial operations in reachable module code.
package main

import (
	"fmt"
	"go/token"
	"go/types"
	"os"

	"ddcheck/core"

	"golang.org/x/tools/go/ssa"
)

func main() {
	p, err := core.Load("/repo")
	if err != nil {
		fmt.Println(err)
		os.Exit(2)
	}
	c := core.NewCanon(p)
	reach := p.ReachableFrom(p.EntryPoints()...)
	for _, fn := range p.ModFunctions(false) {
		if !reach[fn] {
			continue
		}
		for _, b := range fn.Blocks {
			for _, in := range b.Instrs {
				switch x := in.(type) {
				case *ssa.TypeAssert:
					if !x.CommaOk {
						fmt.Printf("ASSERT\t%s\t%s\t%s\n", p.Pos(x.Pos()), core.ShortKey(fn), c.Of(x))
					}
				case *ssa.BinOp:
					if x.Op == token.QUO || x.Op == token.REM {
						if _, isC := x.Y.(*ssa.Const); !isC {
							if b, ok := x.Type().Underlying().(*types.Basic); ok && b.Info()&types.IsInteger != 0 {
								fmt.Printf("DIV\t%s\t%s\t%s\n", p.Pos(x.Pos()), core.ShortKey(fn), c.Of(x))
							}
						}
					}
				case *ssa.Panic:
					fmt.Printf("PANIC\t%s\t%s\n", p.Pos(x.Pos()), core.ShortKey(fn))
				case *ssa.Slice:
					lo, hi := "", ""
					if x.Low != nil {
						lo = c.Of(x.Low)
					}
					if x.High != nil {
						hi = c.Of(x.High)
					}
					if _, isAlloc := x.X.(*ssa.Alloc); isAlloc && lo == "" && hi == "" {
						continue
					}
					fmt.Printf("SLICE\t%s\t%s\t%s [%s:%s]\n", p.Pos(x.Pos()), core.ShortKey(fn), c.Of(x.X), lo, hi)
				case *ssa.IndexAddr:
					if k, ok := x.Index.(*ssa.Const); ok {
						if _, isAlloc := x.X.(*ssa.Alloc); isAlloc {
							continue
						}
						fmt.Printf("CIDX\t%s\t%s\t%s [%s]\n", p.Pos(x.Pos()), core.ShortKey(fn), c.Of(x.X), k.Value)
					}
				case *ssa.Index:
					if k, ok := x.Index.(*ssa.Const); ok {
						fmt.Printf("CIDX\t%s\t%s\t%s [%s]\n", p.Pos(x.Pos()), core.ShortKey(fn), c.Of(x.X), k.Value)
					}
				case *ssa.Go:
					fmt.Printf("GO\t%s\t%s\n", p.Pos(x.Pos()), core.ShortKey(fn))
				}
			}
		}
	}
}
