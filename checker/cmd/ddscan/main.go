// ddscan: developer tool - lists constructs of interest (map ranges, ...).
package main

import (
	"fmt"
	"go/types"
	"os"

	"ddcheck/core"

	"golang.org/x/tools/go/ssa"
)

func main() {
	p, err := core.Load("/repo")
	if err != nil {
		fmt.Println(err)
		os.Exit(2)
	}
	reach := p.ReachableFrom(p.EntryPoints()...)
	for _, fn := range p.ModFunctions(false) {
		for _, b := range fn.Blocks {
			for _, in := range b.Instrs {
				if rg, ok := in.(*ssa.Range); ok {
					if _, isMap := rg.X.Type().Underlying().(*types.Map); isMap {
						fmt.Printf("%s\t%s\treachable=%v\t%s\n", p.Pos(rg.Pos()), core.ShortKey(fn), reach[fn], core.NewCanon(p).Of(rg.X))
					}
				}
			}
		}
	}
}
