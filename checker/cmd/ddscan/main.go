// ddscan: developer tool - lists constructs of interest.
package main

import (
	"fmt"
	"os"
	"strings"

	"ddcheck/core"

	"golang.org/x/tools/go/ssa"
)

func main() {
	p, err := core.Load("/repo")
	if err != nil {
		fmt.Println(err)
		os.Exit(2)
	}
	c := core.NewCanon(p)
	fields := []string{".Elements", ".TextBlocks", ".TextElements", ".textNodes", ".TextNodes"}
	for _, fn := range p.ModFunctions(false) {
		for _, b := range fn.Blocks {
			for _, in := range b.Instrs {
				if st, ok := in.(*ssa.Store); ok {
					a := c.Of(st.Addr)
					for _, f := range fields {
						if strings.HasSuffix(a, f) {
							fmt.Printf("%s\t%s\t%s = %s\n", p.Pos(st.Pos()), core.ShortKey(fn), a, c.Of(st.Val))
						}
					}
					// element stores into these slices
					if ia, ok := st.Addr.(*ssa.IndexAddr); ok {
						x := c.Of(ia.X)
						for _, f := range fields {
							if strings.HasSuffix(x, f) {
								fmt.Printf("%s\t%s\tELEM %s[...] = %s\n", p.Pos(st.Pos()), core.ShortKey(fn), x, c.Of(st.Val))
							}
						}
					}
				}
				if call, ok := in.(*ssa.Call); ok {
					if f := call.Call.StaticCallee(); f != nil && (strings.HasPrefix(f.String(), "sort.") || strings.HasPrefix(f.String(), "slices.")) {
						fmt.Printf("%s\t%s\tSORT %s\n", p.Pos(call.Pos()), core.ShortKey(fn), c.Of(call))
					}
					if b, ok := call.Call.Value.(*ssa.Builtin); ok && b.Name() == "copy" {
						fmt.Printf("%s\t%s\tCOPY %s\n", p.Pos(call.Pos()), core.ShortKey(fn), c.Of(call))
					}
				}
			}
		}
	}
}
