package main

import (
	"fmt"
	"os"

	"ddcheck/core"
	"ddcheck/props"
)

func main() {
	p, err := core.Load(os.Args[1])
	if err != nil {
		fmt.Println(err)
		os.Exit(1)
	}
	props.Prepare(p)
	if os.Args[2] == "-loops" {
		props.DebugLoops(p)
		return
	}
	props.DebugConv(p, os.Args[2])
}
