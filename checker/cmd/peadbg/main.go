package main

import (
	"fmt"
	"os"
	"strings"

	"ddcheck/core"
	"ddcheck/pea"

	"golang.org/x/tools/go/ssa"
)

func main() {
	p, err := core.Load(os.Args[1])
	if err != nil {
		fmt.Println(err)
		os.Exit(1)
	}
	a := pea.New(p)
	a.Run()
	for _, fn := range p.ModFunctions(false) {
		if !strings.Contains(fn.String(), os.Args[2]) {
			continue
		}
		fmt.Println("==", fn, "analysed:", a.Analysed(fn))
		for _, e := range a.Effects(fn) {
			fmt.Printf("  EFFECT %s target=%v field=%s what=%s\n", e.Kind, a.Label(e.Target).Name, e.Field, e.What)
		}
		for _, b := range fn.Blocks {
			for _, in := range b.Instrs {
				switch x := in.(type) {
				case *ssa.MapUpdate:
					fmt.Println("  MAPUPDATE", x, "labels of map:", a.ValueLabels(x.Map))
				case *ssa.Store:
					fmt.Println("  STORE", x, "val labels:", a.ValueLabels(x.Val))
				}
			}
		}
	}
}
