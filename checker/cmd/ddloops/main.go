// ddloops: developer tool - classifies loops and recursive cycles of reachable module code.
package main

import (
	"fmt"
	"os"
	"sort"

	"ddcheck/core"

	"golang.org/x/tools/go/ssa"
)

func main() {
	p, err := core.Load("/repo")
	if err != nil {
		fmt.Println(err)
		os.Exit(2)
	}
	c := core.NewCanon(p)
	reach := p.ReachableFrom(p.EntryPoints()...)
	anc := func(f *ssa.Function) bool { return core.IsAncestorFn(f) }
	kinds := map[string]int{}
	for _, fn := range p.ModFunctions(false) {
		if !reach[fn] {
			continue
		}
		loops, red := core.NaturalLoops(fn)
		if !red {
			fmt.Printf("IRREDUCIBLE\t%s\n", core.ShortKey(fn))
		}
		for _, l := range loops {
			v := c.TerminationOf(l, anc)
			kinds[v.Kind]++
			pos := "-"
			for _, in := range l.Header.Instrs {
				if in.Pos().IsValid() {
					pos = p.Pos(in.Pos())
					break
				}
			}
			if v.Kind == "" || len(os.Args) > 1 {
				fmt.Printf("%s\t%s\t%s\t[%s]\t%s\t%s\n", pos, core.ShortKey(fn), l.Header.Comment, v.Kind, v.Desc, v.Reason)
			}
		}
	}
	fmt.Println(kinds)
	// recursion
	cg := p.CallGraph()
	idx := map[*ssa.Function]int{}
	low := map[*ssa.Function]int{}
	on := map[*ssa.Function]bool{}
	var st []*ssa.Function
	n := 0
	var sccs [][]*ssa.Function
	var dfs func(f *ssa.Function)
	dfs = func(f *ssa.Function) {
		n++
		idx[f], low[f] = n, n
		st = append(st, f)
		on[f] = true
		if node := cg.Nodes[f]; node != nil {
			for _, e := range node.Out {
				g := e.Callee.Func
				if !reach[g] {
					continue
				}
				if idx[g] == 0 {
					dfs(g)
					if low[g] < low[f] {
						low[f] = low[g]
					}
				} else if on[g] && idx[g] < low[f] {
					low[f] = idx[g]
				}
			}
		}
		if low[f] == idx[f] {
			var comp []*ssa.Function
			for {
				g := st[len(st)-1]
				st = st[:len(st)-1]
				on[g] = false
				comp = append(comp, g)
				if g == f {
					break
				}
			}
			self := false
			if len(comp) == 1 {
				if node := cg.Nodes[f]; node != nil {
					for _, e := range node.Out {
						if e.Callee.Func == f {
							self = true
						}
					}
				}
			}
			if len(comp) > 1 || self {
				sccs = append(sccs, comp)
			}
		}
	}
	var roots []*ssa.Function
	for f := range reach {
		roots = append(roots, f)
	}
	sort.Slice(roots, func(i, j int) bool { return core.FuncKey(roots[i]) < core.FuncKey(roots[j]) })
	for _, f := range roots {
		if idx[f] == 0 {
			dfs(f)
		}
	}
	for _, comp := range sccs {
		mod := 0
		var names []string
		for _, f := range comp {
			if core.IsModPkg(core.FnPkgPath(f)) {
				mod++
			}
			names = append(names, core.ShortKey(f))
		}
		sort.Strings(names)
		if mod > 0 {
			fmt.Printf("SCC mod=%d size=%d: %v\n", mod, len(comp), names)
		}
	}
}
