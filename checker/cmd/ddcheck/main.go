// ddcheck decides the given properties of go-domdistiller by static analysis of /repo's
// current working tree. Nothing from /repo is executed.
package main

import (
	"encoding/json"
	"flag"
	"fmt"
	"os"
	"runtime/debug"
	"runtime/pprof"
	"strconv"
	"time"

	"ddcheck/core"
	"ddcheck/props"
)

func main() {
	prop := flag.String("prop", "", "property id, e.g. C18")
	tier := flag.String("tier", "", "quick|thorough (default: $VERIF_TIER or quick)")
	repo := flag.String("repo", "/repo", "repository working tree to analyse")
	verif := flag.String("verif", "/verif", "verification directory (rules, evidence, findings)")
	replay := flag.String("replay", "", "findings file to replay (re-runs the check and shows that obligation)")
	cpuprof := flag.String("cpuprofile", "", "write a CPU profile (development)")
	flag.Parse()
	if *cpuprof != "" {
		f, err := os.Create(*cpuprof)
		if err == nil {
			pprof.StartCPUProfile(f)
			defer pprof.StopCPUProfile()
		}
	}
	if *tier == "" {
		*tier = os.Getenv("VERIF_TIER")
	}
	if *tier != "thorough" {
		*tier = "quick"
	}
	seed := int64(0)
	if s := os.Getenv("VERIF_SEED"); s != "" {
		seed, _ = strconv.ParseInt(s, 10, 64)
	}
	var replayKey struct {
		Property   string           `json:"property"`
		Obligation *core.Obligation `json:"obligation"`
	}
	if *replay != "" {
		b, err := os.ReadFile(*replay)
		if err != nil {
			fmt.Println("cannot read replay file:", err)
			os.Exit(2)
		}
		if err := json.Unmarshal(b, &replayKey); err != nil {
			fmt.Println("bad replay file:", err)
			os.Exit(2)
		}
		*prop = replayKey.Property
	}
	fn := props.Registry[*prop]
	if fn == nil {
		fmt.Printf("unknown property %q\n", *prop)
		os.Exit(2)
	}
	started := time.Now()
	rep := core.NewReport(*prop, *tier)
	var prog *core.Program
	func() {
		defer func() {
			if e := recover(); e != nil {
				rep.Fatal("analysis panic: %v\n%s", e, debug.Stack())
			}
		}()
		var err error
		prog, err = core.Load(*repo)
		if err != nil {
			rep.Fatal("load: %v", err)
			return
		}
		fn(prog, rep)
	}()
	code := rep.Finish(*verif, prog, started, seed)
	if *replay != "" && replayKey.Obligation != nil {
		fmt.Printf("-- replay of %s %s:\n", replayKey.Obligation.Rule, replayKey.Obligation.Key)
		found := false
		for _, o := range rep.Obls {
			if o.Rule == replayKey.Obligation.Rule && o.Key == replayKey.Obligation.Key {
				b, _ := json.MarshalIndent(o, "", " ")
				fmt.Println(string(b))
				found = true
			}
		}
		if !found {
			fmt.Println("obligation no longer exists on this tree")
		}
	}
	pprof.StopCPUProfile()
	os.Exit(code)
}
