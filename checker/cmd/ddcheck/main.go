// ddcheck decides the given properties of go-domdistiller by static analysis of /repo's
// current working tree. Nothing from /repo is executed.
package main

import (
	"encoding/json"
	"flag"
	"fmt"
	"os"
	"runtime/debug"
	"runtime/pprof"
	"sort"
	"strconv"
	"strings"
	"time"

	"ddcheck/core"
	"ddcheck/props"
)

func main() {
	prop := flag.String("prop", "", "property id, e.g. C18")
	tier := flag.String("tier", "", "quick|thorough (default: $VERIF_TIER or quick)")
	repo := flag.String("repo", "/repo", "repository working tree to analyse")
	verif := flag.String("verif", "/verif", "verification directory (rules, evidence, findings)")
	replay := flag.String("replay", "", "findings file to replay (re-runs the check and shows that obligation)")
	cpuprof := flag.String("cpuprofile", "", "write a CPU profile (development)")
	flag.Parse()
	if *cpuprof != "" {
		f, err := os.Create(*cpuprof)
		if err == nil {
			pprof.StartCPUProfile(f)
			defer pprof.StopCPUProfile()
		}
	}
	if *tier == "" {
		*tier = os.Getenv("VERIF_TIER")
	}
	if *tier != "thorough" {
		*tier = "quick"
	}
	seed := int64(0)
	if s := os.Getenv("VERIF_SEED"); s != "" {
		seed, _ = strconv.ParseInt(s, 10, 64)
	}
	var replayKey struct {
		Property   string           `json:"property"`
		Obligation *core.Obligation `json:"obligation"`
	}
	if *replay != "" {
		b, err := os.ReadFile(*replay)
		if err != nil {
			fmt.Println("cannot read replay file:", err)
			os.Exit(2)
		}
		if err := json.Unmarshal(b, &replayKey); err != nil {
			fmt.Println("bad replay file:", err)
			os.Exit(2)
		}
		*prop = replayKey.Property
	}
	ids := []string{*prop}
	if *prop == "all" {
		ids = ids[:0]
		for id := range props.Registry {
			ids = append(ids, id)
		}
		sort.Strings(ids)
	} else if strings.Contains(*prop, ",") {
		ids = strings.Split(*prop, ",")
	}
	for _, id := range ids {
		if props.Registry[id] == nil {
			fmt.Printf("unknown property %q\n", id)
			os.Exit(2)
		}
	}
	// one load serves all requested properties (development matrices); each property gets
	// its own report, evidence file and exit status, the process exits with the worst.
	var prog *core.Program
	var loadErr error
	func() {
		defer func() {
			if e := recover(); e != nil {
				loadErr = fmt.Errorf("load panic: %v\n%s", e, debug.Stack())
			}
		}()
		prog, loadErr = core.Load(*repo)
	}()
	code := 0
	var rep *core.Report
	for _, id := range ids {
		started := time.Now()
		rep = core.NewReport(id, *tier)
		func() {
			defer func() {
				if e := recover(); e != nil {
					rep.Fatal("analysis panic: %v\n%s", e, debug.Stack())
				}
			}()
			if loadErr != nil {
				rep.Fatal("load: %v", loadErr)
				return
			}
			props.Prepare(prog)
			props.Registry[id](prog, rep)
			if *tier == "thorough" {
				props.ThoroughSelfCheck(prog, rep)
			}
		}()
		if c := rep.Finish(*verif, prog, started, seed); c > code {
			code = c
		}
	}
	if *replay != "" && replayKey.Obligation != nil {
		fmt.Printf("-- replay of %s %s:\n", replayKey.Obligation.Rule, replayKey.Obligation.Key)
		found := false
		for _, o := range rep.Obls {
			if o.Rule == replayKey.Obligation.Rule && o.Key == replayKey.Obligation.Key {
				b, _ := json.MarshalIndent(o, "", " ")
				fmt.Println(string(b))
				found = true
			}
		}
		if !found {
			fmt.Println("obligation no longer exists on this tree")
		}
	}
	pprof.StopCPUProfile()
	os.Exit(code)
}
