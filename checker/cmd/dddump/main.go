// dddump: developer tool — prints decision paths / canonical atoms of a function.
package main

import (
	"flag"
	"fmt"
	"os"
	"regexp"
	"sort"

	"ddcheck/core"

	"golang.org/x/tools/go/ssa"
)

func main() {
	repo := flag.String("repo", "/repo", "")
	fnKey := flag.String("fn", "", "function key")
	outc := flag.String("outcome", "return", "return | call:<key>")
	ssaDump := flag.Bool("ssa", false, "dump SSA")
	iter := flag.Int("iter", 0, "iteration mode: number of the loop (by header order)")
	events := flag.String("events", "", "regexp of callee names recorded as events")
	inl := flag.Bool("inline", false, "analyse the inlined clone (transparent callees expanded)")
	flag.Parse()
	p, err := core.Load(*repo)
	if err != nil {
		fmt.Println(err)
		os.Exit(2)
	}
	fn := p.Func(*fnKey)
	if fn == nil {
		fmt.Println("no such function; candidates:")
		for f := range p.AllFunctions() {
			if core.IsModPkg(core.FnPkgPath(f)) {
				fmt.Println("  ", f.String())
			}
		}
		os.Exit(2)
	}
	if *inl {
		fn = p.Inlined(fn)
		fmt.Println("REGION:")
		for _, f := range p.Region(fn) {
			fmt.Println("  ", core.ShortKey(f))
		}
	}
	if *ssaDump {
		fn.WriteTo(os.Stdout)
	}
	opts := core.DecisionOpts{Outcome: func(in ssa.Instruction, c *core.Canon) (string, bool) {
		if len(*outc) > 5 && (*outc)[:5] == "call:" {
			if core.IsCallTo(in, (*outc)[5:]) {
				call := in.(ssa.CallInstruction)
				s := ""
				for i, a := range call.Common().Args {
					if i > 0 {
						s += ","
					}
					s += c.Of(a)
				}
				return s, true
			}
			return "", false
		}
		if r, ok := in.(*ssa.Return); ok {
			s := ""
			for i, a := range r.Results {
				if i > 0 {
					s += ","
				}
				s += c.Of(a)
			}
			return "return " + s, true
		}
		return "", false
	}}
	if *events != "" {
		re := regexp.MustCompile(*events)
		opts.Event = func(in ssa.Instruction, c *core.Canon) (string, bool) {
			if call, ok := in.(ssa.CallInstruction); ok {
				if v, ok := call.(ssa.Value); ok {
					s := c.Of(v)
					if re.MatchString(s) {
						return s, true
					}
				} else if re.MatchString(core.CalleeKey(call)) {
					return core.CalleeKey(call), true
				}
			}
			if st, ok := in.(*ssa.Store); ok {
				s := "store " + c.Of(st.Addr) + " = " + c.Of(st.Val)
				if re.MatchString(s) {
					return s, true
				}
			}
			return "", false
		}
	}
	if *iter > 0 {
		n := 0
		for _, b := range fn.Blocks {
			isHeader := false
			for _, pr := range b.Preds {
				if b.Dominates(pr) {
					isHeader = true
				}
			}
			if isHeader {
				n++
				if n == *iter {
					opts.IterateAt = b
				}
			}
		}
	}
	paths, atoms, err := core.EnumerateDecisions(p, fn, opts)
	if err != nil {
		fmt.Println("ERR", err)
	}
	var as []string
	for a := range atoms {
		as = append(as, a)
	}
	sort.Strings(as)
	fmt.Println("ATOMS:")
	for _, a := range as {
		fmt.Println("  ", a)
	}
	fmt.Println("PATHS:", len(paths))
	for i, pa := range paths {
		fmt.Printf("%3d %s  [%s]\n", i, pa.String(), pa.Pos)
	}
}
