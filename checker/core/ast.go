package core

import (
	"go/ast"
	"go/constant"
	"go/token"
	"go/types"
	"sort"

	"golang.org/x/tools/go/packages"
)

// SwitchTable is the table extracted from `switch <tag> { case "a","b": ... }`.
type SwitchTable struct {
	Stmt    *ast.SwitchStmt
	Clauses []*SwitchClause
	ByLabel map[string]*SwitchClause
}

type SwitchClause struct {
	Labels  []string // constant string labels; empty for default
	Default bool
	Body    []ast.Stmt
	Clause  *ast.CaseClause
}

// StringSwitches returns the string-constant switches inside node whose tag expression
// satisfies tagMatch (nil = any), in source order.
func StringSwitches(pkg *packages.Package, node ast.Node, tagMatch func(ast.Expr) bool) []*SwitchTable {
	var out []*SwitchTable
	ast.Inspect(node, func(n ast.Node) bool {
		sw, ok := n.(*ast.SwitchStmt)
		if !ok || sw.Tag == nil {
			return true
		}
		if tagMatch != nil && !tagMatch(sw.Tag) {
			return true
		}
		t := &SwitchTable{Stmt: sw, ByLabel: map[string]*SwitchClause{}}
		allStr := true
		for _, s := range sw.Body.List {
			cc := s.(*ast.CaseClause)
			c := &SwitchClause{Body: cc.Body, Clause: cc, Default: cc.List == nil}
			for _, e := range cc.List {
				tv, ok := pkg.TypesInfo.Types[e]
				if !ok || tv.Value == nil || tv.Value.Kind() != constant.String {
					allStr = false
					continue
				}
				l := constant.StringVal(tv.Value)
				c.Labels = append(c.Labels, l)
				t.ByLabel[l] = c
			}
			t.Clauses = append(t.Clauses, c)
		}
		if allStr {
			out = append(out, t)
		}
		return true
	})
	return out
}

// IdentNamed returns a matcher for expressions that are the identifier name.
func IdentNamed(name string) func(ast.Expr) bool {
	return func(e ast.Expr) bool {
		id, ok := ast.Unparen(e).(*ast.Ident)
		return ok && id.Name == name
	}
}

// MapLiteralKeys returns the constant string keys of the composite literal initialising the
// package-level variable name in pkg (nil if not found), sorted.
func MapLiteralKeys(pkg *packages.Package, name string) ([]string, map[string]ast.Expr) {
	for _, f := range pkg.Syntax {
		for _, d := range f.Decls {
			gd, ok := d.(*ast.GenDecl)
			if !ok || gd.Tok != token.VAR {
				continue
			}
			for _, sp := range gd.Specs {
				vs := sp.(*ast.ValueSpec)
				for i, n := range vs.Names {
					if n.Name != name || i >= len(vs.Values) {
						continue
					}
					cl, ok := vs.Values[i].(*ast.CompositeLit)
					if !ok {
						return nil, nil
					}
					vals := map[string]ast.Expr{}
					var keys []string
					for _, el := range cl.Elts {
						kv, ok := el.(*ast.KeyValueExpr)
						var kexpr ast.Expr = el
						var vexpr ast.Expr
						if ok {
							kexpr, vexpr = kv.Key, kv.Value
						}
						tv, ok := pkg.TypesInfo.Types[kexpr]
						if !ok || tv.Value == nil || tv.Value.Kind() != constant.String {
							continue
						}
						k := constant.StringVal(tv.Value)
						keys = append(keys, k)
						vals[k] = vexpr
					}
					sort.Strings(keys)
					return keys, vals
				}
			}
		}
	}
	return nil, nil
}

// ConstStringOf evaluates a constant string expression.
func ConstStringOf(pkg *packages.Package, e ast.Expr) (string, bool) {
	tv, ok := pkg.TypesInfo.Types[e]
	if !ok || tv.Value == nil || tv.Value.Kind() != constant.String {
		return "", false
	}
	return constant.StringVal(tv.Value), true
}

// CalleeObj resolves the function object called by a call expression (nil for dynamic calls).
func CalleeObj(pkg *packages.Package, call *ast.CallExpr) *types.Func {
	var id *ast.Ident
	switch f := ast.Unparen(call.Fun).(type) {
	case *ast.Ident:
		id = f
	case *ast.SelectorExpr:
		id = f.Sel
	case *ast.IndexExpr:
		if x, ok := f.X.(*ast.Ident); ok {
			id = x
		} else if x, ok := f.X.(*ast.SelectorExpr); ok {
			id = x.Sel
		}
	}
	if id == nil {
		return nil
	}
	fn, _ := pkg.TypesInfo.Uses[id].(*types.Func)
	return fn
}

// FuncObjKey renders pkgpath.Name or pkgpath.(Recv).Name for a function object.
func FuncObjKey(fn *types.Func) string {
	if fn == nil {
		return ""
	}
	sig := fn.Type().(*types.Signature)
	if r := sig.Recv(); r != nil {
		n := NamedOf(r.Type())
		if n != nil && n.Obj().Pkg() != nil {
			return n.Obj().Pkg().Path() + ".(" + n.Obj().Name() + ")." + fn.Name()
		}
		return "(" + r.Type().String() + ")." + fn.Name()
	}
	if fn.Pkg() == nil {
		return fn.Name()
	}
	return fn.Pkg().Path() + "." + fn.Name()
}
