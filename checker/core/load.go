// Package core holds the shared plumbing of ddcheck: loading /repo, SSA, call graph,
// obligations, evidence and the generic CFG / table helpers used by the property rules.
package core

import (
	"fmt"
	"go/ast"
	"go/token"
	"go/types"
	"os"
	"regexp"
	"sort"
	"strings"
	"time"

	"golang.org/x/tools/go/callgraph"
	"golang.org/x/tools/go/callgraph/cha"
	"golang.org/x/tools/go/callgraph/vta"
	"golang.org/x/tools/go/packages"
	"golang.org/x/tools/go/ssa"
	"golang.org/x/tools/go/ssa/ssautil"
)

const ModPath = "github.com/markusmobius/go-domdistiller"

// Program is the loaded, type-checked and SSA-built view of /repo's working tree.
type Program struct {
	RepoDir  string
	Fset     *token.FileSet
	Pkgs     []*packages.Package          // module packages (roots)
	AllPkgs  map[string]*packages.Package // every package in the import closure
	Prog     *ssa.Program
	SSAPkgs  map[string]*ssa.Package // by import path
	LoadTime time.Duration

	cg      *callgraph.Graph
	chaCG   *callgraph.Graph
	allFns  map[*ssa.Function]bool
	fnIndex map[string]*ssa.Function

	inlined    map[*ssa.Function]*ssa.Function   // original -> inlined clone
	inlinedOf  map[*ssa.Function]*ssa.Function   // clone -> original
	regionOf   map[*ssa.Function][]*ssa.Function // functions expanded into the clone
	inlRegions map[*ssa.Function][]*InlRegion

	globalRx map[*ssa.Global]string // unexported package-level regexps of the module, by pattern

	nonNegFields map[any]bool // integer fields that only ever hold non-negative values (loops.go)

	fieldWriters map[fieldKey]map[*ssa.Function]bool // functions with a direct store to a struct field
	ptrWriters   map[string]map[*ssa.Function]bool   // functions storing through a plain pointer, by pointee type
	mayWriteMemo map[fieldKey]map[*ssa.Function]bool
}

// GlobalRegexp returns the pattern of an unexported package-level variable of the module that
// holds a compiled regular expression: it must be written exactly once, by its initialiser,
// with regexp.MustCompile/Compile of a constant. Such variables are named by their pattern in
// canonical forms (their identifier is private and may be renamed freely).
func (p *Program) GlobalRegexp(g *ssa.Global) (string, bool) {
	s, ok := p.GlobalConst(g)
	if ok && strings.HasPrefix(s, "rx‹") {
		return strings.TrimSuffix(strings.TrimPrefix(s, "rx‹"), "›"), true
	}
	return "", false
}

// GlobalConst renders an unexported package-level variable of the module by its content when
// the content is fixed: the variable is stored exactly once, by its initialiser, with a compiled
// constant regular expression (rx‹pattern›), a map literal with constant keys and values
// (set‹..› when all values are struct{}{} or true, map‹k:v,..› otherwise, keys sorted) or a
// slice/array literal of constants (list‹..›), and no module code writes through the variable.
// The identifier of such a table is private and may be renamed freely; its content is what the
// properties depend on.
func (p *Program) GlobalConst(g *ssa.Global) (string, bool) {
	if p.globalRx == nil {
		p.globalRx = map[*ssa.Global]string{}
		stores := map[*ssa.Global][]*ssa.Store{}
		mutated := map[*ssa.Global]bool{}
		for fn := range p.AllFunctions() {
			if !IsModPkg(FnPkgPath(fn)) {
				continue
			}
			for _, b := range fn.Blocks {
				for _, in := range b.Instrs {
					switch x := in.(type) {
					case *ssa.Store:
						if gl, ok := x.Addr.(*ssa.Global); ok {
							stores[gl] = append(stores[gl], x)
						}
					case *ssa.UnOp:
						gl, ok := x.X.(*ssa.Global)
						if !ok || x.Op != token.MUL || x.Referrers() == nil {
							continue
						}
						for _, ref := range *x.Referrers() {
							switch y := ref.(type) {
							case *ssa.MapUpdate:
								if y.Map == ssa.Value(x) {
									mutated[gl] = true
								}
							case *ssa.IndexAddr:
								if y.Referrers() != nil {
									for _, r2 := range *y.Referrers() {
										if st, ok := r2.(*ssa.Store); ok && st.Addr == ssa.Value(y) {
											mutated[gl] = true
										}
									}
								}
							}
						}
					}
				}
			}
		}
		var constOf func(v ssa.Value) (string, bool)
		constOf = func(v ssa.Value) (string, bool) {
			if c, ok := v.(*ssa.Const); ok {
				if c.Value == nil {
					return "zero", true
				}
				return c.Value.ExactString(), true
			}
			// a slice literal of constants: {a,b}
			if sl, ok := v.(*ssa.Slice); ok && sl.Low == nil && sl.High == nil {
				al, isAl := sl.X.(*ssa.Alloc)
				if !isAl || al.Referrers() == nil {
					return "", false
				}
				arr, isArr := al.Type().(*types.Pointer).Elem().Underlying().(*types.Array)
				if !isArr || arr.Len() > 32 {
					return "", false
				}
				elems := make([]string, arr.Len())
				for _, ref := range *al.Referrers() {
					switch y := ref.(type) {
					case *ssa.IndexAddr:
						idx, isC := ConstInt(y.Index)
						if !isC || idx < 0 || idx >= arr.Len() || y.Referrers() == nil {
							return "", false
						}
						// an element that is a struct literal of constants: {f0,f1,..}
						if st, isStruct := arr.Elem().Underlying().(*types.Struct); isStruct {
							fields := make([]string, st.NumFields())
							for i := range fields {
								fields[i] = "zero"
							}
							for _, r2 := range *y.Referrers() {
								fa, isFA := r2.(*ssa.FieldAddr)
								if !isFA || fa.Referrers() == nil {
									return "", false
								}
								for _, r3 := range *fa.Referrers() {
									sf, isSt := r3.(*ssa.Store)
									if !isSt || sf.Addr != ssa.Value(fa) {
										return "", false
									}
									e, isC := constOf(sf.Val)
									if !isC {
										return "", false
									}
									fields[fa.Field] = e
								}
							}
							elems[idx] = "{" + strings.Join(fields, ",") + "}"
							continue
						}
						for _, r2 := range *y.Referrers() {
							st, isSt := r2.(*ssa.Store)
							if !isSt || st.Addr != ssa.Value(y) {
								return "", false
							}
							e, isC := constOf(st.Val)
							if !isC {
								return "", false
							}
							elems[idx] = e
						}
					case *ssa.Slice, *ssa.DebugRef:
					default:
						return "", false
					}
				}
				for _, e := range elems {
					if e == "" {
						return "", false
					}
				}
				return "{" + strings.Join(elems, ",") + "}", true
			}
			return "", false
		}
		for gl, sts := range stores {
			if len(sts) != 1 || mutated[gl] || gl.Object() == nil || gl.Object().Exported() || sts[0].Parent().Name() != "init" {
				continue
			}
			v := sts[0].Val
			if ex, ok := v.(*ssa.Extract); ok {
				v = ex.Tuple
			}
			switch x := v.(type) {
			case *ssa.Call:
				if len(x.Call.Args) == 1 && IsCallTo(x, "regexp.MustCompile", "regexp.Compile") {
					if pat, ok := ConstString(x.Call.Args[0]); ok {
						p.globalRx[gl] = RxName(pat)
					}
				}
			case *ssa.MakeMap:
				if x.Referrers() == nil {
					continue
				}
				var ents []string
				ok, allUnit := true, true
				for _, ref := range *x.Referrers() {
					switch y := ref.(type) {
					case *ssa.MapUpdate:
						k, ok1 := constOf(y.Key)
						val, ok2 := constOf(y.Value)
						if !ok1 || !ok2 {
							ok = false
							continue
						}
						if val != "zero" && val != "true" {
							allUnit = false
						}
						ents = append(ents, k+"\x00"+val)
					case *ssa.Store:
						if y != sts[0] {
							ok = false
						}
					case *ssa.DebugRef:
					default:
						ok = false
					}
				}
				if !ok {
					continue
				}
				sort.Strings(ents)
				for i, e := range ents {
					kv := strings.SplitN(e, "\x00", 2)
					if allUnit {
						ents[i] = kv[0]
					} else {
						ents[i] = kv[0] + ":" + kv[1]
					}
				}
				name := "map"
				if allUnit {
					name = "set"
				}
				p.globalRx[gl] = name + "‹" + strings.Join(ents, ",") + "›"
			case *ssa.Slice:
				// a slice literal of constants (or of struct literals of constants), rendered like
				// the literal itself: a list written in place and the same list kept in a private
				// table are the same thing
				if s, ok := constOf(x); ok {
					p.globalRx[gl] = s
				}
			}
		}
		// tables built by a set-builder helper from constant lists (isSetBuilder): second pass,
		// the lists may be other private tables
		constOfG := func(v ssa.Value) (string, bool) {
			var rec func(v ssa.Value) (string, bool)
			rec = func(v ssa.Value) (string, bool) {
				if ld, ok := v.(*ssa.UnOp); ok && ld.Op == token.MUL {
					if gl, ok := ld.X.(*ssa.Global); ok {
						if s, ok := p.globalRx[gl]; ok && strings.HasPrefix(s, "{") {
							return s, true
						}
					}
					return "", false
				}
				if s, ok := constOf(v); ok {
					return s, true
				}
				// a slice literal whose elements are loads of private lists
				sl, ok := v.(*ssa.Slice)
				if !ok || sl.Low != nil || sl.High != nil {
					return "", false
				}
				al, ok := sl.X.(*ssa.Alloc)
				if !ok || al.Referrers() == nil {
					return "", false
				}
				var parts []string
				for _, ref := range *al.Referrers() {
					switch y := ref.(type) {
					case *ssa.IndexAddr:
						if y.Referrers() == nil {
							return "", false
						}
						for _, r2 := range *y.Referrers() {
							st, isSt := r2.(*ssa.Store)
							if !isSt || st.Addr != ssa.Value(y) {
								return "", false
							}
							e, ok := rec(st.Val)
							if !ok {
								return "", false
							}
							parts = append(parts, e)
						}
					case *ssa.Slice, *ssa.DebugRef:
					default:
						return "", false
					}
				}
				return "{" + strings.Join(parts, ",") + "}", true
			}
			return rec(v)
		}
		for gl, sts := range stores {
			if _, done := p.globalRx[gl]; done || len(sts) != 1 || mutated[gl] || gl.Object() == nil || gl.Object().Exported() || sts[0].Parent().Name() != "init" {
				continue
			}
			call, ok := sts[0].Val.(*ssa.Call)
			if !ok {
				continue
			}
			callee := call.Call.StaticCallee()
			if callee == nil || !IsModPkg(FnPkgPath(callee)) || !isSetBuilder(callee) {
				continue
			}
			leaves := map[string]bool{}
			ok = true
			for _, a := range call.Call.Args {
				s, isC := constOfG(a)
				if !isC {
					ok = false
					break
				}
				for _, m := range reGoString.FindAllString(s, -1) {
					leaves[m] = true
				}
			}
			if !ok || len(leaves) == 0 {
				continue
			}
			var ks []string
			for k := range leaves {
				ks = append(ks, k)
			}
			sort.Strings(ks)
			p.globalRx[gl] = "set‹" + strings.Join(ks, ",") + "›"
		}
	}
	s, ok := p.globalRx[g]
	return s, ok
}

// isSetBuilder recognises, by shape, a module function that turns its (possibly nested, possibly
// variadic) slice parameters into a set: one map is made and returned, the function consists of
// complete range loops over the parameters and their elements and nothing else, and the only
// map update inserts the innermost element with a constant value. For such a function the keys
// of the result are exactly the leaf elements of the arguments - a summary read off the code,
// not obtained by evaluating it.
func isSetBuilder(fn *ssa.Function) bool {
	if fn == nil || len(fn.Blocks) == 0 || fn.Signature.Results().Len() != 1 || fn.Recover != nil {
		return false
	}
	if _, ok := fn.Signature.Results().At(0).Type().Underlying().(*types.Map); !ok {
		return false
	}
	var mk *ssa.MakeMap
	var updates []*ssa.MapUpdate
	loopSrc := map[ssa.Value]ssa.Value{} // index value (i+1) -> the slice whose length bounds it
	var idxAddrs []*ssa.IndexAddr
	for _, b := range fn.Blocks {
		for _, in := range b.Instrs {
			switch x := in.(type) {
			case *ssa.MakeMap:
				if mk != nil {
					return false
				}
				mk = x
			case *ssa.MapUpdate:
				updates = append(updates, x)
			case *ssa.IndexAddr:
				idxAddrs = append(idxAddrs, x)
			case *ssa.If:
				cmp, ok := x.Cond.(*ssa.BinOp)
				if !ok || cmp.Op != token.LSS {
					return false
				}
				inc, ok := cmp.X.(*ssa.BinOp)
				if !ok || inc.Op != token.ADD {
					return false
				}
				if one, ok := ConstInt(inc.Y); !ok || one != 1 {
					return false
				}
				ph, ok := inc.X.(*ssa.Phi)
				if !ok || len(ph.Edges) != 2 {
					return false
				}
				start := false
				for _, e := range ph.Edges {
					if k, ok := ConstInt(e); ok && k == -1 {
						start = true
					} else if e != ssa.Value(inc) {
						return false
					}
				}
				ln, ok := cmp.Y.(*ssa.Call)
				if !ok || !start {
					return false
				}
				if bi, ok := ln.Call.Value.(*ssa.Builtin); !ok || bi.Name() != "len" {
					return false
				}
				loopSrc[inc] = ln.Call.Args[0]
			case *ssa.Call:
				if bi, ok := x.Call.Value.(*ssa.Builtin); !ok || bi.Name() != "len" {
					return false
				}
			case *ssa.Return:
				if mk == nil || len(x.Results) != 1 || x.Results[0] != ssa.Value(mk) {
					return false
				}
			case *ssa.Phi, *ssa.BinOp, *ssa.UnOp, *ssa.Jump, *ssa.DebugRef:
			default:
				return false
			}
		}
	}
	if mk == nil || len(updates) != 1 || len(loopSrc) == 0 {
		return false
	}
	var elemOfParam func(v ssa.Value, depth int) bool
	elemOfParam = func(v ssa.Value, depth int) bool {
		if depth > 4 {
			return false
		}
		if _, ok := v.(*ssa.Parameter); ok {
			return true
		}
		ld, ok := v.(*ssa.UnOp)
		if !ok || ld.Op != token.MUL {
			return false
		}
		ia, ok := ld.X.(*ssa.IndexAddr)
		return ok && loopSrc[ia.Index] == ia.X && elemOfParam(ia.X, depth+1)
	}
	for _, ia := range idxAddrs {
		if loopSrc[ia.Index] != ia.X || !elemOfParam(ia.X, 0) {
			return false
		}
	}
	for _, src := range loopSrc {
		if !elemOfParam(src, 0) {
			return false
		}
	}
	u := updates[0]
	if u.Map != ssa.Value(mk) {
		return false
	}
	if _, isParam := u.Key.(*ssa.Parameter); isParam || !elemOfParam(u.Key, 0) {
		return false
	}
	if _, ok := u.Key.Type().Underlying().(*types.Basic); !ok {
		return false
	}
	k, ok := u.Value.(*ssa.Const)
	return ok && (k.Value == nil || k.Value.ExactString() == "true")
}

var reGoString = regexp.MustCompile(`"(?:[^"\\]|\\.)*"`)

// RxName is the canonical rendering of a private package-level regexp with the given pattern.
func RxName(pattern string) string { return "rx‹" + pattern + "›" }

// Load type-checks ./... in repoDir (tests excluded) and builds SSA for the whole program.
func Load(repoDir string) (*Program, error) {
	start := time.Now()
	env := append(os.Environ(),
		"GOFLAGS=-mod=mod", "GOPROXY=off", "GOSUMDB=off", "GOWORK=off", "GOTOOLCHAIN=local", "CGO_ENABLED=0")
	cfg := &packages.Config{
		Mode:  packages.LoadAllSyntax,
		Dir:   repoDir,
		Env:   env,
		Tests: false,
	}
	pkgs, err := packages.Load(cfg, "./...")
	if err != nil {
		return nil, fmt.Errorf("packages.Load: %w", err)
	}
	if len(pkgs) == 0 {
		return nil, fmt.Errorf("no packages loaded from %s", repoDir)
	}
	var errs []string
	all := map[string]*packages.Package{}
	packages.Visit(pkgs, nil, func(p *packages.Package) {
		all[p.PkgPath] = p
		for _, e := range p.Errors {
			errs = append(errs, e.Error())
		}
	})
	if len(errs) > 0 {
		sort.Strings(errs)
		if len(errs) > 10 {
			errs = errs[:10]
		}
		return nil, fmt.Errorf("type errors in the loaded program:\n  %s", strings.Join(errs, "\n  "))
	}
	nmod := 0
	for _, p := range pkgs {
		if p.PkgPath == ModPath || strings.HasPrefix(p.PkgPath, ModPath+"/") {
			nmod++
		}
	}
	if nmod < 24 {
		return nil, fmt.Errorf("only %d module packages loaded (expected >= 24): wrong directory or build failure", nmod)
	}
	prog, _ := ssautil.AllPackages(pkgs, ssa.InstantiateGenerics)
	prog.Build()
	p := &Program{
		RepoDir: repoDir,
		Fset:    pkgs[0].Fset,
		Pkgs:    pkgs,
		AllPkgs: all,
		Prog:    prog,
		SSAPkgs: map[string]*ssa.Package{},
	}
	for _, sp := range prog.AllPackages() {
		p.SSAPkgs[sp.Pkg.Path()] = sp
	}
	p.LoadTime = time.Since(start)
	if err := selfTestInline(); err != nil {
		return nil, fmt.Errorf("go/ssa layout self-test failed: %v", err)
	}
	return p, nil
}

// IsModPkg reports whether the import path belongs to the module under analysis.
func IsModPkg(path string) bool {
	return path == ModPath || strings.HasPrefix(path, ModPath+"/")
}

// IsStdPkg reports whether the path is in the standard library (no dot in first element).
func IsStdPkg(path string) bool {
	first := path
	if i := strings.Index(path, "/"); i >= 0 {
		first = path[:i]
	}
	return !strings.Contains(first, ".")
}

// FnPkgPath returns the import path of the package a function belongs to ("" if none).
func FnPkgPath(fn *ssa.Function) string {
	if fn == nil {
		return ""
	}
	if fn.Pkg != nil {
		return fn.Pkg.Pkg.Path()
	}
	if o := fn.Origin(); o != nil && o != fn && o.Pkg != nil {
		return o.Pkg.Pkg.Path()
	}
	if fn.Parent() != nil {
		return FnPkgPath(fn.Parent())
	}
	if obj := fn.Object(); obj != nil && obj.Pkg() != nil {
		return obj.Pkg().Path()
	}
	// wrappers / bound methods: use receiver or signature's package
	if recv := fn.Signature.Recv(); recv != nil {
		if n := namedOf(recv.Type()); n != nil && n.Obj().Pkg() != nil {
			return n.Obj().Pkg().Path()
		}
	}
	return ""
}

func namedOf(t types.Type) *types.Named {
	for {
		switch tt := t.(type) {
		case *types.Pointer:
			t = tt.Elem()
		case *types.Named:
			return tt
		case *types.Alias:
			t = types.Unalias(tt)
		default:
			return nil
		}
	}
}

// NamedOf exposes namedOf.
func NamedOf(t types.Type) *types.Named { return namedOf(t) }

// AllFunctions returns every SSA function of the program (including anonymous ones).
func (p *Program) AllFunctions() map[*ssa.Function]bool {
	if p.allFns == nil {
		p.allFns = ssautil.AllFunctions(p.Prog)
	}
	return p.allFns
}

// CallGraph returns the VTA call graph seeded with CHA (built once).
func (p *Program) CallGraph() *callgraph.Graph {
	if p.cg == nil {
		p.cg = vta.CallGraph(p.AllFunctions(), p.CHA())
	}
	return p.cg
}

// CHA returns the class-hierarchy call graph.
func (p *Program) CHA() *callgraph.Graph {
	if p.chaCG == nil {
		p.chaCG = cha.CallGraph(p.Prog)
	}
	return p.chaCG
}

// FuncKey is a stable, human readable name: pkgpath.Func, pkgpath.(*T).Method, parent$1.
func FuncKey(fn *ssa.Function) string {
	if fn == nil {
		return "<nil>"
	}
	s := fn.String()
	return s
}

// ShortKey strips the module path prefix from a function key.
func ShortKey(fn *ssa.Function) string {
	return strings.ReplaceAll(FuncKey(fn), ModPath+"/", "")
}

// Func finds a function by its key as printed by (*ssa.Function).String(), e.g.
// "github.com/x/y.F", "(*github.com/x/y.T).M", "(github.com/x/y.T).M", "github.com/x/y.F$1".
// A leading "mod/" or "mod." is expanded to the module path.
func (p *Program) Func(key string) *ssa.Function {
	if p.fnIndex == nil {
		p.fnIndex = map[string]*ssa.Function{}
		for fn := range p.AllFunctions() {
			p.fnIndex[fn.String()] = fn
		}
	}
	key = ExpandKey(key)
	if fn := p.fnIndex[key]; fn != nil {
		return fn
	}
	// a method is found whether it is declared on the type or on a pointer to it (turning a
	// value receiver into a pointer receiver, or back, is a behaviour-preserving edit for a
	// method that only reads)
	if strings.HasPrefix(key, "(*") {
		return p.fnIndex["("+key[2:]]
	}
	if strings.HasPrefix(key, "(") {
		return p.fnIndex["(*"+key[1:]]
	}
	return nil
}

// ExpandKey expands the "mod" shorthand.
func ExpandKey(key string) string {
	key = strings.ReplaceAll(key, "mod/", ModPath+"/")
	key = strings.ReplaceAll(key, "(*mod.", "(*"+ModPath+".")
	key = strings.ReplaceAll(key, "(mod.", "("+ModPath+".")
	if strings.HasPrefix(key, "mod.") {
		key = ModPath + key[3:]
	}
	return key
}

// Pos renders a position relative to the repo dir.
func (p *Program) Pos(pos token.Pos) string {
	if !pos.IsValid() {
		return "-"
	}
	ps := p.Fset.Position(pos)
	f := ps.Filename
	if strings.HasPrefix(f, p.RepoDir+"/") {
		f = f[len(p.RepoDir)+1:]
	} else if i := strings.Index(f, "/pkg/mod/"); i >= 0 {
		f = f[i+len("/pkg/mod/"):]
	}
	return fmt.Sprintf("%s:%d", f, ps.Line)
}

// ModFunctions returns all SSA functions (incl. closures) whose package is in the module,
// sorted by key. testutil is excluded unless includeTestutil.
func (p *Program) ModFunctions(includeTestutil bool) []*ssa.Function {
	var out []*ssa.Function
	for fn := range p.AllFunctions() {
		pp := FnPkgPath(fn)
		if !IsModPkg(pp) {
			continue
		}
		if !includeTestutil && strings.HasSuffix(pp, "/internal/testutil") {
			continue
		}
		if fn.Blocks == nil {
			continue
		}
		if fn.Synthetic != "" && fn.Syntax() == nil {
			continue
		}
		out = append(out, fn)
	}
	sort.Slice(out, func(i, j int) bool { return out[i].String() < out[j].String() })
	return out
}

// FuncDecl returns the AST declaration, file and package of a named module function
// identified by package path suffix (relative to module), optional receiver type name and name.
func (p *Program) FuncDecl(pkgRel, recv, name string) (*ast.FuncDecl, *packages.Package) {
	path := ModPath
	if pkgRel != "" {
		path = ModPath + "/" + pkgRel
	}
	pkg := p.AllPkgs[path]
	if pkg == nil {
		return nil, nil
	}
	for _, f := range pkg.Syntax {
		for _, d := range f.Decls {
			fd, ok := d.(*ast.FuncDecl)
			if !ok || fd.Name.Name != name {
				continue
			}
			r := ""
			if fd.Recv != nil && len(fd.Recv.List) > 0 {
				t := fd.Recv.List[0].Type
				if st, ok := t.(*ast.StarExpr); ok {
					t = st.X
				}
				if id, ok := t.(*ast.Ident); ok {
					r = id.Name
				}
			}
			if r == recv {
				return fd, pkg
			}
		}
	}
	return nil, nil
}

// ReachableFrom computes the set of functions reachable in the call graph from roots.
func (p *Program) ReachableFrom(roots ...*ssa.Function) map[*ssa.Function]bool {
	cg := p.CallGraph()
	seen := map[*ssa.Function]bool{}
	var stack []*ssa.Function
	for _, r := range roots {
		if r != nil && !seen[r] {
			seen[r] = true
			stack = append(stack, r)
		}
	}
	for len(stack) > 0 {
		fn := stack[len(stack)-1]
		stack = stack[:len(stack)-1]
		n := cg.Nodes[fn]
		if n == nil {
			continue
		}
		for _, e := range n.Out {
			c := e.Callee.Func
			if !seen[c] {
				seen[c] = true
				stack = append(stack, c)
			}
		}
		// anonymous functions created here are reachable when they are made
		for _, af := range fn.AnonFuncs {
			if !seen[af] {
				seen[af] = true
				stack = append(stack, af)
			}
		}
	}
	return seen
}

// EntryPoints returns the four public entry points.
func (p *Program) EntryPoints() []*ssa.Function {
	var out []*ssa.Function
	for _, n := range []string{"Apply", "ApplyForReader", "ApplyForFile", "ApplyForURL"} {
		if f := p.Func(ModPath + "." + n); f != nil {
			out = append(out, f)
		}
	}
	return out
}
