package core

import (
	"fmt"

	"golang.org/x/tools/go/ssa"
)

// VerifyClone checks the structural sanity of an inlined clone (thorough tier): the rules rely
// on these facts when they walk the clone with the ordinary go/ssa API. Returns the problems
// found (nil when the clone is well formed).
//
//   - every instruction knows its block, every block its function, block indices are positions;
//   - Preds/Succs are symmetric and every block except the entry has a predecessor;
//   - a phi has one edge per predecessor and heads its block;
//   - every block ends in exactly one control instruction, which appears nowhere else;
//   - definitions dominate their uses (a phi operand must dominate the matching predecessor).
func VerifyClone(fn *ssa.Function) []string {
	var out []string
	bad := func(format string, args ...any) {
		if len(out) < 8 {
			out = append(out, fmt.Sprintf(format, args...))
		}
	}
	pos := map[ssa.Instruction]int{}
	for i, b := range fn.Blocks {
		if b.Index != i {
			bad("block %d carries index %d", i, b.Index)
		}
		if b.Parent() != fn {
			bad("block %d belongs to another function", i)
		}
		if i > 0 && len(b.Preds) == 0 && b != fn.Recover {
			bad("block %d is unreachable but kept", i)
		}
		for _, s := range b.Succs {
			found := false
			for _, p := range s.Preds {
				if p == b {
					found = true
				}
			}
			if !found {
				bad("edge %d->%d missing in the predecessor list", i, s.Index)
			}
		}
		for _, p := range b.Preds {
			found := false
			for _, s := range p.Succs {
				if s == b {
					found = true
				}
			}
			if !found {
				bad("edge %d->%d missing in the successor list", p.Index, i)
			}
		}
		if len(b.Instrs) == 0 {
			bad("block %d is empty", i)
			continue
		}
		phiZone := true
		for k, in := range b.Instrs {
			pos[in] = k
			if in.Block() != b {
				bad("instruction %d of block %d points to another block", k, i)
			}
			if ph, ok := in.(*ssa.Phi); ok {
				if !phiZone {
					bad("phi after a non-phi instruction in block %d", i)
				}
				if len(ph.Edges) != len(b.Preds) {
					bad("phi in block %d has %d edges for %d predecessors", i, len(ph.Edges), len(b.Preds))
				}
			} else {
				phiZone = false
			}
			switch in.(type) {
			case *ssa.If, *ssa.Jump, *ssa.Return, *ssa.Panic:
				if k != len(b.Instrs)-1 {
					bad("control instruction in the middle of block %d", i)
				}
			default:
				if k == len(b.Instrs)-1 {
					bad("block %d does not end in a control instruction (%T)", i, in)
				}
			}
		}
		switch b.Instrs[len(b.Instrs)-1].(type) {
		case *ssa.If:
			if len(b.Succs) != 2 {
				bad("if-block %d has %d successors", i, len(b.Succs))
			}
		case *ssa.Jump:
			if len(b.Succs) != 1 {
				bad("jump-block %d has %d successors", i, len(b.Succs))
			}
		case *ssa.Return, *ssa.Panic:
			if len(b.Succs) != 0 {
				bad("exit block %d has successors", i)
			}
		}
	}
	// definitions dominate uses (the recover block of a function with defers is a second root of
	// go/ssa's dominator tree: what it reads are entry-block allocations, outside this check)
	for _, b := range fn.Blocks {
		if fn.Recover != nil && fn.Recover.Dominates(b) {
			continue
		}
		for k, in := range b.Instrs {
			ph, isPhi := in.(*ssa.Phi)
			for oi, op := range in.Operands(nil) {
				if *op == nil {
					continue
				}
				def, ok := (*op).(ssa.Instruction)
				if !ok {
					continue
				}
				db := def.Block()
				if db == nil || db.Parent() != fn {
					bad("operand of %T in block %d is defined in another function", in, b.Index)
					continue
				}
				if isPhi {
					if oi < len(ph.Edges) && oi < len(b.Preds) && !db.Dominates(b.Preds[oi]) {
						bad("phi operand %d in block %d is not available on its edge", oi, b.Index)
					}
					continue
				}
				if db == b {
					if pos[def] >= k {
						bad("use before definition in block %d (%T)", b.Index, in)
					}
				} else if !db.Dominates(b) {
					bad("definition in block %d does not dominate its use in block %d (%T)", db.Index, b.Index, in)
				}
			}
		}
	}
	return out
}
