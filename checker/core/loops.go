package core

import (
	"fmt"
	"go/token"
	"go/types"
	"sort"
	"strings"

	"golang.org/x/tools/go/ssa"
)

// Loop is one natural loop of a function's SSA control-flow graph.
type Loop struct {
	Fn      *ssa.Function
	Header  *ssa.BasicBlock
	Body    map[*ssa.BasicBlock]bool // includes the header
	Latches []*ssa.BasicBlock        // sources of back edges
}

// NaturalLoops returns the natural loops of fn (merged per header, ordered by header index).
// reducible is false if the graph has a cycle that is not a natural loop (cannot happen in Go
// without goto; reported, never ignored).
func NaturalLoops(fn *ssa.Function) (loops []*Loop, reducible bool) {
	byHeader := map[*ssa.BasicBlock]*Loop{}
	back := map[[2]int]bool{}
	for _, b := range fn.Blocks {
		for _, s := range b.Succs {
			if s.Dominates(b) {
				back[[2]int{b.Index, s.Index}] = true
				l := byHeader[s]
				if l == nil {
					l = &Loop{Fn: fn, Header: s, Body: map[*ssa.BasicBlock]bool{s: true}}
					byHeader[s] = l
				}
				l.Latches = append(l.Latches, b)
				// body: everything that reaches the latch without passing the header
				stack := []*ssa.BasicBlock{b}
				for len(stack) > 0 {
					x := stack[len(stack)-1]
					stack = stack[:len(stack)-1]
					if l.Body[x] {
						continue
					}
					l.Body[x] = true
					stack = append(stack, x.Preds...)
				}
			}
		}
	}
	// reducibility: the graph without back edges must be acyclic
	state := map[*ssa.BasicBlock]int{}
	reducible = true
	var dfs func(b *ssa.BasicBlock)
	dfs = func(b *ssa.BasicBlock) {
		state[b] = 1
		for _, s := range b.Succs {
			if back[[2]int{b.Index, s.Index}] {
				continue
			}
			switch state[s] {
			case 0:
				dfs(s)
			case 1:
				reducible = false
			}
		}
		state[b] = 2
	}
	if len(fn.Blocks) > 0 {
		dfs(fn.Blocks[0])
	}
	for _, l := range byHeader {
		loops = append(loops, l)
	}
	sort.Slice(loops, func(i, j int) bool { return loops[i].Header.Index < loops[j].Header.Index })
	return loops, reducible
}

// LoopVerdict is the outcome of the termination argument for one loop.
type LoopVerdict struct {
	Kind   string // "iterator", "count-up", "count-down", "link-walk(<dir>)", "" when undecided
	Reason string // the variant found, or why none was found
	Desc   string // rename-independent description of the loop (header condition), used as key
}

// linkDir classifies the html.Node link fields by direction; a walk that only uses links of one
// direction visits each node of a finite tree at most once.
var linkDir = map[string]string{
	"Parent": "up", "NextSibling": "next", "PrevSibling": "prev", "FirstChild": "down", "LastChild": "down",
}

// TerminationOf looks for a variant of the loop:
//   - iterator: the header advances a map/string range iterator and leaves when it is exhausted;
//   - count-up / count-down: an integer header phi that every path round the loop increases
//     (decreases) by a positive constant, tested on every iteration against a bound that the loop
//     does not move the wrong way (loop-invariant value, or a header phi moving towards it);
//   - link-walk: a *html.Node header phi that every path round the loop replaces by a node reached
//     from it through one or more links of one direction (or through a function that returns a
//     proper ancestor, see ancestorFn).
func (c *Canon) TerminationOf(l *Loop, ancestorFn func(*ssa.Function) bool) LoopVerdict {
	v := LoopVerdict{Desc: c.loopDesc(l)}
	h := l.Header
	// iterator
	for _, in := range h.Instrs {
		if nx, ok := in.(*ssa.Next); ok {
			if iff, ok := h.Instrs[len(h.Instrs)-1].(*ssa.If); ok {
				if ex, ok := iff.Cond.(*ssa.Extract); ok && ex.Tuple == nx && ex.Index == 0 {
					exits := !l.Body[h.Succs[1]]
					if exits {
						v.Kind = "iterator"
						v.Reason = "range iterator over " + nx.Iter.(*ssa.Range).X.Type().String()
						return v
					}
				}
			}
		}
	}
	var why []string
	for _, in := range h.Instrs {
		phi, ok := in.(*ssa.Phi)
		if !ok {
			break
		}
		var backVals []ssa.Value
		for i, pred := range h.Preds {
			if l.Body[pred] {
				backVals = append(backVals, phi.Edges[i])
			}
		}
		if len(backVals) == 0 {
			continue
		}
		switch t := phi.Type().Underlying().(type) {
		case *types.Basic:
			if t.Info()&types.IsInteger == 0 {
				continue
			}
			lo, hi, ok := int64(0), int64(0), true
			first := true
			for _, bv := range backVals {
				ds, dok := intDeltas(bv, phi, l, map[ssa.Value]bool{})
				if !dok {
					ok = false
					break
				}
				for _, d := range ds {
					if first || d < lo {
						lo = d
					}
					if first || d > hi {
						hi = d
					}
					first = false
				}
			}
			if !ok || first {
				why = append(why, fmt.Sprintf("%s: step is not a constant on every path", phiName(phi)))
				continue
			}
			switch {
			case lo > 0:
				if b, ok := c.boundTest(l, phi, true); ok {
					v.Kind, v.Reason = "count-up", fmt.Sprintf("%s += %s each round, continues only while %s", phiName(phi), rangeStr(lo, hi), b)
					return v
				}
				why = append(why, fmt.Sprintf("%s increases but no upper-bound test against a stable bound is evaluated on every round", phiName(phi)))
			case hi < 0:
				if b, ok := c.boundTest(l, phi, false); ok {
					v.Kind, v.Reason = "count-down", fmt.Sprintf("%s -= %s each round, continues only while %s", phiName(phi), rangeStr(-hi, -lo), b)
					return v
				}
				why = append(why, fmt.Sprintf("%s decreases but no lower-bound test against a stable bound is evaluated on every round", phiName(phi)))
			default:
				why = append(why, fmt.Sprintf("%s: some path round the loop does not move it (step range %d..%d)", phiName(phi), lo, hi))
			}
		case *types.Pointer:
			n := namedOf(t.Elem())
			if n == nil || n.Obj().Name() != "Node" || n.Obj().Pkg() == nil || n.Obj().Pkg().Path() != "golang.org/x/net/html" {
				continue
			}
			dirs := map[string]bool{}
			ok := true
			for _, bv := range backVals {
				if !linkSteps(bv, phi, l, ancestorFn, dirs, false, map[ssa.Value]bool{}) {
					ok = false
					break
				}
			}
			if ok && len(dirs) == 1 {
				for d := range dirs {
					v.Kind = "link-walk(" + d + ")"
				}
				v.Reason = fmt.Sprintf("%s is replaced on every round by a node one or more %s-links away (finite acyclic tree)", phiName(phi), strings.TrimSuffix(strings.TrimPrefix(v.Kind, "link-walk("), ")"))
				return v
			}
			if ok {
				why = append(why, fmt.Sprintf("%s: walk mixes link directions %v", phiName(phi), keysOf(dirs)))
			} else {
				why = append(why, fmt.Sprintf("%s: not replaced by a linked node on every path", phiName(phi)))
			}
		}
	}
	if len(why) == 0 {
		why = append(why, "no integer or node loop variable in the header")
	}
	v.Reason = strings.Join(why, "; ")
	return v
}

func keysOf(m map[string]bool) []string {
	var ks []string
	for k := range m {
		ks = append(ks, k)
	}
	sort.Strings(ks)
	return ks
}

func rangeStr(lo, hi int64) string {
	if lo == hi {
		return fmt.Sprint(lo)
	}
	return fmt.Sprintf("%d..%d", lo, hi)
}

func phiName(phi *ssa.Phi) string {
	if phi.Comment != "" {
		return phi.Comment
	}
	return phi.Name()
}

// intDeltas returns the possible differences v - phi when v is computed from phi by adding and
// subtracting constants, through phis inside the loop.
func intDeltas(v ssa.Value, phi *ssa.Phi, l *Loop, seen map[ssa.Value]bool) ([]int64, bool) {
	if v == phi {
		return []int64{0}, true
	}
	if seen[v] {
		return nil, true // cycle through an inner phi adds nothing new
	}
	seen[v] = true
	switch x := v.(type) {
	case *ssa.BinOp:
		if x.Op != token.ADD && x.Op != token.SUB {
			return nil, false
		}
		if k, ok := ConstInt(x.Y); ok {
			ds, ok := intDeltas(x.X, phi, l, seen)
			if !ok {
				return nil, false
			}
			out := make([]int64, len(ds))
			for i, d := range ds {
				if x.Op == token.ADD {
					out[i] = d + k
				} else {
					out[i] = d - k
				}
			}
			return out, true
		}
		if k, ok := ConstInt(x.X); ok && x.Op == token.ADD {
			ds, ok := intDeltas(x.Y, phi, l, seen)
			if !ok {
				return nil, false
			}
			out := make([]int64, len(ds))
			for i, d := range ds {
				out[i] = d + k
			}
			return out, true
		}
		return nil, false
	case *ssa.Phi:
		if x.Block() == phi.Block() || !l.Body[x.Block()] {
			return nil, false
		}
		var out []int64
		for _, e := range x.Edges {
			ds, ok := intDeltas(e, phi, l, seen)
			if !ok {
				return nil, false
			}
			out = append(out, ds...)
		}
		return out, true
	case *ssa.Convert:
		return intDeltas(x.X, phi, l, seen)
	}
	return nil, false
}

// linkSteps: v is reached from phi through >= 1 link loads (all recorded in dirs).
func linkSteps(v ssa.Value, phi *ssa.Phi, l *Loop, ancestorFn func(*ssa.Function) bool, dirs map[string]bool, stepped bool, seen map[ssa.Value]bool) bool {
	if v == phi {
		return stepped
	}
	if seen[v] {
		return true
	}
	seen[v] = true
	switch x := v.(type) {
	case *ssa.UnOp:
		if x.Op != token.MUL {
			return false
		}
		fa, ok := x.X.(*ssa.FieldAddr)
		if !ok {
			return false
		}
		st, ok := fa.X.Type().Underlying().(*types.Pointer)
		if !ok {
			return false
		}
		s, ok := st.Elem().Underlying().(*types.Struct)
		if !ok {
			return false
		}
		d := linkDir[s.Field(fa.Field).Name()]
		if d == "" {
			return false
		}
		dirs[d] = true
		return linkSteps(fa.X, phi, l, ancestorFn, dirs, true, seen)
	case *ssa.Call:
		if f := x.Call.StaticCallee(); f != nil && ancestorFn != nil && ancestorFn(f) && len(x.Call.Args) == 1 {
			dirs["up"] = true
			return linkSteps(x.Call.Args[0], phi, l, ancestorFn, dirs, true, seen)
		}
		return false
	case *ssa.Phi:
		if x.Block() == phi.Block() || !l.Body[x.Block()] {
			return false
		}
		for _, e := range x.Edges {
			if !linkSteps(e, phi, l, ancestorFn, dirs, stepped, seen) {
				return false
			}
		}
		return true
	}
	return false
}

// IsAncestorFn reports whether fn(node) returns nil or a proper ancestor of node on every path:
// every returned value is nil or is reached from the parameter through >= 1 Parent links.
func IsAncestorFn(fn *ssa.Function) bool {
	if fn == nil || len(fn.Blocks) == 0 || len(fn.Params) != 1 || fn.Signature.Results().Len() != 1 {
		return false
	}
	p := fn.Params[0]
	var up func(v ssa.Value, stepped bool, seen map[ssa.Value]bool) bool
	up = func(v ssa.Value, stepped bool, seen map[ssa.Value]bool) bool {
		if v == ssa.Value(p) {
			return stepped
		}
		if IsNilConst(v) {
			return true
		}
		if seen[v] {
			return true
		}
		seen[v] = true
		switch x := v.(type) {
		case *ssa.UnOp:
			if x.Op != token.MUL {
				return false
			}
			fa, ok := x.X.(*ssa.FieldAddr)
			if !ok {
				return false
			}
			st, ok := fa.X.Type().Underlying().(*types.Pointer)
			if !ok {
				return false
			}
			s, ok := st.Elem().Underlying().(*types.Struct)
			if !ok || s.Field(fa.Field).Name() != "Parent" {
				return false
			}
			return up(fa.X, true, seen)
		case *ssa.Phi:
			// a phi is fine if every edge is; edges that lead back to the phi itself are
			// covered by the seen set (they have taken a step or come from a stepped value)
			for _, e := range x.Edges {
				if !up(e, stepped, seen) {
					return false
				}
			}
			return true
		}
		return false
	}
	n := 0
	for _, r := range Returns(fn) {
		if len(r.Results) != 1 {
			return false
		}
		// every phi cycle must contain a step: check with stepped=false at the return value,
		// the parameter itself is only accepted after a Parent load
		if !up(r.Results[0], false, map[ssa.Value]bool{}) {
			return false
		}
		n++
	}
	return n > 0
}

// boundTest looks for a comparison of phi with a stable bound that is evaluated on every round
// (its block dominates all latches) and leaves the loop when it fails.
func (c *Canon) boundTest(l *Loop, phi *ssa.Phi, up bool) (string, bool) {
	for b := range l.Body {
		iff, ok := b.Instrs[len(b.Instrs)-1].(*ssa.If)
		if !ok {
			continue
		}
		dom := true
		for _, la := range l.Latches {
			if !b.Dominates(la) {
				dom = false
			}
		}
		if !dom {
			continue
		}
		stayTrue, stayFalse := l.Body[b.Succs[0]], l.Body[b.Succs[1]]
		if stayTrue == stayFalse {
			continue
		}
		if s, ok := c.boundCond(l, iff.Cond, phi, up, stayTrue, b); ok {
			return s, true
		}
	}
	return "", false
}

// boundCond: cond (or, for a short-circuit &&/|| header, the condition blocks are separate Ifs,
// so only single comparisons appear here) bounds phi in the direction of travel on the edge that
// stays in the loop.
func (c *Canon) boundCond(l *Loop, cond ssa.Value, phi *ssa.Phi, up bool, stayWhen bool, blk *ssa.BasicBlock) (string, bool) {
	if u, ok := cond.(*ssa.UnOp); ok && u.Op == token.NOT {
		return c.boundCond(l, u.X, phi, up, !stayWhen, blk)
	}
	bo, ok := cond.(*ssa.BinOp)
	if !ok {
		return "", false
	}
	op := bo.Op
	x, y := bo.X, bo.Y
	// normalise to: phi' OP bound, where phi' is phi or phi plus/minus a constant
	isVar := func(v ssa.Value) bool {
		_, ok := intDeltas(v, phi, l, map[ssa.Value]bool{})
		return ok
	}
	if !isVar(x) && isVar(y) {
		x, y = y, x
		switch op {
		case token.LSS:
			op = token.GTR
		case token.LEQ:
			op = token.GEQ
		case token.GTR:
			op = token.LSS
		case token.GEQ:
			op = token.LEQ
		}
	}
	if !isVar(x) {
		return "", false
	}
	if !stayWhen { // the loop continues when the comparison is false
		switch op {
		case token.LSS:
			op = token.GEQ
		case token.LEQ:
			op = token.GTR
		case token.GTR:
			op = token.LEQ
		case token.GEQ:
			op = token.LSS
		case token.EQL:
			op = token.NEQ
		case token.NEQ:
			op = token.EQL
		}
	}
	okDir := (up && (op == token.LSS || op == token.LEQ)) || (!up && (op == token.GTR || op == token.GEQ))
	if !okDir {
		return "", false
	}
	if !c.stableBound(l, y, up, map[ssa.Value]bool{}) {
		return "", false
	}
	return fmt.Sprintf("%s %s %s", c.Of(x), op, c.Of(y)), true
}

// stableBound: the bound cannot run away from the counter: it is loop-invariant, or an integer
// header phi of the same loop that only moves towards the counter, or a pure integer expression
// (len, +, - const, min/max-free) of such values.
func (c *Canon) stableBound(l *Loop, v ssa.Value, up bool, seen map[ssa.Value]bool) bool {
	if seen[v] {
		return true
	}
	seen[v] = true
	switch v.(type) {
	case *ssa.Const, *ssa.Parameter, *ssa.FreeVar:
		return true
	}
	in, ok := v.(ssa.Instruction)
	if !ok {
		return false
	}
	if !l.Body[in.Block()] {
		return true // defined before the loop
	}
	switch x := v.(type) {
	case *ssa.Phi:
		if x.Block() != l.Header {
			return false
		}
		// a second counter moving towards the first one (i < j with j--)
		for i, pred := range l.Header.Preds {
			if !l.Body[pred] {
				continue
			}
			ds, ok := intDeltas(x.Edges[i], x, l, map[ssa.Value]bool{})
			if !ok {
				return false
			}
			for _, d := range ds {
				if (up && d > 0) || (!up && d < 0) {
					return false
				}
			}
		}
		return true
	case *ssa.BinOp:
		if x.Op == token.ADD || x.Op == token.SUB {
			if _, ok := ConstInt(x.Y); ok {
				return c.stableBound(l, x.X, up, seen)
			}
		}
		return false
	case *ssa.Call:
		// len/cap of a value that is itself stable (a slice or string value does not change length)
		if b, ok := x.Call.Value.(*ssa.Builtin); ok && (b.Name() == "len" || b.Name() == "cap") {
			return invariantValue(l, x.Call.Args[0], map[ssa.Value]bool{})
		}
		return false
	case *ssa.Convert:
		return c.stableBound(l, x.X, up, seen)
	}
	return false
}

// invariantValue: the SSA value is the same on every round (defined outside the loop, or a pure
// projection of such values). Loads from memory inside the loop are not invariant.
func invariantValue(l *Loop, v ssa.Value, seen map[ssa.Value]bool) bool {
	if seen[v] {
		return true
	}
	seen[v] = true
	switch v.(type) {
	case *ssa.Const, *ssa.Parameter, *ssa.FreeVar, *ssa.Global, *ssa.Function:
		return true
	}
	in, ok := v.(ssa.Instruction)
	if !ok {
		return false
	}
	if !l.Body[in.Block()] {
		return true
	}
	switch x := v.(type) {
	case *ssa.Extract:
		return invariantValue(l, x.Tuple, seen)
	case *ssa.Field:
		return invariantValue(l, x.X, seen)
	case *ssa.Convert:
		return invariantValue(l, x.X, seen)
	case *ssa.ChangeType:
		return invariantValue(l, x.X, seen)
	case *ssa.Slice:
		ok := invariantValue(l, x.X, seen)
		for _, y := range []ssa.Value{x.Low, x.High, x.Max} {
			if y != nil {
				ok = ok && invariantValue(l, y, seen)
			}
		}
		return ok
	}
	return false
}

// loopDesc is a rename-independent description of the loop used as obligation key: the canonical
// atoms of the exit tests that are evaluated on every round, in block order.
func (c *Canon) loopDesc(l *Loop) string {
	var parts []string
	var blocks []*ssa.BasicBlock
	for b := range l.Body {
		blocks = append(blocks, b)
	}
	sort.Slice(blocks, func(i, j int) bool { return blocks[i].Index < blocks[j].Index })
	for _, b := range blocks {
		if len(b.Instrs) == 0 {
			continue
		}
		iff, ok := b.Instrs[len(b.Instrs)-1].(*ssa.If)
		if !ok {
			continue
		}
		if l.Body[b.Succs[0]] == l.Body[b.Succs[1]] {
			continue
		}
		a, _ := c.CondAtom(iff.Cond)
		parts = append(parts, a)
	}
	if len(parts) == 0 {
		return "for{}"
	}
	if len(parts) > 3 {
		parts = parts[:3]
	}
	return "exit-tests[" + strings.Join(parts, " ; ") + "]"
}
