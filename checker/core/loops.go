package core

import (
	"fmt"
	"go/token"
	"go/types"
	"sort"
	"strings"

	"golang.org/x/tools/go/ssa"
)

// Loop is one natural loop of a function's SSA control-flow graph.
type Loop struct {
	Fn      *ssa.Function
	Header  *ssa.BasicBlock
	Body    map[*ssa.BasicBlock]bool // includes the header
	Latches []*ssa.BasicBlock        // sources of back edges
}

// NaturalLoops returns the natural loops of fn (merged per header, ordered by header index).
// reducible is false if the graph has a cycle that is not a natural loop (cannot happen in Go
// without goto; reported, never ignored).
func NaturalLoops(fn *ssa.Function) (loops []*Loop, reducible bool) {
	byHeader := map[*ssa.BasicBlock]*Loop{}
	back := map[[2]int]bool{}
	for _, b := range fn.Blocks {
		for _, s := range b.Succs {
			if s.Dominates(b) {
				back[[2]int{b.Index, s.Index}] = true
				l := byHeader[s]
				if l == nil {
					l = &Loop{Fn: fn, Header: s, Body: map[*ssa.BasicBlock]bool{s: true}}
					byHeader[s] = l
				}
				l.Latches = append(l.Latches, b)
				// body: everything that reaches the latch without passing the header
				stack := []*ssa.BasicBlock{b}
				for len(stack) > 0 {
					x := stack[len(stack)-1]
					stack = stack[:len(stack)-1]
					if l.Body[x] {
						continue
					}
					l.Body[x] = true
					stack = append(stack, x.Preds...)
				}
			}
		}
	}
	// reducibility: the graph without back edges must be acyclic
	state := map[*ssa.BasicBlock]int{}
	reducible = true
	var dfs func(b *ssa.BasicBlock)
	dfs = func(b *ssa.BasicBlock) {
		state[b] = 1
		for _, s := range b.Succs {
			if back[[2]int{b.Index, s.Index}] {
				continue
			}
			switch state[s] {
			case 0:
				dfs(s)
			case 1:
				reducible = false
			}
		}
		state[b] = 2
	}
	if len(fn.Blocks) > 0 {
		dfs(fn.Blocks[0])
	}
	for _, l := range byHeader {
		loops = append(loops, l)
	}
	sort.Slice(loops, func(i, j int) bool { return loops[i].Header.Index < loops[j].Header.Index })
	return loops, reducible
}

// LoopVerdict is the outcome of the termination argument for one loop.
type LoopVerdict struct {
	Kind   string // "iterator", "count-up", "count-down", "link-walk(<dir>)", "" when undecided
	Reason string // the variant found, or why none was found
	Desc   string // rename-independent description of the loop (header condition), used as key
}

// linkDir classifies the html.Node link fields by direction; a walk that only uses links of one
// direction visits each node of a finite tree at most once.
var linkDir = map[string]string{
	"Parent": "up", "NextSibling": "next", "PrevSibling": "prev", "FirstChild": "down", "LastChild": "down",
}

// TerminationOf looks for a variant of the loop:
//   - iterator: the header advances a map/string range iterator and leaves when it is exhausted;
//   - count-up / count-down: an integer header phi that every path round the loop increases
//     (decreases) by a positive constant, tested on every iteration against a bound that the loop
//     does not move the wrong way (loop-invariant value, or a header phi moving towards it);
//   - link-walk: a *html.Node header phi that every path round the loop replaces by a node reached
//     from it through one or more links of one direction (or through a function that returns a
//     proper ancestor, see ancestorFn).
func (c *Canon) TerminationOf(l *Loop, ancestorFn func(*ssa.Function) bool) LoopVerdict {
	v := LoopVerdict{Desc: c.loopDesc(l)}
	h := l.Header
	// iterator
	for _, in := range h.Instrs {
		if nx, ok := in.(*ssa.Next); ok {
			if iff, ok := h.Instrs[len(h.Instrs)-1].(*ssa.If); ok {
				if ex, ok := iff.Cond.(*ssa.Extract); ok && ex.Tuple == nx && ex.Index == 0 {
					exits := !l.Body[h.Succs[1]]
					if exits {
						v.Kind = "iterator"
						v.Reason = "range iterator over " + nx.Iter.(*ssa.Range).X.Type().String()
						return v
					}
				}
			}
		}
	}
	var why []string
	for _, in := range h.Instrs {
		phi, ok := in.(*ssa.Phi)
		if !ok {
			break
		}
		var backVals []ssa.Value
		for i, pred := range h.Preds {
			if l.Body[pred] {
				backVals = append(backVals, phi.Edges[i])
			}
		}
		if len(backVals) == 0 {
			continue
		}
		switch t := phi.Type().Underlying().(type) {
		case *types.Basic:
			if t.Info()&types.IsInteger == 0 {
				continue
			}
			lo, hi, ok := int64(0), int64(0), true
			first := true
			for _, bv := range backVals {
				ds, dok := intDeltas(bv, phi, l, map[ssa.Value]bool{})
				if !dok {
					ok = false
					break
				}
				for _, d := range ds {
					if first || d < lo {
						lo = d
					}
					if first || d > hi {
						hi = d
					}
					first = false
				}
			}
			if !ok || first {
				why = append(why, fmt.Sprintf("%s: step is not a constant on every path", phiName(phi)))
				continue
			}
			switch {
			case lo > 0:
				if b, ok := c.boundTest(l, phi, true); ok {
					v.Kind, v.Reason = "count-up", fmt.Sprintf("%s += %s each round, continues only while %s", phiName(phi), rangeStr(lo, hi), b)
					return v
				}
				why = append(why, fmt.Sprintf("%s increases but no upper-bound test against a stable bound is evaluated on every round", phiName(phi)))
			case hi < 0:
				if b, ok := c.boundTest(l, phi, false); ok {
					v.Kind, v.Reason = "count-down", fmt.Sprintf("%s -= %s each round, continues only while %s", phiName(phi), rangeStr(-hi, -lo), b)
					return v
				}
				why = append(why, fmt.Sprintf("%s decreases but no lower-bound test against a stable bound is evaluated on every round", phiName(phi)))
			default:
				if lo == 0 && hi > 0 {
					if b, ok := c.shrinkingBound(l, phi, backVals); ok {
						v.Kind, v.Reason = "count-up", fmt.Sprintf("%s advances or the list it is bounded by loses an element on every round (delete-and-stay), continues only while %s", phiName(phi), b)
						return v
					}
				}
				why = append(why, fmt.Sprintf("%s: some path round the loop does not move it (step range %d..%d)", phiName(phi), lo, hi))
			}
		case *types.Pointer:
			n := namedOf(t.Elem())
			if n == nil || n.Obj().Name() != "Node" || n.Obj().Pkg() == nil || n.Obj().Pkg().Path() != "golang.org/x/net/html" {
				continue
			}
			dirs := map[string]bool{}
			ok := true
			for _, bv := range backVals {
				if !linkSteps(bv, phi, l, ancestorFn, dirs, false, map[ssa.Value]bool{}) {
					ok = false
					break
				}
			}
			if ok && usesLazyInit(backVals, phi, l) && !nonNilAtLatch(l, backVals) {
				ok = false
			}
			if ok && len(dirs) == 1 {
				for d := range dirs {
					v.Kind = "link-walk(" + d + ")"
				}
				v.Reason = fmt.Sprintf("%s is replaced on every round by a node one or more %s-links away (finite acyclic tree)", phiName(phi), strings.TrimSuffix(strings.TrimPrefix(v.Kind, "link-walk("), ")"))
				return v
			}
			if ok {
				why = append(why, fmt.Sprintf("%s: walk mixes link directions %v", phiName(phi), keysOf(dirs)))
			} else {
				why = append(why, fmt.Sprintf("%s: not replaced by a linked node on every path", phiName(phi)))
			}
		}
	}
	if len(why) == 0 {
		why = append(why, "no integer or node loop variable in the header")
	}
	v.Reason = strings.Join(why, "; ")
	return v
}

// shrinkingBound recognises the delete-and-stay loop: `for i < len(s) { ...; if drop { s =
// s[:len(s)-1] (after shifting) ; i-- }; i++ }`. The counter phi steps by 0 or more, the bound is
// len of a slice-typed header phi s, and on every path round the loop either the counter advances
// or s is re-sliced to a shorter prefix of itself: len(s) - i decreases every round.
func (c *Canon) shrinkingBound(l *Loop, phi *ssa.Phi, backVals []ssa.Value) (string, bool) {
	h := l.Header
	for _, in := range h.Instrs {
		sp, ok := in.(*ssa.Phi)
		if !ok {
			break
		}
		if _, isSlice := sp.Type().Underlying().(*types.Slice); !isSlice {
			continue
		}
		// the bound test: phi(+c) < len(sp), on every round
		test := ""
		for b := range l.Body {
			iff, ok := b.Instrs[len(b.Instrs)-1].(*ssa.If)
			if !ok {
				continue
			}
			dom := true
			for _, la := range l.Latches {
				if !b.Dominates(la) {
					dom = false
				}
			}
			if !dom || l.Body[b.Succs[0]] == l.Body[b.Succs[1]] {
				continue
			}
			bo, ok := iff.Cond.(*ssa.BinOp)
			if !ok || bo.Op != token.LSS || !l.Body[b.Succs[0]] {
				continue
			}
			if _, ok := intDeltas(bo.X, phi, l, map[ssa.Value]bool{}); !ok {
				continue
			}
			if call, ok := bo.Y.(*ssa.Call); ok {
				if bi, ok := call.Call.Value.(*ssa.Builtin); ok && bi.Name() == "len" && call.Call.Args[0] == ssa.Value(sp) {
					test = c.Of(bo.X) + " < " + c.Of(bo.Y)
				}
			}
		}
		if test == "" {
			continue
		}
		okAll := true
		k := 0
		for i, pred := range h.Preds {
			if !l.Body[pred] {
				continue
			}
			pairs, ok := jointSteps(backVals[k], sp.Edges[i], phi, sp, l, 0)
			k++
			if !ok {
				okAll = false
				break
			}
			for _, pr := range pairs {
				if !(pr[0] >= 1 && pr[1] <= 0) && !(pr[0] >= 0 && pr[1] < 0) {
					okAll = false
				}
			}
		}
		if okAll {
			return test, true
		}
	}
	return "", false
}

// jointSteps enumerates, path by path, the pairs (change of the counter, change of the length of
// the slice) between the header and a back edge. Phis of one block are resolved edge by edge
// together, which keeps "the counter stays" and "the slice shrinks" on the same path.
func jointSteps(vi, vs ssa.Value, pi, ps *ssa.Phi, l *Loop, depth int) ([][2]int64, bool) {
	if depth > 12 {
		return nil, false
	}
	phiOf := func(v ssa.Value) *ssa.Phi {
		if p, ok := v.(*ssa.Phi); ok && p != pi && p != ps && l.Body[p.Block()] && p.Block() != l.Header {
			return p
		}
		return nil
	}
	// constants added to the counter are peeled off first, so that merges of the counter and of
	// the slice that sit in one block are resolved together
	if x, ok := vi.(*ssa.BinOp); ok && (x.Op == token.ADD || x.Op == token.SUB) {
		if k, isC := ConstInt(x.Y); isC {
			inner, ok := jointSteps(x.X, vs, pi, ps, l, depth+1)
			if !ok {
				return nil, false
			}
			for i := range inner {
				if x.Op == token.ADD {
					inner[i][0] += k
				} else {
					inner[i][0] -= k
				}
			}
			return inner, true
		}
		return nil, false
	}
	a, b := phiOf(vi), phiOf(vs)
	switch {
	case a != nil && b != nil && a.Block() == b.Block():
		var out [][2]int64
		for e := range a.Edges {
			ps2, ok := jointSteps(a.Edges[e], b.Edges[e], pi, ps, l, depth+1)
			if !ok {
				return nil, false
			}
			out = append(out, ps2...)
		}
		return out, true
	case a != nil:
		var out [][2]int64
		for e := range a.Edges {
			ps2, ok := jointSteps(a.Edges[e], vs, pi, ps, l, depth+1)
			if !ok {
				return nil, false
			}
			out = append(out, ps2...)
		}
		return out, true
	case b != nil:
		var out [][2]int64
		for e := range b.Edges {
			ps2, ok := jointSteps(vi, b.Edges[e], pi, ps, l, depth+1)
			if !ok {
				return nil, false
			}
			out = append(out, ps2...)
		}
		return out, true
	}
	// leaves: the counter as phi + constants ...
	var di []int64
	switch x := vi.(type) {
	case *ssa.BinOp:
		k, isC := ConstInt(x.Y)
		if !isC || (x.Op != token.ADD && x.Op != token.SUB) {
			return nil, false
		}
		inner, ok := jointSteps(x.X, vs, pi, ps, l, depth+1)
		if !ok {
			return nil, false
		}
		for i := range inner {
			if x.Op == token.ADD {
				inner[i][0] += k
			} else {
				inner[i][0] -= k
			}
		}
		return inner, true
	default:
		if vi != ssa.Value(pi) {
			return nil, false
		}
		di = []int64{0}
	}
	// ... and the slice as a prefix of itself
	ds, ok := sliceShrink(vs, ps, 0)
	if !ok {
		return nil, false
	}
	var out [][2]int64
	for _, d := range di {
		out = append(out, [2]int64{d, ds})
	}
	return out, true
}

// sliceShrink: v is ps, or ps[:len(ps)-k] (possibly repeated): returns the change of length (<= 0).
func sliceShrink(v ssa.Value, ps *ssa.Phi, depth int) (int64, bool) {
	if v == ssa.Value(ps) {
		return 0, true
	}
	if depth > 4 {
		return 0, false
	}
	sl, ok := v.(*ssa.Slice)
	if !ok || sl.Low != nil || sl.High == nil {
		return 0, false
	}
	base, ok := sliceShrink(sl.X, ps, depth+1)
	if !ok {
		return 0, false
	}
	// High = len(X) - k
	bo, ok := sl.High.(*ssa.BinOp)
	if !ok || bo.Op != token.SUB {
		return 0, false
	}
	k, isC := ConstInt(bo.Y)
	call, isCall := bo.X.(*ssa.Call)
	if !isC || k <= 0 || !isCall {
		return 0, false
	}
	if bi, ok := call.Call.Value.(*ssa.Builtin); !ok || bi.Name() != "len" || call.Call.Args[0] != sl.X {
		return 0, false
	}
	return base - k, true
}

func keysOf(m map[string]bool) []string {
	var ks []string
	for k := range m {
		ks = append(ks, k)
	}
	sort.Strings(ks)
	return ks
}

func rangeStr(lo, hi int64) string {
	if lo == hi {
		return fmt.Sprint(lo)
	}
	return fmt.Sprintf("%d..%d", lo, hi)
}

func phiName(phi *ssa.Phi) string {
	if phi.Comment != "" {
		return phi.Comment
	}
	return phi.Name()
}

// LowerBound, when set, returns a constant lower bound of an integer value (used for steps of the
// form i += 1 + counter). Lower bounds only: a larger step does not hurt a count-up loop whose
// bound test is evaluated every round.
var LowerBound func(v ssa.Value) (int64, bool)

// intDeltas returns the possible differences v - phi when v is computed from phi by adding and
// subtracting constants, through phis inside the loop.
func intDeltas(v ssa.Value, phi *ssa.Phi, l *Loop, seen map[ssa.Value]bool) ([]int64, bool) {
	if v == phi {
		return []int64{0}, true
	}
	if seen[v] {
		return nil, true // cycle through an inner phi adds nothing new
	}
	seen[v] = true
	switch x := v.(type) {
	case *ssa.BinOp:
		if x.Op != token.ADD && x.Op != token.SUB {
			return nil, false
		}
		if k, ok := ConstInt(x.Y); ok {
			ds, ok := intDeltas(x.X, phi, l, seen)
			if !ok {
				return nil, false
			}
			out := make([]int64, len(ds))
			for i, d := range ds {
				if x.Op == token.ADD {
					out[i] = d + k
				} else {
					out[i] = d - k
				}
			}
			return out, true
		}
		// x + n where n is provably non-negative (a counter field): at least the delta of x
		if x.Op == token.ADD && LowerBound != nil {
			for _, pair := range [][2]ssa.Value{{x.X, x.Y}, {x.Y, x.X}} {
				if _, isC := ConstInt(pair[1]); isC {
					continue
				}
				if lb, ok := LowerBound(pair[1]); ok && lb >= 0 {
					ds, ok := intDeltas(pair[0], phi, l, seen)
					if !ok {
						return nil, false
					}
					out := make([]int64, len(ds))
					for i, d := range ds {
						out[i] = d + lb
					}
					return out, true
				}
			}
		}
		if k, ok := ConstInt(x.X); ok && x.Op == token.ADD {
			ds, ok := intDeltas(x.Y, phi, l, seen)
			if !ok {
				return nil, false
			}
			out := make([]int64, len(ds))
			for i, d := range ds {
				out[i] = d + k
			}
			return out, true
		}
		return nil, false
	case *ssa.Phi:
		if x.Block() == phi.Block() || !l.Body[x.Block()] {
			return nil, false
		}
		var out []int64
		for _, e := range x.Edges {
			ds, ok := intDeltas(e, phi, l, seen)
			if !ok {
				return nil, false
			}
			out = append(out, ds...)
		}
		return out, true
	case *ssa.Convert:
		return intDeltas(x.X, phi, l, seen)
	}
	return nil, false
}

// linkSteps: v is reached from phi through >= 1 link loads (all recorded in dirs).
func linkSteps(v ssa.Value, phi *ssa.Phi, l *Loop, ancestorFn func(*ssa.Function) bool, dirs map[string]bool, stepped bool, seen map[ssa.Value]bool) bool {
	if v == phi {
		return stepped
	}
	if seen[v] {
		return true
	}
	seen[v] = true
	switch x := v.(type) {
	case *ssa.UnOp:
		if x.Op != token.MUL {
			return false
		}
		fa, ok := x.X.(*ssa.FieldAddr)
		if !ok {
			return false
		}
		st, ok := fa.X.Type().Underlying().(*types.Pointer)
		if !ok {
			return false
		}
		s, ok := st.Elem().Underlying().(*types.Struct)
		if !ok {
			return false
		}
		d := linkDir[s.Field(fa.Field).Name()]
		if d == "" {
			return false
		}
		dirs[d] = true
		return linkSteps(fa.X, phi, l, ancestorFn, dirs, true, seen)
	case *ssa.Call:
		if f := x.Call.StaticCallee(); f != nil && ancestorFn != nil && ancestorFn(f) && len(x.Call.Args) == 1 {
			dirs["up"] = true
			return linkSteps(x.Call.Args[0], phi, l, ancestorFn, dirs, true, seen)
		}
		return false
	case *ssa.Phi:
		if x.Block() == phi.Block() || !l.Body[x.Block()] {
			return false
		}
		for i, e := range x.Edges {
			if lazyInitEdge(x, i, phi) {
				continue // the cursor is still nil on this edge: initialised inside the loop, at most once (see nonNilAtLatch)
			}
			if !linkSteps(e, phi, l, ancestorFn, dirs, stepped, seen) {
				return false
			}
		}
		return true
	}
	return false
}

// IsAncestorFn reports whether fn(node) returns nil or a proper ancestor of node on every path:
// every returned value is nil or is reached from the parameter through >= 1 Parent links.
func IsAncestorFn(fn *ssa.Function) bool {
	if fn == nil || len(fn.Blocks) == 0 || len(fn.Params) != 1 || fn.Signature.Results().Len() != 1 {
		return false
	}
	p := fn.Params[0]
	var up func(v ssa.Value, stepped bool, seen map[ssa.Value]bool) bool
	up = func(v ssa.Value, stepped bool, seen map[ssa.Value]bool) bool {
		if v == ssa.Value(p) {
			return stepped
		}
		if IsNilConst(v) {
			return true
		}
		if seen[v] {
			return true
		}
		seen[v] = true
		switch x := v.(type) {
		case *ssa.UnOp:
			if x.Op != token.MUL {
				return false
			}
			fa, ok := x.X.(*ssa.FieldAddr)
			if !ok {
				return false
			}
			st, ok := fa.X.Type().Underlying().(*types.Pointer)
			if !ok {
				return false
			}
			s, ok := st.Elem().Underlying().(*types.Struct)
			if !ok || s.Field(fa.Field).Name() != "Parent" {
				return false
			}
			return up(fa.X, true, seen)
		case *ssa.Phi:
			// a phi is fine if every edge is; edges that lead back to the phi itself are
			// covered by the seen set (they have taken a step or come from a stepped value)
			for _, e := range x.Edges {
				if !up(e, stepped, seen) {
					return false
				}
			}
			return true
		}
		return false
	}
	n := 0
	for _, r := range Returns(fn) {
		if len(r.Results) != 1 {
			return false
		}
		// every phi cycle must contain a step: check with stepped=false at the return value,
		// the parameter itself is only accepted after a Parent load
		if !up(r.Results[0], false, map[ssa.Value]bool{}) {
			return false
		}
		n++
	}
	return n > 0
}

// boundTest looks for a comparison of phi with a stable bound that is evaluated on every round
// (its block dominates all latches) and leaves the loop when it fails.
func (c *Canon) boundTest(l *Loop, phi *ssa.Phi, up bool) (string, bool) {
	for b := range l.Body {
		iff, ok := b.Instrs[len(b.Instrs)-1].(*ssa.If)
		if !ok {
			continue
		}
		dom := true
		for _, la := range l.Latches {
			if !b.Dominates(la) {
				dom = false
			}
		}
		if !dom {
			continue
		}
		stayTrue, stayFalse := l.Body[b.Succs[0]], l.Body[b.Succs[1]]
		if stayTrue == stayFalse {
			continue
		}
		if s, ok := c.boundCond(l, iff.Cond, phi, up, stayTrue, b); ok {
			return s, true
		}
	}
	return "", false
}

// boundCond: cond (or, for a short-circuit &&/|| header, the condition blocks are separate Ifs,
// so only single comparisons appear here) bounds phi in the direction of travel on the edge that
// stays in the loop.
func (c *Canon) boundCond(l *Loop, cond ssa.Value, phi *ssa.Phi, up bool, stayWhen bool, blk *ssa.BasicBlock) (string, bool) {
	if u, ok := cond.(*ssa.UnOp); ok && u.Op == token.NOT {
		return c.boundCond(l, u.X, phi, up, !stayWhen, blk)
	}
	bo, ok := cond.(*ssa.BinOp)
	if !ok {
		return "", false
	}
	op := bo.Op
	x, y := bo.X, bo.Y
	// normalise to: phi' OP bound, where phi' is phi or phi plus/minus a constant
	isVar := func(v ssa.Value) bool {
		_, ok := intDeltas(v, phi, l, map[ssa.Value]bool{})
		return ok
	}
	if !isVar(x) && isVar(y) {
		x, y = y, x
		switch op {
		case token.LSS:
			op = token.GTR
		case token.LEQ:
			op = token.GEQ
		case token.GTR:
			op = token.LSS
		case token.GEQ:
			op = token.LEQ
		}
	}
	if !isVar(x) {
		return "", false
	}
	if !stayWhen { // the loop continues when the comparison is false
		switch op {
		case token.LSS:
			op = token.GEQ
		case token.LEQ:
			op = token.GTR
		case token.GTR:
			op = token.LEQ
		case token.GEQ:
			op = token.LSS
		case token.EQL:
			op = token.NEQ
		case token.NEQ:
			op = token.EQL
		}
	}
	okDir := (up && (op == token.LSS || op == token.LEQ)) || (!up && (op == token.GTR || op == token.GEQ))
	if !okDir {
		return "", false
	}
	if !c.stableBound(l, y, up, map[ssa.Value]bool{}) {
		return "", false
	}
	return fmt.Sprintf("%s %s %s", c.Of(x), op, c.Of(y)), true
}

// stableBound: the bound cannot run away from the counter: it is loop-invariant, or an integer
// header phi of the same loop that only moves towards the counter, or a pure integer expression
// (len, +, - const, min/max-free) of such values.
func (c *Canon) stableBound(l *Loop, v ssa.Value, up bool, seen map[ssa.Value]bool) bool {
	if seen[v] {
		return true
	}
	seen[v] = true
	switch v.(type) {
	case *ssa.Const, *ssa.Parameter, *ssa.FreeVar:
		return true
	}
	in, ok := v.(ssa.Instruction)
	if !ok {
		return false
	}
	if !l.Body[in.Block()] {
		return true // defined before the loop
	}
	switch x := v.(type) {
	case *ssa.Phi:
		if x.Block() != l.Header {
			return false
		}
		// a second counter moving towards the first one (i < j with j--)
		for i, pred := range l.Header.Preds {
			if !l.Body[pred] {
				continue
			}
			ds, ok := intDeltas(x.Edges[i], x, l, map[ssa.Value]bool{})
			if !ok {
				return false
			}
			for _, d := range ds {
				if (up && d > 0) || (!up && d < 0) {
					return false
				}
			}
		}
		return true
	case *ssa.BinOp:
		if x.Op == token.ADD || x.Op == token.SUB {
			if _, ok := ConstInt(x.Y); ok {
				return c.stableBound(l, x.X, up, seen)
			}
		}
		return false
	case *ssa.Call:
		// len/cap of a value that is itself stable (a slice or string value does not change length)
		if b, ok := x.Call.Value.(*ssa.Builtin); ok && (b.Name() == "len" || b.Name() == "cap") {
			return invariantValue(l, x.Call.Args[0], map[ssa.Value]bool{})
		}
		return false
	case *ssa.Convert:
		return c.stableBound(l, x.X, up, seen)
	}
	return false
}

// invariantValue: the SSA value is the same on every round (defined outside the loop, or a pure
// projection of such values). Loads from memory inside the loop are not invariant.
func invariantValue(l *Loop, v ssa.Value, seen map[ssa.Value]bool) bool {
	if seen[v] {
		return true
	}
	seen[v] = true
	switch v.(type) {
	case *ssa.Const, *ssa.Parameter, *ssa.FreeVar, *ssa.Global, *ssa.Function:
		return true
	}
	in, ok := v.(ssa.Instruction)
	if !ok {
		return false
	}
	if !l.Body[in.Block()] {
		return true
	}
	switch x := v.(type) {
	case *ssa.UnOp:
		// a re-load of the same place is invariant when nothing in the loop can write memory,
		// or - for a field of a struct - when nothing the loop executes can write that field
		// (a store to that field of that struct type, a store through a pointer to a value of
		// the field's type, or a call that reaches a function doing either)
		if x.Op == token.MUL && !loopWritesMemory(l) {
			return invariantValue(l, x.X, seen)
		}
		if fa, ok := x.X.(*ssa.FieldAddr); ok && x.Op == token.MUL && MayWriteField != nil && !MayWriteField(l, fa) {
			return invariantValue(l, fa.X, seen)
		}
		return false
	case *ssa.FieldAddr:
		return invariantValue(l, x.X, seen)
	case *ssa.Extract:
		return invariantValue(l, x.Tuple, seen)
	case *ssa.Field:
		return invariantValue(l, x.X, seen)
	case *ssa.Convert:
		return invariantValue(l, x.X, seen)
	case *ssa.ChangeType:
		return invariantValue(l, x.X, seen)
	case *ssa.Slice:
		ok := invariantValue(l, x.X, seen)
		for _, y := range []ssa.Value{x.Low, x.High, x.Max} {
			if y != nil {
				ok = ok && invariantValue(l, y, seen)
			}
		}
		return ok
	}
	return false
}

// MayWriteField is installed by the program (Program.LoopMayWriteField).
var MayWriteField func(l *Loop, fa *ssa.FieldAddr) bool

type fieldKey struct {
	owner string
	idx   int
}

func fieldKeyOf(fa *ssa.FieldAddr) (fieldKey, types.Type, bool) {
	pt, ok := fa.X.Type().Underlying().(*types.Pointer)
	if !ok {
		return fieldKey{}, nil, false
	}
	st, ok := pt.Elem().Underlying().(*types.Struct)
	if !ok || fa.Field >= st.NumFields() {
		return fieldKey{}, nil, false
	}
	return fieldKey{pt.Elem().String(), fa.Field}, st.Field(fa.Field).Type(), true
}

// LoopMayWriteField: can anything the loop executes write the field fa addresses? Direct stores
// in the body, and calls: static callees are followed through their bodies (transitively), dynamic
// calls in the loop itself count as "may write" unless the call graph resolves them.
func (p *Program) LoopMayWriteField(l *Loop, fa *ssa.FieldAddr) bool {
	key, ftyp, ok := fieldKeyOf(fa)
	if !ok {
		return true
	}
	if p.fieldWriters == nil {
		p.fieldWriters = map[fieldKey]map[*ssa.Function]bool{}
		p.ptrWriters = map[string]map[*ssa.Function]bool{}
		for fn := range p.AllFunctions() {
			for _, b := range fn.Blocks {
				for _, in := range b.Instrs {
					st, isSt := in.(*ssa.Store)
					if !isSt {
						continue
					}
					switch a := st.Addr.(type) {
					case *ssa.FieldAddr:
						if k, _, ok := fieldKeyOf(a); ok {
							if p.fieldWriters[k] == nil {
								p.fieldWriters[k] = map[*ssa.Function]bool{}
							}
							p.fieldWriters[k][fn] = true
						}
					case *ssa.Alloc, *ssa.IndexAddr, *ssa.Global:
					default:
						// a store through some other pointer: may hit any place of that type
						if pt, ok := st.Addr.Type().Underlying().(*types.Pointer); ok {
							ts := pt.Elem().String()
							if p.ptrWriters[ts] == nil {
								p.ptrWriters[ts] = map[*ssa.Function]bool{}
							}
							p.ptrWriters[ts][fn] = true
						}
					}
				}
			}
		}
		p.mayWriteMemo = map[fieldKey]map[*ssa.Function]bool{}
	}
	// whole-struct stores (*p = T{..}) write every field: a pointer store of the owner type
	writers := map[*ssa.Function]bool{}
	for f := range p.fieldWriters[key] {
		writers[f] = true
	}
	for f := range p.ptrWriters[ftyp.String()] {
		writers[f] = true
	}
	for f := range p.ptrWriters[key.owner] {
		writers[f] = true
	}
	memo := p.mayWriteMemo[key]
	if memo == nil {
		memo = map[*ssa.Function]bool{}
		p.mayWriteMemo[key] = memo
	}
	cg := p.CallGraph()
	var reach func(fn *ssa.Function, seen map[*ssa.Function]bool) bool
	reach = func(fn *ssa.Function, seen map[*ssa.Function]bool) bool {
		if fn == nil {
			return true
		}
		if v, ok := memo[fn]; ok {
			return v
		}
		if seen[fn] {
			return false
		}
		seen[fn] = true
		if writers[fn] {
			memo[fn] = true
			return true
		}
		res := false
		if n := cg.Nodes[fn]; n != nil {
			for _, e := range n.Out {
				if reach(e.Callee.Func, seen) {
					res = true
					break
				}
			}
		} else if len(fn.Blocks) > 0 {
			// not in the call graph (should not happen for original functions): be conservative
			res = true
		}
		memo[fn] = res
		return res
	}
	for b := range l.Body {
		for _, in := range b.Instrs {
			switch x := in.(type) {
			case *ssa.Store:
				switch a := x.Addr.(type) {
				case *ssa.FieldAddr:
					if k, _, ok := fieldKeyOf(a); ok && k == key {
						return true
					}
				case *ssa.Alloc, *ssa.IndexAddr, *ssa.Global:
				default:
					if pt, ok := x.Addr.Type().Underlying().(*types.Pointer); ok && (pt.Elem().String() == ftyp.String() || pt.Elem().String() == key.owner) {
						return true
					}
				}
			case *ssa.Go, *ssa.Defer:
				return true
			case *ssa.Call:
				if _, isB := x.Call.Value.(*ssa.Builtin); isB {
					continue
				}
				callee := x.Call.StaticCallee()
				if callee == nil {
					return true // a dynamic call inside the loop: not resolved here
				}
				if reach(p.Original(callee), map[*ssa.Function]bool{}) {
					return true
				}
			}
		}
	}
	return false
}

// loopWritesMemory: the loop body contains an instruction that may write memory (a store, a map
// update, a send, or any call other than len/cap).
func loopWritesMemory(l *Loop) bool {
	for b := range l.Body {
		for _, in := range b.Instrs {
			switch x := in.(type) {
			case *ssa.Store, *ssa.MapUpdate, *ssa.Send, *ssa.Go, *ssa.Defer:
				return true
			case *ssa.Call:
				if bi, ok := x.Call.Value.(*ssa.Builtin); ok && (bi.Name() == "len" || bi.Name() == "cap") {
					continue
				}
				return true
			}
		}
	}
	return false
}

// loopDesc is a rename-independent description of the loop used as obligation key: the canonical
// atoms of the exit tests that are evaluated on every round, in block order.
func (c *Canon) loopDesc(l *Loop) string {
	var parts []string
	var blocks []*ssa.BasicBlock
	for b := range l.Body {
		blocks = append(blocks, b)
	}
	sort.Slice(blocks, func(i, j int) bool { return blocks[i].Index < blocks[j].Index })
	for _, b := range blocks {
		if len(b.Instrs) == 0 {
			continue
		}
		iff, ok := b.Instrs[len(b.Instrs)-1].(*ssa.If)
		if !ok {
			continue
		}
		if l.Body[b.Succs[0]] == l.Body[b.Succs[1]] {
			continue
		}
		a, _ := c.CondAtom(iff.Cond)
		parts = append(parts, a)
	}
	if len(parts) == 0 {
		return "for{}"
	}
	if len(parts) > 3 {
		parts = parts[:3]
	}
	return "exit-tests[" + strings.Join(parts, " ; ") + "]"
}

// CounterFields: (struct type, field index) pairs of integer fields that only ever hold
// non-negative values: every store in the module writes a non-negative constant or the field's
// own value plus a positive constant.
func (p *Program) nonNegField(st *types.Struct, idx int) bool {
	type key struct {
		st  *types.Struct
		idx int
	}
	if p.nonNegFields == nil {
		p.nonNegFields = map[any]bool{}
		bad := map[key]bool{}
		seen := map[key]bool{}
		for fn := range p.AllFunctions() {
			if !IsModPkg(FnPkgPath(fn)) {
				continue
			}
			for _, b := range fn.Blocks {
				for _, in := range b.Instrs {
					sto, ok := in.(*ssa.Store)
					if !ok {
						continue
					}
					fa, ok := sto.Addr.(*ssa.FieldAddr)
					if !ok {
						continue
					}
					pt, ok := fa.X.Type().Underlying().(*types.Pointer)
					if !ok {
						continue
					}
					s, ok := pt.Elem().Underlying().(*types.Struct)
					if !ok {
						continue
					}
					k := key{s, fa.Field}
					seen[k] = true
					okStore := false
					if c, isC := ConstInt(sto.Val); isC && c >= 0 {
						okStore = true
					}
					if bo, isB := sto.Val.(*ssa.BinOp); isB && bo.Op == token.ADD {
						if c, isC := ConstInt(bo.Y); isC && c > 0 {
							if ld, isL := bo.X.(*ssa.UnOp); isL && ld.Op == token.MUL {
								if fa2, isF := ld.X.(*ssa.FieldAddr); isF && fa2.Field == fa.Field && fa2.X == fa.X {
									okStore = true
								}
							}
						}
					}
					if !okStore {
						bad[k] = true
					}
				}
			}
		}
		for k := range seen {
			if !bad[k] {
				p.nonNegFields[k] = true
			}
		}
	}
	return p.nonNegFields[key{st, idx}]
}

// LowerBoundOf: a constant lower bound of an integer value: a constant, a load of a counter field
// (>= 0: nonNegField; composite literals leave such a field at zero), len/cap (>= 0), or a sum of
// such values.
func (p *Program) LowerBoundOf(v ssa.Value) (int64, bool) {
	switch x := v.(type) {
	case *ssa.Const:
		return ConstInt(x)
	case *ssa.BinOp:
		if x.Op != token.ADD {
			return 0, false
		}
		a, ok1 := p.LowerBoundOf(x.X)
		b, ok2 := p.LowerBoundOf(x.Y)
		return a + b, ok1 && ok2
	case *ssa.Call:
		if b, ok := x.Call.Value.(*ssa.Builtin); ok && (b.Name() == "len" || b.Name() == "cap") {
			return 0, true
		}
	case *ssa.UnOp:
		if x.Op != token.MUL {
			return 0, false
		}
		fa, ok := x.X.(*ssa.FieldAddr)
		if !ok {
			return 0, false
		}
		pt, ok := fa.X.Type().Underlying().(*types.Pointer)
		if !ok {
			return 0, false
		}
		s, ok := pt.Elem().Underlying().(*types.Struct)
		if !ok {
			return 0, false
		}
		if bt, ok := s.Field(fa.Field).Type().Underlying().(*types.Basic); !ok || bt.Info()&types.IsInteger == 0 {
			return 0, false
		}
		return 0, p.nonNegField(s, fa.Field)
	}
	return 0, false
}

// usesLazyInit: some inner merge on the way from the cursor to a back-edge value has a lazy
// initialisation edge.
func usesLazyInit(backVals []ssa.Value, phi *ssa.Phi, l *Loop) bool {
	seen := map[ssa.Value]bool{}
	var rec func(v ssa.Value) bool
	rec = func(v ssa.Value) bool {
		if v == nil || seen[v] || v == ssa.Value(phi) {
			return false
		}
		seen[v] = true
		switch x := v.(type) {
		case *ssa.Phi:
			if !l.Body[x.Block()] {
				return false
			}
			for i, e := range x.Edges {
				if lazyInitEdge(x, i, phi) || rec(e) {
					return true
				}
			}
		case *ssa.UnOp:
			if fa, ok := x.X.(*ssa.FieldAddr); ok {
				return rec(fa.X)
			}
		case *ssa.Call:
			for _, a := range x.Call.Args {
				if rec(a) {
					return true
				}
			}
		}
		return false
	}
	for _, v := range backVals {
		if rec(v) {
			return true
		}
	}
	return false
}

// lazyInitEdge: the edge of an inner merge is only taken while the loop's cursor phi is nil
// (`if cursor == nil { cursor = start }` at the top of the body).
func lazyInitEdge(inner *ssa.Phi, edge int, phi *ssa.Phi) bool {
	if edge >= len(inner.Block().Preds) {
		return false
	}
	pred := inner.Block().Preds[edge]
	for d := pred; d != nil; d = d.Idom() {
		up := d.Idom()
		if up == nil || len(up.Instrs) == 0 {
			continue
		}
		iff, ok := up.Instrs[len(up.Instrs)-1].(*ssa.If)
		if !ok {
			continue
		}
		bo, ok := iff.Cond.(*ssa.BinOp)
		if !ok || (bo.Op != token.EQL && bo.Op != token.NEQ) {
			continue
		}
		isPhiNil := (bo.X == ssa.Value(phi) && IsNilConst(bo.Y)) || (bo.Y == ssa.Value(phi) && IsNilConst(bo.X))
		if !isPhiNil {
			continue
		}
		k := 0
		if bo.Op == token.NEQ {
			k = 1
		}
		// d must be the successor taken when the cursor is nil, and not a merge of both outcomes
		if up.Succs[k] == d && len(d.Preds) == 1 {
			return true
		}
	}
	return false
}

// nonNilAtLatch: every value fed back into the cursor is tested against nil with the loop left
// when it is nil, before the back edge - so the lazily initialised walk sees a nil cursor in
// its first round only.
func nonNilAtLatch(l *Loop, backVals []ssa.Value) bool {
	for _, v := range backVals {
		ok := false
		for b := range l.Body {
			iff, isIf := b.Instrs[len(b.Instrs)-1].(*ssa.If)
			if !isIf {
				continue
			}
			bo, isB := iff.Cond.(*ssa.BinOp)
			if !isB || (bo.Op != token.EQL && bo.Op != token.NEQ) {
				continue
			}
			if !((bo.X == v && IsNilConst(bo.Y)) || (bo.Y == v && IsNilConst(bo.X))) {
				continue
			}
			k := 0
			if bo.Op == token.NEQ {
				k = 1
			}
			if l.Body[b.Succs[k]] {
				continue // the loop is not left when the value is nil
			}
			dom := true
			for _, la := range l.Latches {
				if !b.Dominates(la) {
					dom = false
				}
			}
			if dom {
				ok = true
			}
		}
		if !ok {
			return false
		}
	}
	return true
}
