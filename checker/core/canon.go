package core

import (
	"fmt"
	"go/constant"
	"go/token"
	"go/types"
	"sort"
	"strings"

	"golang.org/x/tools/go/ssa"
)

// Canon renders SSA values as canonical expressions that are independent of local variable
// names, statement order and of how a comparison is spelled. Trivial module helpers
// (single-block functions) are inlined so that extracting or inlining them is invisible.
type Canon struct {
	P        *Program
	Inline   bool
	memo     map[ssa.Value]string
	depth    int
	env      []map[*ssa.Parameter]string
	PhiEdge  map[*ssa.Phi]ssa.Value // optional: phi resolved along the current path
	phiStack []*ssa.Phi
	PhiName  map[*ssa.Phi]string      // optional: fixed names (iteration mode: loop state variables)
	AllocVal map[*ssa.Alloc]ssa.Value // optional: last value stored into a local along the current path
	// IndexVal: range-index phis of loops over a fixed list that the current path walks
	// element by element, with the index of the current iteration.
	IndexVal map[*ssa.Phi]int64
}

// rangeIndexOf recognises the index of a range loop in its two SSA spellings (the phi that
// starts at -1, and phi+1 which is the index inside the body) and returns the phi.
func rangeIndexOf(v ssa.Value) (ph *ssa.Phi, plusOne bool) {
	if b, ok := v.(*ssa.BinOp); ok && b.Op == token.ADD {
		if k, isC := ConstInt(b.Y); isC && k == 1 {
			if p, ok := b.X.(*ssa.Phi); ok {
				return p, true
			}
		}
		return nil, false
	}
	if p, ok := v.(*ssa.Phi); ok {
		return p, false
	}
	return nil, false
}

// SplitTop splits s at its top-level commas (quotes and brackets respected).
func SplitTop(s string) []string {
	var out []string
	depth, start := 0, 0
	inStr := false
	rs := []rune(s)
	for i := 0; i < len(rs); i++ {
		r := rs[i]
		switch {
		case inStr:
			if r == '\\' {
				i++
			} else if r == '"' {
				inStr = false
			}
		case r == '"':
			inStr = true
		case r == '(' || r == '{' || r == '[' || r == '‹':
			depth++
		case r == ')' || r == '}' || r == ']' || r == '›':
			depth--
		case r == ',' && depth == 0:
			out = append(out, string(rs[start:i]))
			start = i + 1
		}
	}
	if start < len(rs) || len(out) > 0 {
		out = append(out, string(rs[start:]))
	}
	return out
}

// FixedListElems returns the elements of a canonical list with known content: a private
// package-level list (list‹a,b›) or a slice literal ({a,b}).
func FixedListElems(s string) ([]string, bool) {
	switch {
	case strings.HasPrefix(s, "list‹") && strings.HasSuffix(s, "›"):
		return SplitTop(s[len("list‹") : len(s)-len("›")]), true
	case strings.HasPrefix(s, "{") && strings.HasSuffix(s, "}") && len(s) > 2:
		return SplitTop(s[1 : len(s)-1]), true
	}
	return nil, false
}

func NewCanon(p *Program) *Canon {
	return &Canon{P: p, Inline: true, memo: map[ssa.Value]string{}}
}

func shortPkg(path string) string {
	if i := strings.LastIndex(path, "/"); i >= 0 {
		return path[i+1:]
	}
	return path
}

// FuncName renders a function as pkg.Func or pkg.T.Method.
func FuncName(fn *ssa.Function) string {
	if fn == nil {
		return "?"
	}
	if fn.Parent() != nil {
		return FuncName(fn.Parent()) + "$" + strings.TrimPrefix(fn.Name(), fn.Parent().Name()+"$")
	}
	pkg := shortPkg(FnPkgPath(fn))
	if recv := fn.Signature.Recv(); recv != nil {
		if n := namedOf(recv.Type()); n != nil {
			return pkg + "." + n.Obj().Name() + "." + fn.Name()
		}
	}
	return pkg + "." + fn.Name()
}

func (c *Canon) lookupParam(p *ssa.Parameter) (string, bool) {
	for i := len(c.env) - 1; i >= 0; i-- {
		if s, ok := c.env[i][p]; ok {
			return s, true
		}
	}
	return "", false
}

// Of returns the canonical expression of v.
func (c *Canon) Of(v ssa.Value) string {
	if v == nil {
		return "?"
	}
	if len(c.env) == 0 && c.PhiEdge == nil && len(c.phiStack) == 0 && c.AllocVal == nil {
		if s, ok := c.memo[v]; ok {
			return s
		}
	}
	c.depth++
	defer func() { c.depth-- }()
	if c.depth > 40 {
		return "…"
	}
	s := c.of(v)
	if len(c.env) == 0 && c.PhiEdge == nil && len(c.phiStack) == 0 && c.AllocVal == nil {
		c.memo[v] = s
	}
	return s
}

func (c *Canon) of(v ssa.Value) string {
	switch x := v.(type) {
	case *ssa.Const:
		if x.Value == nil {
			return "nil"
		}
		switch x.Value.Kind() {
		case constant.String:
			return fmt.Sprintf("%q", constant.StringVal(x.Value))
		default:
			if name := c.constName(x); name != "" {
				return name
			}
			return x.Value.ExactString()
		}
	case *ssa.Parameter:
		if s, ok := c.lookupParam(x); ok {
			return s
		}
		for i, p := range x.Parent().Params {
			if p == x {
				return fmt.Sprintf("$%d", i)
			}
		}
		return x.Name()
	case *ssa.FreeVar:
		for i, fv := range x.Parent().FreeVars {
			if fv == x {
				return fmt.Sprintf("^%d", i)
			}
		}
		return "^" + x.Name()
	case *ssa.Global:
		return "&" + shortPkg(x.Pkg.Pkg.Path()) + "." + x.Name()
	case *ssa.Function:
		return FuncName(x)
	case *ssa.Builtin:
		return x.Name()
	case *ssa.Call:
		return c.call(x)
	case *ssa.Extract:
		t := x.Tuple
		if call, ok := t.(*ssa.Call); ok {
			if callee := call.Common().StaticCallee(); callee != nil && RoleFlagResults[callee] && x.Index == 0 {
				return c.Of(call)
			}
			if callee := call.Common().StaticCallee(); callee != nil && c.Inline && c.inlinable(callee) && len(c.env) < 6 {
				ret := callee.Blocks[0].Instrs[len(callee.Blocks[0].Instrs)-1].(*ssa.Return)
				if x.Index < len(ret.Results) {
					env := map[*ssa.Parameter]string{}
					for i, p := range callee.Params {
						if i < len(call.Common().Args) {
							env[p] = c.Of(call.Common().Args[i])
						}
					}
					c.env = append(c.env, env)
					s := c.Of(ret.Results[x.Index])
					c.env = c.env[:len(c.env)-1]
					return s
				}
			}
		}
		switch tt := t.(type) {
		case *ssa.Lookup:
			if tt.CommaOk {
				if x.Index == 1 {
					return "in(" + c.Of(tt.X) + "," + c.Of(tt.Index) + ")"
				}
				return c.Of(tt.X) + "[" + c.Of(tt.Index) + "]"
			}
		case *ssa.TypeAssert:
			if tt.CommaOk {
				if x.Index == 1 {
					return "is(" + c.Of(tt.X) + "," + types.TypeString(tt.AssertedType, shortQual) + ")"
				}
				return c.Of(tt.X) + ".(" + types.TypeString(tt.AssertedType, shortQual) + ")"
			}
		case *ssa.Next:
			switch x.Index {
			case 0:
				return "more(" + c.Of(tt.Iter) + ")"
			case 1:
				return "key(" + c.Of(tt.Iter) + ")"
			default:
				return "val(" + c.Of(tt.Iter) + ")"
			}
		}
		return fmt.Sprintf("%s#%d", c.Of(t), x.Index)
	case *ssa.UnOp:
		switch x.Op {
		case token.MUL:
			switch a := x.X.(type) {
			case *ssa.Alloc:
				if v, ok := c.AllocVal[a]; ok {
					return c.Of(v)
				}
			case *ssa.Global:
				if c.P != nil {
					if s, ok := c.P.GlobalConst(a); ok {
						return s
					}
				}
				return shortPkg(a.Pkg.Pkg.Path()) + "." + a.Name()
			case *ssa.FieldAddr:
				return c.fieldOf(a.X, a.Field)
			case *ssa.IndexAddr:
				return c.elemOf(a.X, a.Index)
			}
			return "*" + c.Of(x.X)
		case token.NOT:
			return "!" + c.Of(x.X)
		case token.SUB:
			return "-" + c.Of(x.X)
		case token.ARROW:
			return "<-" + c.Of(x.X)
		case token.XOR:
			return "^" + c.Of(x.X)
		}
		return x.Op.String() + c.Of(x.X)
	case *ssa.BinOp:
		// the index of `for i := range s` (a phi starting at -1 that is incremented before the
		// test) renders like the index of `for i := 0; i < len(s); i++`
		if x.Op == token.ADD {
			if ph, plus := rangeIndexOf(x); ph != nil && plus && c.IndexVal != nil {
				if k, ok := c.IndexVal[ph]; ok {
					return fmt.Sprintf("%d", k)
				}
			}
			if k, ok := ConstInt(x.Y); ok && k == 1 {
				if ph, ok := x.X.(*ssa.Phi); ok && len(ph.Edges) >= 2 {
					nInit, nBack := 0, 0
					for _, e := range ph.Edges {
						if k0, ok := ConstInt(e); ok && k0 == -1 {
							nInit++
						} else if e == ssa.Value(x) {
							nBack++
						}
					}
					if _, named := c.PhiName[ph]; !named && nInit == 1 && nInit+nBack == len(ph.Edges) {
						return "μ((@0 + 1)|0)"
					}
				}
			}
		}
		return "(" + c.Of(x.X) + " " + x.Op.String() + " " + c.Of(x.Y) + ")"
	case *ssa.Phi:
		if n, ok := c.PhiName[x]; ok {
			return n
		}
		if c.IndexVal != nil {
			if k, ok := c.IndexVal[x]; ok {
				return fmt.Sprintf("%d", k-1)
			}
		}
		if c.PhiEdge != nil {
			if e, ok := c.PhiEdge[x]; ok {
				return c.Of(e)
			}
		}
		// structural rendering, independent of the variable's name: μ(edge|edge), @k = back reference
		for i, ph := range c.phiStack {
			if ph == x {
				return fmt.Sprintf("@%d", len(c.phiStack)-1-i)
			}
		}
		if len(c.phiStack) >= 3 {
			return "μ…"
		}
		c.phiStack = append(c.phiStack, x)
		var parts []string
		seen := map[string]bool{}
		add := func(s string) {
			if !seen[s] {
				seen[s] = true
				parts = append(parts, s)
			}
		}
		for _, e := range x.Edges {
			// a merge of merges is one merge: how the control flow nests the alternatives is
			// not part of the value (loop-carried inner merges keep their structure)
			if inner, ok := e.(*ssa.Phi); ok {
				if _, named := c.PhiName[inner]; !named && (c.PhiEdge == nil || c.PhiEdge[inner] == nil) {
					if ps, ok := c.flatPhiParts(inner); ok {
						for _, s := range ps {
							add(s)
						}
						continue
					}
				}
			}
			add(c.Of(e))
		}
		c.phiStack = c.phiStack[:len(c.phiStack)-1]
		sort.Strings(parts)
		if len(parts) == 1 && !strings.Contains(parts[0], "@") {
			return parts[0]
		}
		return "μ(" + strings.Join(parts, "|") + ")"
	case *ssa.FieldAddr:
		return "&" + c.fieldOf(x.X, x.Field)
	case *ssa.Field:
		st := x.X.Type().Underlying().(*types.Struct)
		return c.Of(x.X) + "." + FieldLabel(st, x.Field)
	case *ssa.IndexAddr:
		return "&" + c.elemOf(x.X, x.Index)
	case *ssa.Index:
		return c.elemOf(x.X, x.Index)
	case *ssa.Lookup:
		return c.Of(x.X) + "[" + c.Of(x.Index) + "]"
	case *ssa.Slice:
		// a slice of a freshly filled array (variadic arguments, slice literals): render the elements
		if al, ok := x.X.(*ssa.Alloc); ok && x.Low == nil && x.High == nil {
			if arr, ok := al.Type().(*types.Pointer).Elem().Underlying().(*types.Array); ok && arr.Len() <= 16 {
				elems := make([]string, arr.Len())
				okAll := true
				for _, ref := range *al.Referrers() {
					switch ia := ref.(type) {
					case *ssa.IndexAddr:
						idx, isC := ConstInt(ia.Index)
						if !isC || idx < 0 || idx >= arr.Len() {
							okAll = false
							continue
						}
						for _, r2 := range *ia.Referrers() {
							if st, ok := r2.(*ssa.Store); ok && st.Addr == ia {
								elems[idx] = c.Of(st.Val)
							}
						}
					case *ssa.Slice, *ssa.DebugRef:
					default:
						okAll = false
					}
				}
				if okAll {
					return "{" + strings.Join(elems, ",") + "}"
				}
			}
		}
		lo, hi := "", ""
		if x.Low != nil {
			lo = c.Of(x.Low)
		}
		if x.High != nil {
			hi = c.Of(x.High)
		}
		return c.Of(x.X) + "[" + lo + ":" + hi + "]"
	case *ssa.ChangeType:
		return c.Of(x.X)
	case *ssa.Convert:
		// conversions between string and byte/rune slices or numeric widths are value preserving
		// for our purposes
		return c.Of(x.X)
	case *ssa.MakeInterface:
		return c.Of(x.X)
	case *ssa.ChangeInterface:
		return c.Of(x.X)
	case *ssa.SliceToArrayPointer:
		return c.Of(x.X)
	case *ssa.TypeAssert:
		return c.Of(x.X) + ".(" + types.TypeString(x.AssertedType, shortQual) + ")"
	case *ssa.MakeClosure:
		return "closure(" + c.Of(x.Fn) + ")"
	case *ssa.Alloc:
		return "new(" + types.TypeString(x.Type().(*types.Pointer).Elem(), shortQual) + ")"
	case *ssa.Range:
		return "range(" + c.Of(x.X) + ")"
	case *ssa.Next:
		return "next(" + c.Of(x.Iter) + ")"
	case *ssa.MakeSlice:
		return "make(" + types.TypeString(x.Type(), shortQual) + ")"
	case *ssa.MakeMap:
		return "make(" + types.TypeString(x.Type(), shortQual) + ")"
	case *ssa.MakeChan:
		return "make(" + types.TypeString(x.Type(), shortQual) + ")"
	}
	return fmt.Sprintf("<%T>", v)
}

func shortQual(p *types.Package) string { return p.Name() }

func (c *Canon) fieldOf(base ssa.Value, idx int) string {
	t := base.Type()
	baseStr := ""
	switch b := base.(type) {
	case *ssa.FieldAddr:
		baseStr = c.fieldOf(b.X, b.Field) // nested struct: a.b.c, not &a.b.c
	case *ssa.IndexAddr:
		baseStr = "elem(" + c.Of(b.X) + ")"
	case *ssa.Alloc:
		// a private copy of a struct that is only read (the spilled value receiver of a getter,
		// `tb := *p` before some reads): its fields are named like the fields of the original, so
		// a value receiver and a pointer receiver give the same form
		if src, ok := copyOnlyRead(b); ok {
			baseStr = strings.TrimPrefix(c.Of(src), "*")
			if ld, isLoad := src.(*ssa.UnOp); isLoad && ld.Op == token.MUL {
				baseStr = c.Of(ld.X)
			}
		} else {
			baseStr = c.Of(base)
		}
	default:
		baseStr = c.Of(base)
	}
	if p, ok := t.Underlying().(*types.Pointer); ok {
		t = p.Elem()
	}
	st, ok := t.Underlying().(*types.Struct)
	if !ok {
		return baseStr + ".?"
	}
	return baseStr + "." + FieldLabel(st, idx)
}

// copyOnlyRead: the local struct is written exactly once, as a whole, from a parameter or a load,
// and afterwards only its fields are read.
func copyOnlyRead(a *ssa.Alloc) (ssa.Value, bool) {
	pt, ok := a.Type().Underlying().(*types.Pointer)
	if !ok || a.Referrers() == nil {
		return nil, false
	}
	if _, isStruct := pt.Elem().Underlying().(*types.Struct); !isStruct {
		return nil, false
	}
	var src ssa.Value
	for _, r := range *a.Referrers() {
		switch x := r.(type) {
		case *ssa.Store:
			if x.Addr != ssa.Value(a) || src != nil {
				return nil, false
			}
			src = x.Val
		case *ssa.FieldAddr:
			if x.Referrers() == nil {
				continue
			}
			for _, r2 := range *x.Referrers() {
				if u, isLoad := r2.(*ssa.UnOp); !isLoad || u.Op != token.MUL {
					if _, dbg := r2.(*ssa.DebugRef); !dbg {
						return nil, false
					}
				}
			}
		case *ssa.DebugRef:
		default:
			return nil, false
		}
	}
	if src == nil {
		return nil, false
	}
	switch s := src.(type) {
	case *ssa.Parameter:
		return s, true
	case *ssa.UnOp:
		if s.Op == token.MUL {
			return s, true
		}
	}
	return nil, false
}

// flatPhiParts returns the alternatives of a phi that is not loop-carried (none of its
// alternatives refers back to a phi under construction), recursively flattened.
func (c *Canon) flatPhiParts(x *ssa.Phi) ([]string, bool) {
	for _, ph := range c.phiStack {
		if ph == x {
			return nil, false
		}
	}
	if len(c.phiStack) >= 6 {
		return nil, false
	}
	c.phiStack = append(c.phiStack, x)
	defer func() { c.phiStack = c.phiStack[:len(c.phiStack)-1] }()
	var out []string
	for _, e := range x.Edges {
		if inner, ok := e.(*ssa.Phi); ok {
			if _, named := c.PhiName[inner]; !named && (c.PhiEdge == nil || c.PhiEdge[inner] == nil) {
				if ps, ok := c.flatPhiParts(inner); ok {
					out = append(out, ps...)
					continue
				}
			}
		}
		s := c.Of(e)
		if strings.Contains(s, "@") {
			return nil, false
		}
		out = append(out, s)
	}
	return out, true
}

// elemOf renders an element access: a constant index is kept (s[0]), any other index is
// abstracted (elem(s): "some element", the loop variable's name and form do not matter).
func (c *Canon) elemOf(x, idx ssa.Value) string {
	if k, ok := ConstInt(idx); ok {
		return fmt.Sprintf("%s[%d]", c.Of(x), k)
	}
	if ph, plus := rangeIndexOf(idx); ph != nil && c.IndexVal != nil {
		if k, ok := c.IndexVal[ph]; ok {
			if !plus {
				k--
			}
			xs := c.Of(x)
			if elems, fixed := FixedListElems(xs); fixed && k >= 0 && int(k) < len(elems) {
				return elems[k]
			}
			return fmt.Sprintf("%s[%d]", xs, k)
		}
	}
	return "elem(" + c.Of(x) + ")"
}

// FieldLabel names a struct field in canonical expressions. Exported fields keep their name;
// unexported fields are named by their type (and, among unexported fields of the same type, by
// their ordinal), so that renaming a private field does not change any canonical form:
// Table.cloned renders as ‹*html.Node›.
func FieldLabel(st *types.Struct, idx int) string {
	f := st.Field(idx)
	if f.Exported() {
		return f.Name()
	}
	k := 0
	for i := 0; i < idx; i++ {
		g := st.Field(i)
		if !g.Exported() && types.Identical(g.Type(), f.Type()) {
			k++
		}
	}
	t := types.TypeString(f.Type(), shortQual)
	if k == 0 {
		return "‹" + t + "›"
	}
	return fmt.Sprintf("‹%s#%d›", t, k)
}

// constName maps a constant of a named (enum-like) type back to the name of the declared
// constant with that value, e.g. tableclass.Layout.
func (c *Canon) constName(k *ssa.Const) string {
	n, ok := k.Type().(*types.Named)
	if !ok || n.Obj().Pkg() == nil {
		return ""
	}
	if _, isBasic := n.Underlying().(*types.Basic); !isBasic {
		return ""
	}
	scope := n.Obj().Pkg().Scope()
	for _, name := range scope.Names() {
		if cst, ok := scope.Lookup(name).(*types.Const); ok && types.Identical(cst.Type(), n) {
			if constant.Compare(cst.Val(), token.EQL, k.Value) {
				return n.Obj().Pkg().Name() + "." + name
			}
		}
	}
	return ""
}

func (c *Canon) call(x *ssa.Call) string {
	cc := x.Common()
	var args []string
	if cc.IsInvoke() {
		args = append(args, c.Of(cc.Value))
		for _, a := range cc.Args {
			args = append(args, c.Of(a))
		}
		return "iface." + cc.Method.Name() + "(" + strings.Join(args, ",") + ")"
	}
	callee := cc.StaticCallee()
	if callee != nil && c.Inline && c.inlinable(callee) && len(c.env) < 6 {
		env := map[*ssa.Parameter]string{}
		for i, p := range callee.Params {
			if i < len(cc.Args) {
				env[p] = c.Of(cc.Args[i])
			}
		}
		ret := callee.Blocks[0].Instrs[len(callee.Blocks[0].Instrs)-1].(*ssa.Return)
		c.env = append(c.env, env)
		var parts []string
		for _, r := range ret.Results {
			parts = append(parts, c.Of(r))
		}
		c.env = c.env[:len(c.env)-1]
		if len(parts) == 1 {
			return parts[0]
		}
		return "(" + strings.Join(parts, ",") + ")"
	}
	for _, a := range cc.Args {
		args = append(args, c.Of(a))
	}
	name := "dyn:" + c.Of(cc.Value)
	if callee != nil {
		name = FuncName(callee)
		if rn := RoleName(callee); rn != "" {
			// a role helper is rendered with the data it asks about only: the receiver and plain
			// flags/numbers are left out, so that turning the method into a function (or passing
			// a precomputed flag along) does not change the form
			name = "@" + rn
			args = args[:0]
			for i, a := range cc.Args {
				if i == 0 && callee.Signature.Recv() != nil {
					continue
				}
				if _, basic := a.Type().Underlying().(*types.Basic); basic {
					continue
				}
				args = append(args, c.Of(a))
			}
		}
	} else if b, ok := cc.Value.(*ssa.Builtin); ok {
		name = b.Name()
	}
	return name + "(" + strings.Join(args, ",") + ")"
}

// CanonOpaque: exported module functions that specifications name as atomic questions; they keep
// their name in canonical forms however trivial their body is (or becomes).
var CanonOpaque = map[string]bool{}

// inlinable: a module function consisting of one block whose instructions are pure value
// computations followed by a return (no stores, no calls to unknown effects are checked here:
// calls inside are rendered as calls).
var transparentStd = map[string]bool{"(*net/url.URL).IsAbs": true}

func (c *Canon) inlinable(fn *ssa.Function) bool {
	// module functions, and a few trivial accessors of the standard library whose body says more
	// than their name ((*url.URL).IsAbs is `u.Scheme != ""`)
	if !(IsModPkg(FnPkgPath(fn)) || transparentStd[fn.String()]) || len(fn.Blocks) != 1 {
		return false
	}
	if CanonOpaque[fn.String()] {
		return false
	}
	if _, isRole := roleNames[fn]; isRole {
		return false
	}
	b := fn.Blocks[0]
	if len(b.Instrs) == 0 {
		return false
	}
	if _, ok := b.Instrs[len(b.Instrs)-1].(*ssa.Return); !ok {
		return false
	}
	for _, in := range b.Instrs[:len(b.Instrs)-1] {
		switch x := in.(type) {
		case *ssa.Store:
			// the spill of a value receiver into a local that is only read afterwards
			if al, isAl := x.Addr.(*ssa.Alloc); isAl {
				if _, ok := copyOnlyRead(al); ok {
					continue
				}
			}
			return false
		case *ssa.MapUpdate, *ssa.Send, *ssa.Go, *ssa.Defer, *ssa.Panic, *ssa.RunDefers:
			return false
		case *ssa.DebugRef:
		case *ssa.Call:
			// a wrapper around a private helper keeps its own (exported, stable) name: expanding
			// it would put the helper's private name into canonical forms
			if callee := x.Call.StaticCallee(); callee != nil && IsModPkg(FnPkgPath(callee)) && callee.Object() != nil && !callee.Object().Exported() {
				return false
			}
			// every call must feed the result: a call made only for its effect
			// would disappear from the canonical form
			used := false
			if refs := x.Referrers(); refs != nil {
				for _, r := range *refs {
					if _, dbg := r.(*ssa.DebugRef); !dbg {
						used = true
					}
				}
			}
			if !used {
				return false
			}
		}
	}
	return true
}

// Lit is an atom with a truth value.
type Lit struct {
	Atom string
	Val  bool
}

func (l Lit) String() string {
	if l.Val {
		return l.Atom
	}
	return "¬" + l.Atom
}

// CondAtom normalises a branch condition into a canonical atom and the truth value the atom has
// when the condition is true. Integer comparisons against constants become `x <= c`;
// (in)equalities become `x == y` with the constant on the right.
func (c *Canon) CondAtom(cond ssa.Value) (atom string, valWhenTrue bool) {
	pos := true
	v := cond
	for {
		v = StripConv(v)
		if c.PhiEdge != nil {
			if ph, ok := v.(*ssa.Phi); ok {
				if _, named := c.PhiName[ph]; !named {
					if e, ok := c.PhiEdge[ph]; ok {
						v = e
						continue
					}
				}
			}
		}
		if u, ok := v.(*ssa.UnOp); ok && u.Op == token.NOT {
			pos = !pos
			v = u.X
			continue
		}
		break
	}
	if call, ok := v.(*ssa.Call); ok {
		if callee := call.Common().StaticCallee(); callee != nil && c.Inline && c.inlinable(callee) && len(c.env) < 6 {
			ret := callee.Blocks[0].Instrs[len(callee.Blocks[0].Instrs)-1].(*ssa.Return)
			if len(ret.Results) == 1 && isBoolType(ret.Results[0]) {
				env := map[*ssa.Parameter]string{}
				for i, p := range callee.Params {
					if i < len(call.Common().Args) {
						env[p] = c.Of(call.Common().Args[i])
					}
				}
				c.env = append(c.env, env)
				a, p2 := c.CondAtom(ret.Results[0])
				c.env = c.env[:len(c.env)-1]
				return a, p2 == pos
			}
		}
	}
	if b, ok := v.(*ssa.BinOp); ok {
		switch b.Op {
		case token.LSS, token.LEQ, token.GTR, token.GEQ:
			x, y := b.X, b.Y
			op := b.Op
			if _, isC := constIntOf(x); isC {
				// c op y  ==>  y op' c
				x, y = y, x
				switch op {
				case token.LSS:
					op = token.GTR
				case token.LEQ:
					op = token.GEQ
				case token.GTR:
					op = token.LSS
				case token.GEQ:
					op = token.LEQ
				}
			}
			if k, isC := constIntOf(y); isC {
				if sv, ok := lenOfString(x); ok {
					// len(s) <= 0  <=>  s == ""   (lengths are never negative)
					switch {
					case (op == token.LEQ && k == 0) || (op == token.LSS && k == 1):
						return c.Of(sv) + ` == ""`, pos
					case (op == token.GTR && k == 0) || (op == token.GEQ && k == 1):
						return c.Of(sv) + ` == ""`, !pos
					}
				}
				xs := c.Of(x)
				switch op {
				case token.LEQ:
					return fmt.Sprintf("%s <= %d", xs, k), pos
				case token.LSS:
					return fmt.Sprintf("%s <= %d", xs, k-1), pos
				case token.GTR:
					return fmt.Sprintf("%s <= %d", xs, k), !pos
				case token.GEQ:
					return fmt.Sprintf("%s <= %d", xs, k-1), !pos
				}
			}
			xs, ys := c.Of(x), c.Of(y)
			switch op {
			case token.LSS:
				return xs + " < " + ys, pos
			case token.GEQ:
				return xs + " < " + ys, !pos
			case token.GTR:
				return ys + " < " + xs, pos
			case token.LEQ:
				return ys + " < " + xs, !pos
			}
		case token.EQL, token.NEQ:
			if b.Op == token.NEQ {
				pos = !pos
			}
			x, y := b.X, b.Y
			if bv, ok := ConstBool(StripConv(y)); ok {
				a, p2 := c.CondAtom(x)
				return a, (p2 == bv) == pos
			}
			if bv, ok := ConstBool(StripConv(x)); ok {
				a, p2 := c.CondAtom(y)
				return a, (p2 == bv) == pos
			}
			// len(v) == 0 / != 0: strings compare with "", everything else becomes len(v) <= 0
			for _, pr := range [][2]ssa.Value{{x, y}, {y, x}} {
				if k, isC := constIntOf(pr[1]); isC && k == 0 {
					if sv, ok := lenOfString(pr[0]); ok {
						return c.Of(sv) + ` == ""`, pos
					}
					if isLenCall(pr[0]) {
						return c.Of(pr[0]) + " <= 0", pos
					}
				}
			}
			xs, ys := c.Of(x), c.Of(y)
			_, xc := x.(*ssa.Const)
			_, yc := y.(*ssa.Const)
			if xc && !yc || (!xc && !yc && ys < xs) {
				xs, ys = ys, xs
			}
			return xs + " == " + ys, pos
		}
	}
	return c.Of(v), pos
}

func isLenCall(v ssa.Value) bool {
	call, ok := StripConv(v).(*ssa.Call)
	if !ok {
		return false
	}
	b, ok := call.Call.Value.(*ssa.Builtin)
	return ok && b.Name() == "len" && len(call.Call.Args) == 1
}

// lenOfString: v is len(s) for a string s.
func lenOfString(v ssa.Value) (ssa.Value, bool) {
	if !isLenCall(v) {
		return nil, false
	}
	arg := StripConv(v).(*ssa.Call).Call.Args[0]
	if b, ok := arg.Type().Underlying().(*types.Basic); ok && b.Info()&types.IsString != 0 {
		return arg, true
	}
	return nil, false
}

func constIntOf(v ssa.Value) (int64, bool) {
	return ConstInt(StripConv(v))
}

// Resolve follows value-preserving conversions, phis resolved along the current path and
// locals spilled by a defer to the defining value.
func (c *Canon) Resolve(v ssa.Value) ssa.Value {
	for i := 0; i < 64 && v != nil; i++ {
		v = StripConv(v)
		switch x := v.(type) {
		case *ssa.Phi:
			if _, named := c.PhiName[x]; !named && c.PhiEdge != nil {
				if e, ok := c.PhiEdge[x]; ok {
					v = e
					continue
				}
			}
		case *ssa.UnOp:
			if x.Op == token.MUL {
				if a, ok := x.X.(*ssa.Alloc); ok {
					if s, ok := c.AllocVal[a]; ok {
						v = s
						continue
					}
				}
			}
		case *ssa.MakeInterface:
			v = x.X
			continue
		case *ssa.ChangeInterface:
			v = x.X
			continue
		}
		return v
	}
	return v
}
