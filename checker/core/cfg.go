package core

import (
	"fmt"
	"go/constant"
	"go/token"
	"go/types"
	"regexp"

	"golang.org/x/tools/go/ssa"
)

// Edge identifies the k-th successor edge of a block (k=0: true edge of an If).
type Edge struct {
	From *ssa.BasicBlock
	K    int
}

// EdgeSet is a set of removed CFG edges.
type EdgeSet map[Edge]bool

// Callee returns the statically known callee of a call instruction, or nil.
func Callee(c ssa.CallInstruction) *ssa.Function {
	if c == nil {
		return nil
	}
	return c.Common().StaticCallee()
}

// CalleeKey returns a printable key of the (static or interface) callee.
func CalleeKey(c ssa.CallInstruction) string {
	cc := c.Common()
	if f := cc.StaticCallee(); f != nil {
		return f.String()
	}
	if cc.IsInvoke() {
		return "(" + cc.Value.Type().String() + ")." + cc.Method.Name()
	}
	if b, ok := cc.Value.(*ssa.Builtin); ok {
		return "builtin." + b.Name()
	}
	return "dynamic"
}

// IsCallTo reports whether instr is a call (or go/defer) whose static callee has one of the keys
// (after ExpandKey), or an interface invoke of a method with name "iface:Name".
func IsCallTo(instr ssa.Instruction, keys ...string) bool {
	c, ok := instr.(ssa.CallInstruction)
	if !ok {
		return false
	}
	k := CalleeKey(c)
	for _, want := range keys {
		if len(want) > 6 && want[:6] == "iface:" {
			if c.Common().IsInvoke() && c.Common().Method.Name() == want[6:] {
				return true
			}
			continue
		}
		if k == ExpandKey(want) {
			return true
		}
	}
	return false
}

// Calls lists the call instructions in fn satisfying pred, in block/instruction order.
func Calls(fn *ssa.Function, pred func(ssa.CallInstruction) bool) []ssa.CallInstruction {
	var out []ssa.CallInstruction
	for _, b := range fn.Blocks {
		for _, in := range b.Instrs {
			if c, ok := in.(ssa.CallInstruction); ok && pred(c) {
				out = append(out, c)
			}
		}
	}
	return out
}

// StripConv removes value-preserving wrappers.
func StripConv(v ssa.Value) ssa.Value {
	for {
		switch x := v.(type) {
		case *ssa.ChangeType:
			v = x.X
		case *ssa.Convert:
			v = x.X
		case *ssa.MakeInterface:
			v = x.X
		case *ssa.ChangeInterface:
			v = x.X
		default:
			return v
		}
	}
}

// CondPolarity decides whether cond is (a possibly negated form of) a value satisfying match.
// It returns ok and whether the condition is the negation of the matched value.
func CondPolarity(cond ssa.Value, match func(ssa.Value) bool) (ok bool, negated bool) {
	neg := false
	v := cond
	for i := 0; i < 8; i++ {
		v = StripConv(v)
		if match(v) {
			return true, neg
		}
		switch x := v.(type) {
		case *ssa.UnOp:
			if x.Op == token.NOT {
				neg = !neg
				v = x.X
				continue
			}
			return false, false
		case *ssa.BinOp:
			if x.Op == token.EQL || x.Op == token.NEQ {
				var other ssa.Value
				var c *ssa.Const
				if cc, ok := x.Y.(*ssa.Const); ok {
					c, other = cc, x.X
				} else if cc, ok := x.X.(*ssa.Const); ok {
					c, other = cc, x.Y
				}
				if c != nil && c.Value != nil && c.Value.Kind() == constant.Bool {
					b := constant.BoolVal(c.Value)
					if (x.Op == token.EQL) != b {
						neg = !neg
					}
					v = other
					continue
				}
			}
			return false, false
		default:
			return false, false
		}
	}
	return false, false
}

// CutWhere returns the edges taken when a value satisfying match evaluates to `when`.
// Every If in fn whose condition is such a value (possibly negated) contributes one edge.
func CutWhere(fn *ssa.Function, match func(ssa.Value) bool, when bool) EdgeSet {
	cut := EdgeSet{}
	AddCutWhere(cut, fn, match, when)
	return cut
}

// AddCutWhere adds to cut like CutWhere; returns the number of If instructions matched.
func AddCutWhere(cut EdgeSet, fn *ssa.Function, match func(ssa.Value) bool, when bool) int {
	n := 0
	for _, b := range fn.Blocks {
		if len(b.Instrs) == 0 {
			continue
		}
		ifi, ok := b.Instrs[len(b.Instrs)-1].(*ssa.If)
		if !ok {
			continue
		}
		ok2, neg := CondPolarity(ifi.Cond, match)
		if !ok2 {
			continue
		}
		n++
		// cond true <=> matched value == !neg. Edge 0 is cond-true.
		condWhenValue := when != neg // cond's value when matched value == when
		if condWhenValue {
			cut[Edge{b, 0}] = true
		} else {
			cut[Edge{b, 1}] = true
		}
	}
	return n
}

// ReachableBlocks computes blocks reachable from the entry with the edges in cut removed.
func ReachableBlocks(fn *ssa.Function, cut EdgeSet) map[*ssa.BasicBlock]bool {
	seen := map[*ssa.BasicBlock]bool{}
	if len(fn.Blocks) == 0 {
		return seen
	}
	stack := []*ssa.BasicBlock{fn.Blocks[0]}
	seen[fn.Blocks[0]] = true
	for len(stack) > 0 {
		b := stack[len(stack)-1]
		stack = stack[:len(stack)-1]
		for k, s := range b.Succs {
			if cut[Edge{b, k}] {
				continue
			}
			if !seen[s] {
				seen[s] = true
				stack = append(stack, s)
			}
		}
	}
	// recover block is an extra entry
	if fn.Recover != nil && !seen[fn.Recover] {
		// not considered reachable for path rules
	}
	return seen
}

// InstrReachable reports whether instr can execute with the cut edges removed.
func InstrReachable(fn *ssa.Function, cut EdgeSet, instr ssa.Instruction) bool {
	return ReachableBlocks(fn, cut)[instr.Block()]
}

// MustPassThrough reports whether every path from the entry to target executes an instruction
// satisfying pred before target. cut edges are treated as absent. If not, a witness path
// (block comments/indices) is returned.
func MustPassThrough(fn *ssa.Function, target ssa.Instruction, pred func(ssa.Instruction) bool, cut EdgeSet) (bool, []string) {
	// clean[b] = b is reachable from entry along a path that executed no pred instruction
	// before entering b.
	if len(fn.Blocks) == 0 {
		return true, nil
	}
	prev := map[*ssa.BasicBlock]*ssa.BasicBlock{}
	clean := map[*ssa.BasicBlock]bool{fn.Blocks[0]: true}
	queue := []*ssa.BasicBlock{fn.Blocks[0]}
	for len(queue) > 0 {
		b := queue[0]
		queue = queue[1:]
		hit := false
		for _, in := range b.Instrs {
			if in == target {
				// reached target cleanly
				var path []string
				for x := b; x != nil; x = prev[x] {
					path = append([]string{blockLabel(x)}, path...)
					if x == fn.Blocks[0] {
						break
					}
				}
				return false, path
			}
			if pred(in) {
				hit = true
				break
			}
		}
		if hit {
			continue
		}
		for k, s := range b.Succs {
			if cut[Edge{b, k}] {
				continue
			}
			if !clean[s] {
				clean[s] = true
				prev[s] = b
				queue = append(queue, s)
			}
		}
	}
	return true, nil
}

func blockLabel(b *ssa.BasicBlock) string {
	if b.Comment != "" {
		return fmt.Sprintf("b%d(%s)", b.Index, b.Comment)
	}
	return fmt.Sprintf("b%d", b.Index)
}

// Returns lists the Return instructions of fn.
func Returns(fn *ssa.Function) []*ssa.Return {
	var out []*ssa.Return
	for _, b := range fn.Blocks {
		for _, in := range b.Instrs {
			if r, ok := in.(*ssa.Return); ok {
				out = append(out, r)
			}
		}
	}
	return out
}

// ConstBool returns the value of a boolean constant.
func ConstBool(v ssa.Value) (val bool, ok bool) {
	c, isC := v.(*ssa.Const)
	if !isC || c.Value == nil || c.Value.Kind() != constant.Bool {
		return false, false
	}
	return constant.BoolVal(c.Value), true
}

// ConstString returns the value of a string constant.
func ConstString(v ssa.Value) (string, bool) {
	c, isC := v.(*ssa.Const)
	if !isC || c.Value == nil || c.Value.Kind() != constant.String {
		return "", false
	}
	return constant.StringVal(c.Value), true
}

// ConstInt returns the value of an integer constant.
func ConstInt(v ssa.Value) (int64, bool) {
	c, isC := v.(*ssa.Const)
	if !isC || c.Value == nil || c.Value.Kind() != constant.Int {
		return 0, false
	}
	i, ok := constant.Int64Val(c.Value)
	return i, ok
}

// IsNilConst reports whether v is the nil constant.
func IsNilConst(v ssa.Value) bool {
	c, ok := v.(*ssa.Const)
	return ok && c.Value == nil && !isBasic(c.Type())
}

func isBasic(t types.Type) bool {
	_, ok := t.Underlying().(*types.Basic)
	return ok
}

// ValueDerivesFrom reports whether v is computed (through phis, conversions, unary/binary
// operators, extracts, field reads of values) from a value satisfying match.
func ValueDerivesFrom(v ssa.Value, match func(ssa.Value) bool) bool {
	seen := map[ssa.Value]bool{}
	var rec func(ssa.Value) bool
	rec = func(x ssa.Value) bool {
		if x == nil || seen[x] {
			return false
		}
		seen[x] = true
		if match(x) {
			return true
		}
		switch y := x.(type) {
		case *ssa.Phi:
			for _, e := range y.Edges {
				if rec(e) {
					return true
				}
			}
		case *ssa.UnOp:
			return rec(y.X)
		case *ssa.BinOp:
			return rec(y.X) || rec(y.Y)
		case *ssa.ChangeType:
			return rec(y.X)
		case *ssa.Convert:
			return rec(y.X)
		case *ssa.MakeInterface:
			return rec(y.X)
		case *ssa.ChangeInterface:
			return rec(y.X)
		case *ssa.Extract:
			return rec(y.Tuple)
		case *ssa.TypeAssert:
			return rec(y.X)
		case *ssa.Slice:
			return rec(y.X)
		case *ssa.Field:
			return rec(y.X)
		}
		return false
	}
	return rec(v)
}

// IsCallValue returns a matcher for values that are calls to one of the keys.
func IsCallValue(keys ...string) func(ssa.Value) bool {
	return func(v ssa.Value) bool {
		c, ok := v.(*ssa.Call)
		return ok && IsCallTo(c, keys...)
	}
}

// CutAtoms removes, for every If whose normalised condition atom matches re, the edge taken when
// the atom has the truth value atomVal. It returns the cut set and the atoms matched.
// Matching on canonical atoms makes the cut independent of helper inlining and of how the
// comparison is spelled.
func CutAtoms(p *Program, fn *ssa.Function, re *regexp.Regexp, atomVal bool) (EdgeSet, []string) {
	cut := EdgeSet{}
	var matched []string
	seenAtom := map[string]bool{}
	c := NewCanon(p)
	for _, b := range fn.Blocks {
		if len(b.Instrs) == 0 {
			continue
		}
		ifi, ok := b.Instrs[len(b.Instrs)-1].(*ssa.If)
		if !ok {
			continue
		}
		atom, whenTrue := c.CondAtom(ifi.Cond)
		if !re.MatchString(atom) {
			continue
		}
		matched = append(matched, atom)
		// cond true => atom == whenTrue
		if whenTrue == atomVal {
			cut[Edge{b, 0}] = true
		} else {
			cut[Edge{b, 1}] = true
		}
	}
	// the same test wrapped in a predicate helper (`return a == x || a == y`, expanded into fn):
	// the branch is then on a merge of booleans. The side of that branch on which the merge is
	// true (false) implies the tested fact if every way the merge gets that value does: a constant
	// that arrives over an edge already cut, or a comparison that matches itself.
	for changed := true; changed; {
		changed = false
		for _, b := range fn.Blocks {
			if len(b.Instrs) == 0 {
				continue
			}
			ifi, ok := b.Instrs[len(b.Instrs)-1].(*ssa.If)
			if !ok {
				continue
			}
			v, neg := ifi.Cond, false
			for {
				u, ok := v.(*ssa.UnOp)
				if !ok || u.Op != token.NOT {
					break
				}
				neg, v = !neg, u.X
			}
			ph, ok := v.(*ssa.Phi)
			if !ok || len(ph.Edges) != len(ph.Block().Preds) {
				continue
			}
			for _, want := range []bool{true, false} { // the value of the merge that is to imply the fact
				okAll, some := true, false
				for i, e := range ph.Edges {
					pred := ph.Block().Preds[i]
					if cv, isC := ConstBool(e); isC {
						if cv != want {
							continue // this way the merge has the other value
						}
						// arrives with the wanted value: only over an edge that is already cut
						arrivesCut := false
						for k, sc := range pred.Succs {
							if sc == ph.Block() && cut[Edge{pred, k}] {
								arrivesCut = true
							}
						}
						if !arrivesCut {
							okAll = false
						}
						some = true
						continue
					}
					a, wt := c.CondAtom(e)
					// e == want  =>  atom == (wt == want) ; must be atomVal
					if re.MatchString(a) && (wt == want) == atomVal {
						some = true
						if !seenAtom[a] {
							seenAtom[a] = true
							matched = append(matched, a)
						}
						continue
					}
					okAll = false
				}
				if !okAll || !some {
					continue
				}
				// branch side on which the merge has the value `want`
				k := 0
				if want == neg {
					k = 1
				}
				if !cut[Edge{b, k}] {
					cut[Edge{b, k}] = true
					changed = true
				}
			}
		}
	}
	return cut, matched
}

// Union merges edge sets.
func Union(sets ...EdgeSet) EdgeSet {
	out := EdgeSet{}
	for _, s := range sets {
		for e := range s {
			out[e] = true
		}
	}
	return out
}

// MustPassBetween reports whether every path from the instruction after `from` to `target`
// executes an instruction satisfying pred. If target is not reachable from `from` it holds
// vacuously.
func MustPassBetween(fn *ssa.Function, from, target ssa.Instruction, pred func(ssa.Instruction) bool) bool {
	type pos struct {
		b *ssa.BasicBlock
		i int
	}
	start := pos{from.Block(), 0}
	for i, in := range from.Block().Instrs {
		if in == from {
			start.i = i + 1
		}
	}
	seen := map[*ssa.BasicBlock]bool{}
	queue := []pos{start}
	first := true
	for len(queue) > 0 {
		cur := queue[0]
		queue = queue[1:]
		if !first && seen[cur.b] {
			continue
		}
		if !first {
			seen[cur.b] = true
		}
		first = false
		hit := false
		for i := cur.i; i < len(cur.b.Instrs); i++ {
			in := cur.b.Instrs[i]
			if in == target {
				return false
			}
			if pred(in) {
				hit = true
				break
			}
		}
		if hit {
			continue
		}
		for _, s := range cur.b.Succs {
			if !seen[s] {
				queue = append(queue, pos{s, 0})
			}
		}
	}
	return true
}

// FieldNameOf returns the declared name of the field a FieldAddr selects.
func FieldNameOf(fa *ssa.FieldAddr) string {
	pt, ok := fa.X.Type().Underlying().(*types.Pointer)
	if !ok {
		return ""
	}
	st, ok := pt.Elem().Underlying().(*types.Struct)
	if !ok || fa.Field >= st.NumFields() {
		return ""
	}
	return st.Field(fa.Field).Name()
}
