package core

import (
	"fmt"
	"go/token"
	"go/types"
	"regexp"
	"sort"
	"strconv"
	"strings"

	"golang.org/x/tools/go/ssa"
)

// DecisionPath is one path through a function from entry to the first outcome instruction,
// as a sequence of normalised branch decisions.
type DecisionPath struct {
	Lits    []Lit
	Outcome string
	Pos     string
}

func (p DecisionPath) String() string {
	var s []string
	for _, l := range p.Lits {
		s = append(s, l.String())
	}
	return strings.Join(s, " ∧ ") + "  ⇒  " + p.Outcome
}

// DecisionOpts configures EnumerateDecisions.
type DecisionOpts struct {
	// Outcome classifies an instruction as a terminal outcome of the decision procedure.
	Outcome func(in ssa.Instruction, c *Canon) (string, bool)
	// MaxPaths bounds the enumeration (default 50000).
	MaxPaths int
	// ResolvePhis renders every phi by the value of the edge taken on the current path
	// (use for loop-free functions whose result is a merge of alternatives).
	ResolvePhis bool
	// Event records side-effecting instructions passed on the way (they do not end the path);
	// they are prefixed to the outcome as "ev1; ev2 => outcome".
	Event func(in ssa.Instruction, c *Canon) (string, bool)
	// Iteration mode: start at the header block of a loop and describe ONE iteration as a
	// transition: boolean phis of the header are free atoms named state0, state1, ...; the path
	// ends when a back edge returns to the header (outcome "next(state0=..,state1=..)"), when the
	// loop is left ("exit") or at an Outcome instruction.
	IterateAt *ssa.BasicBlock
	// ExitOutcome (iteration mode): a path that leaves the analysed loop ends with this outcome
	// instead of being followed through the code behind the loop.
	ExitOutcome string
	// NoSkip: also walk through expanded helper calls that have no result, no event and no outcome.
	NoSkip bool
}

// EnumerateDecisions walks the CFG of fn. Every If contributes a literal over a canonical
// atom; an atom decided earlier on the path is not branched on again. Loops are explored for
// zero or one iteration (two for bottom-tested loops): conditions of loop headers/latches are
// named "loop(<cond>)" and are forced to leave the loop when met the second time.
func EnumerateDecisions(p *Program, fn *ssa.Function, opts DecisionOpts) (paths []DecisionPath, atoms map[string]bool, err error) {
	if opts.MaxPaths == 0 {
		opts.MaxPaths = 50000
	}
	atoms = map[string]bool{}
	if len(fn.Blocks) == 0 {
		return nil, atoms, fmt.Errorf("function %s has no body", fn)
	}
	// back edges and loop bodies
	type edge struct{ from, to *ssa.BasicBlock }
	back := map[edge]bool{}
	loopOf := map[*ssa.BasicBlock]map[*ssa.BasicBlock]bool{} // header -> body
	for _, b := range fn.Blocks {
		for _, s := range b.Succs {
			if s.Dominates(b) {
				back[edge{b, s}] = true
				body := loopOf[s]
				if body == nil {
					body = map[*ssa.BasicBlock]bool{s: true}
					loopOf[s] = body
				}
				// natural loop: nodes reaching b without passing s
				stack := []*ssa.BasicBlock{b}
				for len(stack) > 0 {
					x := stack[len(stack)-1]
					stack = stack[:len(stack)-1]
					if body[x] {
						continue
					}
					body[x] = true
					for _, pr := range x.Preds {
						stack = append(stack, pr)
					}
				}
			}
		}
	}
	// a loop is top-tested when its header ends in an If with a successor outside the body
	topTested := func(h *ssa.BasicBlock) bool {
		if len(h.Instrs) == 0 {
			return false
		}
		if _, ok := h.Instrs[len(h.Instrs)-1].(*ssa.If); !ok {
			return false
		}
		for _, s := range h.Succs {
			if !loopOf[h][s] {
				return true
			}
		}
		return false
	}
	isLoopControl := func(b *ssa.BasicBlock) (body map[*ssa.BasicBlock]bool, ok bool) {
		if body, ok := loopOf[b]; ok && topTested(b) {
			return body, true
		}
		for _, s := range b.Succs {
			if back[edge{b, s}] && !topTested(s) {
				// bottom-tested loop: the latch decides, provided its other successor leaves the loop
				for _, o := range b.Succs {
					if !loopOf[s][o] {
						return loopOf[s], true
					}
				}
			}
		}
		return nil, false
	}

	// expanded calls to helpers without results that contain nothing the caller of this
	// enumeration is interested in (no event, no outcome) are stepped over: control re-converges
	// at the continuation, so their branch conditions cannot decide anything outside.
	skipTo := map[*ssa.BasicBlock]*ssa.BasicBlock{}
	if !opts.NoSkip {
		plain := NewCanon(p)
		for _, rg := range p.InlineRegions(fn) {
			if rg.Results != 0 || len(rg.Cont.Preds) == 0 {
				continue
			}
			relevant := false
			for b := range rg.Blocks {
				if opts.IterateAt != nil && b == opts.IterateAt {
					relevant = true
				}
				for _, in := range b.Instrs {
					if opts.Event != nil {
						if _, ok := opts.Event(in, plain); ok {
							relevant = true
						}
					}
					if _, ok := opts.Outcome(in, plain); ok {
						relevant = true
					}
				}
			}
			// a region that defines a value used outside it (a field of a local struct that was
			// turned into SSA values: the helper updates the caller's working state) decides
			// something after all
			if !relevant {
				for b := range rg.Blocks {
					if b == rg.Cont {
						continue
					}
					for _, in := range b.Instrs {
						v, isVal := in.(ssa.Value)
						if !isVal || v.Referrers() == nil {
							continue
						}
						for _, ref := range *v.Referrers() {
							if rb := ref.Block(); rb != nil && (!rg.Blocks[rb] || rb == rg.Cont) {
								relevant = true
							}
						}
					}
				}
			}
			if !relevant {
				skipTo[rg.Entry] = rg.Cont
			}
		}
	}

	// loops are numbered by the position of their header in the function
	loopNo := map[*ssa.BasicBlock]int{}
	for _, b := range fn.Blocks {
		if _, ok := loopOf[b]; ok {
			loopNo[b] = len(loopNo) + 1
		}
	}
	loopHeaderOf := func(b *ssa.BasicBlock) *ssa.BasicBlock {
		if _, ok := loopOf[b]; ok && topTested(b) {
			return b
		}
		for _, s := range b.Succs {
			if back[edge{b, s}] {
				return s
			}
		}
		return b
	}
	type state struct {
		assign   map[string]bool
		lits     []Lit
		visits   map[*ssa.BasicBlock]int
		phiEdge  map[*ssa.Phi]ssa.Value
		backUsed map[edge]bool
		eqTrue   map[string]string
		events   []string
		allocVal map[*ssa.Alloc]ssa.Value
		version  map[string]int     // atoms invalidated by a store to a place they mention
		indexVal map[*ssa.Phi]int64 // range loops over a fixed list: index of the current iteration
	}
	clone := func(s *state) *state {
		n := &state{assign: map[string]bool{}, visits: map[*ssa.BasicBlock]int{}, phiEdge: map[*ssa.Phi]ssa.Value{}, backUsed: map[edge]bool{}, eqTrue: map[string]string{}}
		for k, v := range s.eqTrue {
			n.eqTrue[k] = v
		}
		n.events = append([]string{}, s.events...)
		n.indexVal = map[*ssa.Phi]int64{}
		for k, v := range s.indexVal {
			n.indexVal[k] = v
		}
		n.version = map[string]int{}
		for k, v := range s.version {
			n.version[k] = v
		}
		n.allocVal = map[*ssa.Alloc]ssa.Value{}
		for k, v := range s.allocVal {
			n.allocVal[k] = v
		}
		for k, v := range s.assign {
			n.assign[k] = v
		}
		n.lits = append([]Lit{}, s.lits...)
		for k, v := range s.visits {
			n.visits[k] = v
		}
		for k, v := range s.phiEdge {
			n.phiEdge[k] = v
		}
		for k, v := range s.backUsed {
			n.backUsed[k] = v
		}
		return n
	}
	phiName := map[*ssa.Phi]string{}
	var statePhis []*ssa.Phi
	if opts.IterateAt != nil {
		for _, in := range opts.IterateAt.Instrs {
			ph, ok := in.(*ssa.Phi)
			if !ok {
				break
			}
			if isBoolType(ph) {
				phiName[ph] = fmt.Sprintf("state%d", len(statePhis))
				statePhis = append(statePhis, ph)
			}
		}
	}
	emit := func(st *state, outcome, pos string) {
		if len(st.events) > 0 {
			outcome = strings.Join(st.events, "; ") + " => " + outcome
		}
		outcome = SubstDecidedStates(outcome, st.lits)
		paths = append(paths, DecisionPath{Lits: append([]Lit{}, st.lits...), Outcome: outcome, Pos: pos})
	}
	var overflow bool
	var walk func(b, from *ssa.BasicBlock, st *state)
	walk = func(b, from *ssa.BasicBlock, st *state) {
		if overflow {
			return
		}
		if len(paths) >= opts.MaxPaths {
			overflow = true
			return
		}
		if opts.IterateAt != nil && b == opts.IterateAt && from != nil {
			// one iteration completed: report the next state
			idx := -1
			for i, pr := range b.Preds {
				if pr == from {
					idx = i
				}
			}
			cn := NewCanon(p)
			cn.PhiEdge = st.phiEdge
			cn.PhiName = phiName
			var parts []string
			for i, ph := range statePhis {
				v := "?"
				if idx >= 0 {
					v = cn.Of(ph.Edges[idx])
				}
				parts = append(parts, fmt.Sprintf("state%d=%s", i, v))
			}
			emit(st, "next("+strings.Join(parts, ",")+")", p.Pos(from.Instrs[len(from.Instrs)-1].Pos()))
			return
		}
		if to, ok := skipTo[b]; ok {
			walk(to, b, st)
			return
		}
		if opts.IterateAt != nil && opts.ExitOutcome != "" && !loopOf[opts.IterateAt][b] && !returnsAtOnce(b) {
			pos := "-"
			if from != nil && len(from.Instrs) > 0 {
				pos = p.Pos(from.Instrs[len(from.Instrs)-1].Pos())
			}
			emit(st, opts.ExitOutcome, pos)
			return
		}
		st.visits[b]++
		if st.visits[b] > 3 {
			return
		}
		// resolve phis of this block along the incoming edge
		if from != nil {
			idx := -1
			for i, pr := range b.Preds {
				if pr == from {
					idx = i
					break
				}
			}
			for _, in := range b.Instrs {
				ph, ok := in.(*ssa.Phi)
				if !ok {
					break
				}
				if idx >= 0 {
					// only constants and booleans are resolved path-sensitively; everything else
					// keeps its φname so that loop-carried variables stay iteration-independent
					e := ph.Edges[idx]
					if _, named := phiName[ph]; !named && (isBoolType(ph) || opts.ResolvePhis) {
						st.phiEdge[ph] = e
					}
				}
			}
		}
		canon := NewCanon(p)
		canon.PhiEdge = st.phiEdge
		canon.PhiName = phiName
		canon.AllocVal = st.allocVal
		canon.IndexVal = st.indexVal
		for _, in := range b.Instrs {
			// results spilled to locals because of a defer: remember the last store per local
			if sto, ok := in.(*ssa.Store); ok {
				if _, isLocal := sto.Addr.(*ssa.Alloc); !isLocal {
					// a store to a field/element/global: conditions decided earlier that read
					// this place are no longer decided
					place := strings.TrimPrefix(canon.Of(sto.Addr), "&")
					if place != "" {
						for a := range st.assign {
							if strings.Contains(a, place) {
								delete(st.assign, a)
								st.version[strings.TrimRight(a, "′")]++
							}
						}
					}
				}
				if al, ok := sto.Addr.(*ssa.Alloc); ok {
					if _, isStruct := al.Type().Underlying().(*types.Pointer).Elem().Underlying().(*types.Struct); !isStruct {
						st.allocVal[al] = sto.Val
					}
				}
			}
			if mu, ok := in.(*ssa.MapUpdate); ok {
				// m[k] = v: conditions decided earlier that look k up in m are no longer decided
				// (any key, when k is not a constant)
				m, k := canon.Of(mu.Map), canon.Of(mu.Key)
				_, constKey := mu.Key.(*ssa.Const)
				if m != "" {
					for a := range st.assign {
						hit := strings.Contains(a, m+"["+k+"]") || strings.Contains(a, "in("+m+","+k+")")
						if !constKey {
							hit = strings.Contains(a, m+"[") || strings.Contains(a, "in("+m+",")
						}
						if hit {
							delete(st.assign, a)
							st.version[strings.TrimRight(a, "′")]++
						}
					}
				}
			}
			if opts.Event != nil {
				if ev, ok := opts.Event(in, canon); ok {
					st.events = append(st.events, ev)
				}
			}
			if out, ok := opts.Outcome(in, canon); ok {
				emit(st, out, p.Pos(in.Pos()))
				return
			}
		}
		if len(b.Instrs) == 0 {
			return
		}
		switch last := b.Instrs[len(b.Instrs)-1].(type) {
		case *ssa.If:
			// constant condition after phi resolution (through chains of merges and negations)?
			if bv, ok := constCond(canon, last.Cond, 0); ok {
				k := 0
				if !bv {
					k = 1
				}
				walk(b.Succs[k], b, st)
				return
			}
			atom, valWhenTrue := canon.CondAtom(last.Cond)
			if v := st.version[atom]; v > 0 {
				atom += strings.Repeat("′", v)
			}
			body, lc := isLoopControl(b)
			if lc && (opts.IterateAt == nil || loopHeaderOf(b) != opts.IterateAt) {
				// `for .. range <fixed list>`: the loop is walked element by element with the
				// element known (a table-driven chain of tests reads like the chain written out)
				if ph, n, ok := fixedRangeLoop(canon, last.Cond); ok && n <= 12 {
					k := int64(0)
					if cur, seen := st.indexVal[ph]; seen {
						k = cur + 1
					}
					// a fresh iteration: the per-path loop bounds apply within one iteration only
					for blk := range body {
						delete(st.visits, blk)
					}
					for e := range st.backUsed {
						if body[e.from] {
							delete(st.backUsed, e)
						}
					}
					if k < int64(n) {
						st.indexVal[ph] = k
						for i, s2 := range b.Succs {
							if body[s2] {
								walk(b.Succs[i], b, st)
								return
							}
						}
					}
					delete(st.indexVal, ph)
					for i, s2 := range b.Succs {
						if !body[s2] {
							walk(b.Succs[i], b, st)
							return
						}
					}
					return
				}
			}
			if lc && opts.IterateAt != nil && loopHeaderOf(b) == opts.IterateAt {
				// the analysed loop: entering the body is unconditional in iteration mode,
				// leaving it ends the path
				for k, s2 := range b.Succs {
					if body[s2] {
						walk(b.Succs[k], b, clone(st))
					}
				}
				return
			}
			if lc {
				atom = fmt.Sprintf("loop%d(%s)", loopNo[loopHeaderOf(b)], atom)
				if st.visits[b] >= 2 {
					// forced exit: take the successor(s) outside the loop body
					for k, s := range b.Succs {
						if !body[s] {
							walk(b.Succs[k], b, st)
							return
						}
					}
					return
				}
				atoms[atom] = true
				for k := 0; k < 2; k++ {
					ns := clone(st)
					condVal := k == 0
					ns.lits = append(ns.lits, Lit{atom, condVal == valWhenTrue})
					if back[edge{b, b.Succs[k]}] {
						if ns.backUsed[edge{b, b.Succs[k]}] {
							continue
						}
						ns.backUsed[edge{b, b.Succs[k]}] = true
					}
					walk(b.Succs[k], b, ns)
				}
				return
			}
			atoms[atom] = true
			// x == "a" excludes x == "b": string switches do not multiply paths
			if lhs, cst, ok := splitEqConst(atom); ok {
				if prevC, ok := st.eqTrue[lhs]; ok && prevC != cst {
					if _, done := st.assign[atom]; !done {
						st.assign[atom] = false
					}
				}
			}
			if av, ok := st.assign[atom]; ok {
				condVal := av == valWhenTrue
				k := 0
				if !condVal {
					k = 1
				}
				walk(b.Succs[k], b, st)
				return
			}
			for k := 0; k < 2; k++ {
				ns := clone(st)
				condVal := k == 0
				av := condVal == valWhenTrue
				ns.assign[atom] = av
				ns.lits = append(ns.lits, Lit{atom, av})
				if av {
					if lhs, cst, ok := splitEqConst(atom); ok {
						ns.eqTrue[lhs] = cst
					}
				}
				walk(b.Succs[k], b, ns)
			}
		case *ssa.Jump:
			s := b.Succs[0]
			if back[edge{b, s}] {
				if st.backUsed[edge{b, s}] {
					return
				}
				st.backUsed[edge{b, s}] = true
			}
			walk(s, b, st)
		case *ssa.Return:
			if out, ok := opts.Outcome(last, canon); ok {
				emit(st, out, p.Pos(last.Pos()))
			} else {
				emit(st, "return", p.Pos(last.Pos()))
			}
		case *ssa.Panic:
			emit(st, "panic", p.Pos(last.Pos()))
		}
	}
	startBlock := fn.Blocks[0]
	if opts.IterateAt != nil {
		startBlock = opts.IterateAt
	}
	walk(startBlock, nil, &state{indexVal: map[*ssa.Phi]int64{}, version: map[string]int{}, assign: map[string]bool{}, visits: map[*ssa.BasicBlock]int{}, phiEdge: map[*ssa.Phi]ssa.Value{}, backUsed: map[edge]bool{}, eqTrue: map[string]string{}, allocVal: map[*ssa.Alloc]ssa.Value{}})
	if overflow {
		return paths, atoms, fmt.Errorf("more than %d decision paths in %s", opts.MaxPaths, fn)
	}
	return paths, atoms, nil
}

// fixedRangeLoop recognises the test of a range loop over a list with known content
// (index+1 < len(list)) and returns the index phi and the number of elements.
func fixedRangeLoop(c *Canon, cond ssa.Value) (*ssa.Phi, int, bool) {
	b, ok := cond.(*ssa.BinOp)
	if !ok || b.Op != token.LSS {
		return nil, 0, false
	}
	ph, plus := rangeIndexOf(b.X)
	if ph == nil || !plus {
		return nil, 0, false
	}
	// a range index: starts at -1 and is advanced by one
	nInit := 0
	for _, e := range ph.Edges {
		if k0, isC := ConstInt(e); isC && k0 == -1 {
			nInit++
		} else if e != b.X {
			return nil, 0, false
		}
	}
	if nInit != 1 {
		return nil, 0, false
	}
	call, ok := b.Y.(*ssa.Call)
	if !ok {
		return nil, 0, false
	}
	if bi, isB := call.Call.Value.(*ssa.Builtin); !isB || bi.Name() != "len" || len(call.Call.Args) != 1 {
		return nil, 0, false
	}
	saved := c.IndexVal
	c.IndexVal = nil
	elems, fixed := FixedListElems(c.Of(call.Call.Args[0]))
	c.IndexVal = saved
	if !fixed {
		return nil, 0, false
	}
	return ph, len(elems), true
}

// constCond evaluates a branch condition that is a constant on the current path.
func constCond(c *Canon, v ssa.Value, depth int) (bool, bool) {
	if depth > 16 {
		return false, false
	}
	v = c.Resolve(v)
	if bv, ok := ConstBool(v); ok {
		return bv, true
	}
	if u, ok := v.(*ssa.UnOp); ok && u.Op.String() == "!" {
		bv, ok := constCond(c, u.X, depth+1)
		return !bv, ok
	}
	// a comparison of two literals (a helper's constant result against a keyword once the
	// helper is expanded and the merge resolved along the path)
	if b, ok := v.(*ssa.BinOp); ok && (b.Op == token.EQL || b.Op == token.NEQ) {
		x, errx := strconv.Unquote(c.Of(b.X))
		y, erry := strconv.Unquote(c.Of(b.Y))
		if errx == nil && erry == nil {
			return (x == y) == (b.Op == token.EQL), true
		}
	}
	return false, false
}

// returnsAtOnce: the block only merges values and returns (an early `return` out of a loop, as
// opposed to a `break` that continues behind the loop).
func returnsAtOnce(b *ssa.BasicBlock) bool {
	for hops := 0; hops < 8; hops++ {
		next := (*ssa.BasicBlock)(nil)
		for i, in := range b.Instrs {
			switch in.(type) {
			case *ssa.Phi:
			case *ssa.Return:
				return i == len(b.Instrs)-1
			case *ssa.Jump:
				if i == len(b.Instrs)-1 && len(b.Succs) == 1 {
					next = b.Succs[0]
				}
			default:
				return false
			}
		}
		if next == nil {
			return false
		}
		b = next
	}
	return false
}

// SubstDecidedStates replaces the loop-state variables (state0, state1, ...) whose value was
// decided on the path by that value, except where they are assigned (`state0=`): on a path that
// decided state0 to be true, `f(state0)` and `f(true)` are the same outcome.
func SubstDecidedStates(outcome string, lits []Lit) string {
	for _, l := range lits {
		if l.Atom == "" || strings.ContainsAny(l.Atom, " (=.,\"[]<>!&|$@^*") || !(l.Atom[0] >= 'a' && l.Atom[0] <= 'z') {
			continue // only bare identifiers name loop state
		}
		val := "false"
		if l.Val {
			val = "true"
		}
		var b strings.Builder
		for i := 0; i < len(outcome); {
			if strings.HasPrefix(outcome[i:], l.Atom) {
				j := i + len(l.Atom)
				prevOK := i == 0 || !isWordByte(outcome[i-1])
				nextOK := j >= len(outcome) || (!isWordByte(outcome[j]) && outcome[j] != '=')
				if prevOK && nextOK {
					b.WriteString(val)
					i = j
					continue
				}
			}
			b.WriteByte(outcome[i])
			i++
		}
		outcome = b.String()
	}
	return outcome
}

func isWordByte(c byte) bool {
	return c == '_' || (c >= '0' && c <= '9') || (c >= 'a' && c <= 'z') || (c >= 'A' && c <= 'Z')
}

// splitEqConst splits an atom `lhs == "const"`.
func splitEqConst(atom string) (lhs, cst string, ok bool) {
	i := strings.LastIndex(atom, ` == "`)
	if i < 0 || !strings.HasSuffix(atom, `"`) {
		return "", "", false
	}
	return atom[:i], atom[i+4:], true
}

func isBoolType(v ssa.Value) bool {
	return v.Type().Underlying().String() == "bool"
}

// ---- specification side ---------------------------------------------------------------------

// Formula is a boolean formula over named atoms.
type Formula interface{ eval(env map[string]int) int } // -1 false, 0 unknown, 1 true

type fAtom string
type fNot struct{ x Formula }
type fAnd []Formula
type fOr []Formula
type fConst bool

func A(name string) Formula                 { return fAtom(name) }
func Not(x Formula) Formula                 { return fNot{x} }
func And(xs ...Formula) Formula             { return fAnd(xs) }
func Or(xs ...Formula) Formula              { return fOr(xs) }
func True() Formula                         { return fConst(true) }
func (a fAtom) eval(env map[string]int) int { return env[string(a)] }
func (n fNot) eval(env map[string]int) int  { return -n.x.eval(env) }
func (c fConst) eval(env map[string]int) int {
	if c {
		return 1
	}
	return -1
}
func (a fAnd) eval(env map[string]int) int {
	res := 1
	for _, x := range a {
		v := x.eval(env)
		if v == -1 {
			return -1
		}
		if v == 0 {
			res = 0
		}
	}
	return res
}
func (o fOr) eval(env map[string]int) int {
	res := -1
	for _, x := range o {
		v := x.eval(env)
		if v == 1 {
			return 1
		}
		if v == 0 {
			res = 0
		}
	}
	return res
}

// SpecRule is one entry of an ordered decision list: the first rule whose guard holds decides.
type SpecRule struct {
	Name    string
	Guard   Formula
	Outcome string
}

// DecisionSpec is the oracle: named atoms (regular expressions over canonical atoms) and the
// ordered rules, taken from the property text.
type DecisionSpec struct {
	Atoms map[string]string // name -> regexp matching exactly one canonical code atom
	Rules []SpecRule
	// Excl lists pairs of atoms that cannot hold together (x == "" and x == "true"); used only to
	// discard infeasible completions when the code leaves an atom undecided.
	Excl [][2]string
}

// atomsOf lists the atom names of a formula in evaluation order.
func atomsOf(f Formula, out []string) []string {
	switch x := f.(type) {
	case fAtom:
		return append(out, string(x))
	case fNot:
		return atomsOf(x.x, out)
	case fAnd:
		for _, y := range x {
			out = atomsOf(y, out)
		}
	case fOr:
		for _, y := range x {
			out = atomsOf(y, out)
		}
	}
	return out
}

// specOutcomes evaluates the decision list under a partial valuation: every completion of the
// atoms the code left undecided (that the guards actually consult, and that respects Excl) is
// followed; the result maps each outcome the documented cascade can produce to the rule producing
// it. firstUndecided names the first rule whose guard the valuation does not decide. ok is false
// when the exploration budget is exhausted.
func specOutcomes(spec DecisionSpec, env map[string]int, lits []Lit, excl [][2]string, clauses [][]string) (outs map[string]string, firstUndecided string, ok bool) {
	outs = map[string]string{}
	budget := 4096
	ok = true
	propagate := func(e map[string]int) bool {
		// "one of these holds" (a positive membership test in a fixed table)
		for _, cl := range clauses {
			allFalse := true
			for _, a := range cl {
				if e[a] != -1 {
					allFalse = false
				}
			}
			if allFalse {
				return false
			}
		}
		for _, ex := range excl {
			if e[ex[0]] == 1 && e[ex[1]] == 1 {
				return false
			}
			if e[ex[0]] == 1 {
				e[ex[1]] = -1
			}
			if e[ex[1]] == 1 {
				e[ex[0]] = -1
			}
		}
		return true
	}
	var rec func(e map[string]int, from int)
	rec = func(e map[string]int, from int) {
		if budget <= 0 {
			ok = false
			return
		}
		budget--
		for i := from; i < len(spec.Rules); i++ {
			sr := spec.Rules[i]
			v := sr.Guard.eval(e)
			if v == 1 {
				o := SubstDecidedStates(sr.Outcome, lits)
				if _, seen := outs[o]; !seen {
					outs[o] = sr.Name
				}
				return
			}
			if v == 0 {
				if firstUndecided == "" {
					firstUndecided = sr.Name
				}
				pick := ""
				for _, a := range atomsOf(sr.Guard, nil) {
					if e[a] == 0 {
						pick = a
						break
					}
				}
				if pick == "" {
					ok = false
					return
				}
				for _, val := range []int{1, -1} {
					e2 := map[string]int{}
					for k, v := range e {
						e2[k] = v
					}
					e2[pick] = val
					if !propagate(e2) {
						continue
					}
					rec(e2, i)
				}
				return
			}
		}
		outs[""] = "(no rule applies)"
	}
	e0 := map[string]int{}
	for k, v := range env {
		e0[k] = v
	}
	if !propagate(e0) {
		// the path itself is infeasible under the declared exclusions: nothing to compare
		return outs, "", true
	}
	rec(e0, 0)
	return outs, firstUndecided, ok
}

// CheckDecisionList compares the decision structure of the code (paths) with the spec.
// Obligations: one per spec atom (must match exactly one code atom), one per spec rule (some path
// reaches its outcome), one per code path (spec must decide the same outcome from the literals
// on the path).
func CheckDecisionList(r *Report, rule, fnKey string, paths []DecisionPath, atoms map[string]bool, spec DecisionSpec) {
	// bind atoms
	bind := map[string]string{} // code atom -> spec name
	var missing []string
	var names []string
	for n := range spec.Atoms {
		names = append(names, n)
	}
	sort.Strings(names)
	var codeAtoms []string
	for a := range atoms {
		codeAtoms = append(codeAtoms, a)
	}
	for a := range atoms {
		if subj, keys, ok := membershipLit(a); ok {
			for _, k := range keys {
				d := subj + " == " + k
				if !atoms[d] {
					codeAtoms = append(codeAtoms, d)
				}
			}
		}
	}
	sort.Strings(codeAtoms)
	codeAtoms = dedupStrings(codeAtoms)
	for _, n := range names {
		re, err := regexp.Compile(spec.Atoms[n])
		if err != nil {
			r.Fatal("bad atom regexp %s: %v", n, err)
			continue
		}
		var hits []string
		for _, a := range codeAtoms {
			if re.MatchString(a) {
				hits = append(hits, a)
			}
		}
		if len(hits) == 1 {
			bind[hits[0]] = n
			r.Add(rule+"-atom", fnKey+" atom "+n, "", true, "condition found: "+hits[0])
		} else if len(hits) == 0 {
			// not a violation by itself: the code may leave a documented test out when no outcome
			// depends on it (x == "" || x != "true"); the path obligations decide that. The note
			// is attached to every failing path group below.
			missing = append(missing, n+" /"+spec.Atoms[n]+"/")
			r.Add(rule+"-atom", fnKey+" atom "+n, "", true,
				"no branch condition of "+fnKey+" matches the documented test /"+spec.Atoms[n]+"/; accepted only if no outcome depends on it (see the path obligations)")
		} else {
			r.Add(rule+"-atom", fnKey+" atom "+n, "", false, "ambiguous: several conditions match", hits...)
		}
	}
	reached := map[string]int{}
	reachedRule := map[string]int{}
	type group struct {
		why string
		pos string
		n   int
		wit []string
	}
	groups := map[string]*group{}
	var gkeys []string
	// equalities of one subject with different constants exclude each other
	excl := append([][2]string{}, spec.Excl...)
	{
		type eq struct{ name, lhs, cst string }
		var eqs []eq
		for a, n := range bind {
			if lhs, cst, ok := splitEqConst(a); ok {
				eqs = append(eqs, eq{n, lhs, cst})
			}
		}
		for i := range eqs {
			for j := i + 1; j < len(eqs); j++ {
				if eqs[i].lhs == eqs[j].lhs && eqs[i].cst != eqs[j].cst {
					excl = append(excl, [2]string{eqs[i].name, eqs[j].name})
				}
			}
		}
	}
	// documented membership tests that the code spells as a chain of equalities (a switch):
	// spec atom name -> (subject, keys)
	type member struct {
		subj string
		keys []string
	}
	specMembers := map[string]member{}
	bound := map[string]bool{}
	for _, n := range bind {
		bound[n] = true
	}
	for _, n := range names {
		if bound[n] {
			continue
		}
		if subj, keys, ok := membershipLit(unquoteRegexp(spec.Atoms[n])); ok {
			specMembers[n] = member{subj, keys}
		}
	}
	for i, p := range paths {
		env := map[string]int{}
		var clauses [][]string
		for n, m := range specMembers {
			anyTrue, allFalse := false, true
			for _, k := range m.keys {
				v := 0
				for _, l := range p.Lits {
					if l.Atom == m.subj+" == "+k {
						v = -1
						if l.Val {
							v = 1
						}
					}
				}
				if v == 1 {
					anyTrue = true
				}
				if v != -1 {
					allFalse = false
				}
			}
			if anyTrue {
				env[n] = 1
			} else if allFalse {
				env[n] = -1
			}
		}
		for _, l := range p.Lits {
			if n, ok := bind[l.Atom]; ok {
				if l.Val {
					env[n] = 1
				} else {
					env[n] = -1
				}
			}
			// membership in a fixed table stands for the equalities with its keys
			if subj, keys, ok := membershipLit(l.Atom); ok {
				var cl []string
				complete := true
				for _, k := range keys {
					n, bound := bind[subj+" == "+k]
					if !bound {
						complete = false
						continue
					}
					if !l.Val {
						env[n] = -1
					}
					cl = append(cl, n)
				}
				if l.Val && complete && len(cl) > 0 {
					clauses = append(clauses, cl)
				}
			}
		}
		outs, undecided, explored := specOutcomes(spec, env, p.Lits, excl, clauses)
		gk, why := "", ""
		_, agrees := outs[p.Outcome]
		switch {
		case len(outs) == 0 && explored:
			// infeasible under the declared exclusions
			continue
		case !explored || (len(outs) > 1 && undecided != ""):
			gk = fmt.Sprintf("%s: outcome %s reached before rule '%s' is decided", fnKey, p.Outcome, undecided)
			why = "the code reaches outcome " + p.Outcome + " without deciding documented rule '" + undecided + "' first, and the documented outcome depends on it (rule dropped, reordered or its test weakened/changed)"
		case !agrees:
			want := ""
			for o := range outs {
				want = o
			}
			gk = fmt.Sprintf("%s: cascade decides %s, code decides %s", fnKey, want, p.Outcome)
			why = "the documented cascade decides " + want + " on this path but the code decides " + p.Outcome
		default:
			reached[p.Outcome]++
			reachedRule[outs[p.Outcome]]++
			o := r.Add(rule+"-path", fmt.Sprintf("%s path#%d -> %s", fnKey, i, p.Outcome), p.Pos, true, "agrees with the documented cascade")
			if i < 3 {
				o.Witness = []string{p.String()}
			}
			continue
		}
		g := groups[gk]
		if g == nil {
			g = &group{why: why, pos: p.Pos}
			groups[gk] = g
			gkeys = append(gkeys, gk)
		}
		g.n++
		if len(g.wit) < 2 {
			g.wit = append(g.wit, p.String())
		}
	}
	for _, gk := range gkeys {
		g := groups[gk]
		wit := g.wit
		if len(missing) > 0 {
			wit = append(append([]string{}, wit...), "documented tests without a matching branch condition: "+strings.Join(missing, "; "))
		}
		r.Add(rule+"-path", gk, g.pos, false, fmt.Sprintf("%s [%d paths]", g.why, g.n), wit...)
	}
	for _, sr := range spec.Rules {
		n := reachedRule[sr.Name]
		if n == 0 {
			n = reached[sr.Outcome]
		}
		r.Add(rule+"-rule", fnKey+" rule "+sr.Name, "", n > 0,
			fmt.Sprintf("%d agreeing paths end in %s", n, sr.Outcome))
	}
}

// membershipLit recognises `in(set‹k1,k2›,subject)` / `in(map‹k1:v,..›,subject)`: a lookup of the
// subject in a private table with fixed content; keys are returned as rendered constants ("k").
func membershipLit(atom string) (subject string, keys []string, ok bool) {
	if !strings.HasPrefix(atom, "in(set‹") && !strings.HasPrefix(atom, "in(map‹") {
		return "", nil, false
	}
	end := strings.LastIndex(atom, "›,")
	if end < 0 || !strings.HasSuffix(atom, ")") {
		return "", nil, false
	}
	isMap := strings.HasPrefix(atom, "in(map‹")
	body := atom[len("in(set‹"):end]
	subject = atom[end+len("›,") : len(atom)-1]
	for _, e := range SplitTop(body) {
		if isMap {
			if i := strings.LastIndex(e, ":"); i > 0 {
				e = e[:i]
			}
		}
		keys = append(keys, e)
	}
	return subject, keys, len(keys) > 0
}

func dedupStrings(xs []string) []string {
	var out []string
	for i, x := range xs {
		if i == 0 || x != xs[i-1] {
			out = append(out, x)
		}
	}
	return out
}

// unquoteRegexp undoes `^` + regexp.QuoteMeta(s) + `$` (the form of exact-match spec atoms).
func unquoteRegexp(re string) string {
	re = strings.TrimSuffix(strings.TrimPrefix(re, "^"), "$")
	var b strings.Builder
	for i := 0; i < len(re); i++ {
		if re[i] == '\\' && i+1 < len(re) {
			i++
		}
		b.WriteByte(re[i])
	}
	return b.String()
}
