package core

// SSA-level inlining of "transparent" callees.
//
// Rules that look at the body of one function (decision paths, guard-cuts, must-pass-through,
// same-value rules, loop transition functions) must not depend on how the maintainers cut that
// body into unexported helper functions: extracting a block into a helper, inlining a helper,
// splitting a long function or renaming a helper leaves the behaviour - and therefore every
// property - unchanged. Inlined(fn) returns a private clone of fn's SSA body in which every static
// call to an unexported, non-recursive, defer-free module function is replaced by a copy of the
// callee's body (transitively). The clone consists of genuine go/ssa objects, so all engines work
// on it unchanged. go/ssa offers no API to build such objects; the few unexported fields that must
// be set (instruction→block, block→function, value types of synthesised phis, dominator numbers)
// are written through reflect/unsafe. The x/tools version is pinned (v0.29.0) and the field names
// are asserted at start-up (selfTestInline), so a layout change fails loudly.

import (
	"fmt"
	"go/ast"
	"go/token"
	"go/types"
	"os"
	"reflect"
	"sort"
	"strings"
	"unsafe"

	"golang.org/x/tools/go/ssa"
)

func setUnexported(ptr any, field string, val any) {
	rv := reflect.ValueOf(ptr).Elem()
	f := rv.FieldByName(field)
	if !f.IsValid() {
		panic(fmt.Sprintf("inline: %T has no field %s (go/ssa layout changed)", ptr, field))
	}
	w := reflect.NewAt(f.Type(), unsafe.Pointer(f.UnsafeAddr())).Elem()
	if val == nil {
		w.Set(reflect.Zero(f.Type()))
		return
	}
	w.Set(reflect.ValueOf(val))
}

func setDom(b *ssa.BasicBlock, idom *ssa.BasicBlock, children []*ssa.BasicBlock, pre, post int32) {
	rv := reflect.ValueOf(b).Elem().FieldByName("dom")
	if !rv.IsValid() {
		panic("inline: BasicBlock has no field dom (go/ssa layout changed)")
	}
	set := func(name string, v any) {
		f := rv.FieldByName(name)
		w := reflect.NewAt(f.Type(), unsafe.Pointer(f.UnsafeAddr())).Elem()
		if v == nil {
			w.Set(reflect.Zero(f.Type()))
			return
		}
		w.Set(reflect.ValueOf(v))
	}
	if idom == nil {
		set("idom", nil)
	} else {
		set("idom", idom)
	}
	set("children", children)
	set("pre", pre)
	set("post", post)
}

// Transparent reports whether calls to fn are expanded by Inlined: an unexported top-level
// function or method of the analysed module with a body, without defer/recover.
func Transparent(fn *ssa.Function) bool {
	if fn == nil || len(fn.Blocks) == 0 || fn.Parent() != nil || fn.Synthetic != "" {
		return false
	}
	if _, opaque := roleNames[fn]; opaque {
		return false
	}
	if !IsModPkg(FnPkgPath(fn)) || ast.IsExported(fn.Name()) || fn.Name() == "init" {
		return false
	}
	if fn.Recover != nil {
		return false
	}
	for _, b := range fn.Blocks {
		for _, in := range b.Instrs {
			switch x := in.(type) {
			case *ssa.Defer, *ssa.RunDefers:
				return false
			case ssa.CallInstruction:
				if x.Common().StaticCallee() == fn {
					return false // recursive helpers are analysed as units of their own
				}
			}
		}
	}
	return true
}

// InlRegion is one expanded call inside an inlined clone: a single-entry single-exit piece of
// the control-flow graph (entry block, blocks of the callee body incl. nested expansions, and the
// continuation block where the caller resumes).
type InlRegion struct {
	Callee  *ssa.Function
	Entry   *ssa.BasicBlock
	Cont    *ssa.BasicBlock
	Blocks  map[*ssa.BasicBlock]bool
	Results int
}

// roleNames: unexported helpers that rules treat as atomic predicates/functions. They are not
// expanded and are rendered in canonical expressions under a role name chosen by the rule that
// identified them structurally (by signature and what they call), never by their source name.
var roleNames = map[*ssa.Function]string{}

// SetRole declares fn opaque under the given role name. Must be called before the first
// Inlined() of any function that reaches fn.
func (p *Program) SetRole(fn *ssa.Function, role string) {
	if fn == nil {
		return
	}
	if old, ok := roleNames[fn]; ok && old == role {
		return
	}
	roleNames[fn] = role
	// clones built earlier may have expanded fn: drop them
	if p.inlined != nil {
		p.inlined = map[*ssa.Function]*ssa.Function{}
	}
}

// RoleFlagResults: role helpers whose results after the first are boolean facts handed back to
// the caller (precomputed answers); the first result is rendered like the single result of the
// plain form of the helper, the flags as `@role(..)#k`.
var RoleFlagResults = map[*ssa.Function]bool{}

// RoleName returns the role name of fn ("" if none).
func RoleName(fn *ssa.Function) string { return roleNames[fn] }

// StaticRegion lists root and every unexported module function reachable from it through static
// calls (the functions Inlined(root) would expand if none of them had a role).
func (p *Program) StaticRegion(root *ssa.Function) []*ssa.Function {
	root = p.Original(root)
	seen := map[*ssa.Function]bool{root: true}
	out := []*ssa.Function{root}
	for i := 0; i < len(out); i++ {
		for _, b := range out[i].Blocks {
			for _, in := range b.Instrs {
				c, ok := in.(ssa.CallInstruction)
				if !ok {
					continue
				}
				callee := c.Common().StaticCallee()
				if callee == nil || seen[callee] || len(callee.Blocks) == 0 || callee.Parent() != nil || callee.Synthetic != "" {
					continue
				}
				if !IsModPkg(FnPkgPath(callee)) || ast.IsExported(callee.Name()) {
					continue
				}
				seen[callee] = true
				out = append(out, callee)
			}
		}
	}
	return out
}

type inliner struct {
	regions   []*InlRegion
	regionsOf map[*ssa.BasicBlock][]*InlRegion
	voidCont  map[*ssa.BasicBlock]bool
	nf        *ssa.Function
	subst     map[ssa.Value]ssa.Value       // value replaced by value (call results, trivial phis)
	chain     map[*ssa.Call][]*ssa.Function // cloned call -> functions it was inlined through
	blocks    []*ssa.BasicBlock
}

func (il *inliner) resolve(v ssa.Value) ssa.Value {
	for i := 0; i < 64; i++ {
		n, ok := il.subst[v]
		if !ok {
			return v
		}
		v = n
	}
	return v
}

func cloneInstr(in ssa.Instruction) ssa.Instruction {
	rv := reflect.ValueOf(in)
	n := reflect.New(rv.Type().Elem())
	n.Elem().Set(rv.Elem())
	out := n.Interface().(ssa.Instruction)
	// un-alias operand slices
	switch x := out.(type) {
	case *ssa.Phi:
		x.Edges = append([]ssa.Value(nil), x.Edges...)
	case *ssa.Call:
		x.Call.Args = append([]ssa.Value(nil), x.Call.Args...)
	case *ssa.Go:
		x.Call.Args = append([]ssa.Value(nil), x.Call.Args...)
	case *ssa.Defer:
		x.Call.Args = append([]ssa.Value(nil), x.Call.Args...)
	case *ssa.MakeClosure:
		x.Bindings = append([]ssa.Value(nil), x.Bindings...)
	case *ssa.Return:
		x.Results = append([]ssa.Value(nil), x.Results...)
	case *ssa.Select:
		sts := make([]*ssa.SelectState, len(x.States))
		for i, s := range x.States {
			c := *s
			sts[i] = &c
		}
		x.States = sts
	}
	if v, ok := out.(ssa.Value); ok {
		if r := v.Referrers(); r != nil {
			*r = nil
		}
	}
	return out
}

// cloneBody clones the blocks of src into il.nf; vmap is pre-seeded with the parameter mapping.
// Returns the clones in the order of src.Blocks.
func (il *inliner) cloneBody(src *ssa.Function, vmap map[ssa.Value]ssa.Value, via []*ssa.Function) []*ssa.BasicBlock {
	bmap := map[*ssa.BasicBlock]*ssa.BasicBlock{}
	out := make([]*ssa.BasicBlock, len(src.Blocks))
	for i, b := range src.Blocks {
		nb := &ssa.BasicBlock{Comment: b.Comment}
		setUnexported(nb, "parent", il.nf)
		bmap[b] = nb
		out[i] = nb
	}
	for i, b := range src.Blocks {
		nb := out[i]
		for _, in := range b.Instrs {
			if _, dbg := in.(*ssa.DebugRef); dbg {
				continue
			}
			n := cloneInstr(in)
			setUnexported(n, "block", nb)
			if v, ok := in.(ssa.Value); ok {
				vmap[v] = n.(ssa.Value)
			}
			if c, ok := n.(*ssa.Call); ok {
				il.chain[c] = via
			}
			nb.Instrs = append(nb.Instrs, n)
		}
		for _, s := range b.Succs {
			nb.Succs = append(nb.Succs, bmap[s])
		}
		for _, p := range b.Preds {
			nb.Preds = append(nb.Preds, bmap[p])
		}
	}
	for _, nb := range out {
		for _, n := range nb.Instrs {
			for _, op := range n.Operands(nil) {
				if *op == nil {
					continue
				}
				if nv, ok := vmap[*op]; ok {
					*op = nv
				}
			}
		}
	}
	return out
}

// Inlined returns the (cached) inlined clone of fn. Functions without a body are returned as is.
func (p *Program) Inlined(fn *ssa.Function) *ssa.Function {
	if fn == nil || len(fn.Blocks) == 0 {
		return fn
	}
	if p.inlined == nil {
		p.inlined = map[*ssa.Function]*ssa.Function{}
		p.inlinedOf = map[*ssa.Function]*ssa.Function{}
		p.regionOf = map[*ssa.Function][]*ssa.Function{}
		p.inlRegions = map[*ssa.Function][]*InlRegion{}
	}
	if nf, ok := p.inlined[fn]; ok {
		return nf
	}
	if _, isClone := p.inlinedOf[fn]; isClone {
		return fn
	}
	nf := new(ssa.Function)
	*nf = *fn
	il := &inliner{nf: nf, subst: map[ssa.Value]ssa.Value{}, chain: map[*ssa.Call][]*ssa.Function{},
		regionsOf: map[*ssa.BasicBlock][]*InlRegion{}, voidCont: map[*ssa.BasicBlock]bool{}}
	vmap := map[ssa.Value]ssa.Value{}
	nf.Params = nil
	for _, par := range fn.Params {
		np := new(ssa.Parameter)
		*np = *par
		setUnexported(np, "parent", nf)
		*np.Referrers() = nil
		vmap[par] = np
		nf.Params = append(nf.Params, np)
	}
	nf.FreeVars = nil
	for _, fv := range fn.FreeVars {
		n := new(ssa.FreeVar)
		*n = *fv
		setUnexported(n, "parent", nf)
		*n.Referrers() = nil
		vmap[fv] = n
		nf.FreeVars = append(nf.FreeVars, n)
	}
	il.blocks = il.cloneBody(fn, vmap, []*ssa.Function{fn})
	if fn.Recover != nil {
		for i, b := range fn.Blocks {
			if b == fn.Recover {
				nf.Recover = il.blocks[i]
			}
		}
	}
	region := []*ssa.Function{fn}
	inRegion := map[*ssa.Function]bool{fn: true}
	folded := map[*ssa.Call]bool{}
	// expand transparent calls until none is left (bounded)
	for round := 0; round < 400; round++ {
		var blk *ssa.BasicBlock
		idx := -1
		var call *ssa.Call
	search:
		for _, b := range il.blocks {
			for i, in := range b.Instrs {
				c, ok := in.(*ssa.Call)
				if !ok {
					continue
				}
				// a call of a function value that an expansion has made known (a helper
				// parameter `find func()` bound to the method value p.findTitle): call it directly
				if sc := c.Call.StaticCallee(); c.Call.Method == nil && (sc == nil || sc.Synthetic != "") {
					if tgt, recv := il.knownFuncValue(c.Call.Value); tgt != nil {
						nc := cloneInstr(c).(*ssa.Call)
						nc.Call.Value = tgt
						nc.Call.Args = append(append([]ssa.Value{}, recv...), c.Call.Args...)
						b.Instrs[i] = nc
						il.subst[c] = nc
						il.chain[nc] = il.chain[c]
						c = nc
					}
				}
				callee := c.Call.StaticCallee()
				if !Transparent(callee) {
					continue
				}
				via := il.chain[c]
				rec := len(via) > 10
				for _, f := range via {
					if f == callee {
						rec = true
					}
				}
				if rec {
					continue
				}
				blk, idx, call = b, i, c
				break search
			}
		}
		if call == nil || len(il.blocks) > 8000 {
			break
		}
		callee := call.Call.StaticCallee()
		// h(x, f(x)) where an exported E(x) is exactly `return h(x, f(x))`: the call is E(x)
		for k := range call.Call.Args {
			call.Call.Args[k] = il.resolve(call.Call.Args[k])
		}
		if w, args := p.foldWrapper(fn, call, callee); w != nil {
			nc := cloneInstr(call).(*ssa.Call)
			nc.Call.Value = w
			nc.Call.Method = nil
			nc.Call.Args = args
			blk.Instrs[idx] = nc
			il.subst[call] = nc
			il.chain[nc] = il.chain[call]
			folded[nc] = true
			continue
		}
		if !inRegion[callee] {
			inRegion[callee] = true
			region = append(region, callee)
		}
		il.expand(blk, idx, call, callee)
	}
	il.finish()
	p.inlined[fn] = nf
	p.inlinedOf[nf] = fn
	p.regionOf[fn] = region
	p.regionOf[nf] = region
	live := map[*ssa.BasicBlock]bool{}
	for _, b := range nf.Blocks {
		live[b] = true
	}
	for _, rg := range il.regions {
		if live[rg.Entry] && live[rg.Cont] {
			p.inlRegions[nf] = append(p.inlRegions[nf], rg)
		}
	}
	return nf
}

// knownFuncValue resolves a called function value to a module function when the value is, after
// the expansions made so far, a named function or a method value x.m (the synthetic bound-method
// closure): the function and the receiver to pass first.
func (il *inliner) knownFuncValue(v ssa.Value) (*ssa.Function, []ssa.Value) {
	switch x := il.resolve(v).(type) {
	case *ssa.Function:
		if x.Synthetic == "" && x.Parent() == nil && len(x.Blocks) > 0 {
			return x, nil
		}
	case *ssa.MakeClosure:
		f, ok := x.Fn.(*ssa.Function)
		if !ok || !strings.HasPrefix(f.Synthetic, "bound method wrapper") || len(x.Bindings) != 1 || len(f.Blocks) != 1 {
			return nil, nil
		}
		for _, in := range f.Blocks[0].Instrs {
			if c, ok := in.(*ssa.Call); ok {
				if callee := c.Call.StaticCallee(); callee != nil && len(c.Call.Args) == len(f.Params)+1 && c.Call.Args[0] == ssa.Value(f.FreeVars[0]) {
					return callee, []ssa.Value{il.resolve(x.Bindings[0])}
				}
			}
		}
	}
	return nil, nil
}

// Region lists fn and the transparent callees that Inlined(fn) expands (fn may be the original
// or the clone).
func (p *Program) Region(fn *ssa.Function) []*ssa.Function {
	if o, ok := p.inlinedOf[fn]; ok {
		fn = o
	}
	p.Inlined(fn)
	return p.regionOf[fn]
}

// InlineRegions lists the expanded calls of an inlined clone whose entry and continuation
// survived clean-up.
func (p *Program) InlineRegions(nf *ssa.Function) []*InlRegion { return p.inlRegions[nf] }

// Original returns the source function of an inlined clone (or fn itself).
func (p *Program) Original(fn *ssa.Function) *ssa.Function {
	if o, ok := p.inlinedOf[fn]; ok {
		return o
	}
	return fn
}

func newJump(b *ssa.BasicBlock) *ssa.Jump {
	j := new(ssa.Jump)
	setUnexported(j, "block", b)
	return j
}

func (il *inliner) expand(b *ssa.BasicBlock, i int, call *ssa.Call, callee *ssa.Function) {
	// continuation block
	b2 := &ssa.BasicBlock{Comment: b.Comment + ".cont"}
	setUnexported(b2, "parent", il.nf)
	b2.Instrs = append(b2.Instrs, b.Instrs[i+1:]...)
	for _, in := range b2.Instrs {
		setUnexported(in, "block", b2)
	}
	b2.Succs = b.Succs
	for _, s := range b2.Succs {
		for k, pr := range s.Preds {
			if pr == b {
				s.Preds[k] = b2
			}
		}
	}
	// callee body
	vmap := map[ssa.Value]ssa.Value{}
	for k, par := range callee.Params {
		if k < len(call.Call.Args) {
			vmap[par] = il.resolve(call.Call.Args[k])
		}
	}
	via := append(append([]*ssa.Function(nil), il.chain[call]...), callee)
	body := il.cloneBody(callee, vmap, via)
	b.Instrs = append(b.Instrs[:i:i], newJump(b))
	b.Succs = []*ssa.BasicBlock{body[0]}
	body[0].Preds = []*ssa.BasicBlock{b}
	// returns
	nres := callee.Signature.Results().Len()
	var retBlocks []*ssa.BasicBlock
	var retVals [][]ssa.Value
	for _, nb := range body {
		if len(nb.Instrs) == 0 {
			continue
		}
		if ret, ok := nb.Instrs[len(nb.Instrs)-1].(*ssa.Return); ok {
			retBlocks = append(retBlocks, nb)
			retVals = append(retVals, ret.Results)
			nb.Instrs[len(nb.Instrs)-1] = newJump(nb)
			nb.Succs = []*ssa.BasicBlock{b2}
		}
	}
	b2.Preds = retBlocks
	results := make([]ssa.Value, nres)
	if len(retBlocks) == 1 {
		copy(results, retVals[0])
	} else if len(retBlocks) > 1 {
		var phis []ssa.Instruction
		for k := 0; k < nres; k++ {
			same := true
			for _, rv := range retVals {
				if rv[k] != retVals[0][k] {
					same = false
				}
			}
			if same {
				results[k] = retVals[0][k]
				continue
			}
			ph := new(ssa.Phi)
			ph.Comment = "result"
			for _, rv := range retVals {
				ph.Edges = append(ph.Edges, rv[k])
			}
			setUnexported(ph, "block", b2)
			setUnexported(ph, "typ", callee.Signature.Results().At(k).Type())
			setUnexported(ph, "pos", call.Pos())
			phis = append(phis, ph)
			results[k] = ph
		}
		b2.Instrs = append(phis, b2.Instrs...)
	}
	// uses of the call value
	if nres == 1 {
		if results[0] != nil {
			il.subst[call] = results[0]
		}
	} else if nres > 1 {
		// consumers are Extract instructions (anywhere in the function)
		for _, blk := range append(append([]*ssa.BasicBlock{b2}, il.blocks...), body...) {
			keep := blk.Instrs[:0:0]
			for _, in := range blk.Instrs {
				if ex, ok := in.(*ssa.Extract); ok && il.resolve(ex.Tuple) == ssa.Value(call) {
					if results[ex.Index] != nil {
						il.subst[ex] = results[ex.Index]
						continue
					}
				}
				keep = append(keep, in)
			}
			blk.Instrs = keep
		}
	}
	rg := &InlRegion{Callee: callee, Entry: body[0], Cont: b2, Blocks: map[*ssa.BasicBlock]bool{}, Results: nres}
	for _, x := range body {
		rg.Blocks[x] = true
	}
	outer := il.regionsOf[b]
	for _, o := range outer {
		// b2 continues b: it belongs to every region b belongs to, and so does the new body
		if o.Cont != b || true {
			o.Blocks[b2] = true
		}
		for _, x := range body {
			o.Blocks[x] = true
		}
	}
	il.regionsOf[b2] = outer
	for _, x := range body {
		il.regionsOf[x] = append(append([]*InlRegion(nil), outer...), rg)
	}
	// a region whose continuation is b itself (b was the continuation of an earlier expansion)
	// keeps b as its exit: the new body lies behind it.
	il.regions = append(il.regions, rg)
	if nres == 0 {
		il.voidCont[b2] = true
	}
	// splice into block list right after b (keeps source order for loop numbering)
	pos := 0
	for k, x := range il.blocks {
		if x == b {
			pos = k
		}
	}
	nb := make([]*ssa.BasicBlock, 0, len(il.blocks)+len(body)+1)
	nb = append(nb, il.blocks[:pos+1]...)
	nb = append(nb, body...)
	nb = append(nb, b2)
	nb = append(nb, il.blocks[pos+1:]...)
	il.blocks = nb
}

// finish applies pending substitutions, threads jumps over constant boolean result phis, removes
// unreachable blocks, renumbers, rebuilds referrers, locals and dominator information.
func (il *inliner) finish() {
	apply := func() {
		for _, b := range il.blocks {
			for _, in := range b.Instrs {
				for _, op := range in.Operands(nil) {
					if *op != nil {
						*op = il.resolve(*op)
					}
				}
			}
		}
	}
	apply()
	for i := 0; i < 10; i++ {
		a := il.mergePhiBlocks()
		b := il.threadJumps()
		apply()
		if !a && !b {
			break
		}
	}
	il.threadReturns()
	il.splitReturns()
	il.cleanup()
	// scalar replacement of local structs whose fields are only loaded and stored (working
	// state gathered in a struct and updated by helper methods that were expanded): the fields
	// become SSA values, as if they had been separate local variables
	if il.liftAggregates() {
		apply()
		for i := 0; i < 10; i++ {
			a := il.mergePhiBlocks()
			b := il.threadJumps()
			apply()
			if !a && !b {
				break
			}
		}
		il.cleanup()
	}
}

// cleanup removes unreachable blocks and single-edge phis, applies pending substitutions,
// renumbers, and rebuilds referrers, locals and dominator information.
func (il *inliner) cleanup() {
	apply := func() {
		for _, b := range il.blocks {
			for _, in := range b.Instrs {
				for _, op := range in.Operands(nil) {
					if *op != nil {
						*op = il.resolve(*op)
					}
				}
			}
		}
	}
	// reachability
	reach := map[*ssa.BasicBlock]bool{}
	var dfs func(b *ssa.BasicBlock)
	dfs = func(b *ssa.BasicBlock) {
		if reach[b] {
			return
		}
		reach[b] = true
		for _, s := range b.Succs {
			dfs(s)
		}
	}
	dfs(il.blocks[0])
	if il.nf.Recover != nil {
		dfs(il.nf.Recover)
	}
	var live []*ssa.BasicBlock
	for _, b := range il.blocks {
		if reach[b] {
			live = append(live, b)
		}
	}
	for _, b := range live {
		// drop dead predecessors together with the matching phi edges
		var keep []int
		for k, pr := range b.Preds {
			if reach[pr] {
				keep = append(keep, k)
			}
		}
		if len(keep) != len(b.Preds) {
			np := make([]*ssa.BasicBlock, 0, len(keep))
			for _, k := range keep {
				np = append(np, b.Preds[k])
			}
			for _, in := range b.Instrs {
				ph, ok := in.(*ssa.Phi)
				if !ok {
					break
				}
				ne := make([]ssa.Value, 0, len(keep))
				for _, k := range keep {
					ne = append(ne, ph.Edges[k])
				}
				ph.Edges = ne
			}
			b.Preds = np
		}
	}
	// single-edge phis disappear
	for _, b := range live {
		n := 0
		for _, in := range b.Instrs {
			ph, ok := in.(*ssa.Phi)
			if !ok {
				break
			}
			if len(ph.Edges) == 1 {
				il.subst[ph] = ph.Edges[0]
				n++
				continue
			}
			break
		}
		if n > 0 {
			keep := b.Instrs[:0:0]
			for _, in := range b.Instrs {
				if ph, ok := in.(*ssa.Phi); ok {
					if _, gone := il.subst[ph]; gone {
						continue
					}
				}
				keep = append(keep, in)
			}
			b.Instrs = keep
		}
	}
	il.blocks = live
	apply()
	for i, b := range il.blocks {
		b.Index = i
	}
	il.nf.Blocks = il.blocks
	// locals, referrers
	il.nf.Locals = nil
	for _, p := range il.nf.Params {
		*p.Referrers() = nil
	}
	for _, fv := range il.nf.FreeVars {
		*fv.Referrers() = nil
	}
	for _, b := range il.blocks {
		for _, in := range b.Instrs {
			if v, ok := in.(ssa.Value); ok {
				if r := v.Referrers(); r != nil {
					*r = nil
				}
			}
			if al, ok := in.(*ssa.Alloc); ok && !al.Heap {
				il.nf.Locals = append(il.nf.Locals, al)
			}
		}
	}
	inFn := map[ssa.Value]bool{}
	for _, p := range il.nf.Params {
		inFn[p] = true
	}
	for _, fv := range il.nf.FreeVars {
		inFn[fv] = true
	}
	for _, b := range il.blocks {
		for _, in := range b.Instrs {
			if v, ok := in.(ssa.Value); ok {
				inFn[v] = true
			}
		}
	}
	for _, b := range il.blocks {
		for _, in := range b.Instrs {
			for _, op := range in.Operands(nil) {
				if *op == nil || !inFn[*op] {
					continue
				}
				if r := (*op).Referrers(); r != nil {
					*r = append(*r, in)
				}
			}
		}
	}
	computeDominators(il.nf)
}

// threadJumps: a block that consists of boolean phis (and negations of them) followed by an If on
// one of them is bypassed for every predecessor whose incoming value is a constant: the
// predecessor jumps straight to the successor the constant selects. This turns
// `if helper(x) { … }` with `return true`/`return false` inside the helper back into the control
// flow the un-extracted code has, so that edge-cut rules see the real guards.
func (il *inliner) threadJumps() (any bool) {
	changed := true
	for iter := 0; changed && iter < 50; iter++ {
		changed = false
		for _, t := range il.blocks {
			if len(t.Instrs) == 0 || len(t.Preds) == 0 {
				continue
			}
			iff, ok := t.Instrs[len(t.Instrs)-1].(*ssa.If)
			if !ok {
				continue
			}
			// every other instruction must be a phi or a NOT of a value defined here
			okShape := true
			local := map[ssa.Value]bool{}
			for _, in := range t.Instrs[:len(t.Instrs)-1] {
				switch x := in.(type) {
				case *ssa.Phi:
					local[x] = true
				case *ssa.UnOp:
					if x.Op != token.NOT || !local[il.resolve(x.X)] {
						okShape = false
					}
					local[x] = true
				default:
					okShape = false
				}
			}
			if !okShape || !local[il.resolve(iff.Cond)] {
				continue
			}
			// values defined here must not be used elsewhere
			usedElsewhere := false
			for _, b := range il.blocks {
				if b == t {
					continue
				}
				for _, in := range b.Instrs {
					for _, op := range in.Operands(nil) {
						if *op != nil && local[il.resolve(*op)] {
							usedElsewhere = true
						}
					}
				}
			}
			if usedElsewhere {
				continue
			}
			// evaluate the condition for predecessor k
			var eval func(v ssa.Value, k int) (bool, bool)
			eval = func(v ssa.Value, k int) (bool, bool) {
				v = il.resolve(v)
				switch x := v.(type) {
				case *ssa.Const:
					return ConstBool(x)
				case *ssa.Phi:
					if x.Block() == t {
						return eval(x.Edges[k], k)
					}
				case *ssa.UnOp:
					if x.Op == token.NOT && x.Block() == t {
						bv, ok := eval(x.X, k)
						return !bv, ok
					}
				}
				return false, false
			}
			for k := 0; k < len(t.Preds); k++ {
				bv, ok := eval(iff.Cond, k)
				if !ok {
					continue
				}
				pred := t.Preds[k]
				target := t.Succs[0]
				if !bv {
					target = t.Succs[1]
				}
				if target == t {
					continue
				}
				// the target's phis need a value for the new predecessor: the one they have for t
				tIdx := -1
				for j, pr := range target.Preds {
					if pr == t {
						tIdx = j
					}
				}
				if tIdx < 0 {
					continue
				}
				bad := false
				var newEdges []ssa.Value
				for _, in := range target.Instrs {
					ph, ok := in.(*ssa.Phi)
					if !ok {
						break
					}
					e := il.resolve(ph.Edges[tIdx])
					if local[e] {
						if lp, ok := e.(*ssa.Phi); ok && lp.Block() == t {
							e = lp.Edges[k]
						} else {
							bad = true
						}
					}
					newEdges = append(newEdges, e)
				}
				if bad {
					continue
				}
				n := 0
				for _, in := range target.Instrs {
					ph, ok := in.(*ssa.Phi)
					if !ok {
						break
					}
					ph.Edges = append(ph.Edges, newEdges[n])
					n++
				}
				target.Preds = append(target.Preds, pred)
				for j, s := range pred.Succs {
					if s == t {
						pred.Succs[j] = target
						break // one edge at a time (a predecessor may reach t twice)
					}
				}
				// remove predecessor k from t
				t.Preds = append(t.Preds[:k:k], t.Preds[k+1:]...)
				for _, in := range t.Instrs {
					ph, ok := in.(*ssa.Phi)
					if !ok {
						break
					}
					ph.Edges = append(ph.Edges[:k:k], ph.Edges[k+1:]...)
				}
				k--
				changed = true
				any = true
			}
		}
	}
	return any
}

// mergePhiBlocks: a block that consists of phis and a jump, whose phis are only used by phis of
// the jump target on that edge, is folded into the target (its predecessors become predecessors
// of the target). This flattens `a && helper(x)` after the helper's returns were merged.
func (il *inliner) mergePhiBlocks() (any bool) {
	for iter := 0; iter < 50; iter++ {
		changed := false
		for _, t := range il.blocks {
			if len(t.Instrs) < 2 || len(t.Preds) == 0 || len(t.Succs) != 1 || t == il.blocks[0] {
				continue
			}
			if _, ok := t.Instrs[len(t.Instrs)-1].(*ssa.Jump); !ok {
				continue
			}
			s := t.Succs[0]
			if s == t {
				continue
			}
			local := map[ssa.Value]*ssa.Phi{}
			okShape := true
			for _, in := range t.Instrs[:len(t.Instrs)-1] {
				ph, ok := in.(*ssa.Phi)
				if !ok {
					okShape = false
					break
				}
				local[ph] = ph
			}
			if !okShape {
				continue
			}
			// t must be a predecessor of s exactly once, and no predecessor of t may already be
			// a predecessor of s (phi edges are per predecessor block)
			tIdx, n := -1, 0
			for k, pr := range s.Preds {
				if pr == t {
					tIdx = k
					n++
				}
			}
			if n != 1 {
				continue
			}
			for _, pr := range t.Preds {
				for _, sp := range s.Preds {
					if sp == pr {
						okShape = false
					}
				}
			}
			// uses of the local phis: only phis of s, on the edge from t
			for _, b := range il.blocks {
				for _, in := range b.Instrs {
					if b == t {
						if _, isPhi := in.(*ssa.Phi); isPhi {
							// a local phi may not feed another local phi
							for _, op := range in.Operands(nil) {
								if *op != nil && local[il.resolve(*op)] != nil {
									okShape = false
								}
							}
						}
						continue
					}
					for k, op := range in.Operands(nil) {
						if *op == nil || local[il.resolve(*op)] == nil {
							continue
						}
						ph, isPhi := in.(*ssa.Phi)
						if !isPhi || b != s || k != tIdx || ph == nil {
							okShape = false
						}
					}
				}
			}
			if !okShape {
				continue
			}
			// rewrite s: replace predecessor t by t's predecessors
			for _, in := range s.Instrs {
				ph, ok := in.(*ssa.Phi)
				if !ok {
					break
				}
				e := il.resolve(ph.Edges[tIdx])
				var add []ssa.Value
				for k := range t.Preds {
					if lp := local[e]; lp != nil {
						add = append(add, lp.Edges[k])
					} else {
						add = append(add, e)
					}
				}
				ne := append([]ssa.Value(nil), ph.Edges[:tIdx]...)
				ne = append(ne, add...)
				ne = append(ne, ph.Edges[tIdx+1:]...)
				ph.Edges = ne
			}
			np := append([]*ssa.BasicBlock(nil), s.Preds[:tIdx]...)
			np = append(np, t.Preds...)
			np = append(np, s.Preds[tIdx+1:]...)
			s.Preds = np
			for _, pr := range t.Preds {
				for k, x := range pr.Succs {
					if x == t {
						pr.Succs[k] = s
					}
				}
			}
			t.Preds = nil
			t.Succs = nil
			t.Instrs = nil
			changed = true
			any = true
		}
		if !changed {
			break
		}
	}
	return any
}

// threadReturns: a block that only merges values (phis) and returns them is duplicated into its
// predecessors that jump to it unconditionally, so that `return helper(x)` shows the helper's
// individual return sites again (rules look at constant results of return instructions).
func (il *inliner) threadReturns() {
	for iter := 0; iter < 20; iter++ {
		changed := false
		for _, t := range il.blocks {
			if len(t.Instrs) == 0 || len(t.Preds) < 2 {
				continue
			}
			ret, ok := t.Instrs[len(t.Instrs)-1].(*ssa.Return)
			if !ok || il.voidCont[t] {
				continue
			}
			local := map[ssa.Value]*ssa.Phi{}
			okShape := true
			for _, in := range t.Instrs[:len(t.Instrs)-1] {
				ph, ok := in.(*ssa.Phi)
				if !ok {
					okShape = false
					break
				}
				local[ph] = ph
			}
			if !okShape {
				continue
			}
			for _, pr := range t.Preds {
				if _, ok := pr.Instrs[len(pr.Instrs)-1].(*ssa.Jump); !ok {
					okShape = false
				}
			}
			// the phis must not be used anywhere else
			for _, b := range il.blocks {
				if b == t {
					continue
				}
				for _, in := range b.Instrs {
					for _, op := range in.Operands(nil) {
						if *op != nil && local[il.resolve(*op)] != nil {
							okShape = false
						}
					}
				}
			}
			if !okShape {
				continue
			}
			for k, pr := range t.Preds {
				nr := cloneInstr(ret).(*ssa.Return)
				setUnexported(nr, "block", pr)
				for i, rv := range nr.Results {
					if ph := local[il.resolve(rv)]; ph != nil {
						nr.Results[i] = ph.Edges[k]
					}
				}
				pr.Instrs[len(pr.Instrs)-1] = nr
				pr.Succs = nil
			}
			t.Preds = nil
			changed = true
		}
		if !changed {
			break
		}
	}
}

// splitReturns gives every edge into a return-only block its own copy of the return, so that
// the number of "return sites" does not depend on whether two branches share one return
// statement (helper extraction merges them, source code usually does not).
func (il *inliner) splitReturns() {
	var added []*ssa.BasicBlock
	for _, t := range il.blocks {
		if len(t.Instrs) != 1 || len(t.Preds) < 2 || il.voidCont[t] {
			continue
		}
		ret, ok := t.Instrs[0].(*ssa.Return)
		if !ok {
			continue
		}
		preds := t.Preds
		t.Preds = preds[:1:1]
		for _, pr := range preds[1:] {
			nb := &ssa.BasicBlock{Comment: t.Comment}
			setUnexported(nb, "parent", il.nf)
			nr := cloneInstr(ret)
			setUnexported(nr, "block", nb)
			nb.Instrs = []ssa.Instruction{nr}
			nb.Preds = []*ssa.BasicBlock{pr}
			for k, x := range pr.Succs {
				if x == t {
					pr.Succs[k] = nb
					break
				}
			}
			added = append(added, nb)
		}
	}
	il.blocks = append(il.blocks, added...)
}

// computeDominators fills the dominator information of fn's blocks (Cooper-Harvey-Kennedy).
func computeDominators(fn *ssa.Function) {
	n := len(fn.Blocks)
	if n == 0 {
		return
	}
	// reverse postorder
	order := make([]*ssa.BasicBlock, 0, n)
	seen := make([]bool, n)
	var dfs func(b *ssa.BasicBlock)
	dfs = func(b *ssa.BasicBlock) {
		seen[b.Index] = true
		for _, s := range b.Succs {
			if !seen[s.Index] {
				dfs(s)
			}
		}
		order = append(order, b)
	}
	dfs(fn.Blocks[0])
	if fn.Recover != nil && !seen[fn.Recover.Index] {
		dfs(fn.Recover)
	}
	rpo := make([]int, n)
	for i := range rpo {
		rpo[i] = -1
	}
	for i := range order {
		rpo[order[len(order)-1-i].Index] = i
	}
	idom := make([]*ssa.BasicBlock, n)
	root := fn.Blocks[0]
	idom[root.Index] = root
	if fn.Recover != nil {
		idom[fn.Recover.Index] = fn.Recover
	}
	intersect := func(a, b *ssa.BasicBlock) *ssa.BasicBlock {
		for a != b {
			for rpo[a.Index] > rpo[b.Index] {
				a = idom[a.Index]
			}
			for rpo[b.Index] > rpo[a.Index] {
				b = idom[b.Index]
			}
		}
		return a
	}
	for changed := true; changed; {
		changed = false
		for i := len(order) - 1; i >= 0; i-- {
			b := order[i]
			if b == root || b == fn.Recover {
				continue
			}
			var nd *ssa.BasicBlock
			for _, p := range b.Preds {
				if rpo[p.Index] < 0 || idom[p.Index] == nil {
					continue
				}
				if nd == nil {
					nd = p
				} else {
					nd = intersect(p, nd)
				}
			}
			if nd != nil && idom[b.Index] != nd {
				idom[b.Index] = nd
				changed = true
			}
		}
	}
	children := make([][]*ssa.BasicBlock, n)
	for _, b := range fn.Blocks {
		d := idom[b.Index]
		if d != nil && d != b {
			children[d.Index] = append(children[d.Index], b)
		}
	}
	pre := make([]int32, n)
	post := make([]int32, n)
	var ctr int32
	var number func(b *ssa.BasicBlock)
	number = func(b *ssa.BasicBlock) {
		pre[b.Index] = ctr
		ctr++
		for _, c := range children[b.Index] {
			number(c)
		}
		post[b.Index] = ctr
		ctr++
	}
	number(root)
	if fn.Recover != nil && idom[fn.Recover.Index] == fn.Recover {
		number(fn.Recover)
	}
	for _, b := range fn.Blocks {
		d := idom[b.Index]
		if d == b {
			d = nil
		}
		setDom(b, d, children[b.Index], pre[b.Index], post[b.Index])
	}
}

// selfTestInline asserts the go/ssa layout assumptions.
func selfTestInline() error {
	var err error
	func() {
		defer func() {
			if e := recover(); e != nil {
				err = fmt.Errorf("%v", e)
			}
		}()
		b := &ssa.BasicBlock{}
		fn := new(ssa.Function)
		setUnexported(b, "parent", fn)
		if b.Parent() != fn {
			panic("BasicBlock.parent not settable")
		}
		j := new(ssa.Jump)
		setUnexported(j, "block", b)
		if j.Block() != b {
			panic("instruction block not settable")
		}
		ph := new(ssa.Phi)
		setUnexported(ph, "typ", types.Typ[types.Bool])
		if ph.Type() != types.Typ[types.Bool] {
			panic("register.typ not settable")
		}
		b2 := &ssa.BasicBlock{}
		setDom(b, nil, []*ssa.BasicBlock{b2}, 0, 3)
		setDom(b2, b, nil, 1, 2)
		if !b.Dominates(b2) || b2.Dominates(b) || b2.Idom() != b {
			panic("dominator info not settable")
		}
	}()
	return err
}

// wrapper describes a thin wrapper E around a helper h: E's body is one block that computes
// some arguments from its own parameters and returns h(args).
type wrapper struct {
	fn   *ssa.Function
	args []ssa.Value // arguments of the call to h inside fn
}

var wrappersOf map[*ssa.Function][]wrapper

// foldWrapper: a call h(a...) in the body of `in` is the same as E(b...) when a non-transparent
// function E of the module is exactly `return h(e...)` and the call's arguments are E's
// argument expressions under a binding of E's parameters (compared in canonical form).
// Returning E and the bound arguments lets the caller keep the stable, exported name in all
// canonical forms when a worker with a precomputed argument was split off E.
func (p *Program) foldWrapper(in *ssa.Function, call *ssa.Call, h *ssa.Function) (*ssa.Function, []ssa.Value) {
	if wrappersOf == nil {
		wrappersOf = map[*ssa.Function][]wrapper{}
		for fn := range p.AllFunctions() {
			if !IsModPkg(FnPkgPath(fn)) || len(fn.Blocks) != 1 || Transparent(fn) || fn.Parent() != nil || fn.Synthetic != "" {
				continue
			}
			instrs := fn.Blocks[0].Instrs
			ret, ok := instrs[len(instrs)-1].(*ssa.Return)
			if !ok || len(ret.Results) != 1 {
				continue
			}
			inner, ok := ret.Results[0].(*ssa.Call)
			if !ok || !Transparent(inner.Call.StaticCallee()) {
				continue
			}
			pure := true
			for _, x := range instrs[:len(instrs)-1] {
				switch x.(type) {
				case *ssa.Call, *ssa.FieldAddr, *ssa.Field, *ssa.UnOp, *ssa.DebugRef, *ssa.IndexAddr, *ssa.Index, *ssa.BinOp, *ssa.Convert, *ssa.ChangeType:
				default:
					pure = false
				}
			}
			if pure {
				callee := inner.Call.StaticCallee()
				wrappersOf[callee] = append(wrappersOf[callee], wrapper{fn, inner.Call.Args})
			}
		}
	}
	for _, w := range wrappersOf[h] {
		if w.fn == in || len(w.args) != len(call.Call.Args) {
			continue
		}
		bind := map[*ssa.Parameter]ssa.Value{}
		ok := true
		for i, e := range w.args {
			if par, isP := e.(*ssa.Parameter); isP {
				if old, seen := bind[par]; seen && old != call.Call.Args[i] {
					ok = false
				}
				bind[par] = call.Call.Args[i]
			}
		}
		if !ok || len(bind) != len(w.fn.Params) {
			continue
		}
		c := NewCanon(p)
		env := map[*ssa.Parameter]string{}
		for par, v := range bind {
			env[par] = c.Of(v)
		}
		for i, e := range w.args {
			if _, isP := e.(*ssa.Parameter); isP {
				continue
			}
			cw := NewCanon(p)
			cw.env = append(cw.env, env)
			if cw.Of(e) != c.Of(call.Call.Args[i]) {
				ok = false
			}
		}
		if !ok {
			continue
		}
		args := make([]ssa.Value, len(w.fn.Params))
		for i, par := range w.fn.Params {
			args[i] = bind[par]
		}
		return w.fn, args
	}
	return nil, nil
}

// liftAggregates: see finish. Requires referrers and dominators (cleanup). Reports whether
// anything changed; the caller applies il.subst and cleans up again.
func (il *inliner) liftAggregates() bool {
	if il.nf.Recover != nil {
		return false
	}
	type fieldVar struct {
		a *ssa.Alloc
		f int
	}
	isLoad := func(in ssa.Instruction, addr ssa.Value) bool {
		u, ok := in.(*ssa.UnOp)
		return ok && u.Op == token.MUL && u.X == addr
	}
	cands := map[*ssa.Alloc]*types.Struct{}
	fieldOf := map[*ssa.FieldAddr]fieldVar{}
	for _, b := range il.blocks {
	next:
		for _, in := range b.Instrs {
			a, ok := in.(*ssa.Alloc)
			if !ok {
				continue
			}
			pt, ok := a.Type().Underlying().(*types.Pointer)
			if !ok {
				continue
			}
			st, ok := pt.Elem().Underlying().(*types.Struct)
			if !ok || a.Referrers() == nil || len(*a.Referrers()) == 0 {
				continue
			}
			var fas []*ssa.FieldAddr
			dbg := os.Getenv("DDCHECK_SROA") != ""
			for _, r := range *a.Referrers() {
				fa, ok := r.(*ssa.FieldAddr)
				if !ok || fa.X != ssa.Value(a) || fa.Referrers() == nil {
					if dbg {
						fmt.Fprintf(os.Stderr, "SROA %s: %s not candidate: referrer %T %v\n", il.nf.Name(), a.Name(), r, r)
					}
					continue next
				}
				for _, u := range *fa.Referrers() {
					if isLoad(u, fa) {
						continue
					}
					if s, ok := u.(*ssa.Store); ok && s.Addr == ssa.Value(fa) && s.Val != ssa.Value(fa) {
						continue
					}
					if dbg {
						fmt.Fprintf(os.Stderr, "SROA %s: %s not candidate: field use %T %v\n", il.nf.Name(), a.Name(), u, u)
					}
					continue next
				}
				fas = append(fas, fa)
			}
			cands[a] = st
			for _, fa := range fas {
				fieldOf[fa] = fieldVar{a, fa.Field}
			}
		}
	}
	if os.Getenv("DDCHECK_SROA") != "" {
		fmt.Fprintf(os.Stderr, "SROA %s: %d candidates, %d field addresses\n", il.nf.Name(), len(cands), len(fieldOf))
	}
	if len(cands) == 0 {
		return false
	}
	// definition blocks per variable
	defs := map[fieldVar]map[*ssa.BasicBlock]bool{}
	addDef := func(v fieldVar, b *ssa.BasicBlock) {
		if defs[v] == nil {
			defs[v] = map[*ssa.BasicBlock]bool{}
		}
		defs[v][b] = true
	}
	used := map[fieldVar]bool{}
	for _, b := range il.blocks {
		for _, in := range b.Instrs {
			switch x := in.(type) {
			case *ssa.Alloc:
				if st, ok := cands[x]; ok {
					for f := 0; f < st.NumFields(); f++ {
						addDef(fieldVar{x, f}, b)
					}
				}
			case *ssa.Store:
				if fa, ok := x.Addr.(*ssa.FieldAddr); ok {
					if v, ok := fieldOf[fa]; ok {
						addDef(v, b)
					}
				}
			case *ssa.UnOp:
				if fa, ok := x.X.(*ssa.FieldAddr); ok && x.Op == token.MUL {
					if v, ok := fieldOf[fa]; ok {
						used[v] = true
					}
				}
			}
		}
	}
	// dominance frontiers
	df := map[*ssa.BasicBlock][]*ssa.BasicBlock{}
	for _, b := range il.blocks {
		if len(b.Preds) < 2 {
			continue
		}
		for _, p := range b.Preds {
			for r := p; r != nil && r != b.Idom(); r = r.Idom() {
				dup := false
				for _, x := range df[r] {
					dup = dup || x == b
				}
				if !dup {
					df[r] = append(df[r], b)
				}
			}
		}
	}
	// phi placement (iterated dominance frontier of the definition blocks), only for fields
	// that are read somewhere
	type placed struct {
		v  fieldVar
		ph *ssa.Phi
	}
	phisAt := map[*ssa.BasicBlock][]placed{}
	var vars []fieldVar
	for v := range defs {
		if used[v] {
			vars = append(vars, v)
		}
	}
	sort.Slice(vars, func(i, j int) bool {
		if vars[i].a != vars[j].a {
			bi, bj := vars[i].a.Block().Index, vars[j].a.Block().Index
			if bi != bj {
				return bi < bj
			}
			return vars[i].a.Name() < vars[j].a.Name()
		}
		return vars[i].f < vars[j].f
	})
	for _, v := range vars {
		has := map[*ssa.BasicBlock]bool{}
		var work []*ssa.BasicBlock
		for b := range defs[v] {
			work = append(work, b)
		}
		sort.Slice(work, func(i, j int) bool { return work[i].Index < work[j].Index })
		for len(work) > 0 {
			b := work[len(work)-1]
			work = work[:len(work)-1]
			for _, y := range df[b] {
				if has[y] {
					continue
				}
				has[y] = true
				ph := new(ssa.Phi)
				ph.Comment = cands[v.a].Field(v.f).Name()
				ph.Edges = make([]ssa.Value, len(y.Preds))
				setUnexported(ph, "block", y)
				setUnexported(ph, "typ", cands[v.a].Field(v.f).Type())
				setUnexported(ph, "pos", v.a.Pos())
				phisAt[y] = append(phisAt[y], placed{v, ph})
				if !defs[v][y] {
					work = append(work, y)
				}
			}
		}
	}
	// renaming along the dominator tree
	zero := func(v fieldVar) ssa.Value { return ssa.NewConst(nil, cands[v.a].Field(v.f).Type()) }
	var rename func(b *ssa.BasicBlock, cur map[fieldVar]ssa.Value)
	rename = func(b *ssa.BasicBlock, in map[fieldVar]ssa.Value) {
		cur := make(map[fieldVar]ssa.Value, len(in))
		for k, v := range in {
			cur[k] = v
		}
		for _, pl := range phisAt[b] {
			cur[pl.v] = pl.ph
		}
		keep := b.Instrs[:0:0]
		for _, ins := range b.Instrs {
			switch x := ins.(type) {
			case *ssa.Alloc:
				if st, ok := cands[x]; ok {
					for f := 0; f < st.NumFields(); f++ {
						cur[fieldVar{x, f}] = zero(fieldVar{x, f})
					}
					continue
				}
			case *ssa.FieldAddr:
				if _, ok := fieldOf[x]; ok {
					continue
				}
			case *ssa.Store:
				if fa, ok := x.Addr.(*ssa.FieldAddr); ok {
					if v, ok := fieldOf[fa]; ok {
						cur[v] = il.resolve(x.Val)
						continue
					}
				}
			case *ssa.UnOp:
				if fa, ok := x.X.(*ssa.FieldAddr); ok && x.Op == token.MUL {
					if v, ok := fieldOf[fa]; ok {
						val := cur[v]
						if val == nil {
							val = zero(v)
						}
						il.subst[x] = val
						continue
					}
				}
			}
			keep = append(keep, ins)
		}
		b.Instrs = keep
		for _, s := range b.Succs {
			for k, p := range s.Preds {
				if p != b {
					continue
				}
				for _, pl := range phisAt[s] {
					if pl.ph.Edges[k] != nil {
						continue
					}
					val := cur[pl.v]
					if val == nil {
						val = zero(pl.v)
					}
					pl.ph.Edges[k] = val
				}
				// a block may be listed twice as predecessor (both arms of an If): fill each slot
			}
		}
		for _, d := range b.Dominees() {
			rename(d, cur)
		}
	}
	rename(il.blocks[0], map[fieldVar]ssa.Value{})
	// insert the phis that are (transitively) used by something else than phis; drop the rest
	live := map[*ssa.Phi]bool{}
	isPlaced := map[ssa.Value]*ssa.Phi{}
	for _, pls := range phisAt {
		for _, pl := range pls {
			isPlaced[pl.ph] = pl.ph
		}
	}
	var mark func(v ssa.Value)
	mark = func(v ssa.Value) {
		v = il.resolve(v)
		ph, ok := isPlaced[v]
		if !ok || live[ph] {
			return
		}
		live[ph] = true
		for _, e := range ph.Edges {
			if e != nil {
				mark(e)
			}
		}
	}
	for _, b := range il.blocks {
		for _, ins := range b.Instrs {
			for _, op := range ins.Operands(nil) {
				if *op != nil {
					mark(*op)
				}
			}
		}
	}
	for _, b := range il.blocks {
		var phis []ssa.Instruction
		for _, pl := range phisAt[b] {
			if !live[pl.ph] {
				continue
			}
			for k, e := range pl.ph.Edges {
				if e == nil {
					pl.ph.Edges[k] = zero(pl.v) // unreachable predecessor
				}
			}
			phis = append(phis, pl.ph)
		}
		if len(phis) > 0 {
			b.Instrs = append(phis, b.Instrs...)
		}
	}
	return true
}
