package core

// linear.go: a small relational bound prover. For one index or slice expression it collects the
// comparisons that hold on every path to it (branch conditions of dominating blocks), writes
// them and the bound as linear constraints over opaque integer atoms (lengths, fields, call
// results, parameters), and decides by Fourier-Motzkin elimination whether "the bound is
// violated" is contradictory. Nothing is executed and no external solver is used; the
// procedure is sound for proving (rational infeasibility implies integer infeasibility) and
// incomplete (what it cannot prove is reported as not proven).

import (
	"go/constant"
	"go/token"
	"go/types"
	"sort"
	"strings"

	"golang.org/x/tools/go/ssa"
)

// Lin is sum(Coef[a]*a) + K over atoms named by strings.
type Lin struct {
	Coef map[string]int64
	K    int64
}

func linConst(k int64) Lin           { return Lin{Coef: map[string]int64{}, K: k} }
func linAtom(a string) Lin           { return Lin{Coef: map[string]int64{a: 1}} }
func (l Lin) Add(m Lin, f int64) Lin { return l.add(m, f) }
func (l Lin) add(m Lin, f int64) Lin {
	r := Lin{Coef: map[string]int64{}, K: l.K + f*m.K}
	for a, c := range l.Coef {
		r.Coef[a] = c
	}
	for a, c := range m.Coef {
		r.Coef[a] += f * c
		if r.Coef[a] == 0 {
			delete(r.Coef, a)
		}
	}
	return r
}
func (l Lin) scale(f int64) Lin { return linConst(0).add(l, f) }

func (l Lin) String() string {
	var ks []string
	for a := range l.Coef {
		ks = append(ks, a)
	}
	sort.Strings(ks)
	var sb strings.Builder
	for _, a := range ks {
		c := l.Coef[a]
		switch {
		case c == 1:
			sb.WriteString(" + " + a)
		case c == -1:
			sb.WriteString(" - " + a)
		case c < 0:
			sb.WriteString(" - " + itoa(-c) + "*" + a)
		default:
			sb.WriteString(" + " + itoa(c) + "*" + a)
		}
	}
	if l.K != 0 || len(ks) == 0 {
		if l.K < 0 {
			sb.WriteString(" - " + itoa(-l.K))
		} else {
			sb.WriteString(" + " + itoa(l.K))
		}
	}
	return strings.TrimPrefix(strings.TrimPrefix(sb.String(), " + "), " ")
}

func itoa(v int64) string { return constant.MakeInt64(v).ExactString() }

// LinProver holds the atoms of one function.
type LinProver struct {
	P      *Program
	C      *Canon
	Fn     *ssa.Function
	axioms map[string][]Lin   // atom -> constraints (each "<= 0") that always hold
	phiDef map[string]linFact // atom of a merge (not a loop header) -> one alternative per incoming edge
	// StableField reports whether loads of a struct field may be identified by their
	// canonical spelling (the field is only ever written into freshly allocated records).
	StableField func(*ssa.FieldAddr) bool
}

func NewLinProver(p *Program, fn *ssa.Function, stable func(*ssa.FieldAddr) bool) *LinProver {
	return &LinProver{P: p, C: NewCanon(p), Fn: fn, axioms: map[string][]Lin{}, phiDef: map[string]linFact{}, StableField: stable}
}

func isIntType(t types.Type) bool {
	b, ok := t.Underlying().(*types.Basic)
	return ok && b.Info()&types.IsInteger != 0
}

// atomName: an opaque integer. Pure expressions over parameters are named by their canonical
// spelling, so that two evaluations are the same atom; everything else by its SSA register.
func (lp *LinProver) atomName(v ssa.Value) string {
	if lp.pure(v, 0) {
		return lp.C.Of(v)
	}
	return "%" + v.Name()
}

var pureCalls = map[string]bool{"strings.Index": true, "strings.LastIndex": true, "strings.IndexByte": true, "strings.LastIndexByte": true,
	"strings.IndexAny": true, "strings.LastIndexAny": true, "strings.IndexRune": true, "strings.TrimSpace": true, "strings.ToLower": true,
	"strings.ToUpper": true, "strings.TrimPrefix": true, "strings.TrimSuffix": true, "strings.Count": true,
	"unicode/utf8.RuneCountInString": true}

func (lp *LinProver) pure(v ssa.Value, depth int) bool {
	if depth > 8 {
		return false
	}
	switch x := v.(type) {
	case *ssa.Parameter, *ssa.Const, *ssa.Global:
		return true
	case *ssa.FreeVar:
		return true
	case *ssa.UnOp:
		if x.Op == token.MUL {
			fa, ok := x.X.(*ssa.FieldAddr)
			return ok && lp.StableField != nil && lp.StableField(fa) && lp.pure(fa.X, depth+1)
		}
		return lp.pure(x.X, depth+1)
	case *ssa.FieldAddr:
		return lp.pure(x.X, depth+1)
	case *ssa.Field:
		return lp.pure(x.X, depth+1)
	case *ssa.BinOp:
		return lp.pure(x.X, depth+1) && lp.pure(x.Y, depth+1)
	case *ssa.Convert:
		return lp.pure(x.X, depth+1)
	case *ssa.ChangeType:
		return lp.pure(x.X, depth+1)
	case *ssa.Slice:
		if _, isStr := x.X.Type().Underlying().(*types.Basic); !isStr {
			return false
		}
		for _, b := range []ssa.Value{x.Low, x.High} {
			if b != nil && !lp.pure(b, depth+1) {
				return false
			}
		}
		return lp.pure(x.X, depth+1)
	case *ssa.Call:
		if bi, ok := x.Call.Value.(*ssa.Builtin); ok && bi.Name() == "len" {
			return lp.pure(x.Call.Args[0], depth+1)
		}
		if f := x.Call.StaticCallee(); f != nil && pureCalls[f.String()] {
			for _, a := range x.Call.Args {
				if !lp.pure(a, depth+1) {
					return false
				}
			}
			return true
		}
	}
	return false
}

func (lp *LinProver) axiom(atom string, cs ...Lin) {
	if _, ok := lp.axioms[atom]; !ok {
		lp.axioms[atom] = cs
	}
}

// LenOf: the length of a string or slice value as a linear term.
func (lp *LinProver) LenOf(v ssa.Value) Lin {
	switch x := v.(type) {
	case *ssa.Const:
		if x.Value != nil && x.Value.Kind() == constant.String {
			return linConst(int64(len(constant.StringVal(x.Value))))
		}
	case *ssa.BinOp:
		if x.Op == token.ADD { // string concatenation
			return lp.LenOf(x.X).add(lp.LenOf(x.Y), 1)
		}
	case *ssa.Slice:
		if bt, ok := x.X.Type().Underlying().(*types.Basic); ok && bt.Info()&types.IsString != 0 || isSliceT(x.X.Type()) {
			lo := linConst(0)
			if x.Low != nil {
				lo = lp.Of(x.Low)
			}
			hi := lp.LenOf(x.X)
			if x.High != nil {
				hi = lp.Of(x.High)
			}
			return hi.add(lo, -1)
		}
	case *ssa.ChangeType:
		return lp.LenOf(x.X)
	}
	a := "len(" + lp.atomName(v) + ")"
	lp.axiom(a, linAtom(a).scale(-1)) // -len <= 0
	return linAtom(a)
}

func isSliceT(t types.Type) bool { _, ok := t.Underlying().(*types.Slice); return ok }

// Of: an integer value as a linear term.
func (lp *LinProver) Of(v ssa.Value) Lin {
	switch x := v.(type) {
	case *ssa.Const:
		if x.Value != nil && x.Value.Kind() == constant.Int {
			if k, ok := constant.Int64Val(x.Value); ok {
				return linConst(k)
			}
		}
	case *ssa.BinOp:
		if !isIntType(x.Type()) {
			break
		}
		switch x.Op {
		case token.ADD:
			return lp.Of(x.X).add(lp.Of(x.Y), 1)
		case token.SUB:
			return lp.Of(x.X).add(lp.Of(x.Y), -1)
		case token.MUL:
			if k, ok := ConstInt(x.Y); ok && k > -1000 && k < 1000 {
				return lp.Of(x.X).scale(k)
			}
			if k, ok := ConstInt(x.X); ok && k > -1000 && k < 1000 {
				return lp.Of(x.Y).scale(k)
			}
		}
	case *ssa.Convert:
		// int -> int of at least the same width keeps the value; narrower ones are opaque
		if isIntType(x.X.Type()) && isIntType(x.Type()) && sizeOfInt(x.Type()) >= sizeOfInt(x.X.Type()) && signedInt(x.Type()) == signedInt(x.X.Type()) {
			return lp.Of(x.X)
		}
	case *ssa.ChangeType:
		return lp.Of(x.X)
	case *ssa.Call:
		if bi, ok := x.Call.Value.(*ssa.Builtin); ok && bi.Name() == "len" && len(x.Call.Args) == 1 {
			if _, isMap := x.Call.Args[0].Type().Underlying().(*types.Map); !isMap {
				if _, isCh := x.Call.Args[0].Type().Underlying().(*types.Chan); !isCh {
					return lp.LenOf(x.Call.Args[0])
				}
			}
		}
		if f := x.Call.StaticCallee(); f != nil && searchFuncsLin[f.String()] && len(x.Call.Args) == 2 {
			a := lp.atomName(v)
			// -1 <= r and r <= len(s)
			lp.axiom(a, linAtom(a).scale(-1).add(linConst(1), -1), linAtom(a).add(lp.LenOf(x.Call.Args[0]), -1))
			return linAtom(a)
		}
	}
	if ph, ok := v.(*ssa.Phi); ok && isIntType(ph.Type()) {
		// a counter: every edge is a constant or the counter itself plus a positive constant -
		// then it never falls below the smallest of the constants (induction over the loop)
		min, have, okAll := int64(0), false, true
		for _, e := range ph.Edges {
			if k, isC := ConstInt(e); isC {
				if !have || k < min {
					min, have = k, true
				}
				continue
			}
			if bo, isB := e.(*ssa.BinOp); isB && bo.Op == token.ADD {
				if k, isC := ConstInt(bo.Y); isC && k > 0 && bo.X == ssa.Value(ph) {
					continue
				}
			}
			okAll = false
		}
		if okAll && have {
			a := lp.atomName(v)
			lp.axiom(a, linAtom(a).scale(-1).add(linConst(min), 1)) // min - p <= 0
			return linAtom(a)
		}
		// a merge that is not a loop header: on the edge from predecessor k the value is edge k
		// and everything known at the end of predecessor k holds (the branch condition taken
		// from it included)
		blk := ph.Block()
		loopHeader := false
		for _, pr := range blk.Preds {
			if blk.Dominates(pr) {
				loopHeader = true
			}
		}
		a := lp.atomName(v)
		if _, done := lp.phiDef[a]; !loopHeader && !done && len(ph.Edges) <= 3 {
			lp.phiDef[a] = nil // guard against recursion
			var alts linFact
			for k, e := range ph.Edges {
				d := linAtom(a).add(lp.Of(e), -1)
				alt := []Lin{d, d.scale(-1)}
				pr := blk.Preds[k]
				fs, _ := lp.FactsAt(pr)
				if n := len(pr.Instrs); n > 0 {
					if ifi, ok := pr.Instrs[n-1].(*ssa.If); ok && len(pr.Succs) == 2 && pr.Succs[0] != pr.Succs[1] {
						if f := lp.condFact(ifi.Cond, pr.Succs[0] == blk); f != nil {
							fs = append(fs, f)
						}
					}
				}
				for _, f := range fs {
					if len(f) == 1 {
						alt = append(alt, f[0]...)
					}
				}
				alts = append(alts, alt)
			}
			lp.phiDef[a] = alts
		}
		return linAtom(a)
	}
	return linAtom(lp.atomName(v))
}

var searchFuncsLin = map[string]bool{"strings.Index": true, "strings.LastIndex": true, "strings.IndexByte": true, "strings.LastIndexByte": true,
	"strings.IndexAny": true, "strings.LastIndexAny": true, "strings.IndexRune": true}

func sizeOfInt(t types.Type) int {
	b := t.Underlying().(*types.Basic)
	switch b.Kind() {
	case types.Int8, types.Uint8:
		return 1
	case types.Int16, types.Uint16:
		return 2
	case types.Int32, types.Uint32:
		return 4
	}
	return 8
}
func signedInt(t types.Type) bool {
	return t.Underlying().(*types.Basic).Info()&types.IsUnsigned == 0
}

// a fact is a disjunction of conjunctions of constraints "Lin <= 0"
type linFact [][]Lin

// condFact: what the truth (val) of a boolean SSA value says, as linear constraints.
func (lp *LinProver) condFact(cond ssa.Value, val bool) linFact {
	switch x := cond.(type) {
	case *ssa.UnOp:
		if x.Op == token.NOT {
			return lp.condFact(x.X, !val)
		}
	case *ssa.Call:
		if f := x.Call.StaticCallee(); f != nil && val && len(x.Call.Args) == 2 {
			switch f.String() {
			case "strings.HasPrefix", "strings.HasSuffix", "strings.Contains":
				// len(arg1) <= len(arg0)
				return linFact{{lp.LenOf(x.Call.Args[1]).add(lp.LenOf(x.Call.Args[0]), -1)}}
			}
		}
	case *ssa.BinOp:
		if !isIntType(x.X.Type()) {
			if bt, ok := x.X.Type().Underlying().(*types.Basic); ok && bt.Info()&types.IsString != 0 && ((x.Op == token.EQL && val) || (x.Op == token.NEQ && !val)) {
				d := lp.LenOf(x.X).add(lp.LenOf(x.Y), -1)
				return linFact{{d, d.scale(-1)}}
			}
			return nil
		}
		op := x.Op
		if !val {
			switch op {
			case token.EQL:
				op = token.NEQ
			case token.NEQ:
				op = token.EQL
			case token.LSS:
				op = token.GEQ
			case token.GEQ:
				op = token.LSS
			case token.GTR:
				op = token.LEQ
			case token.LEQ:
				op = token.GTR
			default:
				return nil
			}
		}
		d := lp.Of(x.X).add(lp.Of(x.Y), -1) // X - Y
		one := linConst(1)
		switch op {
		case token.EQL:
			return linFact{{d, d.scale(-1)}}
		case token.NEQ:
			return linFact{{d.add(one, 1)}, {d.scale(-1).add(one, 1)}} // X-Y+1<=0 or Y-X+1<=0
		case token.LSS:
			return linFact{{d.add(one, 1)}}
		case token.LEQ:
			return linFact{{d}}
		case token.GTR:
			return linFact{{d.scale(-1).add(one, 1)}}
		case token.GEQ:
			return linFact{{d.scale(-1)}}
		}
	}
	return nil
}

// FactsAt: the branch conditions that hold whenever block b is entered: for every block t on
// b's dominator chain that has exactly one predecessor d ending in an If, the condition (or its
// negation) of d. (t dominates b and is entered only over that edge, and every value the
// condition mentions is defined above d, so on every path the edge is taken after the last
// definition of those values.)
func (lp *LinProver) FactsAt(b *ssa.BasicBlock) ([]linFact, []string) {
	var facts []linFact
	var descr []string
	for t := b; t != nil; t = t.Idom() {
		if len(t.Preds) != 1 {
			continue
		}
		d := t.Preds[0]
		if len(d.Instrs) == 0 {
			continue
		}
		ifi, ok := d.Instrs[len(d.Instrs)-1].(*ssa.If)
		if !ok || len(d.Succs) != 2 || d.Succs[0] == d.Succs[1] {
			continue
		}
		val := d.Succs[0] == t
		if f := lp.condFact(ifi.Cond, val); f != nil {
			facts = append(facts, f)
			s := lp.C.Of(ifi.Cond)
			if !val {
				s = "¬" + s
			}
			descr = append(descr, s)
		}
	}
	return facts, descr
}

// Infeasible: do the constraints (each "<= 0") contradict each other over the rationals?
func linInfeasible(cs []Lin) bool {
	cur := cs
	for iter := 0; iter < 64; iter++ {
		// contradiction among constants?
		var vars = map[string]int{}
		for _, c := range cur {
			if len(c.Coef) == 0 {
				if c.K > 0 {
					return true
				}
				continue
			}
			for a := range c.Coef {
				vars[a]++
			}
		}
		if len(vars) == 0 {
			return false
		}
		// eliminate the variable with the fewest pos*neg combinations
		best, bestCost := "", -1
		var names []string
		for a := range vars {
			names = append(names, a)
		}
		sort.Strings(names)
		for _, a := range names {
			pos, neg := 0, 0
			for _, c := range cur {
				if c.Coef[a] > 0 {
					pos++
				} else if c.Coef[a] < 0 {
					neg++
				}
			}
			if cost := pos * neg; bestCost < 0 || cost < bestCost {
				best, bestCost = a, cost
			}
		}
		var next, pos, neg []Lin
		for _, c := range cur {
			switch k := c.Coef[best]; {
			case k > 0:
				pos = append(pos, c)
			case k < 0:
				neg = append(neg, c)
			default:
				next = append(next, c)
			}
		}
		for _, p := range pos {
			for _, n := range neg {
				cp, cn := p.Coef[best], -n.Coef[best]
				if cp > 1<<20 || cn > 1<<20 {
					return false // give up: not proven
				}
				next = append(next, p.scale(cn).add(n, cp))
			}
		}
		if len(next) > 4000 {
			return false
		}
		cur = next
	}
	return false
}

// Decide: do the facts at block b, the definitions of merges and the axioms of the atoms
// involved make `goalNeg` (the negation of what is to be shown, as constraints "<= 0")
// impossible? guarded: the comparisons of the function itself (facts and merge definitions, not
// the axioms) connect an atom of term x with an atom of term y - the code compares the two.
// With y empty: some single comparison mentions only atoms of x (x is compared with a constant).
func (lp *LinProver) Decide(b *ssa.BasicBlock, goalNeg []Lin, x, y Lin) (proved, guarded bool) {
	facts, _ := lp.FactsAt(b)
	base := append([]Lin{}, goalNeg...)
	var disj []linFact
	var factCs []Lin
	for _, f := range facts {
		if len(f) == 1 {
			base = append(base, f[0]...)
			factCs = append(factCs, f[0]...)
		} else {
			if len(disj) < 6 {
				disj = append(disj, f)
			}
			for _, alt := range f {
				factCs = append(factCs, alt...)
			}
		}
	}
	// merge definitions of the atoms mentioned (to a fixpoint)
	seenPhi := map[string]bool{}
	mention := func(cs []Lin, visit func(string)) {
		for _, c := range cs {
			for a := range c.Coef {
				visit(a)
			}
		}
	}
	all := append(append([]Lin{}, base...), x, y)
	for changed := true; changed; {
		changed = false
		mention(all, func(a string) {
			if seenPhi[a] {
				return
			}
			seenPhi[a] = true
			if def, ok := lp.phiDef[a]; ok && len(def) > 0 {
				if len(disj) < 6 {
					disj = append(disj, def)
				}
				for _, alt := range def {
					all = append(all, alt...)
					factCs = append(factCs, alt...)
				}
				changed = true
			}
		})
	}
	// guardedness: union-find over the atoms of the function's own comparisons
	parent := map[string]string{}
	var find func(string) string
	find = func(a string) string {
		if p, ok := parent[a]; ok && p != a {
			r := find(p)
			parent[a] = r
			return r
		}
		parent[a] = a
		return a
	}
	for _, c := range factCs {
		first := ""
		for a := range c.Coef {
			if first == "" {
				first = a
				find(a)
			} else {
				parent[find(a)] = find(first)
			}
		}
	}
	if len(y.Coef) > 0 {
		for ax := range x.Coef {
			for ay := range y.Coef {
				if _, ok := parent[ax]; !ok {
					continue
				}
				if _, ok := parent[ay]; !ok {
					continue
				}
				if find(ax) == find(ay) {
					guarded = true
				}
			}
		}
	} else {
		for _, c := range factCs {
			if len(c.Coef) == 0 {
				continue
			}
			only := true
			for a := range c.Coef {
				if _, ok := x.Coef[a]; !ok {
					only = false
				}
			}
			if only {
				guarded = true
			}
		}
	}
	var rec func(i int, cs []Lin) bool
	rec = func(i int, cs []Lin) bool {
		if i == len(disj) {
			all := append([]Lin{}, cs...)
			// axioms (may introduce atoms with axioms of their own: iterate to a fixpoint)
			seen := map[string]bool{}
			for changed := true; changed; {
				changed = false
				for _, c := range all {
					for a := range c.Coef {
						if !seen[a] {
							seen[a] = true
							if ax, ok := lp.axioms[a]; ok {
								all = append(all, ax...)
								changed = true
							}
						}
					}
				}
			}
			return linInfeasible(all)
		}
		for _, alt := range disj[i] {
			if !rec(i+1, append(append([]Lin{}, cs...), alt...)) {
				return false
			}
		}
		return true
	}
	return rec(0, base), guarded
}

// GE0 / LE helpers for goals: the negation of "a <= b" is "b + 1 <= a", i.e. b - a + 1 <= 0.
func NegLE(a, b Lin) []Lin { return []Lin{b.add(a, -1).add(linConst(1), 1)} }

func LinConst(k int64) Lin { return linConst(k) }
