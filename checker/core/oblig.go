package core

import (
	"crypto/sha1"
	"encoding/json"
	"fmt"
	"os"
	"path/filepath"
	"sort"
	"strings"
	"time"
)

// Verdicts of an obligation.
const (
	Discharged = "discharged"
	Violated   = "violated"
	Excepted   = "excepted"
	Known      = "known"
)

// Obligation is one (property, rule, construct) instance decided by a rule.
type Obligation struct {
	Rule    string   `json:"rule"`
	Key     string   `json:"construct"` // semantic construct key; never a line number
	Pos     string   `json:"pos,omitempty"`
	Verdict string   `json:"verdict"`
	Why     string   `json:"why,omitempty"`     // how it was discharged / what is wrong
	Witness []string `json:"witness,omitempty"` // path, call chain or instance details
}

// Report collects the obligations and coverage figures of one property check.
type Report struct {
	Prop        string
	Tier        string
	Explanation string
	NotCovered  string
	Obls        []*Obligation
	Floors      map[string]int // rule -> minimal number of obligations expected
	Stats       map[string]any
	Assumptions []string
	Trusted     []string
	fatal       []string
}

func NewReport(prop, tier string) *Report {
	return &Report{Prop: prop, Tier: tier, Floors: map[string]int{}, Stats: map[string]any{}}
}

// Add records an obligation. ok=true means discharged.
func (r *Report) Add(rule, key, pos string, ok bool, why string, witness ...string) *Obligation {
	v := Violated
	if ok {
		v = Discharged
	}
	o := &Obligation{Rule: rule, Key: key, Pos: pos, Verdict: v, Why: why, Witness: witness}
	r.Obls = append(r.Obls, o)
	return o
}

// Undecided records that the checker could not even evaluate something it depends on
// (anchor missing, unexpected shape). It fails the check.
func (r *Report) Undecided(rule, key, why string) {
	r.Add(rule, key, "", false, "UNDECIDED: "+why)
}

// Floor sets the minimal instance count of a rule (vacuity guard).
func (r *Report) Floor(rule string, n int) { r.Floors[rule] = n }

// Fatal records an internal failure.
func (r *Report) Fatal(format string, args ...any) {
	r.fatal = append(r.fatal, fmt.Sprintf(format, args...))
}

type exceptionEntry struct {
	Property  string `json:"property"`
	Rule      string `json:"rule"`
	Construct string `json:"construct"`
	Reason    string `json:"reason"`
}

type knownEntry struct {
	Status    string `json:"status"` // "known" or "fixed"
	Property  string `json:"property"`
	Rule      string `json:"rule,omitempty"`
	Construct string `json:"construct,omitempty"`
	What      string `json:"what"`
	Commit    string `json:"commit,omitempty"`
	Line      string `json:"line,omitempty"` // the "fixed: property=<id> <commit> <what failed>" line
}

func loadJSON(path string, v any) error {
	b, err := os.ReadFile(path)
	if err != nil {
		if os.IsNotExist(err) {
			return nil
		}
		return err
	}
	return json.Unmarshal(b, v)
}

// Finish applies exceptions and known findings, writes evidence and findings files,
// prints the protocol lines and returns the process exit code.
func (r *Report) Finish(verifDir string, prog *Program, started time.Time, seed int64) int {
	outDir := verifDir
	if o := os.Getenv("DDCHECK_OUT"); o != "" {
		outDir = o // scratch runs against mutated copies must not overwrite the real evidence
	}
	var exceptions []exceptionEntry
	var known []knownEntry
	if err := loadJSON(filepath.Join(verifDir, "rules", "exceptions.json"), &exceptions); err != nil {
		r.Fatal("exceptions.json: %v", err)
	}
	if err := loadJSON(filepath.Join(verifDir, "known_findings.json"), &known); err != nil {
		r.Fatal("known_findings.json: %v", err)
	}
	usedExc := map[int]bool{}
	usedKnown := map[int]bool{}
	for _, o := range r.Obls {
		if o.Verdict != Violated {
			continue
		}
		if strings.HasPrefix(o.Why, "UNDECIDED") {
			continue
		}
		for i, e := range exceptions {
			if e.Property == r.Prop && e.Rule == o.Rule && e.Construct == o.Key {
				o.Verdict = Excepted
				o.Why = "reviewed exception: " + e.Reason
				usedExc[i] = true
				break
			}
		}
		if o.Verdict != Violated {
			continue
		}
		for i, k := range known {
			if k.Status == "known" && k.Property == r.Prop && k.Rule == o.Rule && k.Construct == o.Key {
				o.Verdict = Known
				usedKnown[i] = true
				break
			}
		}
	}
	// floors
	count := map[string]int{}
	for _, o := range r.Obls {
		count[o.Rule]++
	}
	var floorRules []string
	for rule := range r.Floors {
		floorRules = append(floorRules, rule)
	}
	sort.Strings(floorRules)
	for _, rule := range floorRules {
		if count[rule] < r.Floors[rule] {
			r.Add(rule, "instance-floor", "", false,
				fmt.Sprintf("UNDECIDED: rule matched %d instances, fewer than the %d confirmed by hand: the rule has gone vacuous (anchor renamed or shape changed)", count[rule], r.Floors[rule]))
		}
	}

	nDis, nExc, nKnown, nViol := 0, 0, 0, 0
	var viols []*Obligation
	for _, o := range r.Obls {
		switch o.Verdict {
		case Discharged:
			nDis++
		case Excepted:
			nExc++
		case Known:
			nKnown++
		default:
			nViol++
			viols = append(viols, o)
		}
	}

	// stale exceptions (informational)
	var stale []string
	for i, e := range exceptions {
		if e.Property == r.Prop && !usedExc[i] {
			stale = append(stale, e.Rule+" "+e.Construct)
		}
	}

	// print
	fmt.Printf("== %s (%s): %d obligations: %d discharged, %d excepted, %d known, %d violated\n",
		r.Prop, r.Tier, len(r.Obls), nDis, nExc, nKnown, nViol)
	for i, k := range known {
		if k.Status == "known" && k.Property == r.Prop {
			if usedKnown[i] {
				fmt.Printf("KNOWN-FINDING: property=%s %s [%s %s]\n", r.Prop, k.What, k.Rule, k.Construct)
			} else {
				fmt.Printf("note: known finding no longer reproduced by the rules: %s %s (%s)\n", k.Rule, k.Construct, k.What)
			}
		}
	}
	os.MkdirAll(filepath.Join(outDir, "findings"), 0o755)
	for _, o := range viols {
		h := sha1.Sum([]byte(r.Prop + "|" + o.Rule + "|" + o.Key))
		path := filepath.Join(outDir, "findings", fmt.Sprintf("%s-%x.json", r.Prop, h[:6]))
		b, _ := json.MarshalIndent(map[string]any{"property": r.Prop, "tier": r.Tier, "obligation": o}, "", " ")
		os.WriteFile(path, b, 0o644)
		fmt.Printf("  %s %s @ %s: %s\n", o.Rule, o.Key, o.Pos, o.Why)
		for _, w := range o.Witness {
			fmt.Printf("      %s\n", w)
		}
		fmt.Printf("VIOLATION property=%s replay=%s\n", r.Prop, path)
	}
	for _, f := range r.fatal {
		fmt.Printf("FATAL: %s\n", f)
	}

	if os.Getenv("DDCHECK_DUMP") != "" {
		for _, o := range r.Obls {
			fmt.Printf("OBL\t%s\t%s\t%s\t%s\t%s\n", o.Verdict, o.Rule, o.Key, o.Pos, o.Why)
		}
	}

	// evidence
	samples := []any{}
	perRule := map[string]int{}
	for _, o := range r.Obls {
		if perRule[o.Rule] < 4 || o.Verdict != Discharged {
			samples = append(samples, o)
			perRule[o.Rule]++
		}
		if len(samples) >= 60 {
			break
		}
	}
	ruleCounts := map[string]map[string]int{}
	for _, o := range r.Obls {
		if ruleCounts[o.Rule] == nil {
			ruleCounts[o.Rule] = map[string]int{}
		}
		ruleCounts[o.Rule][o.Verdict]++
	}
	cov := map[string]any{
		"explanation":      r.Explanation,
		"not_covered":      r.NotCovered,
		"obligations":      len(r.Obls),
		"discharged":       nDis,
		"excepted":         nExc,
		"known":            nKnown,
		"violated":         nViol,
		"per_rule":         ruleCounts,
		"instance_floor":   r.Floors,
		"samples":          samples,
		"checker_cmd":      fmt.Sprintf("/verif/check.sh %s %s", r.Prop, r.Tier),
		"trusted_base":     append([]string{"go/types type checker", "go/ssa construction (x/tools v0.29.0)", "reviewed tables in /verif/rules"}, r.Trusted...),
		"stale_exceptions": stale,
	}
	if prog != nil {
		cov["packages_loaded"] = len(prog.AllPkgs)
		cov["module_packages"] = len(prog.Pkgs)
		cov["load_s"] = prog.LoadTime.Seconds()
	}
	for k, v := range r.Stats {
		cov[k] = v
	}
	if r.Assumptions == nil {
		r.Assumptions = []string{}
	}
	r.Assumptions = append(r.Assumptions, "anchor functions/fields named in the rules exist under these names (a missing anchor fails the check)", "the Go type checker and go/ssa faithfully represent the sources; no reflection/unsafe/cgo in module packages")
	ev := map[string]any{
		"property_id": r.Prop,
		"tier":        r.Tier,
		"seed":        seed,
		"level":       "other",
		"coverage":    cov,
		"assumptions": r.Assumptions,
		"wall_s":      time.Since(started).Seconds(),
		"violations":  nViol,
	}
	os.MkdirAll(filepath.Join(outDir, "evidence"), 0o755)
	b, _ := json.MarshalIndent(ev, "", " ")
	if err := os.WriteFile(filepath.Join(outDir, "evidence", r.Prop+".json"), b, 0o644); err != nil {
		fmt.Printf("FATAL: cannot write evidence: %v\n", err)
		return 2
	}
	if len(r.fatal) > 0 {
		return 2
	}
	if nViol > 0 {
		return 1
	}
	return 0
}
