package props

import (
	"fmt"
	"regexp"
	"sort"
	"strings"

	"ddcheck/core"

	"golang.org/x/tools/go/ssa"
)

func init() { Registry["C05"] = C05 }

// "<"+Name+">" or "</"+Name+">", the opening chosen by a merge or written out per case
var reTagPlaceholder = regexp.MustCompile(`^\(\((μ\("<"\|"</"\)|μ\("</"\|"<"\)|"<"|"</") \+ \$0\.Name\) \+ ">"\)$`)

var placeholderAttrs = map[string]bool{"class": true, "data-type": true, "data-id": true}

// C05: distilled HTML is inert.
func C05(p *core.Program, r *core.Report) {
	r.Explanation = "S1 (strip before serialise, sibling agreement over all Element.GenerateOutput implementations): every returned string that comes from dom.OuterHTML/dom.InnerHTML serialises a tree that, as the very same SSA value, was handed to StripAttributes on every path and is not extended afterwards - or is the result of a helper that strips everything it returns, or a field only ever written with such results, or a wrapper created by the distiller whose children are all stripped and whose own attributes are the placeholder markers class/data-type/data-id. Strings not produced by the DOM serializer may only be tag placeholders built from the tag name. S2: the attribute allow-list contains no event handler (on*), StripAttributes drops id/class/style explicitly and visits the root and all descendants. S3: every wholesale copy of source nodes goes through GetOutputNodes, whose visitor drops script/style (by tag) and invisible descendants; the converter's switch drops script/style. S4 (serialise/parse round trip): the element names whose text x/net/html writes unescaped are read from render.go of the version the module builds with; before the converter walks its clone, a pass over that clone must visit the elements of every such name and take each one that has an svg/math ancestor out of the tree (inside foreign content they are ordinary elements whose text is page-controlled markup once Apply parses the output again; every clone has lost the namespace). S1 also: a tree that counts as processed because a processing helper returned it gets no attribute set and nothing attached afterwards in the same function. S5: no parser of the module runs with scripting disabled (html.ParseOptionEnableScripting only with the constant true): the content of a copied <noscript> stays one text node when the output is read back."
	r.NotCovered = "the HTML serializer of x/net/html (escaping), attribute VALUES (e.g. javascript: URLs in href are left as they are, see C06), correctness of the allow-list against browsers."

	strippers := nodeProcessors(p, stripKey)
	var names []string
	for f := range strippers {
		names = append(names, core.ShortKey(f))
	}
	sort.Strings(names)
	r.Stats["functions_returning_stripped_trees"] = names

	// ---- S1
	nHTML := 0
	for _, fn := range outputFuncs(p) {
		for i, o := range outputReturns(p, fn) {
			key := fmt.Sprintf("%s.GenerateOutput return #%d (%s)", o.typ, i+1, shortVal(o.value))
			switch o.serializer {
			case "dom.OuterHTML", "dom.InnerHTML":
				nHTML++
				ok, why := processedBeforeReturn(p, fn, o.ret, o.root, strippers, placeholderAttrs, stripKey)
				r.Add("S1", key, p.Pos(o.ret.Pos()), ok, why)
			case "domutil.InnerText":
				// text view: no markup at all
				r.Add("S1", key, p.Pos(o.ret.Pos()), true, "text rendering, no markup")
			default:
				ok := o.value == `""` || (o.typ == "Tag" && reTagPlaceholder.MatchString(o.value))
				r.Add("S1", key, p.Pos(o.ret.Pos()), ok, "markup that does not come from the DOM serializer must be empty or a bare tag placeholder: "+o.value)
			}
		}
	}
	r.Floor("S1", 14)
	r.Add("S1", "element kinds with an HTML rendering", "", nHTML >= 6, fmt.Sprintf("%d serialising returns in %d GenerateOutput implementations", nHTML, len(outputFuncs(p))))
	// Tag names only come from CanBeNested tags (converter emits tags under that predicate: C07)
	// Document.GenerateOutput concatenates element outputs only
	if dg := mustInl(p, r, "S1", "(*"+webdocPkg+".Document).GenerateOutput"); dg != nil {
		c := core.NewCanon(p)
		okAll := true
		var wrote []string
		for _, call := range core.Calls(dg, func(ci ssa.CallInstruction) bool { return isSinkWrite(ci) }) {
			v, _ := sinkWritten(call, c)
			wrote = append(wrote, v)
			if v != `"\n"` && !strings.HasPrefix(v, "iface.GenerateOutput(") {
				okAll = false
			}
		}
		r.Add("S1", "Document.GenerateOutput only concatenates element renderings", p.Pos(dg.Pos()), okAll && len(wrote) >= 2, strings.Join(wrote, " ; "))
	}

	// ---- S2
	if sa := mustInl(p, r, "S2", stripKey); sa != nil {
		// the per-attribute decision: one iteration of the loop that tests the attribute key
		found := false
		hs := loopHeaders(sa)
		for i := len(hs) - 1; i >= 0 && !found; i-- { // innermost first: the loop over the attributes of one element
			h := hs[i]
			paths, atoms, _ := core.EnumerateDecisions(p, sa, core.DecisionOpts{IterateAt: h, Outcome: noOutcome,
				Event: func(in ssa.Instruction, c *core.Canon) (string, bool) {
					if call, ok := in.(*ssa.Call); ok {
						if b, ok := call.Call.Value.(*ssa.Builtin); ok && b.Name() == "append" {
							return "keep " + c.Of(call.Call.Args[1]), true
						}
					}
					return "", false
				}})
			// the attribute name tested in this loop: what is compared with "id" or looked up in a
			// fixed table that contains "id" (strip lists may be chains of tests or tables)
			subject := ""
			reKeyIn := regexp.MustCompile(`^in\(((?:set|map)‹.*›),(.*\.Key)\)$`)
			for a := range atoms {
				if strings.HasSuffix(a, `.Key == "id"`) {
					subject = strings.TrimSuffix(a, ` == "id"`)
				}
				if m := reKeyIn.FindStringSubmatch(a); m != nil {
					for _, k := range tableKeys(m[1]) {
						if k == "id" {
							subject = m[2]
						}
					}
				}
			}
			if subject == "" {
				continue
			}
			found = true
			// the allow-list: the fixed table whose positive answer every kept attribute has
			// passed (private tables are rendered by content, so it may be renamed or moved)
			allowTables := map[string]int{}
			nKeepPaths := 0
			for _, pa := range paths {
				if len(pathEvents(pa)) == 0 {
					continue
				}
				nKeepPaths++
				for _, l := range pa.Lits {
					if m := reKeyIn.FindStringSubmatch(l.Atom); m != nil && m[2] == subject && l.Val {
						allowTables[m[1]]++
					}
				}
			}
			var allow []string
			for t, n := range allowTables {
				if n == nKeepPaths {
					allow = append(allow, t)
				}
			}
			if len(allow) != 1 {
				r.Undecided("S2", "StripAttributes: the allow-list", fmt.Sprintf("expected one fixed table that every kept attribute was found in, found %d", len(allow)))
			} else {
				keys := tableKeys(allow[0])
				var bad []string
				for _, k := range keys {
					if strings.HasPrefix(strings.ToLower(k), "on") {
						bad = append(bad, k)
					}
				}
				r.Add("S2", "allow-list contains no event handler attribute", "", len(keys) > 150 && len(bad) == 0, fmt.Sprintf("%d allowed attributes; on*: %v", len(keys), bad))
				r.Stats["allowed_attributes"] = len(keys)
			}
			// an attribute is kept only after the allow-list said yes
			nKeep, badKeep := 0, 0
			var witKeep []string
			for _, pa := range paths {
				if len(pathEvents(pa)) == 0 {
					continue
				}
				nKeep++
				allowed := false
				for _, l := range pa.Lits {
					if strings.HasPrefix(l.Atom, "in(set‹") && strings.HasSuffix(l.Atom, ","+subject+")") && l.Val {
						allowed = true
					}
				}
				if !allowed {
					badKeep++
					if len(witKeep) < 2 {
						witKeep = append(witKeep, pa.String())
					}
				}
			}
			r.Add("S2", "StripAttributes keeps an attribute only if the allow-list contains its name", p.Pos(sa.Pos()), nKeep > 0 && badKeep == 0,
				fmt.Sprintf("%d iteration paths keep the attribute, %d of them without a positive allow-list lookup", nKeep, badKeep), witKeep...)
			for _, k := range []string{"id", "class", "style"} {
				n, kept := 0, 0
				for _, pa := range consistentWith(paths, subject, k) {
					n++
					if len(pathEvents(pa)) > 0 {
						kept++
					}
				}
				r.Add("S2", "StripAttributes always drops "+k, p.Pos(sa.Pos()), n > 0 && kept == 0, fmt.Sprintf("%d decision paths of the attribute loop for key %q, %d of them keep the attribute", n, k, kept))
			}
		}
		if !found {
			r.Undecided("S2", "StripAttributes: attribute loop", "no loop of StripAttributes tests the attribute key against \"id\"")
		}
	}
	if sa := mustInl(p, r, "S2", stripKey); sa != nil {
		c := core.NewCanon(p)
		// the element list is GetElementsByTagName(node,"*") plus the node itself
		all, self, allowTest := false, false, false
		for _, b := range sa.Blocks {
			for _, in := range b.Instrs {
				s := ""
				if v, ok := in.(ssa.Value); ok {
					s = c.Of(v)
				}
				if strings.Contains(s, `dom.GetElementsByTagName($0,"*")`) {
					all = true
				}
				if strings.HasPrefix(s, `append(dom.GetElementsByTagName($0,"*"),{$0})`) {
					self = true
				}
				if lk, ok := in.(*ssa.Lookup); ok && strings.HasPrefix(c.Of(lk.X), "set‹") && strings.HasSuffix(c.Of(lk.Index), ".Key") {
					allowTest = true
				}
			}
		}
		r.Add("S2", "StripAttributes visits all descendants", p.Pos(sa.Pos()), all, `dom.GetElementsByTagName(node,"*")`)
		r.Add("S2", "StripAttributes visits the root itself", p.Pos(sa.Pos()), self, "the root is appended to the element list")
		r.Add("S2", "StripAttributes consults the allow-list", p.Pos(sa.Pos()), allowTest, "")
		// the new attribute list replaces the old one for every element
		nStore := 0
		for _, b := range sa.Blocks {
			for _, in := range b.Instrs {
				if st, ok := in.(*ssa.Store); ok && strings.HasSuffix(c.Of(st.Addr), ".Attr") {
					nStore++
				}
			}
		}
		r.Add("S2", "StripAttributes replaces the attribute list", p.Pos(sa.Pos()), nStore == 1, fmt.Sprintf("%d stores to Attr", nStore))
		// ... for every element: no iteration of the loop over the elements ends without the store
		loops, _ := core.NaturalLoops(sa)
		var elemLoop *core.Loop
		for _, l := range loops {
			for b := range l.Body {
				for _, in := range b.Instrs {
					if st, ok := in.(*ssa.Store); ok && strings.HasSuffix(c.Of(st.Addr), ".Attr") {
						if elemLoop == nil || len(l.Body) < len(elemLoop.Body) {
							elemLoop = l
						}
					}
				}
			}
		}
		if elemLoop == nil {
			r.Undecided("S2", "StripAttributes: loop over the elements", "no loop stores an attribute list")
		} else {
			paths, _, err := core.EnumerateDecisions(p, sa, core.DecisionOpts{IterateAt: elemLoop.Header, ExitOutcome: "exit", Outcome: noOutcome,
				Event: func(in ssa.Instruction, c *core.Canon) (string, bool) {
					if st, ok := in.(*ssa.Store); ok && strings.HasSuffix(c.Of(st.Addr), ".Attr") {
						return "replace", true
					}
					return "", false
				}})
			if err != nil {
				r.Undecided("S2", "StripAttributes: loop over the elements", err.Error())
			}
			n, bad := 0, 0
			var wit []string
			for _, pa := range paths {
				if !strings.Contains(pa.Outcome, "next(") {
					continue
				}
				n++
				if len(pathEvents(pa)) != 1 {
					bad++
					if len(wit) < 2 {
						wit = append(wit, pa.String())
					}
				}
			}
			r.Add("S2", "every element visited by StripAttributes gets its attribute list replaced", p.Pos(sa.Pos()), n > 0 && bad == 0,
				fmt.Sprintf("%d iteration paths of the element loop, %d end without replacing the list (an element kind exempted from filtering)", n, bad), wit...)
		}
	}

	// ---- S3
	checkOutputNodesGate(p, r, "S3")
	if tbl := converterSwitch(p, r, "S3"); tbl != nil {
		for _, tag := range []string{"script", "style"} {
			cl := tbl.For(tag)
			r.Add("S3", "converter drops <"+tag+">", tbl.Pos, cl.Paths > 0 && cl.AlwaysReturnsFalse && !cl.Calls["StartNode"], "")
		}
	}
	checkWholesaleCopies(p, r, "S3")
	checkPicturePruning(p, r, "S3")

	// ---- S4
	checkLiteralTextRoundTrip(p, r, "S4")
	// ---- S5: the distilled HTML is read back (Result.Node) by a parser with scripting enabled,
	// the default of x/net/html: only then the content of a <noscript> that was copied with a
	// table, caption or embed stays the one text node it was when the attributes were stripped.
	// With scripting disabled it is parsed into elements nothing has looked at.
	{
		optFn := p.Func("golang.org/x/net/html.ParseOptionEnableScripting")
		var bad []string
		n := 0
		for _, f := range p.ModFunctions(false) {
			for _, call := range core.Calls(f, func(ci ssa.CallInstruction) bool {
				return core.IsCallTo(ci, "golang.org/x/net/html.ParseOptionEnableScripting")
			}) {
				n++
				if on, isC := core.ConstBool(call.Common().Args[0]); !isC || !on {
					bad = append(bad, p.Pos(call.Pos())+" in "+core.ShortKey(f))
				}
			}
		}
		r.Add("S5", "no parser of the module runs with scripting disabled (noscript content stays text when the output is read back)", "", optFn != nil && len(bad) == 0, fmt.Sprintf("option resolved: %v; %d uses of ParseOptionEnableScripting; not the constant true: %v", optFn != nil, n, bad))
	}
}

func shortVal(s string) string {
	if len(s) > 60 {
		return s[:57] + "..."
	}
	return s
}

// keyVal shortens a canonical form for use in an obligation key without cutting at a character
// position: the argument lists of calls of real functions (dotted names) that are long are
// replaced by "…", so that how an argument is spelled (a record kept by value or by pointer, a
// pattern text) does not change the key of the site; what is indexed or dereferenced stays.
func keyVal(s string) string {
	var out strings.Builder
	i := 0
	for i < len(s) {
		j := strings.IndexByte(s[i:], '(')
		if j < 0 {
			out.WriteString(s[i:])
			break
		}
		j += i
		// the name before the parenthesis
		k := j
		for k > i && (s[k-1] == '.' || s[k-1] == '_' || s[k-1] >= '0' && s[k-1] <= '9' || s[k-1] >= 'a' && s[k-1] <= 'z' || s[k-1] >= 'A' && s[k-1] <= 'Z') {
			k--
		}
		name := s[k:j]
		// matching parenthesis
		depth, e := 0, -1
		for m := j; m < len(s); m++ {
			if s[m] == '(' {
				depth++
			} else if s[m] == ')' {
				depth--
				if depth == 0 {
					e = m
					break
				}
			}
		}
		if e < 0 {
			out.WriteString(s[i:])
			break
		}
		out.WriteString(s[i : j+1])
		inner := s[j+1 : e]
		if strings.Contains(name, ".") && len(inner) > 24 && !strings.Contains(inner, "rx‹") && !strings.Contains(inner, "set‹") && !strings.Contains(inner, "map‹") { // tables and patterns named by content stay: they are what the site depends on
			out.WriteString("…")
		} else {
			out.WriteString(keyVal(inner))
		}
		out.WriteString(")")
		i = e + 1
	}
	return out.String()
}

// checkOutputNodesGate: the visitor of GetOutputNodes admits an element only if it is the walk
// root or (not script/style and probably visible).
func checkOutputNodesGate(p *core.Program, r *core.Report, rule string) {
	// the visitor is whatever GetOutputNodes hands to WalkNodes as its visit callback (a closure,
	// a method value of a collector, a named function)
	gon := mustInl(p, r, rule, domutilPkg+".GetOutputNodes")
	if gon == nil {
		return
	}
	var fn *ssa.Function
	for _, call := range core.Calls(gon, func(ci ssa.CallInstruction) bool { return core.IsCallTo(ci, domutilPkg+".WalkNodes") }) {
		if t := funcValueTarget(call.Common().Args[1]); t != nil && len(t.Blocks) > 0 {
			fn = p.Inlined(t)
		}
	}
	if fn == nil {
		r.Undecided(rule, "GetOutputNodes visitor", "the visit callback handed to WalkNodes cannot be resolved to a function")
		return
	}
	N := fmt.Sprintf("$%d", paramIndexOfType(fn, "*html.Node"))
	opts := core.DecisionOpts{Outcome: func(in ssa.Instruction, c *core.Canon) (string, bool) {
		if ret, ok := in.(*ssa.Return); ok {
			return "return " + c.Of(ret.Results[0]), true
		}
		return "", false
	}, Event: func(in ssa.Instruction, c *core.Canon) (string, bool) {
		if call, ok := in.(*ssa.Call); ok {
			if b, ok := call.Call.Value.(*ssa.Builtin); ok && b.Name() == "append" {
				return "collect " + c.Of(call.Call.Args[1]), true
			}
		}
		return "", false
	}}
	paths, atoms, err := core.EnumerateDecisions(p, fn, opts)
	if err != nil {
		r.Undecided(rule, "GetOutputNodes visitor", err.Error())
		return
	}
	// the walk root: a captured variable of the closure or a node field of the collector
	rootRef := `(\*?\^\d+|\$0\.‹\*html\.Node›)`
	nq := regexp.QuoteMeta(N)
	spec := core.DecisionSpec{
		Atoms: map[string]string{
			"text":    q(N + `.Type == html.TextNode`),
			"element": q(N + `.Type == html.ElementNode`),
			"root":    `^(` + nq + ` == ` + rootRef + `|` + rootRef + ` == ` + nq + `)$`,
			"script":  q(`dom.TagName(` + N + `) == "script"`),
			"style":   q(`dom.TagName(` + N + `) == "style"`),
			"visible": q(`domutil.IsProbablyVisible(` + N + `)`),
		},
		Rules: []core.SpecRule{
			{Name: "text node: collected", Guard: core.A("text"), Outcome: "collect {" + N + "} => return false"},
			{Name: "not an element (comment, doctype): dropped", Guard: core.Not(core.A("element")), Outcome: "return false"},
			{Name: "the root chosen by the caller: collected", Guard: core.A("root"), Outcome: "collect {" + N + "} => return true"},
			{Name: "script: dropped with its subtree", Guard: core.A("script"), Outcome: "return false"},
			{Name: "style: dropped with its subtree", Guard: core.A("style"), Outcome: "return false"},
			{Name: "visible descendant: collected and walked", Guard: core.A("visible"), Outcome: "collect {" + N + "} => return true"},
			{Name: "hidden descendant: dropped with its subtree", Guard: core.True(), Outcome: "return false"},
		},
	}
	core.CheckDecisionList(r, rule, "GetOutputNodes(visitor)", paths, atoms, spec)
}

// checkWholesaleCopies: deep copies / moves of source nodes inside output code must be in the
// reviewed table (they bypass the per-node gate).
func checkWholesaleCopies(p *core.Program, r *core.Report, rule string) {
	// reviewed by the expression that is copied (the function it sits in may be renamed or split)
	reviewed := map[string]string{
		"webdoc.Image: $0.Element":        "deep clone of an img/picture element; the extractor removed everything but img/source from pictures (processPicture), an img has no children",
		"webdoc.Figure: $0.Image.Element": "the embedded Image of a Figure: same element, same reason",
	}
	c := core.NewCanon(p)
	n := 0
	done := map[string]bool{}
	// units: a copy made inside an unexported helper is judged in each exported caller
	for _, u := range units(p) {
		fn := p.Original(u)
		pp := core.FnPkgPath(fn)
		if pp != core.ExpandKey(webdocPkg) && pp != core.ExpandKey(domutilPkg) {
			continue
		}
		for _, call := range core.Calls(u, func(ci ssa.CallInstruction) bool { return core.IsCallTo(ci, "github.com/go-shiori/dom.Clone") }) {
			deep, isC := core.ConstBool(call.Common().Args[1])
			if isC && !deep {
				continue
			}
			key := "func " + fn.Name()
			if recv := fn.Signature.Recv(); recv != nil {
				if nt := core.NamedOf(recv.Type()); nt != nil {
					key = "webdoc." + nt.Obj().Name()
				}
			}
			key += ": " + c.Of(call.Common().Args[0])
			if done[key+p.Pos(call.Pos())] {
				continue
			}
			done[key+p.Pos(call.Pos())] = true
			n++
			reason, ok := reviewed[key]
			r.Add(rule, "deep copy of source nodes: "+key, p.Pos(call.Pos()), ok, "dom.Clone("+c.Of(call.Common().Args[0])+", true) in "+core.ShortKey(fn)+" bypasses the visibility/script gate; reviewed: "+reason)
		}
	}
	r.Stats["deep_copies_in_output_code"] = n
}
