package props

import (
	"fmt"
	"go/types"
	"os"
	"strings"

	"ddcheck/core"

	"golang.org/x/tools/go/ssa"
)

// stableFieldFn: a struct field is stable when every store into it, anywhere in the module,
// goes into a record allocated in the storing function (a constructor filling a fresh value).
func stableFieldFn(p *core.Program) func(*ssa.FieldAddr) bool {
	unstable := map[string]bool{}
	key := func(fa *ssa.FieldAddr) string {
		st := derefT(fa.X.Type())
		return types.TypeString(st, nil) + "." + core.FieldNameOf(fa)
	}
	for _, fn := range p.ModFunctions(false) {
		for _, in := range instrsOf(fn) {
			st, ok := in.(*ssa.Store)
			if !ok {
				continue
			}
			fa, ok := st.Addr.(*ssa.FieldAddr)
			if !ok {
				continue
			}
			if _, fresh := fa.X.(*ssa.Alloc); !fresh {
				unstable[key(fa)] = true
			}
		}
	}
	return func(fa *ssa.FieldAddr) bool { return !unstable[key(fa)] }
}

// checkLinearBounds (C01-T13): in internal/pagination/pattern the offsets that index a URL are
// kept in struct fields and compared through sums and differences of lengths, which the
// comparison-shaped rules T2/T11 do not follow. Here every index and slice expression with a
// non-constant bound gets three questions - is the bound at most the length, is low at most
// high, is the bound at least 0 - and each is decided by linear arithmetic from the
// comparisons that hold on every path to it (core/linear.go).
func checkLinearBounds(p *core.Program, r *core.Report, rule string, fns []*ssa.Function, unitName func(*ssa.Function) string) {
	stable := stableFieldFn(p)
	dump := os.Getenv("DDCHECK_T13_DUMP") != ""
	n, nAll, nUnclaimed := 0, 0, 0
	for _, fn := range fns {
		if !strings.Contains(core.FnPkgPath(fn), "/pagination/pattern") {
			continue
		}
		lp := core.NewLinProver(p, fn, stable)
		seen := map[string]int{}
		// ask: decide one question. must: claimed whatever the function compares (a string that
		// comes from outside has no invariant tying it to the offsets of the pattern); otherwise
		// it is claimed only when the function itself compares the two sides (then that
		// comparison has to be sufficient - a guard that does not guard is a contradiction in
		// the code), and left to the constructor's invariants when it compares nothing.
		ask := func(in ssa.Instruction, b *ssa.BasicBlock, what, goal string, goalNeg []core.Lin, x, y core.Lin, must bool) {
			proved, guarded := lp.Decide(b, goalNeg, x, y)
			nAll++
			if dump {
				fmt.Fprintf(os.Stderr, "T13 proved=%v guarded=%v must=%v %s: %s %s @%s\n", proved, guarded, must, unitName(fn), what, goal, p.Pos(in.Pos()))
			}
			if !must && !guarded {
				nUnclaimed++
				return
			}
			n++
			key := fmt.Sprintf("%s: %s %s", unitName(fn), what, goal)
			seen[key]++
			if seen[key] > 1 {
				key = fmt.Sprintf("%s #%d", key, seen[key])
			}
			r.Add(rule, key, p.Pos(in.Pos()), proved, "the comparisons that hold on every path to this expression do not imply the bound by linear arithmetic (index out of range / slice bounds out of range would panic inside Apply)")
		}
		isParam := func(v ssa.Value) bool {
			_, ok := v.(*ssa.Parameter)
			return ok
		}
		// mandatory: a string parameter indexed by something that is not just other parameters
		// of the same call (offsets handed in together with the string are the caller's contract)
		mustFor := func(xv ssa.Value, terms ...core.Lin) bool {
			if !isParam(xv) {
				return false
			}
			for _, t := range terms {
				for a := range t.Coef {
					if !strings.HasPrefix(a, "$") || strings.ContainsAny(a, ".([") {
						return true
					}
				}
			}
			return false
		}
		index := func(in ssa.Instruction, b *ssa.BasicBlock, xv, iv ssa.Value) {
			if _, isC := core.ConstInt(iv); isC {
				return
			}
			what := fmt.Sprintf("%s[%s]", shortVal(lp.C.Of(xv)), shortVal(lp.C.Of(iv)))
			i, l := lp.Of(iv), lp.LenOf(xv)
			ask(in, b, what, "index below length", core.NegLE(i.Add(core.LinConst(1), 1), l), i, l, mustFor(xv, i))
			ask(in, b, what, "index not negative", core.NegLE(core.LinConst(0), i), i, core.Lin{}, false)
		}
		for _, b := range fn.Blocks {
			for _, in := range b.Instrs {
				switch x := in.(type) {
				case *ssa.Index:
					if bt, ok := x.X.Type().Underlying().(*types.Basic); ok && bt.Info()&types.IsString != 0 {
						index(in, b, x.X, x.Index)
					}
				case *ssa.IndexAddr:
					if isSliceType(x.X.Type()) {
						index(in, b, x.X, x.Index)
					}
				case *ssa.Slice:
					if x.Low == nil && x.High == nil {
						continue
					}
					lowC, highC := true, true
					if x.Low != nil {
						_, lowC = core.ConstInt(x.Low)
					}
					if x.High != nil {
						_, highC = core.ConstInt(x.High)
					}
					if lowC && highC {
						continue
					}
					los, his := "", ""
					lo, hi, l := core.LinConst(0), lp.LenOf(x.X), lp.LenOf(x.X)
					if x.Low != nil {
						lo, los = lp.Of(x.Low), shortVal(lp.C.Of(x.Low))
					}
					if x.High != nil {
						hi, his = lp.Of(x.High), shortVal(lp.C.Of(x.High))
					}
					what := fmt.Sprintf("%s[%s:%s]", shortVal(lp.C.Of(x.X)), los, his)
					var terms []core.Lin
					if x.Low != nil {
						terms = append(terms, lo)
					}
					if x.High != nil {
						terms = append(terms, hi)
					}
					must := mustFor(x.X, terms...)
					if x.High != nil {
						ask(in, b, what, "high at most length", core.NegLE(hi, l), hi, l, must)
					}
					switch {
					case x.Low != nil && !lowC:
						ask(in, b, what, "low at most high", core.NegLE(lo, hi), lo, hi, must)
						ask(in, b, what, "low not negative", core.NegLE(core.LinConst(0), lo), lo, core.Lin{}, false)
					case x.Low != nil: // constant low (k >= 0 by the compiler): k <= high
						ask(in, b, what, "low at most high", core.NegLE(lo, hi), hi, core.Lin{}, false)
					default: // no low: 0 <= high, a question about high alone
						ask(in, b, what, "high not negative", core.NegLE(lo, hi), hi, core.Lin{}, false)
					}
				}
			}
		}
	}
	r.Add(rule, "relational bounds in pagination/pattern examined", "", n >= 1, fmt.Sprintf("%d questions decided, %d more left to the constructors' invariants (the function compares nothing there) of %d", n, nUnclaimed, nAll))
	r.Stats["linear_bound_questions"] = n
	r.Stats["linear_bound_questions_unclaimed"] = nUnclaimed
}

func isSliceType(t types.Type) bool { _, ok := t.Underlying().(*types.Slice); return ok }

// sliceBoundsProven: 0 <= low <= high <= len(x) of one slice expression follow, by linear
// arithmetic, from the comparisons that dominate it.
func sliceBoundsProven(p *core.Program, fn *ssa.Function, sl *ssa.Slice, b *ssa.BasicBlock) bool {
	lp := core.NewLinProver(p, fn, stableFieldFn(p))
	lo, hi, l := core.LinConst(0), lp.LenOf(sl.X), lp.LenOf(sl.X)
	if sl.Low != nil {
		lo = lp.Of(sl.Low)
	}
	if sl.High != nil {
		hi = lp.Of(sl.High)
	}
	for _, goal := range [][]core.Lin{core.NegLE(core.LinConst(0), lo), core.NegLE(lo, hi), core.NegLE(hi, l)} {
		if proved, _ := lp.Decide(b, goal, core.Lin{}, core.Lin{}); !proved {
			return false
		}
	}
	return true
}
