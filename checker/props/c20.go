package props

import (
	"fmt"
	"regexp"
	"sort"
	"strconv"
	"strings"

	"ddcheck/core"

	"golang.org/x/tools/go/ssa"
)

func init() { Registry["C20"] = C20 }

const (
	extractorPkg = "mod/internal/extractor"
	converterPkg = "mod/internal/converter"
)

// C20: unlikely-content pruning applies only if enough content remains, else fallback.
func C20(p *core.Program, r *core.Report) {
	r.Explanation = "F8: pruned means deleted - when SkipUnlikelies is set, and only then, Convert removes from its clone, before the walk, every element the unlikely predicate holds for (one iteration of that pass conforms to the documented decision list: no parent -> left; role in the table -> removed; pattern, not ok-maybe, not below a table, not body, not a -> removed; else left), so that whole-subtree tests of ancestors decide without the pruned subtrees. F7: no call of the document builder in the element visitor is reachable only with SkipUnlikelies set, so a pruned element leaves no trace (no block break) and the page reads as if the subtree was deleted. F6: in the element visitor every call of the document builder for an element node is reachable only through the test of the SkipUnlikelies flag (must-pass-through), so no element is emitted ahead of the unlikely tests. F1: decision-list conformance of ContentExtractor.ExtractContent: the first pass converts with SkipUnlikelies; iff its word count is <= 499 the document AND the word count both come from a second pass with Default, otherwise both come from the first pass (phis resolved per path). F2: each pass builds a new WebDocumentBuilder and DomConverter and Convert walks a deep clone of the untouched document element. F3: in the converter's element visitor every `return false` that depends on the SkipUnlikelies flag is guarded either by the role table or by the complete class/id test (unlikely pattern, not the ok-maybe pattern, not below a table, not body, not a); the patterns and the role table are read nowhere else in the module. F5 also covers ARIA roles: a role of the unlikely-role table is compared nowhere else in the content packages. F9: the compiled word-matcher patterns of the counters count the same on tokens without CJK/Hangul characters, so choosing the counter from the whole document (pruned subtrees included) cannot change the 500-word decision. F10: the word counter that feeds the 500-word comparison is chosen by SelectWordCounter from the whole text: every script test in it is on its parameter itself (no prefix, sample or transformed copy), and the extractor hands it a text rendering of the very node that becomes its documentElement."
	r.NotCovered = "the metamorphic equalities themselves (result equals that of the page with the subtrees deleted / markers renamed); what the regular expressions match; marked elements swallowed whole by figure/table extraction."

	// ---- F1
	checkTwoPassSkeleton(p, r, "F1")

	// ---- F2
	ecFn := mustInl(p, r, "F2", "(*"+extractorPkg+".ContentExtractor).ExtractContent")
	docElemLabel := ""
	if ecFn != nil {
		ec := p.Inlined(ecFn)
		c := core.NewCanon(p)
		isCall := func(key string) func(ssa.CallInstruction) bool {
			return func(ci ssa.CallInstruction) bool { return core.IsCallTo(ci, key) }
		}
		convs := core.Calls(ec, isCall(converterPkg+".NewDomConverter"))
		builders := core.Calls(ec, isCall("mod/internal/webdoc.NewWebDocumentBuilder"))
		converts := core.Calls(ec, isCall("(*"+converterPkg+".DomConverter).Convert"))
		r.Add("F2", "ExtractContent has two conversion passes, each with its own converter", p.Pos(ecFn.Pos()), len(convs) == 2, fmt.Sprintf("%d NewDomConverter calls", len(convs)))
		r.Add("F2", "each pass creates its own document builder", p.Pos(ecFn.Pos()), len(builders) == len(convs), fmt.Sprintf("%d NewWebDocumentBuilder calls for %d converters", len(builders), len(convs)))
		usedBuilder := map[ssa.Value]bool{}
		for _, nc := range convs {
			args := nc.Common().Args
			flag := c.Of(args[0])
			b := core.StripConv(args[1])
			_, fresh := b.(*ssa.Call)
			ok := fresh && core.IsCallTo(b.(ssa.Instruction), "mod/internal/webdoc.NewWebDocumentBuilder") && !usedBuilder[b]
			usedBuilder[b] = true
			r.Add("F2", "converter("+flag+") feeds a builder of its own", p.Pos(nc.Pos()), ok, "builder argument: "+c.Of(args[1]))
			n := 0
			for _, cv := range converts {
				if core.StripConv(cv.Common().Args[0]) == nc.(ssa.Value) {
					n++
					arg := c.Of(cv.Common().Args[1])
					okArg := strings.HasPrefix(arg, "$0.‹") && strings.HasSuffix(arg, "html.Node›")
					if okArg {
						docElemLabel = strings.TrimPrefix(arg, "$0.")
					}
					r.Add("F2", "converter("+flag+") converts the extractor's document element", p.Pos(cv.Pos()), okArg, "argument: "+arg)
				}
			}
			r.Add("F2", "converter("+flag+") runs once", p.Pos(nc.Pos()), n == 1, fmt.Sprintf("%d Convert calls on it", n))
		}
	}
	conv := mustInl(p, r, "F2", "(*"+converterPkg+".DomConverter).Convert")
	if conv != nil {
		conv = p.Inlined(conv)
		c := core.NewCanon(p)
		walks := core.Calls(conv, func(ci ssa.CallInstruction) bool { return core.IsCallTo(ci, "mod/internal/domutil.WalkNodes") })
		if len(walks) != 1 {
			r.Add("F2", "Convert walks once", p.Pos(conv.Pos()), false, fmt.Sprintf("%d WalkNodes calls", len(walks)))
		} else {
			root := c.Of(walks[0].Common().Args[0])
			r.Add("F2", "Convert walks a deep clone of its argument", p.Pos(walks[0].Pos()), root == "dom.Clone($1,true)", "walk root: "+root)
		}
	}
	// nothing but the constructor stores into the extractor's document element
	if docElemLabel != "" {
		ctor := mustInl(p, r, "F2", extractorPkg+".NewContentExtractor")
		for _, fn := range p.ModFunctions(false) {
			for _, in := range instrsOf(fn) {
				st, ok := in.(*ssa.Store)
				if !ok {
					continue
				}
				fa, ok := st.Addr.(*ssa.FieldAddr)
				if !ok {
					continue
				}
				n := core.NamedOf(fa.X.Type())
				if n == nil || n.Obj().Name() != "ContentExtractor" || !strings.HasSuffix(core.NewCanon(p).Of(fa), "."+docElemLabel) {
					continue
				}
				ok = ctor != nil && inRegion(p, ctor, fn)
				r.Add("F2", "the document element is set only by the constructor: "+core.ShortKey(fn), p.Pos(st.Pos()), ok, "")
			}
		}
	}
	r.Floor("F2", 9)

	// ---- F3
	ve, _ := walkHandlers(p, r, "F3")
	if ve != nil {
		reFlag := regexp.MustCompile(`^\(\$0\.‹converter\.ConverterFlag› & converter\.SkipUnlikelies\) == converter\.Default$`)
		// flag set <=> atom false. Cut the "flag set" edges.
		cutFlagSet, m := core.CutAtoms(p, ve, reFlag, false)
		r.Add("F3", "visitor tests the SkipUnlikelies flag", p.Pos(ve.Pos()), len(m) >= 1, fmt.Sprintf("%d branches", len(m)))
		nd := `((dom.ClassName($1) + " ") + dom.ID($1))`
		atomsWant := []struct {
			name, re string
			val      bool // value the atom must have for the return to be taken
		}{
			{"matches the unlikely pattern", q(`regexp.Regexp.MatchString(` + rxUnlikely + `,` + nd + `)`), true},
			{"does not match the ok-maybe pattern", q(`regexp.Regexp.MatchString(` + rxOkMaybe + `,` + nd + `)`), false},
			{"is not below a table", q(`domutil.HasAncestor($1,{"table"})`), false},
			{"is not body", q(`dom.TagName($1) == "body"`), false},
			{"is not an anchor", q(`dom.TagName($1) == "a"`), false},
		}
		// the role test: a lookup in the table, or the same finite set spelled as a switch /
		// chain of comparisons of the role attribute
		roleAttr := `dom.GetAttribute($1,"role")`
		roleAlts := []string{regexp.QuoteMeta(`in(` + unlikelyRoleSet + `,` + roleAttr + `)`)}
		for _, k := range tableKeys(unlikelyRoleSet) {
			roleAlts = append(roleAlts, regexp.QuoteMeta(roleAttr+` == `+strconv.Quote(k)), regexp.QuoteMeta(strconv.Quote(k)+` == `+roleAttr))
		}
		reRole := regexp.MustCompile(`^(` + strings.Join(roleAlts, "|") + `)$`)
		cutRole, mr := core.CutAtoms(p, ve, reRole, true)
		roleAsSwitch := false
		roleOK := len(mr) == 1 && strings.HasPrefix(mr[0], "in(")
		if !roleOK {
			got := map[string]bool{}
			for _, a := range mr {
				if strings.HasPrefix(a, "in(") {
					got["in"] = true
				}
				if k, err := strconv.Unquote(strings.TrimSuffix(strings.TrimPrefix(a, roleAttr+" == "), " == "+roleAttr)); err == nil {
					got[k] = true
				}
			}
			roleAsSwitch = sameSet(keys(got), tableKeys(unlikelyRoleSet))
			roleOK = roleAsSwitch
		}
		r.Add("F3", "visitor consults the unlikely-role table", p.Pos(ve.Pos()), roleOK, fmt.Sprintf("%d branches: %v", len(mr), mr))
		nFlagReturns := 0
		for _, ret := range core.Returns(ve) {
			if core.InstrReachable(ve, nil, ret) && !core.InstrReachable(ve, cutFlagSet, ret) {
				nFlagReturns++
				bv, isC := core.ConstBool(ret.Results[0])
				if !isC || bv {
					r.Add("F3", "flag-dependent return is a skip", p.Pos(ret.Pos()), false, "a return that depends on SkipUnlikelies must be `return false`")
					continue
				}
				if !core.InstrReachable(ve, cutRole, ret) {
					r.Add("F3", "skip by ARIA role", p.Pos(ret.Pos()), true, "guarded by the role table lookup")
					continue
				}
				for _, a := range atomsWant {
					cut, mm := core.CutAtoms(p, ve, regexp.MustCompile(a.re), a.val)
					r.Add("F3", "skip by class/id: "+a.name, p.Pos(ret.Pos()), len(mm) >= 1 && !core.InstrReachable(ve, cut, ret),
						fmt.Sprintf("with the edge '%s' removed the skip must be unreachable (%d matching conditions)", a.name, len(mm)))
				}
			}
		}
		r.Add("F3", "two flag-dependent skips (class/id and role)", p.Pos(ve.Pos()), nFlagReturns == 2, fmt.Sprintf("%d returns depend on the flag", nFlagReturns))
		// F6: nothing of an element reaches the builder before the flag has been looked at: an
		// element emitted (as an embed, a tag, a started node) ahead of the unlikely tests survives
		// the first pass whatever its class, id or role says
		{
			flagIf := map[ssa.Instruction]bool{}
			cn := core.NewCanon(p)
			for _, b := range ve.Blocks {
				if len(b.Instrs) == 0 {
					continue
				}
				if ifi, ok := b.Instrs[len(b.Instrs)-1].(*ssa.If); ok {
					if atom, _ := cn.CondAtom(ifi.Cond); reFlag.MatchString(atom) {
						flagIf[ifi] = true
					}
				}
			}
			// element nodes only: text nodes are handed over on the other side of the node-type test
			cutText, _ := core.CutAtoms(p, ve, regexp.MustCompile(q(`$1.Type == html.TextNode`)), true)
			n, bad := 0, 0
			var wit, traces []string
			for _, in := range instrsOf(ve) {
				call, ok := in.(*ssa.Call)
				if !ok || !call.Call.IsInvoke() {
					continue
				}
				if nm := core.NamedOf(call.Call.Value.Type()); nm == nil || nm.Obj().Name() != "DocumentBuilder" {
					continue
				}
				if !core.InstrReachable(ve, cutText, in) {
					continue
				}
				n++
				if !core.InstrReachable(ve, cutFlagSet, in) {
					traces = append(traces, fmt.Sprintf("%s at %s", call.Call.Method.Name(), p.Pos(in.Pos())))
				}
				if ok2, _ := core.MustPassThrough(ve, in, func(x ssa.Instruction) bool { return flagIf[x] }, cutText); !ok2 {
					bad++
					if len(wit) < 3 {
						wit = append(wit, fmt.Sprintf("%s at %s", call.Call.Method.Name(), p.Pos(in.Pos())))
					}
				}
			}
			r.Add("F6", "an element reaches the builder only after the SkipUnlikelies flag was tested", p.Pos(ve.Pos()), n >= 5 && bad == 0 && len(flagIf) >= 1,
				fmt.Sprintf("%d builder calls for element nodes, %d reachable without passing the flag test", n, bad), wit...)
			// F7: "identical to the page with those subtrees deleted": a pruned element tells the
			// builder nothing (no block break, no skipped node) - every builder call of the visitor
			// is also reachable with the flag clear, none sits on the pruning side only
			r.Add("F7", "a pruned element leaves no trace in the document builder", p.Pos(ve.Pos()), n >= 5 && len(traces) == 0,
				fmt.Sprintf("%d builder calls for element nodes, %d only reachable when SkipUnlikelies is set", n, len(traces)), traces...)
		}
		// readers of the patterns / role table
		var convInl *ssa.Function
		if cf := p.Func("(*" + core.ExpandKey(converterPkg) + ".DomConverter).Convert"); cf != nil {
			convInl = p.Inlined(cf)
		}
		for _, g := range []struct{ name, content string }{{"the unlikely-candidates pattern", rxUnlikely}, {"the ok-maybe pattern", rxOkMaybe}, {"the unlikely-roles table", unlikelyRoleSet}} {
			users := globalReaderFuncs(p, core.ExpandKey(converterPkg), g.content)
			ok := len(users) >= 1 || (g.content == unlikelyRoleSet && roleAsSwitch) // no table: the set is spelled out in the visitor
			var names []string
			for _, u := range users {
				names = append(names, core.ShortKey(u))
				// the visitor and the pruning pass of Convert (F8) are the two places that prune
				if !inRegion(p, ve, u) && !(convInl != nil && inRegion(p, convInl, u)) {
					ok = false
				}
			}
			r.Add("F3", g.name+" is read only by the element visitor and the pruning pass", "", ok, fmt.Sprintf("readers: %v", names))
		}
	}
	// ---- F5: "otherwise the distiller ignores those markers altogether": a class/id value that
	// the unlikely pattern matches must not steer any other decision of content extraction.
	// Every other test of an element's class/id in the content packages (a private regexp applied
	// to it, or a comparison with a constant) is compared with the pattern: a regexp must match
	// none of the pattern's alternatives, a constant must not be matched by the pattern.
	{
		pat := strings.TrimSuffix(strings.TrimPrefix(rxUnlikely, "rx‹"), "›")
		words := strings.Split(strings.TrimPrefix(pat, "(?i)"), "|")
		unlikelyRe, errU := regexp.Compile(pat)
		if errU != nil {
			r.Undecided("F5", "the unlikely pattern", errU.Error())
		} else {
			cn := core.NewCanon(p)
			reClassID := regexp.MustCompile(`dom\.(ClassName|ID)\(|dom\.GetAttribute\([^()]*,"(class|id)"\)`)
			reRoleAttr := regexp.MustCompile(`dom\.GetAttribute\([^()]*(\([^()]*\))?[^()]*,"role"\)`)
			seenF5 := map[string]bool{}
			nTests := 0
			// units: a test inside a helper that is handed the class/id as a parameter is seen in
			// the context of its callers
			for _, fn := range units(p) {
				pp := core.FnPkgPath(p.Original(fn))
				if !(strings.Contains(pp, "/internal/converter") || strings.Contains(pp, "/internal/webdoc") || strings.Contains(pp, "/internal/filter") || strings.Contains(pp, "/internal/extractor") || strings.Contains(pp, "/internal/domutil")) {
					continue
				}
				for _, in := range instrsOf(fn) {
					switch x := in.(type) {
					case *ssa.Call:
						// (*regexp.Regexp).MatchString / FindString... on a private regexp with a class/id subject
						callee := x.Call.StaticCallee()
						if callee == nil || !strings.HasPrefix(callee.String(), "(*regexp.Regexp).") || len(x.Call.Args) < 2 {
							continue
						}
						rx := cn.Of(x.Call.Args[0])
						subj := cn.Of(x.Call.Args[1])
						if !strings.HasPrefix(rx, "rx‹") || !reClassID.MatchString(subj) || rx == rxUnlikely || rx == rxOkMaybe {
							continue
						}
						nTests++
						other, err := regexp.Compile(strings.TrimSuffix(strings.TrimPrefix(rx, "rx‹"), "›"))
						if err != nil {
							continue
						}
						var hits []string
						for _, w := range words {
							if other.MatchString(w) {
								hits = append(hits, w)
							}
						}
						key := "class/id test with " + rx + " in package " + pp[strings.LastIndex(pp, "/")+1:]
						if !seenF5[key] {
							seenF5[key] = true
							r.Add("F5", key, p.Pos(x.Pos()), len(hits) == 0, fmt.Sprintf("marker words of the unlikely pattern that this test reacts to as well: %v", hits))
						}
					case *ssa.BinOp:
						if x.Op.String() != "==" && x.Op.String() != "!=" {
							continue
						}
						for _, pair := range [][2]ssa.Value{{x.X, x.Y}, {x.Y, x.X}} {
							s, isC := core.ConstString(pair[1])
							if isC && s != "" && reRoleAttr.MatchString(cn.Of(pair[0])) {
								// the pruning test itself (spelled as a switch or a chain of comparisons instead of
								// a table lookup) is F3's and F8's business: it runs only when SkipUnlikelies is set
								if cutSetU, mU := core.CutAtoms(p, fn, regexp.MustCompile(`^\(\$0\.‹converter\.ConverterFlag› & converter\.SkipUnlikelies\) == converter\.Default$`), false); len(mU) > 0 && !core.InstrReachable(fn, cutSetU, x) {
									continue
								}
								// the same for the ARIA role: a role of the unlikely-role table steers nothing else
								nTests++
								isUnlikelyRole := false
								for _, k := range tableKeys(unlikelyRoleSet) {
									isUnlikelyRole = isUnlikelyRole || k == s
								}
								key := fmt.Sprintf("role compared with %q in package %s", s, pp[strings.LastIndex(pp, "/")+1:])
								if !seenF5[key] {
									seenF5[key] = true
									r.Add("F5", key, p.Pos(x.Pos()), !isUnlikelyRole, "a role of the unlikely-role table is also tested here")
								}
								continue
							}
							if !isC || s == "" || !reClassID.MatchString(cn.Of(pair[0])) {
								continue
							}
							nTests++
							key := fmt.Sprintf("class/id compared with %q in package %s", s, pp[strings.LastIndex(pp, "/")+1:])
							if !seenF5[key] {
								seenF5[key] = true
								r.Add("F5", key, p.Pos(x.Pos()), !unlikelyRe.MatchString(s), "a value the unlikely pattern matches is also tested here")
							}
						}
					}
				}
			}
			// informational (tests may be merged or become table lookups; the known overlaps above are keyed by content)
			r.Add("F5", "other class/id tests of the content packages examined", "", true, fmt.Sprintf("%d tests", nTests))
		}
	}
	// ---- F8
	checkPrunedIsDeleted(p, r)

	// ---- F9: the word counter is chosen from the text of the whole document, pruned subtrees
	// included. The 500-word decision then only equals that of the page with the subtrees deleted
	// if the counters agree on text that has none of their own trigger characters. The word
	// matcher patterns (constants, compiled here) are asked about tokens without CJK/Hangul
	// characters: every blank-separated matcher must count the same.
	checkCountersAgree(p, r, "F9")
	checkCounterChosenFromWholeText(p, r, "F10")

	// ---- F4: "below a table" means below a table at any depth: the ancestor test climbs until
	// there is no parent left and answers true only for a matching ancestor
	if ha := mustInl(p, r, "F4", domutilPkg+".HasAncestor"); ha != nil {
		loops, _ := core.NaturalLoops(ha)
		anc := `μ($0.Parent|@0.Parent)`
		var climb *core.Loop
		cn := core.NewCanon(p)
		for _, l := range loops {
			for _, in := range l.Header.Instrs {
				if ph, ok := in.(*ssa.Phi); ok && cn.Of(ph) == anc {
					climb = l
				}
			}
		}
		if climb == nil {
			r.Undecided("F4", "HasAncestor: the climb over the ancestors", "no loop that starts at node.Parent and advances by .Parent")
		} else {
			var desc []string
			ok := true
			nEnd, nMatch := 0, 0
			for _, ex := range loopExits(p, climb) {
				desc = append(desc, fmt.Sprintf("%s=%v", ex.atom, ex.val))
				switch {
				case ex.atom == anc+" == nil" && ex.val:
					nEnd++
				case ex.val && (strings.HasPrefix(ex.atom, "in(") && strings.HasSuffix(ex.atom, ",dom.TagName("+anc+"))") ||
					ex.atom == "dom.TagName("+anc+") == elem($1)" || ex.atom == "elem($1) == dom.TagName("+anc+")"):
					// a lookup in the set built from the names, or a scan over the names
					nMatch++
					// the match exit answers true
					for _, in := range ex.to.Instrs {
						if ret, isRet := in.(*ssa.Return); isRet {
							if bv, isC := core.ConstBool(ret.Results[0]); !isC || !bv {
								ok = false
							}
						}
					}
				default:
					ok = false
				}
			}
			sort.Strings(desc)
			r.Add("F4", "HasAncestor stops climbing only at the root or at a matching ancestor", p.Pos(ha.Pos()), ok && nEnd == 1 && nMatch == 1, "ways out of the climb: "+strings.Join(desc, "; "))
		}
	}
}

func keys(m map[string]bool) []string {
	var out []string
	for k := range m {
		out = append(out, k)
	}
	return out
}

// globalReaderFuncs lists module functions (except init) that reference a private package-level
// variable of the package with the given fixed content (see core.GlobalConst).
func globalReaderFuncs(p *core.Program, pkgPath, content string) []*ssa.Function {
	seen := map[*ssa.Function]bool{}
	var out []*ssa.Function
	for _, fn := range p.ModFunctions(true) {
		if fn.Name() == "init" {
			continue
		}
		for _, in := range instrsOf(fn) {
			for _, op := range in.Operands(nil) {
				if g, ok := (*op).(*ssa.Global); ok && g.Pkg.Pkg.Path() == pkgPath && !seen[fn] {
					if s, isC := p.GlobalConst(g); isC && s == content {
						seen[fn] = true
						out = append(out, fn)
					}
				}
			}
		}
	}
	return out
}

// checkTwoPassSkeleton: ExtractContent returns document and word count of the same pass; the
// second pass (Default) is taken iff the first (SkipUnlikelies) yields <= 499 words.
func checkTwoPassSkeleton(p *core.Program, r *core.Report, rule string) {
	ecFn := mustInl(p, r, rule, "(*"+extractorPkg+".ContentExtractor).ExtractContent")
	if ecFn == nil {
		return
	}
	ec := p.Inlined(ecFn)
	// pass of a value: the flags of the converter that fed the builder the value was built from
	builderFlags := map[ssa.Value]string{}
	plain := core.NewCanon(p)
	for _, in := range instrsOf(ec) {
		if core.IsCallTo(in, converterPkg+".NewDomConverter") {
			args := in.(ssa.CallInstruction).Common().Args
			builderFlags[core.StripConv(args[1])] = plain.Of(args[0])
		}
	}
	var passOf func(c *core.Canon, v ssa.Value, depth int) string
	passOf = func(c *core.Canon, v ssa.Value, depth int) string {
		v = c.Resolve(v)
		if f, ok := builderFlags[v]; ok {
			return f
		}
		if depth > 8 {
			return "?"
		}
		if call, ok := v.(*ssa.Call); ok {
			res := "?"
			for _, a := range call.Call.Args {
				if s := passOf(c, a, depth+1); s != "?" {
					if res != "?" && res != s {
						return "mixed"
					}
					res = s
				}
			}
			return res
		}
		return "?"
	}
	opts := core.DecisionOpts{ResolvePhis: true,
		Outcome: func(in ssa.Instruction, c *core.Canon) (string, bool) {
			if ret, ok := in.(*ssa.Return); ok && len(ret.Results) == 2 {
				return "document of pass(" + passOf(c, ret.Results[0], 0) + "), word count of pass(" + passOf(c, ret.Results[1], 0) + ")", true
			}
			return "", false
		},
		Event: func(in ssa.Instruction, c *core.Canon) (string, bool) {
			if core.IsCallTo(in, converterPkg+".NewDomConverter") {
				return "convert(" + c.Of(in.(ssa.CallInstruction).Common().Args[0]) + ")", true
			}
			if iff, ok := in.(*ssa.If); ok {
				if bo, ok := core.StripConv(iff.Cond).(*ssa.BinOp); ok {
					for _, side := range []ssa.Value{bo.X, bo.Y} {
						if ps := passOf(c, side, 0); ps != "?" {
							return "test word count of pass(" + ps + ")", true
						}
					}
				}
			}
			return "", false
		}}
	paths, atoms, err := core.EnumerateDecisions(p, ec, opts)
	if err != nil {
		r.Undecided(rule, "ExtractContent", err.Error())
	}
	first, second := "convert(converter.SkipUnlikelies); test word count of pass(converter.SkipUnlikelies)", "; convert(converter.Default)"
	spec := core.DecisionSpec{
		Atoms: map[string]string{
			"first.pass.below.500": `^webdoc\.TextDocument\.CountWordsInContent\(.*\) <= 499$`,
		},
		Rules: []core.SpecRule{
			{Name: "fewer than 500 words: second pass without pruning", Guard: core.A("first.pass.below.500"),
				Outcome: first + second + " => document of pass(converter.Default), word count of pass(converter.Default)"},
			{Name: "enough words: pruned result", Guard: core.True(),
				Outcome: first + " => document of pass(converter.SkipUnlikelies), word count of pass(converter.SkipUnlikelies)"},
		},
	}
	core.CheckDecisionList(r, rule, "ExtractContent", paths, atoms, spec)
}

// checkCounterChosenFromWholeText (C20-F10, C09-W8): the counter that feeds the 500-word
// comparison is chosen by testing the text for CJK/Hangul characters. The choice is only the
// right one for the text that is counted if the test sees all of it: every pattern test in
// SelectWordCounter is on the parameter itself (not a prefix, a sample or a transformed copy),
// and the extractor hands it a text of the document, not a part of one.
func checkCounterChosenFromWholeText(p *core.Program, r *core.Report, rule string) {
	c := core.NewCanon(p)
	fn := mustInl(p, r, rule, "mod/internal/stringutil.SelectWordCounter")
	if fn == nil {
		return
	}
	n, bad := 0, []string{}
	for _, call := range core.Calls(fn, func(ci ssa.CallInstruction) bool {
		return core.IsCallTo(ci, "(*regexp.Regexp).MatchString", "(*regexp.Regexp).FindString", "(*regexp.Regexp).FindStringIndex", "strings.ContainsFunc", "strings.IndexFunc", "strings.ContainsAny")
	}) {
		args := call.Common().Args
		subj := args[len(args)-1]
		if core.IsCallTo(call, "strings.ContainsFunc", "strings.IndexFunc", "strings.ContainsAny") {
			subj = args[0]
		}
		n++
		if s := c.Of(subj); s != "$0" {
			bad = append(bad, p.Pos(call.Pos())+": tests "+shortVal(s))
		}
	}
	r.Add(rule, "SelectWordCounter tests the whole text it is given", p.Pos(fn.Pos()), n >= 1 && len(bad) == 0, fmt.Sprintf("%d script tests; not on the parameter itself: %v", n, bad))
	// the caller: the text is a text rendering of the document element the extractor works on
	nc, badc := 0, []string{}
	for _, f := range p.ModFunctions(false) {
		if core.FnPkgPath(f) != core.ExpandKey("mod/internal/extractor") {
			continue
		}
		for _, call := range core.Calls(f, func(ci ssa.CallInstruction) bool {
			return core.IsCallTo(ci, "mod/internal/stringutil.SelectWordCounter")
		}) {
			nc++
			arg := call.Common().Args[0]
			tc, ok := arg.(*ssa.Call)
			if ok {
				ok = core.IsCallTo(tc, "github.com/go-shiori/dom.TextContent", "github.com/go-shiori/dom.InnerText", "mod/internal/domutil.InnerText")
			}
			if ok {
				// of the very node that becomes the extractor's documentElement
				ok = false
				for _, in := range instrsOf(f) {
					if st, isSt := in.(*ssa.Store); isSt {
						if fa, isFA := st.Addr.(*ssa.FieldAddr); isFA && core.FieldNameOf(fa) == "documentElement" && st.Val == tc.Call.Args[0] {
							ok = true
						}
					}
				}
			}
			if !ok {
				badc = append(badc, p.Pos(call.Pos())+": "+shortVal(c.Of(arg)))
			}
		}
	}
	r.Add(rule, "the counter is chosen from the text of the whole document element", "", nc >= 1 && len(badc) == 0, fmt.Sprintf("%d selections in the extractor; from something else: %v", nc, badc))
}

func checkCountersAgree(p *core.Program, r *core.Report, rule string) {
	c := core.NewCanon(p)
	var pats []string
	seen := map[string]bool{}
	for _, fn := range p.ModFunctions(false) {
		if fn.Name() != "Count" || core.FnPkgPath(fn) != core.ExpandKey("mod/internal/stringutil") {
			continue
		}
		for _, call := range core.Calls(p.Inlined(fn), func(ci ssa.CallInstruction) bool {
			return core.IsCallTo(ci, "(*regexp.Regexp).FindAllString", "(*regexp.Regexp).FindAllStringIndex")
		}) {
			rx := c.Of(call.Common().Args[0])
			if strings.HasPrefix(rx, "rx‹") && !seen[rx] {
				seen[rx] = true
				pats = append(pats, strings.TrimSuffix(strings.TrimPrefix(rx, "rx‹"), "›"))
			}
		}
	}
	sort.Strings(pats)
	var res []*regexp.Regexp
	for _, pat := range pats {
		if re, err := regexp.Compile(pat); err == nil && len(re.FindAllString("ab cd", -1)) == 2 {
			res = append(res, re)
		}
	}
	if len(res) < 2 {
		r.Undecided(rule, "word matchers", fmt.Sprintf("%d blank-separated word matchers found in the Count methods", len(res)))
		return
	}
	tokens := []string{"abc", "a1", "42", "x_y", "½", "¾", "×", "÷", "—", "…", "·", "€", "№", "é", "ß", "Ω", "и", "א", "ع", "क", "ก", "’", "it’s", "½cup", "3×4", "(abc)", "µm", "ʻ", "٠"}
	var bad []string
	for _, tk := range tokens {
		n0 := len(res[0].FindAllString("x "+tk+" y", -1))
		for _, re := range res[1:] {
			if n := len(re.FindAllString("x "+tk+" y", -1)); n != n0 {
				bad = append(bad, fmt.Sprintf("%q: %d vs %d", tk, n0, n))
			}
		}
	}
	r.Add(rule, "the word counters agree on text without CJK/Hangul characters", "", len(bad) == 0, fmt.Sprintf("%d matchers, %d tokens; disagreements: %s", len(res), len(tokens), strings.Join(bad, "; ")))
}
