package props

import (
	"fmt"
	"regexp"
	"strings"

	"ddcheck/core"

	"golang.org/x/tools/go/ssa"
)

func init() { Registry["C20"] = C20 }

const (
	extractorPkg = "mod/internal/extractor"
	converterPkg = "mod/internal/converter"
)

// C20: unlikely-content pruning applies only if enough content remains, else fallback.
func C20(p *core.Program, r *core.Report) {
	r.Explanation = "F1: decision-list conformance of ContentExtractor.ExtractContent: the first pass converts with SkipUnlikelies; iff its word count is <= 499 the document AND the word count both come from a second pass with Default, otherwise both come from the first pass (phis resolved per path). F2: each pass builds a new WebDocumentBuilder and DomConverter and Convert walks a deep clone of the untouched document element. F3: in the converter's element visitor every `return false` that depends on the SkipUnlikelies flag is guarded either by the role table or by the complete class/id test (unlikely pattern, not the ok-maybe pattern, not below a table, not body, not a); the patterns and the role table are read nowhere else in the module."
	r.NotCovered = "the metamorphic equalities themselves (result equals that of the page with the subtrees deleted / markers renamed); what the regular expressions match; marked elements swallowed whole by figure/table extraction."

	// ---- F1
	checkTwoPassSkeleton(p, r, "F1")

	// ---- F2
	cw := mustFunc(p, r, "F2", "(*"+extractorPkg+".ContentExtractor).createWebDocumentInfoFromPage")
	if cw != nil {
		c := core.NewCanon(p)
		nb := core.Calls(cw, func(ci ssa.CallInstruction) bool {
			return core.IsCallTo(ci, "mod/internal/webdoc.NewWebDocumentBuilder")
		})
		nc := core.Calls(cw, func(ci ssa.CallInstruction) bool { return core.IsCallTo(ci, converterPkg+".NewDomConverter") })
		cv := core.Calls(cw, func(ci ssa.CallInstruction) bool {
			return core.IsCallTo(ci, "(*"+converterPkg+".DomConverter).Convert")
		})
		r.Add("F2", "each pass creates its own document builder", p.Pos(cw.Pos()), len(nb) == 1, fmt.Sprintf("%d NewWebDocumentBuilder calls", len(nb)))
		r.Add("F2", "each pass creates its own converter", p.Pos(cw.Pos()), len(nc) == 1, fmt.Sprintf("%d NewDomConverter calls", len(nc)))
		if len(nc) == 1 && len(nb) == 1 && len(cv) == 1 {
			args := nc[0].Common().Args
			r.Add("F2", "the converter receives the pass's flags", p.Pos(nc[0].Pos()), c.Of(args[0]) == "$1", "flags argument: "+c.Of(args[0]))
			r.Add("F2", "the converter feeds the pass's own builder", p.Pos(nc[0].Pos()), core.StripConv(args[1]) == nb[0].(ssa.Value), "builder argument: "+c.Of(args[1]))
			cargs := cv[0].Common().Args
			r.Add("F2", "Convert runs on the converter of this pass", p.Pos(cv[0].Pos()), cargs[0] == nc[0].(ssa.Value), "")
			r.Add("F2", "Convert is given the extractor's document element", p.Pos(cv[0].Pos()), c.Of(cargs[1]) == "$0.documentElement", "argument: "+c.Of(cargs[1]))
			for _, ret := range core.Returns(cw) {
				r.Add("F2", "the pass returns what its own builder built", p.Pos(ret.Pos()), c.Of(ret.Results[0]) == "webdoc.WebDocumentBuilder.Build("+c.Of(nb[0].(ssa.Value))+")", "returns "+c.Of(ret.Results[0]))
			}
		} else {
			r.Add("F2", "createWebDocumentInfoFromPage shape", p.Pos(cw.Pos()), false, "expected one builder, one converter, one Convert call")
		}
	}
	conv := mustFunc(p, r, "F2", "(*"+converterPkg+".DomConverter).Convert")
	if conv != nil {
		c := core.NewCanon(p)
		walks := core.Calls(conv, func(ci ssa.CallInstruction) bool { return core.IsCallTo(ci, "mod/internal/domutil.WalkNodes") })
		if len(walks) != 1 {
			r.Add("F2", "Convert walks once", p.Pos(conv.Pos()), false, fmt.Sprintf("%d WalkNodes calls", len(walks)))
		} else {
			root := c.Of(walks[0].Common().Args[0])
			r.Add("F2", "Convert walks a deep clone of its argument", p.Pos(walks[0].Pos()), root == "dom.Clone($1,true)", "walk root: "+root)
		}
	}
	// nothing else stores into ContentExtractor.documentElement after construction
	nStores := 0
	for _, fn := range p.ModFunctions(false) {
		for _, b := range fn.Blocks {
			for _, in := range b.Instrs {
				st, ok := in.(*ssa.Store)
				if !ok {
					continue
				}
				fa, ok := st.Addr.(*ssa.FieldAddr)
				if !ok {
					continue
				}
				if core.NewCanon(p).Of(fa) == "&new(extractor.ContentExtractor).documentElement" || strings.HasSuffix(core.NewCanon(p).Of(fa), ".documentElement") {
					nStores++
					ok := strings.HasSuffix(fn.String(), "extractor.NewContentExtractor")
					r.Add("F2", "documentElement is set only by the constructor: "+core.ShortKey(fn), p.Pos(st.Pos()), ok, "")
				}
			}
		}
	}
	r.Floor("F2", 8)

	// ---- F3
	ve := mustFunc(p, r, "F3", "(*"+converterPkg+".DomConverter).visitElementNodeHandler")
	if ve != nil {
		reFlag := regexp.MustCompile(`^\(\$0\.flags & converter\.SkipUnlikelies\) == converter\.Default$`)
		// flag set <=> atom false. Cut the "flag set" edges.
		cutFlagSet, m := core.CutAtoms(p, ve, reFlag, false)
		r.Add("F3", "visitor tests the SkipUnlikelies flag", p.Pos(ve.Pos()), len(m) >= 1, fmt.Sprintf("%d branches", len(m)))
		nd := `((dom.ClassName($1) + " ") + dom.ID($1))`
		atomsWant := []struct {
			name, re string
			val      bool // value the atom must have for the return to be taken
		}{
			{"matches the unlikely pattern", q(`regexp.Regexp.MatchString(converter.rxUnlikelyCandidates,` + nd + `)`), true},
			{"does not match the ok-maybe pattern", q(`regexp.Regexp.MatchString(converter.rxOkMaybeItsACandidate,` + nd + `)`), false},
			{"is not below a table", q(`domutil.HasAncestor($1,{"table"})`), false},
			{"is not body", q(`dom.TagName($1) == "body"`), false},
			{"is not an anchor", q(`dom.TagName($1) == "a"`), false},
		}
		reRole := regexp.MustCompile(q(`in(converter.unlikelyRoles,dom.GetAttribute($1,"role"))`))
		cutRole, mr := core.CutAtoms(p, ve, reRole, true)
		r.Add("F3", "visitor consults the unlikely-role table", p.Pos(ve.Pos()), len(mr) == 1, fmt.Sprintf("%d branches", len(mr)))
		nFlagReturns := 0
		for _, ret := range core.Returns(ve) {
			if core.InstrReachable(ve, nil, ret) && !core.InstrReachable(ve, cutFlagSet, ret) {
				nFlagReturns++
				bv, isC := core.ConstBool(ret.Results[0])
				if !isC || bv {
					r.Add("F3", "flag-dependent return is a skip", p.Pos(ret.Pos()), false, "a return that depends on SkipUnlikelies must be `return false`")
					continue
				}
				if !core.InstrReachable(ve, cutRole, ret) {
					r.Add("F3", "skip by ARIA role", p.Pos(ret.Pos()), true, "guarded by the role table lookup")
					continue
				}
				for _, a := range atomsWant {
					cut, mm := core.CutAtoms(p, ve, regexp.MustCompile(a.re), a.val)
					r.Add("F3", "skip by class/id: "+a.name, p.Pos(ret.Pos()), len(mm) >= 1 && !core.InstrReachable(ve, cut, ret),
						fmt.Sprintf("with the edge '%s' removed the skip must be unreachable (%d matching conditions)", a.name, len(mm)))
				}
			}
		}
		r.Add("F3", "two flag-dependent skips (class/id and role)", p.Pos(ve.Pos()), nFlagReturns == 2, fmt.Sprintf("%d returns depend on the flag", nFlagReturns))
	}
	// readers of the patterns / role table
	for _, g := range []string{"rxUnlikelyCandidates", "rxOkMaybeItsACandidate", "unlikelyRoles"} {
		users := globalReaders(p, core.ExpandKey(converterPkg), g)
		ok := len(users) == 1 && strings.HasSuffix(users[0], "visitElementNodeHandler")
		r.Add("F3", "converter."+g+" is read only by the element visitor", "", ok, fmt.Sprintf("readers: %v", users))
	}
}

func keys(m map[string]bool) []string {
	var out []string
	for k := range m {
		out = append(out, k)
	}
	return out
}

// globalReaders lists module functions (except init) that reference the package-level variable.
func globalReaders(p *core.Program, pkgPath, name string) []string {
	seen := map[string]bool{}
	for _, fn := range p.ModFunctions(true) {
		if fn.Name() == "init" {
			continue
		}
		for _, b := range fn.Blocks {
			for _, in := range b.Instrs {
				for _, op := range in.Operands(nil) {
					if g, ok := (*op).(*ssa.Global); ok && g.Name() == name && g.Pkg.Pkg.Path() == pkgPath {
						seen[core.ShortKey(fn)] = true
					}
				}
			}
		}
	}
	var out []string
	for k := range seen {
		out = append(out, k)
	}
	return out
}

// checkTwoPassSkeleton: ExtractContent returns document and word count of the same pass; the
// second pass (Default) is taken iff the first (SkipUnlikelies) yields <= 499 words.
func checkTwoPassSkeleton(p *core.Program, r *core.Report, rule string) {
	ec := mustFunc(p, r, rule, "(*"+extractorPkg+".ContentExtractor).ExtractContent")
	if ec != nil {
		opts := core.DecisionOpts{ResolvePhis: true, Outcome: func(in ssa.Instruction, c *core.Canon) (string, bool) {
			if ret, ok := in.(*ssa.Return); ok && len(ret.Results) == 2 {
				return "return " + c.Of(ret.Results[0]) + " , " + c.Of(ret.Results[1]), true
			}
			return "", false
		}}
		paths, atoms, err := core.EnumerateDecisions(p, ec, opts)
		if err != nil {
			r.Undecided(rule, "ExtractContent", err.Error())
		}
		cr := func(flag string) string {
			return `extractor.ContentExtractor.createWebDocumentInfoFromPage($0,converter.` + flag + `)`
		}
		pd := func(doc string) string { return `extractor.ContentExtractor.processDocument($0,` + doc + `)` }
		spec := core.DecisionSpec{
			Atoms: map[string]string{
				"first.pass.below.500": q(pd(cr("SkipUnlikelies")) + ` <= 499`),
			},
			Rules: []core.SpecRule{
				{Name: "fewer than 500 words: second pass without pruning", Guard: core.A("first.pass.below.500"), Outcome: "return " + cr("Default") + " , " + pd(cr("Default"))},
				{Name: "enough words: pruned result", Guard: core.True(), Outcome: "return " + cr("SkipUnlikelies") + " , " + pd(cr("SkipUnlikelies"))},
			},
		}
		core.CheckDecisionList(r, rule, "ExtractContent", paths, atoms, spec)
		// no extra branch may influence the choice: exactly the documented atom (other conditions
		// would make the choice depend on something else)
		r.Add(rule, "ExtractContent: the word-count threshold is the only branch", p.Pos(ec.Pos()), len(atoms) == 1, fmt.Sprintf("branch conditions: %v", keys(atoms)))
	}

}
