package props

import (
	"fmt"
	"go/token"
	"go/types"
	"os"
	"regexp"
	"sort"
	"strconv"
	"strings"

	"ddcheck/core"

	"golang.org/x/tools/go/ssa"
)

func init() { Registry["C01"] = C01 }

// `QuerySelector(doc, "*") == nil`, possibly merged with the node itself: μ($0|QuerySelector($0,"*")) == nil
var reRootFound = regexp.MustCompile(`^(μ\((\$0\|)+)?dom\.QuerySelector\(\$0,"\*"\)(\|\$0)*\)? == nil$`)

var linkFields = map[string]bool{"Parent": true, "FirstChild": true, "LastChild": true, "PrevSibling": true, "NextSibling": true}

func isNodePtr(t types.Type) bool {
	p, ok := t.Underlying().(*types.Pointer)
	if !ok {
		return false
	}
	n := core.NamedOf(p.Elem())
	return n != nil && n.Obj().Name() == "Node" && n.Obj().Pkg() != nil && n.Obj().Pkg().Path() == "golang.org/x/net/html"
}

// nilFacts holds the interprocedural summaries of the nil-link rule.
type nilFacts struct {
	p          *core.Program
	mayNil     map[*ssa.Function]bool         // some returned *html.Node may be nil
	derefParam map[*ssa.Function]map[int]bool // parameter i (a *html.Node) may be dereferenced without a nil test
	fns        []*ssa.Function
}

// nonNilCut removes, for value v, every edge on which v is known to be non-nil; what stays
// reachable can be reached with v == nil.
func nonNilCut(fn *ssa.Function, v ssa.Value) core.EdgeSet {
	cut := core.EdgeSet{}
	// a re-read of the same field of the same object counts as the same value (the test and the use
	// of `node.Parent` are two loads in SSA)
	cn := core.NewCanon(nil)
	vs := ""
	if _, isLoad := v.(*ssa.UnOp); isLoad {
		vs = cn.Of(v)
	}
	same := func(x ssa.Value) bool {
		if x == v {
			return true
		}
		if vs != "" {
			if _, isLoad := x.(*ssa.UnOp); isLoad && cn.Of(x) == vs {
				return true
			}
		}
		return false
	}
	isNilTest := func(x ssa.Value) bool {
		b, ok := x.(*ssa.BinOp)
		if !ok || (b.Op != token.EQL && b.Op != token.NEQ) {
			return false
		}
		return (same(b.X) && core.IsNilConst(b.Y)) || (same(b.Y) && core.IsNilConst(b.X))
	}
	for _, b := range fn.Blocks {
		if len(b.Instrs) == 0 {
			continue
		}
		ifi, ok := b.Instrs[len(b.Instrs)-1].(*ssa.If)
		if !ok {
			continue
		}
		ok2, neg := core.CondPolarity(ifi.Cond, isNilTest)
		if !ok2 {
			continue
		}
		bo := core.StripConv(unNot(ifi.Cond)).(*ssa.BinOp)
		// cond true means: (v == nil) if EQL, (v != nil) if NEQ; neg flips
		condTrueMeansNil := bo.Op == token.EQL
		if neg {
			condTrueMeansNil = !condTrueMeansNil
		}
		if condTrueMeansNil {
			cut[core.Edge{From: b, K: 1}] = true // false edge: v != nil
		} else {
			cut[core.Edge{From: b, K: 0}] = true
		}
	}
	return cut
}

// errCompanionCut: a helper that hands back a node together with an error, expanded into fn,
// leaves two merges in one block: the node and the error. When on every incoming edge either
// the error is a fresh one (errors.New / fmt.Errorf: never nil) or it is nil and the node that
// arrives over that edge cannot be nil there, then "the error is nil" says "the node is not":
// the edges on which the error is known to be nil count as nil tests of the node.
func (nf *nilFacts) errCompanionCut(fn *ssa.Function, ph *ssa.Phi) core.EdgeSet {
	blk := ph.Block()
	for _, in := range blk.Instrs {
		e, ok := in.(*ssa.Phi)
		if !ok || e == ph || len(e.Edges) != len(ph.Edges) || e.Type().String() != "error" {
			continue
		}
		okAll, someErr := true, false
		for i, ev := range e.Edges {
			if core.IsNilConst(ev) {
				alt := ph.Edges[i]
				if core.IsNilConst(alt) {
					okAll = false
					break
				}
				if nf.valueMayBeNil(fn, alt, nil, map[ssa.Value]bool{}) {
					// fine if the end of that predecessor is only reached past a nil test of alt
					if core.ReachableBlocks(fn, nonNilCut(fn, alt))[blk.Preds[i]] {
						okAll = false
						break
					}
				}
				continue
			}
			call, isCall := ev.(*ssa.Call)
			if isCall {
				if mi, isMI := ev.(*ssa.MakeInterface); isMI {
					call, isCall = mi.X.(*ssa.Call)
				}
			}
			if mi, isMI := ev.(*ssa.MakeInterface); isMI {
				call, isCall = mi.X.(*ssa.Call)
			}
			if !isCall || !core.IsCallTo(call, "errors.New", "fmt.Errorf") {
				okAll = false
				break
			}
			someErr = true
		}
		if !okAll || !someErr {
			continue
		}
		out := core.EdgeSet{}
		for ed := range nonNilCut(fn, e) {
			out[core.Edge{From: ed.From, K: 1 - ed.K}] = true
		}
		return out
	}
	return nil
}

// derefSites returns the instructions in fn that dereference v (field access, or passing v to a
// callee that dereferences the corresponding parameter unchecked).
func (nf *nilFacts) derefSites(fn *ssa.Function, v ssa.Value) []ssa.Instruction {
	var out []ssa.Instruction
	refs := v.Referrers()
	if refs == nil {
		return nil
	}
	for _, ref := range *refs {
		switch x := ref.(type) {
		case *ssa.FieldAddr:
			if x.X == v {
				out = append(out, x)
			}
		case *ssa.Field:
		case *ssa.UnOp:
			if x.Op == token.MUL && x.X == v {
				out = append(out, x)
			}
		case ssa.CallInstruction:
			cc := x.Common()
			callee := cc.StaticCallee()
			if callee == nil {
				continue
			}
			args := cc.Args
			for i, a := range args {
				if a == v && nf.derefParam[callee][i] {
					out = append(out, x)
				}
			}
		}
	}
	return out
}

func buildNilFacts(p *core.Program) *nilFacts {
	nf := &nilFacts{p: p, mayNil: map[*ssa.Function]bool{}, derefParam: map[*ssa.Function]map[int]bool{}}
	// functions of interest: module, dom, x/net/html node methods
	for fn := range p.AllFunctions() {
		pp := core.FnPkgPath(fn)
		if fn.Blocks == nil {
			continue
		}
		if core.IsModPkg(pp) && !strings.HasSuffix(pp, "/testutil") || pp == "github.com/go-shiori/dom" || pp == "golang.org/x/net/html" && strings.HasPrefix(fn.String(), "(*golang.org/x/net/html.Node)") {
			nf.fns = append(nf.fns, fn)
		}
	}
	sort.Slice(nf.fns, func(i, j int) bool { return nf.fns[i].String() < nf.fns[j].String() })
	for changed := true; changed; {
		changed = false
		for _, fn := range nf.fns {
			// may return nil
			if !nf.mayNil[fn] && fn.Signature.Results().Len() >= 1 && isNodePtr(fn.Signature.Results().At(0).Type()) {
				for _, ret := range core.Returns(fn) {
					if nf.valueMayBeNil(fn, ret.Results[0], ret, map[ssa.Value]bool{}) {
						nf.mayNil[fn] = true
						changed = true
						break
					}
				}
			}
			// deref of parameters
			for i, par := range fn.Params {
				if !isNodePtr(par.Type()) || nf.derefParam[fn][i] {
					continue
				}
				cut := nonNilCut(fn, par)
				for _, d := range nf.derefSites(fn, par) {
					if core.InstrReachable(fn, cut, d) {
						if nf.derefParam[fn] == nil {
							nf.derefParam[fn] = map[int]bool{}
						}
						nf.derefParam[fn][i] = true
						changed = true
						break
					}
				}
			}
		}
	}
	return nf
}

// valueMayBeNil: can v be nil at instruction `at` (ignoring checks on v itself, which the caller
// handles by cutting edges)?
func (nf *nilFacts) valueMayBeNil(fn *ssa.Function, v ssa.Value, at ssa.Instruction, seen map[ssa.Value]bool) bool {
	if seen[v] {
		return false
	}
	seen[v] = true
	switch x := v.(type) {
	case *ssa.Const:
		return x.Value == nil
	case *ssa.Phi:
		for i, e := range x.Edges {
			// an edge that is only taken when e != nil does not bring nil
			pred := x.Block().Preds[i]
			if edgeImpliesNonNil(pred, x.Block(), e) {
				continue
			}
			if nf.valueMayBeNil(fn, e, at, seen) {
				return true
			}
		}
		return false
	case *ssa.UnOp:
		if x.Op == token.MUL {
			if fa, ok := x.X.(*ssa.FieldAddr); ok {
				if st, ok := derefT(fa.X.Type()).Underlying().(*types.Struct); ok && linkFields[st.Field(fa.Field).Name()] && isNodePtr(x.Type()) {
					return true
				}
			}
		}
		return false
	case *ssa.Call:
		if f := x.Call.StaticCallee(); f != nil {
			return nf.mayNil[f]
		}
		return false
	case *ssa.Extract:
		if lk, ok := x.Tuple.(*ssa.Lookup); ok && x.Index == 0 {
			_ = lk
			return true
		}
		return false
	case *ssa.Lookup:
		return !x.CommaOk
	}
	return false
}

// edgeImpliesNonNil: the CFG edge pred->succ is taken only when v != nil.
func edgeImpliesNonNil(pred, succ *ssa.BasicBlock, v ssa.Value) bool {
	if len(pred.Instrs) == 0 {
		return false
	}
	ifi, ok := pred.Instrs[len(pred.Instrs)-1].(*ssa.If)
	if !ok {
		return false
	}
	cut := nonNilCut(pred.Parent(), v)
	for k, s := range pred.Succs {
		if s == succ && cut[core.Edge{From: pred, K: k}] {
			_ = ifi
			return true
		}
	}
	return false
}

// lenGuardCut removes the edges on which len(X) > c is known (X given by its canonical form).
func lenGuardCut(p *core.Program, fn *ssa.Function, xs string, c int64) (core.EdgeSet, int) {
	cut := core.EdgeSet{}
	n := 0
	cn := core.NewCanon(p)
	reLE := regexp.MustCompile(`^len\((.*)\) <= (-?\d+)$`)
	reEQ := regexp.MustCompile(`^len\((.*)\) == (-?\d+)$`)
	for _, b := range fn.Blocks {
		if len(b.Instrs) == 0 {
			continue
		}
		ifi, ok := b.Instrs[len(b.Instrs)-1].(*ssa.If)
		if !ok {
			continue
		}
		atom, whenTrue := cn.CondAtom(ifi.Cond)
		edgeFor := func(atomVal bool) core.Edge { // edge taken when the atom has value atomVal
			if whenTrue == atomVal {
				return core.Edge{From: b, K: 0}
			}
			return core.Edge{From: b, K: 1}
		}
		if m := reLE.FindStringSubmatch(atom); m != nil && m[1] == xs {
			k, _ := strconv.ParseInt(m[2], 10, 64)
			if k >= c { // atom false => len > k >= c
				cut[edgeFor(false)] = true
				n++
			}
		} else if m := reEQ.FindStringSubmatch(atom); m != nil && m[1] == xs {
			k, _ := strconv.ParseInt(m[2], 10, 64)
			if k > c { // len == k > c
				cut[edgeFor(true)] = true
				n++
			}
			if k == 0 && c == 0 { // len != 0
				cut[edgeFor(false)] = true
				n++
			}
		} else if atom == xs+` == ""` && c == 0 {
			cut[edgeFor(false)] = true // non-empty string: index 0 exists
			n++
		} else if atom == xs+" == nil" {
			// a regexp submatch that is not nil has all its groups (handled by the caller)
			cut[edgeFor(false)] = true
			n++
		}
	}
	return cut, n
}

var reRegexpGlobal = regexp.MustCompile(`regexp\.Regexp\.Find(All)?String(Submatch|Index|SubmatchIndex)?\(rx‹(.*?)›,`)

// rxGroupsOf returns the number of capture groups of a private package-level regexp as it is
// rendered in canonical forms (by pattern).
func rxGroupsOf(pattern string) (int, bool) {
	re, err := regexp.Compile(pattern)
	if err != nil {
		return 0, false
	}
	return re.NumSubexp(), true
}

// C01: every entry point is total (panic-freedom skeleton).
func C01(p *core.Program, r *core.Report) {
	r.Explanation = "Necessary conditions of `never panics, returns error or a div`, decided on every path of the module code reachable from the entry points. T1 (nil links): a *html.Node obtained from a link field (Parent/FirstChild/LastChild/PrevSibling/NextSibling), from a function that may return nil, or from a map lookup may only be dereferenced (field access, or passed to a callee that dereferences that parameter without its own test - computed as interprocedural summaries over the module, go-shiori/dom and the html.Node methods) where a nil test of that value excludes nil (guard-cut: with all `v != nil` edges removed the dereference must be unreachable); the remaining sites are reviewed exceptions naming the DOM invariant. T2 (cross-object bounds): a string/slice may be sliced at an offset that is the length of ANOTHER value only under a case-sensitive HasPrefix of exactly these two values or a length comparison. T3 (partial operations): every constant index, single-result type assertion and integer division is guarded by a length/kind/zero test of the same value, is structurally safe (strings.Split()[0], full regexp submatches), or reviewed. T4: start/end placeholders are balanced (the retainer pops one start per end; shared with C07). T5: Apply returns an error or a Result whose Node was set to a fresh div, on every path. T6: module code starts no goroutine (a fault in one could not be recovered by the caller). T7 (never loops): every loop of reachable module code has a recognised variant - an exhausted iterator, an integer counter moving towards a bound that cannot run away (including delete-and-stay loops and steps of 1 + a non-negative counter field), or a node cursor replaced by a node one or more links away in a single direction of a finite tree. T9 (nil records): a pointer to one of the module's own record types that a module function may answer as nil (explicit nil, or the answer of another such function; after expansion of helpers: a merge with a nil edge) is dereferenced only where a nil test of that value excludes nil. T10 (nested maps): an update outer[k][x]=v is reached only through the creation of the entry (outer[k]=make) unless the entry was found to exist, and only made maps are stored as entries. T8: every recursive call passes a strict descendant of the node it was given (one reviewed document-order walk in the page-number finder). T11 (search answers): a slice bound that is the answer of strings.Index & co. (plus a constant below 1) is reachable only where the search is known to have succeeded - a test of that answer, or a successful search in the same string for a constant needle containing the bound's needle. T12: a pointer parameter of an entry point is dereferenced only under a nil test. T9 also covers *url.URL locals that start out nil (a method of *url.URL called on the value is a dereference); with several nil edges, each edge is discharged by the edges that contradict the condition selecting it. T13: in internal/pagination/pattern, where offsets into URLs are kept in struct fields and compared through sums and differences of lengths, every index and slice expression with a non-constant bound is asked whether the bound is at most the length, low at most high and not negative; each question is decided by linear arithmetic (Fourier-Motzkin elimination, core/linear.go) from the branch conditions that dominate the expression, the definitions of merged values and the axioms len >= 0, -1 <= Index(...) <= len. A question about a string parameter indexed by something else than the call's own parameters must be proven; any other question must be proven when the function itself compares the two sides (a guard that does not guard), and is left to the constructor's invariants when the function compares nothing."
	r.NotCovered = "termination beyond the loop/recursion variants of T7/T8 (third-party code, stack depth on very deep documents), relational index arithmetic on offsets stored in struct fields (pagination/pattern: not claimed), nil maps other than entries of nested maps (T10), nil pointers other than nodes and the module's record types (T9), record pointers paired with an error/ok result, panics inside third-party code and the standard library, memory exhaustion."

	reach := p.ReachableFrom(p.EntryPoints()...)
	// the units of analysis: every reachable module function that is not an unexported helper,
	// with its unexported helpers expanded (a site inside a helper is then judged in the context
	// of its callers, and extracting or inlining helpers does not move or rename any site)
	var fns []*ssa.Function
	nReach := 0
	for _, fn := range p.ModFunctions(false) {
		if reach[fn] {
			nReach++
		}
	}
	for _, u := range units(p) {
		if reach[p.Original(u)] {
			fns = append(fns, u)
		}
	}
	r.Stats["reachable_module_functions"] = nReach
	r.Stats["analysis_units"] = len(fns)
	unitName := func(fn *ssa.Function) string { return unitName(p, fn) }
	c := core.NewCanon(p)

	// ---- T1
	nf := buildNilFacts(p)
	var mn []string
	for f := range nf.mayNil {
		mn = append(mn, core.ShortKey(f))
	}
	sort.Strings(mn)
	r.Stats["functions_that_may_return_nil_node"] = mn
	nSink := 0
	for _, fn := range fns {
		seenKey := map[string]bool{}
		for _, b := range fn.Blocks {
			for _, in := range b.Instrs {
				v, ok := in.(ssa.Value)
				if !ok || !isNodePtr(v.Type()) {
					continue
				}
				if !nf.valueMayBeNil(fn, v, in, map[ssa.Value]bool{}) {
					continue
				}
				derefs := nf.derefSites(fn, v)
				if len(derefs) == 0 {
					continue
				}
				cut := nonNilCut(fn, v)
				if ph, isPhi := v.(*ssa.Phi); isPhi {
					cut = core.Union(cut, nf.errCompanionCut(fn, ph))
				}
				// DOM invariant as a rule: the elements that dom.GetElementsByTagName(R, ..) lists are
				// proper descendants of R, each of which has a parent (detaching a listed element
				// clears only its own links); dom.QuerySelectorAll(R, ..) may list R itself, so there
				// the Parent of an element counts as present only where the element was decided
				// different from R
				if root, list, self := listedDescendantParent(v); list != nil {
					if !self {
						nSink += len(derefs)
						continue
					}
					rs := c.Of(root)
					es := c.Of(list)
					reSame := regexp.MustCompile("^(" + regexp.QuoteMeta(es+" == "+rs) + "|" + regexp.QuoteMeta(rs+" == "+es) + ")$")
					// like a nil test: the edges on which the element is known to differ from R are
					// removed; what stays reachable may see R itself (whose Parent may be nil)
					differs, m := core.CutAtoms(p, fn, reSame, false)
					if len(m) > 0 {
						cut = core.Union(cut, differs)
					}
				}
				for _, d := range derefs {
					nSink++
					what := "field access"
					if ci, ok := d.(ssa.CallInstruction); ok {
						what = "passed to " + core.ShortKey(core.Callee(ci)) + " (dereferences it without a nil test)"
					}
					key := fmt.Sprintf("%s: %s may be nil", unitName(fn), c.Of(v))
					if seenKey[key] {
						continue
					}
					ok := !core.InstrReachable(fn, cut, d)
					if ok {
						seenKey[key+"#ok"] = true
						continue
					}
					seenKey[key] = true
					r.Add("T1", key, p.Pos(d.Pos()), false, what+" reachable without a nil test of the value")
				}
			}
		}
	}
	r.Add("T1", "nil-link dereferences examined", "", nSink >= 20, fmt.Sprintf("%d dereferences of maybe-nil nodes in %d reachable module functions", nSink, len(fns)))
	// positive controls for the summaries
	for _, ctl := range []struct {
		key   string
		param int
	}{{"github.com/go-shiori/dom.Clone", 0}, {"github.com/go-shiori/dom.GetAttribute", 0}, {core.ModPath + "/internal/domutil.GetParentElement", 0}} {
		if f := p.Func(ctl.key); f != nil {
			r.Add("T1", "sanity: "+core.ShortKey(f)+" dereferences its node unchecked", p.Pos(f.Pos()), nf.derefParam[f][ctl.param], "")
		}
	}
	if f := p.Func("github.com/go-shiori/dom.TagName"); f != nil {
		r.Add("T1", "sanity: dom.TagName is nil-safe", p.Pos(f.Pos()), !nf.derefParam[f][0], "")
	}
	if f := p.Func(core.ModPath + "/internal/domutil.GetParentElement"); f != nil {
		r.Add("T1", "sanity: GetParentElement may return nil", p.Pos(f.Pos()), nf.mayNil[f], "")
	}

	// ---- T9: pointers to the module's own record types. A module function that hands back such
	// a pointer may answer nil on some path (explicitly, or by passing on the answer of another
	// such function); its callers - with unexported helpers expanded, the nil answer is a merge
	// with a nil edge in the unit - dereference the value only where a nil test of that value
	// excludes nil (same guard-cut as T1). Functions that pair the pointer with an error or an
	// ok flag are not covered (the pairing, not the pointer, is what callers test).
	{
		isRecPtr := func(t types.Type) bool {
			pt, ok := t.Underlying().(*types.Pointer)
			if !ok || isNodePtr(t) {
				return false
			}
			n := core.NamedOf(pt.Elem())
			if n == nil || n.Obj().Pkg() == nil {
				return false
			}
			// the module's records, and the URL objects it keeps in locals that start out nil
			if !core.IsModPkg(n.Obj().Pkg().Path()) && !(n.Obj().Pkg().Path() == "net/url" && n.Obj().Name() == "URL") {
				return false
			}
			_, isStruct := n.Underlying().(*types.Struct)
			return isStruct
		}
		mayNilRec := map[*ssa.Function]bool{}
		var valueMayBeNilRec func(v ssa.Value, seen map[ssa.Value]bool) bool
		valueMayBeNilRec = func(v ssa.Value, seen map[ssa.Value]bool) bool {
			if seen[v] {
				return false
			}
			seen[v] = true
			switch x := v.(type) {
			case *ssa.Const:
				return x.Value == nil
			case *ssa.Phi:
				for i, e := range x.Edges {
					if edgeImpliesNonNil(x.Block().Preds[i], x.Block(), e) {
						continue
					}
					// the merged value was tested before: the predecessor is only reached with e != nil
					if _, isC := e.(*ssa.Const); !isC && x.Parent() != nil && !core.ReachableBlocks(x.Parent(), nonNilCut(x.Parent(), e))[x.Block().Preds[i]] {
						continue
					}
					if valueMayBeNilRec(e, seen) {
						return true
					}
				}
			case *ssa.Call:
				if f := x.Call.StaticCallee(); f != nil {
					return mayNilRec[p.Original(f)]
				}
			}
			return false
		}
		mods := p.ModFunctions(false)
		for changed := true; changed; {
			changed = false
			for _, f := range mods {
				if mayNilRec[f] || f.Signature.Results().Len() != 1 || !isRecPtr(f.Signature.Results().At(0).Type()) {
					continue
				}
				for _, ret := range core.Returns(f) {
					if valueMayBeNilRec(ret.Results[0], map[ssa.Value]bool{}) {
						mayNilRec[f] = true
						changed = true
						break
					}
				}
			}
		}
		var names []string
		for f := range mayNilRec {
			names = append(names, core.ShortKey(f))
		}
		sort.Strings(names)
		r.Stats["functions_that_may_return_nil_record"] = names
		nT9 := 0
		for _, fn := range fns {
			seenKey := map[string]bool{}
			for _, b := range fn.Blocks {
				for _, in := range b.Instrs {
					v, ok := in.(ssa.Value)
					if !ok || !isRecPtr(v.Type()) {
						continue
					}
					switch v.(type) {
					case *ssa.Phi, *ssa.Call:
					default:
						continue
					}
					if !valueMayBeNilRec(v, map[ssa.Value]bool{}) || v.Referrers() == nil {
						continue
					}
					cut := nonNilCut(fn, v)
					// a nil edge of a merge is only taken under the condition that selects it
					// (`if len(list) == 0 { return nil }` of an expanded helper): where the caller
					// decided the same condition the other way before (`len(list) != 0 && last().x`),
					// that edge is infeasible. Edges that contradict the guard of every nil edge are
					// removed as well; if no nil edge stays reachable the value is not nil here.
					// per nil edge: the edges that contradict the condition selecting it (nil: none known)
					var contras []core.EdgeSet
					otherMayNil := false
					if ph, isPhi := v.(*ssa.Phi); isPhi {
						feasible := false
						for i, e := range ph.Edges {
							if k, isC := e.(*ssa.Const); !isC || k.Value != nil {
								if valueMayBeNilRec(e, map[ssa.Value]bool{}) {
									feasible, otherMayNil = true, true
								}
								continue
							}
							contra := contradictingEdges(p, fn, ph.Block().Preds[i], ph.Block())
							contras = append(contras, contra)
							if contra == nil {
								feasible = true
								continue
							}
							if core.ReachableBlocks(fn, contra)[ph.Block().Preds[i]] {
								feasible = true
							}
						}
						if !feasible {
							continue
						}
					}
					// a path through nil edge i cannot take an edge that contradicts the condition
					// selecting that edge: if, for every nil edge, the dereference is unreachable once
					// those edges are removed, no path brings a nil there
					safeBy := func(ref ssa.Instruction) bool {
						if !core.InstrReachable(fn, cut, ref) {
							return true
						}
						if len(contras) == 0 || otherMayNil {
							return false
						}
						for _, contra := range contras {
							if contra == nil || core.InstrReachable(fn, core.Union(cut, contra), ref) {
								return false
							}
						}
						return true
					}
					for _, ref := range *v.Referrers() {
						deref := false
						switch x := ref.(type) {
						case *ssa.FieldAddr:
							deref = x.X == v
						case *ssa.UnOp:
							deref = x.Op == token.MUL && x.X == v
						case *ssa.Call:
							// a method of *url.URL called on it (they read the fields without a nil test)
							if f := x.Call.StaticCallee(); f != nil && f.Signature.Recv() != nil && len(x.Call.Args) > 0 && x.Call.Args[0] == v && strings.HasPrefix(f.String(), "(*net/url.URL).") {
								deref = true
							}
						}
						if !deref {
							continue
						}
						nT9++
						key := fmt.Sprintf("%s: %s may be nil", unitName(fn), shortVal(c.Of(v)))
						if seenKey[key] || safeBy(ref) {
							continue
						}
						seenKey[key] = true
						r.Add("T9", key, p.Pos(ref.Pos()), false, "dereferenced (field access or copy) where no nil test of the value excludes nil")
					}
				}
			}
		}
		r.Add("T9", "dereferences of maybe-nil record pointers examined", "", nT9 >= 3, fmt.Sprintf("%d dereferences in %d units; %d module functions may answer nil", nT9, len(fns), len(mayNilRec)))
	}

	// ---- T10: nested maps. `outer[k][x] = v` panics when outer has no entry for k (the inner map
	// is nil). Every update of a map that is itself looked up in another map is preceded, on every
	// path on which the entry was not found to exist, by the creation of that entry
	// (`outer[k] = make(..)`), and only made maps are ever stored as entries.
	{
		nT10 := 0
		type t10agg struct {
			pos string
			ok  bool
			n   int
			wit []string
		}
		t10 := map[string]*t10agg{}
		var t10keys []string
		for _, fn := range fns {
			for _, in := range instrsOf(fn) {
				mu, ok := in.(*ssa.MapUpdate)
				if !ok {
					continue
				}
				// the inner map: looked up directly, or a local that merges the looked-up map with
				// a freshly made one
				var lk *ssa.Lookup
				var findLookup func(v ssa.Value, depth int)
				findLookup = func(v ssa.Value, depth int) {
					if depth > 4 || lk != nil {
						return
					}
					switch x := core.StripConv(v).(type) {
					case *ssa.Lookup:
						lk = x
					case *ssa.Extract:
						if l, ok := x.Tuple.(*ssa.Lookup); ok {
							lk = l
						}
					case *ssa.Phi:
						for _, e := range x.Edges {
							findLookup(e, depth+1)
						}
					}
				}
				findLookup(mu.Map, 0)
				if lk == nil {
					continue
				}
				if _, isMap := lk.X.Type().Underlying().(*types.Map); !isMap {
					continue
				}
				nT10++
				outer, key := c.Of(lk.X), c.Of(lk.Index)
				exists, _ := core.CutAtoms(p, fn, regexp.MustCompile(q(`in(`+outer+`,`+key+`)`)), true)
				// ... or the looked-up inner map was found to be non-nil
				inner := regexp.QuoteMeta(outer + "[" + key + "]")
				nonNil, _ := core.CutAtoms(p, fn, regexp.MustCompile(`^(`+inner+` == nil|nil == `+inner+`)$`), false)
				exists = core.Union(exists, nonNil)
				created := func(x ssa.Instruction) bool {
					st, ok := x.(*ssa.MapUpdate)
					if !ok || c.Of(st.Map) != outer || c.Of(st.Key) != key {
						return false
					}
					_, isMake := core.StripConv(st.Value).(*ssa.MakeMap)
					return isMake
				}
				okPath, wit := core.MustPassThrough(fn, mu, created, exists)
				// entries are never nil: every store into the outer map stores a made map
				okEntries := true
				for _, in2 := range instrsOf(fn) {
					if st, ok := in2.(*ssa.MapUpdate); ok && c.Of(st.Map) == outer {
						if _, isMake := core.StripConv(st.Value).(*ssa.MakeMap); !isMake {
							okEntries = false
						}
					}
				}
				k10 := fmt.Sprintf("%s: update of the inner map %s[%s]", unitName(fn), shortVal(outer), shortVal(key))
				ag := t10[k10]
				if ag == nil {
					ag = &t10agg{pos: p.Pos(mu.Pos()), ok: true}
					t10[k10] = ag
					t10keys = append(t10keys, k10)
				}
				ag.n++
				if !(okPath && okEntries) && ag.ok {
					ag.ok, ag.pos, ag.wit = false, p.Pos(mu.Pos()), wit
				}
			}
		}
		for _, k10 := range t10keys {
			ag := t10[k10]
			r.Add("T10", k10, ag.pos, ag.ok, fmt.Sprintf("unless the entry was found to exist, it is created with make before the inner map is written (%d update sites after expansion)", ag.n), ag.wit...)
		}
		// vacuity guard: if the module has maps of maps at all, some update of one must have been seen
		nestedMapTypes := 0
		for _, f := range p.ModFunctions(false) {
			for _, in := range instrsOf(f) {
				if mk, ok := in.(*ssa.MakeMap); ok {
					if mt, ok := mk.Type().Underlying().(*types.Map); ok {
						if _, inner := mt.Elem().Underlying().(*types.Map); inner {
							nestedMapTypes++
						}
					}
				}
			}
		}
		r.Add("T10", "updates of nested maps examined", "", nT10 >= 1 || nestedMapTypes == 0, fmt.Sprintf("%d updates; %d maps of maps made in the module", nT10, nestedMapTypes))
	}

	// ---- T2
	nT2 := 0
	for _, fn := range fns {
		if strings.Contains(core.FnPkgPath(fn), "/pagination/pattern") {
			continue // relational offsets in struct fields: not claimed
		}
		for _, b := range fn.Blocks {
			for _, in := range b.Instrs {
				sl, ok := in.(*ssa.Slice)
				if !ok {
					continue
				}
				xs := c.Of(sl.X)
				for _, bound := range []ssa.Value{sl.Low, sl.High} {
					if bound == nil {
						continue
					}
					bs := c.Of(bound)
					if strings.HasPrefix(bs, "μ(") {
						continue // a loop-carried offset: index arithmetic, not a cross-object length (not claimed)
					}
					// the bound mentions len(Y) of a value that is not X
					m := regexp.MustCompile(`len\(`).FindAllStringIndex(bs, -1)
					for _, ix := range m {
						arg := balancedArg(bs[ix[1]:])
						if arg == xs || strings.HasPrefix(xs, arg+"[") || arg == "" || strings.HasPrefix(arg, "@") || strings.HasPrefix(xs, "μ(") && strings.Contains(xs, arg) {
							continue // the same object (or its loop-carried self): a truncation, not a cross-object bound
						}
						nT2++
						key := fmt.Sprintf("%s: %s sliced at len(%s)", unitName(fn), shortVal(xs), shortVal(arg))
						// guards: HasPrefix(X, Y) (case-sensitive) true edge, or len(X) < len(Y) false edge
						re := regexp.MustCompile(`^strings\.HasPrefix\(` + regexp.QuoteMeta(xs) + `,` + regexp.QuoteMeta(arg) + `\)$`)
						cut1, m1 := core.CutAtoms(p, fn, re, true)
						re2 := regexp.MustCompile(`^len\(` + regexp.QuoteMeta(xs) + `\) < len\(` + regexp.QuoteMeta(arg) + `\)$`)
						cut2, m2 := core.CutAtoms(p, fn, re2, false)
						ok := (len(m1) > 0 && !core.InstrReachable(fn, cut1, sl)) || (len(m2) > 0 && !core.InstrReachable(fn, cut2, sl))
						if !ok {
							// another spelling of the guard: the comparisons that dominate the slice
							// imply its bounds by linear arithmetic (core/linear.go, as in T13)
							ok = sliceBoundsProven(p, fn, sl, b)
						}
						r.Add("T2", key, p.Pos(sl.Pos()), ok, "needs strings.HasPrefix(X, Y) or a length comparison on every path (a case-insensitive prefix test does not bound the byte length)")
					}
				}
			}
		}
	}
	// informational: the sites may legitimately disappear (strings.TrimPrefix instead of a
	// guarded x[len(y):]); that the pattern is still recognised is shown by the seeded changes
	r.Add("T2", "cross-object slice bounds examined", "", true, fmt.Sprintf("%d sites", nT2))
	r.Stats["cross_object_slice_sites"] = nT2

	// ---- T12
	checkEntryNilParams(p, r, "T12")

	// ---- T11
	checkSearchBounds(p, r, "T11", fns, unitName)

	// ---- T13
	checkLinearBounds(p, r, "T13", fns, unitName)

	// ---- T3
	nT3 := 0
	for _, fn := range fns {
		for _, b := range fn.Blocks {
			for _, in := range b.Instrs {
				switch x := in.(type) {
				case *ssa.TypeAssert:
					if x.CommaOk {
						continue
					}
					nT3++
					r.Add("T3", fmt.Sprintf("%s: assertion %s", unitName(fn), shortVal(c.Of(x))), p.Pos(x.Pos()), false, "single-result type assertion panics on another dynamic type")
				case *ssa.BinOp:
					if x.Op != token.QUO && x.Op != token.REM {
						continue
					}
					if _, isC := x.Y.(*ssa.Const); isC {
						continue
					}
					if bt, ok := x.Type().Underlying().(*types.Basic); !ok || bt.Info()&types.IsInteger == 0 {
						continue
					}
					nT3++
					ys := c.Of(x.Y)
					cut, m := core.CutAtoms(p, fn, regexp.MustCompile(`^`+regexp.QuoteMeta(ys)+` == 0$`), false)
					ok := len(m) > 0 && !core.InstrReachable(fn, cut, x)
					r.Add("T3", fmt.Sprintf("%s: division by %s", unitName(fn), shortVal(ys)), p.Pos(x.Pos()), ok, "the divisor must be tested against 0 on every path")
				case *ssa.Go:
					r.Add("T6", unitName(fn)+": go statement", p.Pos(x.Pos()), false, "a panic or fatal error (concurrent map writes) in a goroutine cannot be recovered by the caller of Apply")
				case *ssa.IndexAddr, *ssa.Index:
					var xv, idx ssa.Value
					if ia, ok := x.(*ssa.IndexAddr); ok {
						xv, idx = ia.X, ia.Index
					} else {
						xv, idx = x.(*ssa.Index).X, x.(*ssa.Index).Index
					}
					k, isC := core.ConstInt(idx)
					if !isC {
						continue
					}
					if _, isAlloc := xv.(*ssa.Alloc); isAlloc {
						continue
					}
					if _, isArr := derefT(xv.Type()).Underlying().(*types.Array); isArr {
						continue
					}
					nT3++
					xs := c.Of(xv)
					key := fmt.Sprintf("%s: %s[%d]", unitName(fn), keyVal(xs), k)
					ok, why := constIndexSafe(p, fn, in, xs, k)
					r.Add("T3", key, p.Pos(in.Pos()), ok, why)
				}
			}
		}
	}
	r.Add("T6", "module code starts no goroutine", "", true, fmt.Sprintf("%d reachable functions scanned", len(fns)))

	// ---- T7: every loop of reachable module code has a variant: it advances a map/string
	// iterator, counts an integer towards a bound that does not run away (incl. the delete-and-stay
	// idiom, where the bounding list shrinks when the counter stays, and steps of 1 + counter), or
	// replaces a *html.Node cursor by a node one or more links away in one direction (a finite
	// acyclic tree; a cursor that starts nil and is initialised inside the loop is accepted when
	// the fed-back value is tested non-nil before the back edge).
	{
		cn := core.NewCanon(p)
		anc := func(f *ssa.Function) bool { return core.IsAncestorFn(f) }
		nLoops := 0
		seenLoop := map[string]int{}
		for _, u := range fns {
			loops, reducible := core.NaturalLoops(u)
			if !reducible {
				r.Add("T7", unitName(u)+": control flow is reducible", p.Pos(u.Pos()), false, "a cycle that is not a natural loop (goto?) has no loop variant")
			}
			for _, l := range loops {
				v := cn.TerminationOf(l, anc)
				nLoops++
				key := unitName(u) + ": loop " + shortVal(v.Desc)
				seenLoop[key]++
				if n := seenLoop[key]; n > 1 {
					key += fmt.Sprintf(" #%d", n)
				}
				pos := ""
				for _, in := range l.Header.Instrs {
					if in.Pos().IsValid() {
						pos = p.Pos(in.Pos())
						break
					}
				}
				r.Add("T7", key, pos, v.Kind != "", v.Kind+": "+v.Reason)
			}
		}
		r.Stats["loops_with_variant"] = nLoops
		r.Floor("T7", 150)
	}
	// ---- T8: recursion descends the tree: every self-call of a recursive unit passes, for a
	// *html.Node parameter, a strict descendant of that parameter (child, or sibling of a child).
	{
		nRec := 0
		for _, u := range fns {
			nodeParams := []int{}
			for i, pa := range u.Params {
				if types.TypeString(pa.Type(), func(pk *types.Package) string { return pk.Name() }) == "*html.Node" {
					nodeParams = append(nodeParams, i)
				}
			}
			var selfCalls []ssa.CallInstruction
			for _, call := range core.Calls(u, func(ci ssa.CallInstruction) bool { return true }) {
				if isSelfCall(p, u, call) {
					selfCalls = append(selfCalls, call)
				}
			}
			if len(selfCalls) == 0 {
				continue
			}
			nRec++
			for k, call := range selfCalls {
				args := call.Common().Args
				ok := false
				for _, i := range nodeParams {
					j := i
					if p.Original(u).Parent() != nil && call.Common().StaticCallee() == nil {
						// a closure calling itself through its variable: same positions
						j = i
					}
					if j < len(args) && strictDescendant(args[j], u.Params[i], map[ssa.Value]bool{}) {
						ok = true
					}
				}
				r.Add("T8", fmt.Sprintf("%s: recursive call #%d descends the tree", unitName(u), k+1), p.Pos(call.Pos()), ok,
					"a node argument must be a strict descendant of the corresponding parameter (finite tree => finite recursion)")
			}
		}
		r.Add("T8", "recursive units examined", "", nRec >= 3, fmt.Sprintf("%d", nRec))
	}
	r.Stats["partial_operations"] = nT3
	r.Floor("T3", 40)

	// ---- T4
	checkPlaceholderBalance(p, r, "T4")
	if nr := mustInl(p, r, "T4", "(*"+docfilterPkg+".NestedElementRetainer).Process"); nr != nil {
		// the pop happens only for end tags
		found := false
		for _, b := range nr.Blocks {
			for _, in := range b.Instrs {
				if sl, ok := in.(*ssa.Slice); ok && strings.Contains(c.Of(sl.High), "len(") && strings.Contains(c.Of(sl.High), " - 1") {
					cut, m := core.CutAtoms(p, nr, regexp.MustCompile(`\.Type == webdoc\.TagStart$`), false)
					found = len(m) == 1 && !core.InstrReachable(nr, cut, sl)
				}
			}
		}
		r.Add("T4", "the retainer pops its stack only for end tags", p.Pos(nr.Pos()), found, "")
	}

	// ---- T5
	if ap := mustInl(p, r, "T5", core.ModPath+".Apply"); ap != nil {
		for _, ret := range core.Returns(ap) {
			res, errv := ret.Results[0], ret.Results[1]
			if core.IsNilConst(res) {
				r.Add("T5", "Apply: a nil result comes with an error", p.Pos(ret.Pos()), !core.IsNilConst(errv), "error = "+shortVal(c.Of(errv)))
				continue
			}
			ok, w := core.MustPassThrough(ap, ret, func(in ssa.Instruction) bool {
				st, isSt := in.(*ssa.Store)
				return isSt && c.Of(st.Addr) == "&new(distiller.Result).Node" && c.Of(st.Val) == `dom.CreateElement("div")`
			}, nil)
			r.Add("T5", "Apply: a result always carries a fresh div as content node", p.Pos(ret.Pos()), ok && c.Of(res) == "new(distiller.Result)" && core.IsNilConst(errv), "", w...)
		}
		// the root handed on is an element
		paths, _, _ := core.EnumerateDecisions(p, ap, core.DecisionOpts{ResolvePhis: true, Outcome: func(in ssa.Instruction, cc *core.Canon) (string, bool) {
			if core.IsCallTo(in, extractorPkg+".NewContentExtractor") {
				return "extract " + cc.Of(in.(*ssa.Call).Call.Args[0]), true
			}
			if ret, ok := in.(*ssa.Return); ok {
				return "return " + cc.Of(ret.Results[0]), true
			}
			return "", false
		}})
		bad := 0
		for _, pa := range paths {
			if !strings.HasPrefix(pa.Outcome, "extract") {
				continue
			}
			isEl, found := 0, 0
			infeasible := false
			for _, l := range pa.Lits {
				// (a fresh error is not nil: the path on which a helper reported a failure and
				// the caller found no error does not exist)
				if l.Val && strings.HasSuffix(l.Atom, ") == nil") && (strings.HasPrefix(l.Atom, "errors.New(") || strings.HasPrefix(l.Atom, "fmt.Errorf(")) {
					infeasible = true
				}
				if l.Atom == "$0.Type == html.ElementNode" {
					isEl = tern(l.Val)
				}
				// (the first element below the node, tested as such or merged with the node itself
				// when the two nil tests of Apply are written as one)
				if reRootFound.MatchString(l.Atom) {
					found = tern(!l.Val)
				}
			}
			if !(isEl == 1 || found == 1) && !infeasible {
				bad++
			}
		}
		r.Add("T5", "Apply: extraction starts from an element (the given one or the first element below it)", p.Pos(ap.Pos()), bad == 0 && len(paths) >= 3, fmt.Sprintf("%d paths, %d start extraction without an element root", len(paths), bad))
	}
	if ne := mustInl(p, r, "T5", extractorPkg+".NewContentExtractor"); ne != nil {
		// document falls back to the given root
		ok := false
		for _, a := range allocsOf(ne, "/internal/extractor", "ContentExtractor") {
			fs := fieldStores(a)
			if len(fs["‹*html.Node›"]) == 1 {
				ok = c.Of(fs["‹*html.Node›"][0]) == `μ($0|dom.QuerySelector($0,"html"))`
			}
		}
		r.Add("T5", "the extractor falls back to the given root when there is no <html>", p.Pos(ne.Pos()), ok, "")
	}
}

// balancedArg returns the text up to the parenthesis that closes an already opened one.
func balancedArg(s string) string {
	depth := 1
	for i, ch := range s {
		switch ch {
		case '(':
			depth++
		case ')':
			depth--
			if depth == 0 {
				return s[:i]
			}
		}
	}
	return ""
}

// constIndexSafe decides x[k] for a constant k.
func constIndexSafe(p *core.Program, fn *ssa.Function, in ssa.Instruction, xs string, k int64) (bool, string) {
	// strings.Split always returns at least one element
	if strings.HasPrefix(xs, "strings.Split(") && k == 0 {
		return true, "strings.Split returns at least one element"
	}
	// literal slice
	if strings.HasPrefix(xs, "append({},{") || strings.HasPrefix(xs, "{") {
		n := int64(strings.Count(xs, ",") + 1)
		if k < n {
			return true, "literal with enough elements"
		}
	}
	// every element of FindAllStringSubmatch / FindAllStringIndex is complete
	if m := reRegexpGlobal.FindStringSubmatch(xs); m != nil && strings.HasPrefix(xs, "elem(regexp.Regexp.FindAll") {
		g, known := rxGroupsOf(m[3])
		if strings.Contains(xs, "FindAllStringIndex") && k <= 1 {
			return true, "an index pair has two elements"
		}
		if known && k <= int64(g) {
			return true, fmt.Sprintf("each match of /%s/ has %d groups", m[3], g)
		}
	}
	// the callback of rx.ReplaceAllStringFunc gets a match of rx: FindStringSubmatch of that very
	// expression on that very argument is never nil and has every group
	if m := reRegexpGlobal.FindStringSubmatch(xs); m != nil && strings.HasPrefix(xs, "regexp.Regexp.FindStringSubmatch(") && strings.HasSuffix(xs, ",$0)") && p.Original(fn).Parent() != nil {
		if g, known := rxGroupsOf(m[3]); known && k <= int64(g) {
			cn := core.NewCanon(p)
			rxName := strings.TrimSuffix(strings.TrimPrefix(xs, "regexp.Regexp.FindStringSubmatch("), ",$0)")
			uses, okAll := 0, true
			orig := p.Original(fn)
			for _, in2 := range instrsOf(orig.Parent()) {
				mc, isMC := in2.(*ssa.MakeClosure)
				if !isMC || mc.Fn != ssa.Value(orig) {
					continue
				}
				if mc.Referrers() == nil {
					okAll = false
					continue
				}
				for _, ref := range *mc.Referrers() {
					if _, dbg := ref.(*ssa.DebugRef); dbg {
						continue
					}
					uses++
					call, isCall := ref.(*ssa.Call)
					if !isCall || !core.IsCallTo(call, "(*regexp.Regexp).ReplaceAllStringFunc") || len(call.Call.Args) != 3 || call.Call.Args[2] != ssa.Value(mc) || cn.Of(call.Call.Args[0]) != rxName {
						okAll = false
					}
				}
			}
			if os.Getenv("DDCHECK_T3DBG") != "" {
				fmt.Fprintln(os.Stderr, "T3DBG", xs, uses, okAll, rxName)
			}
			if uses >= 1 && okAll {
				return true, fmt.Sprintf("the closure is only used as the callback of ReplaceAllStringFunc of the same expression: its argument is a match, which has all %d groups", g)
			}
		}
	}
	// guarded by a length test of the same value
	cut, n := lenGuardCut(p, fn, xs, k)
	if strings.HasPrefix(xs, "regexp.Regexp.FindStringSubmatch(") {
		// a submatch result is nil or complete: any test that excludes the empty result will do
		cut, n = lenGuardCut(p, fn, xs, 0)
	}
	if n > 0 && !core.InstrReachable(fn, cut, in) {
		// a non-nil test suffices only for complete regexp submatches
		if m := reRegexpGlobal.FindStringSubmatch(xs); m != nil && strings.HasPrefix(xs, "regexp.Regexp.FindStringSubmatch(") {
			g, known := rxGroupsOf(m[3])
			if !known || k > int64(g) {
				return false, fmt.Sprintf("group %d does not exist in /%s/", k, m[3])
			}
		}
		return true, "dominated by a length test of the same value"
	}
	// element 0 of a list kept in a field: on every path to the index that did not find the list
	// non-empty, the field was assigned the result of an append of at least one element
	if k == 0 {
		cn := core.NewCanon(p)
		grown := func(x ssa.Instruction) bool {
			st, ok := x.(*ssa.Store)
			if !ok || strings.TrimPrefix(cn.Of(st.Addr), "&") != xs {
				return false
			}
			call, ok := core.StripConv(st.Val).(*ssa.Call)
			if !ok {
				return false
			}
			b, isB := call.Call.Value.(*ssa.Builtin)
			if !isB || b.Name() != "append" || len(call.Call.Args) != 2 {
				return false
			}
			el := cn.Of(call.Call.Args[1])
			return strings.HasPrefix(el, "{") && el != "{}"
		}
		if okApp, _ := core.MustPassThrough(fn, in, grown, cut); okApp && core.InstrReachable(fn, cut, in) {
			return true, "the list was assigned an append of at least one element on every path that did not find it non-empty"
		}
	}
	return false, "no length test of " + shortVal(xs) + " guards this index"
}

// strictDescendant: v is reached from param by at least one FirstChild/LastChild link, followed
// by any number of child/sibling links (phis: every edge).
func strictDescendant(v ssa.Value, param *ssa.Parameter, seen map[ssa.Value]bool) bool {
	var rec func(v ssa.Value, needDown bool) bool
	rec = func(v ssa.Value, needDown bool) bool {
		v = core.StripConv(v)
		if v == ssa.Value(param) {
			return !needDown
		}
		if seen[v] {
			return true // a cycle through a loop phi adds nothing new
		}
		seen[v] = true
		switch x := v.(type) {
		case *ssa.UnOp:
			fa, ok := x.X.(*ssa.FieldAddr)
			if !ok {
				return false
			}
			switch core.FieldNameOf(fa) {
			case "FirstChild", "LastChild":
				return rec(fa.X, false)
			case "NextSibling", "PrevSibling":
				return rec(fa.X, true) // a sibling of a strict descendant
			}
			return false
		case *ssa.Phi:
			for _, e := range x.Edges {
				if !rec(e, needDown) {
					return false
				}
			}
			return len(x.Edges) > 0
		}
		return false
	}
	return rec(v, true)
}

func countNilEdges(ph *ssa.Phi) int {
	n := 0
	for _, e := range ph.Edges {
		if k, ok := e.(*ssa.Const); ok && k.Value == nil {
			n++
		}
	}
	return n
}

// contradictingEdges: the edge pred->succ is taken under the branch condition that ends the
// nearest block above pred with a conditional branch (through jump-only single-predecessor
// blocks). The result is the set of all OTHER conditional edges of fn that decide the same
// canonical condition the opposite way with nothing in between that could change it (no store,
// map update or call on any block between the two tests). nil if the edge has no such guard.
func contradictingEdges(p *core.Program, fn *ssa.Function, pred, succ *ssa.BasicBlock) core.EdgeSet {
	c := core.NewCanon(p)
	b, to := pred, succ
	for hops := 0; hops < 6; hops++ {
		if len(b.Instrs) == 0 {
			return nil
		}
		if ifi, ok := b.Instrs[len(b.Instrs)-1].(*ssa.If); ok {
			atom, whenTrue := c.CondAtom(ifi.Cond)
			if atom == "" {
				return nil
			}
			k := 0
			if b.Succs[1] == to {
				k = 1
			}
			val := (k == 0) == whenTrue // value of the atom on this edge
			out := core.EdgeSet{}
			for _, b2 := range fn.Blocks {
				if b2 == b || len(b2.Instrs) == 0 {
					continue
				}
				if2, ok := b2.Instrs[len(b2.Instrs)-1].(*ssa.If)
				if !ok {
					continue
				}
				a2, wt2 := c.CondAtom(if2.Cond)
				// the same condition decided before with nothing in between that could change it -
				// or the very same SSA value tested anywhere (a value does not change)
				if a2 != atom || !(stripNots(if2.Cond) == stripNots(ifi.Cond) || pureBetween(b2, b)) {
					continue
				}
				// the edge of b2 on which the atom has the opposite value
				for k2 := 0; k2 < 2; k2++ {
					if ((k2 == 0) == wt2) != val {
						out[core.Edge{From: b2, K: k2}] = true
					}
				}
			}
			if len(out) == 0 {
				return nil
			}
			return out
		}
		if len(b.Preds) != 1 || len(b.Instrs) != 1 {
			return nil
		}
		b, to = b.Preds[0], b
	}
	return nil
}

// pureBetween: no block on a path from a (exclusive of its own body up to the branch) to b
// contains a store, a map update or a call other than len/cap; loads and pure operators only.
func pureBetween(a, b *ssa.BasicBlock) bool {
	// blocks reachable from a that can reach b
	fwd := map[*ssa.BasicBlock]bool{}
	var f func(x *ssa.BasicBlock)
	f = func(x *ssa.BasicBlock) {
		if fwd[x] {
			return
		}
		fwd[x] = true
		if x == b {
			return
		}
		for _, s := range x.Succs {
			f(s)
		}
	}
	for _, s := range a.Succs {
		f(s)
	}
	if !fwd[b] {
		return false
	}
	bwd := map[*ssa.BasicBlock]bool{}
	var g func(x *ssa.BasicBlock)
	g = func(x *ssa.BasicBlock) {
		if bwd[x] || !fwd[x] {
			return
		}
		bwd[x] = true
		for _, pr := range x.Preds {
			g(pr)
		}
	}
	g(b)
	for x := range bwd {
		for _, in := range x.Instrs {
			switch y := in.(type) {
			case *ssa.Store, *ssa.MapUpdate, *ssa.Send, *ssa.Go, *ssa.Defer:
				return false
			case *ssa.Call:
				if bi, ok := y.Call.Value.(*ssa.Builtin); !ok || (bi.Name() != "len" && bi.Name() != "cap") {
					return false
				}
			}
		}
	}
	return true
}

// listedDescendantParent: v is `x.Parent` for an element x of the list returned by
// dom.GetElementsByTagName(R, ..) or dom.QuerySelectorAll(R, ..). It returns R, the element x
// and whether the list may contain R itself (QuerySelectorAll).
func listedDescendantParent(v ssa.Value) (root, elem ssa.Value, mayBeRoot bool) {
	ld, ok := v.(*ssa.UnOp)
	if !ok || ld.Op != token.MUL {
		return nil, nil, false
	}
	fa, ok := ld.X.(*ssa.FieldAddr)
	if !ok || core.FieldNameOf(fa) != "Parent" {
		return nil, nil, false
	}
	x, ok := core.StripConv(fa.X).(*ssa.UnOp)
	if !ok || x.Op != token.MUL {
		return nil, nil, false
	}
	ia, ok := x.X.(*ssa.IndexAddr)
	if !ok {
		return nil, nil, false
	}
	call, ok := core.StripConv(ia.X).(*ssa.Call)
	if !ok || len(call.Call.Args) < 1 {
		return nil, nil, false
	}
	switch {
	case core.IsCallTo(call, "github.com/go-shiori/dom.GetElementsByTagName"):
		return call.Call.Args[0], x, false
	case core.IsCallTo(call, "github.com/go-shiori/dom.QuerySelectorAll"):
		return call.Call.Args[0], x, true
	}
	return nil, nil, false
}

func stripNots(v ssa.Value) ssa.Value {
	for {
		u, ok := v.(*ssa.UnOp)
		if !ok || u.Op != token.NOT {
			return v
		}
		v = u.X
	}
}
