package props

import (
	"fmt"
	"go/types"
	"regexp"
	"sort"
	"strconv"
	"strings"

	"ddcheck/core"

	"golang.org/x/tools/go/ssa"
)

func init() { Registry["C19"] = C19 }

const hasRootDomainKey = "mod/internal/domutil.HasRootDomain"

// allocsOf returns the Alloc instructions in fn creating a value of the named type.
func allocsOf(fn *ssa.Function, pkgSuffix, typeName string) []*ssa.Alloc {
	var out []*ssa.Alloc
	for _, b := range fn.Blocks {
		for _, in := range b.Instrs {
			a, ok := in.(*ssa.Alloc)
			if !ok {
				continue
			}
			n := core.NamedOf(a.Type().(*types.Pointer).Elem())
			if n != nil && n.Obj().Name() == typeName && n.Obj().Pkg() != nil && strings.HasSuffix(n.Obj().Pkg().Path(), pkgSuffix) {
				out = append(out, a)
			}
		}
	}
	return out
}

// fieldStores returns, for an allocated struct, the values stored into its fields by name.
func fieldStores(a *ssa.Alloc) map[string][]ssa.Value {
	res := map[string][]ssa.Value{}
	st, ok := a.Type().(*types.Pointer).Elem().Underlying().(*types.Struct)
	if !ok {
		return res
	}
	for _, ref := range *a.Referrers() {
		fa, ok := ref.(*ssa.FieldAddr)
		if !ok || fa.X != a {
			continue
		}
		for _, r2 := range *fa.Referrers() {
			if s, ok := r2.(*ssa.Store); ok && s.Addr == fa {
				res[core.FieldLabel(st, fa.Field)] = append(res[core.FieldLabel(st, fa.Field)], s.Val)
			}
		}
	}
	return res
}

// C19: third-party frames survive only for allow-listed services.
func C19(p *core.Program, r *core.Report) {
	r.Explanation = "H1: HasRootDomain's decision structure equals `parse the URL (after http: prefixing of scheme-relative values); false unless the scheme is http or https (what follows the // of a javascript: or data: URL is no host); host == root or host ends with \".\"+root` (decision-list conformance on the SSA of the function). H2: in every function of package embed, each construction of a webdoc.Embed is unreachable once the `true` edges of its HasRootDomain tests are removed (guard-cut), i.e. an embed is only produced for a URL that passed the host test. H3: the constant root arguments are exactly the documented allow-list and are paired with the matching Type literal; the id is computed from the same URL value that was tested. H5: Embed.GenerateOutput builds the placeholder as a DOM element whose data-type/data-id attributes are the embed's Type/ID and serialises it with dom.OuterHTML (escaping by the serializer). H4: iframe/object/embed fall into converter switch clauses that return false without StartNode, so an unrecognised frame is dropped. H3 also: the value handed to the host test is the element's own address (src; data or <param name=movie> of an object; href of an anchor of a tweet). H9: the attribute allow-list of the output does not contain srcdoc. H10: no frame can come into being out of text when Apply parses the output again (C05-S4 shared). H11: the address tested is resolved against the page URL the caller supplied, never against an address the page declares about itself (C06-U6 shared). H7: on every decision path of the three extractors that stores a placeholder ID, the value is strings.TrimSpace of an element of strings.Split(parsed.Path, slash) with parsed = url.Parse(...) (fragment-aware) taken in a scan from the last segment backwards and decided non-empty (and not the keyword embed/video), or the data-tweet-id attribute of a rendered tweet decided non-empty. H8: on every path of Embed.GenerateOutput to the AppendChild of the processed clone, a loop over the clone's iframe/object/embed descendants is passed whose iterations detach every such element except the clone itself (frames nested in a tweet's blockquote are not carried into the placeholder). H6: the only wholesale copies of source elements outside tables/captions/embeds are Image/Figure elements, and what the image extractor stores there is pruned to img/source (shared with C04-V2/C05-S3), so no frame can ride along inside a picture."
	r.NotCovered = "parsing of ids/params from path and query (string-valued behaviour), net/url's own host parsing, what surrounds the placeholder (C05/C09)."

	// H1
	hrd := mustInl(p, r, "H1", hasRootDomainKey)
	if hrd != nil {
		opts := core.DecisionOpts{Outcome: func(in ssa.Instruction, c *core.Canon) (string, bool) {
			if ret, ok := in.(*ssa.Return); ok {
				return "return " + c.Of(ret.Results[0]), true
			}
			return "", false
		}}
		paths, atoms, err := core.EnumerateDecisions(p, hrd, opts)
		if err != nil {
			r.Undecided("H1", "HasRootDomain", err.Error())
		}
		u := `url.ParseRequestURI(μ($0|("http:" + $0)))`
		spec := core.DecisionSpec{
			Atoms: map[string]string{
				"url.empty":   q(`$0 == ""`),
				"root.empty":  q(`$1 == ""`),
				"scheme.rel":  q(`strings.HasPrefix($0,"//")`),
				"parse.ok":    q(u + `#1 == nil`),
				"host.isroot": q(`$1 == ` + u + `#0.Host`),
				"http":        q(u + `#0.Scheme == "http"`),
				"https":       q(u + `#0.Scheme == "https"`),
			},
			Rules: []core.SpecRule{
				{Name: "empty url", Guard: core.A("url.empty"), Outcome: "return false"},
				{Name: "empty root", Guard: core.A("root.empty"), Outcome: "return false"},
				{Name: "unparseable", Guard: core.And(core.Or(core.A("scheme.rel"), core.Not(core.A("scheme.rel"))), core.Not(core.A("parse.ok"))), Outcome: "return false"},
				{Name: "not fetched from a host (scheme other than http/https)", Guard: core.And(core.Not(core.A("http")), core.Not(core.A("https"))), Outcome: "return false"},
				{Name: "host equals root", Guard: core.A("host.isroot"), Outcome: "return true"},
				{Name: "host is a subdomain of root", Guard: core.True(), Outcome: `return strings.HasSuffix(` + u + `#0.Host,("." + $1))`},
			},
			// net/url refuses the empty string ("empty url"), and "" does not start with "//": a separate
			// test for the empty URL is redundant
			Excl: [][2]string{{"url.empty", "parse.ok"}, {"url.empty", "scheme.rel"}},
		}
		core.CheckDecisionList(r, "H1", "HasRootDomain", paths, atoms, spec)
		r.Floor("H1-path", 6)
	}

	// H2/H3: extractor functions
	embedPkg := p.SSAPkgs[core.ExpandKey("mod/internal/extractor/embed")]
	if embedPkg == nil {
		r.Undecided("H2", "package embed", "package not found")
		return
	}
	wantRoots := map[string][]string{
		"youtube": {"youtube-nocookie.com", "youtube.com"},
		"vimeo":   {"player.vimeo.com"},
		"twitter": {"twitter.com"},
	}
	seenTypes := map[string]bool{}
	allRoots := map[string]bool{}
	nEmbeds := 0
	testedForms := map[string]bool{}
	// Decided on the decision paths of every analysis unit of package embed that builds a
	// webdoc.Embed (helpers expanded, loops over fixed tables of roots unrolled): a path that
	// stores the Type of an embed carries a HasRootDomain test that came out true.
	reHRD := regexp.MustCompile(`^domutil\.HasRootDomain\((.*),("(?:[^"\\]|\\.)*"|[^,]*)\)$`)
	for _, u := range units(p) {
		if core.FnPkgPath(p.Original(u)) != embedPkg.Pkg.Path() || len(allocsOf(u, "/internal/webdoc", "Embed")) == 0 {
			continue
		}
		nEmbeds += len(allocsOf(u, "/internal/webdoc", "Embed"))
		name := unitName(p, u)
		paths, _, err := core.EnumerateDecisions(p, u, core.DecisionOpts{ResolvePhis: true,
			Outcome: func(in ssa.Instruction, c *core.Canon) (string, bool) {
				if _, ok := in.(*ssa.Return); ok {
					return "return", true
				}
				return "", false
			},
			Event: func(in ssa.Instruction, c *core.Canon) (string, bool) {
				if st, ok := in.(*ssa.Store); ok {
					addr := c.Of(st.Addr)
					for _, f := range []string{"Type", "ID", "Element"} {
						if strings.HasSuffix(addr, "webdoc.Embed)."+f) {
							return f + "=" + c.Of(st.Val), true
						}
					}
				}
				return "", false
			}})
		if err != nil {
			r.Undecided("H2", name, err.Error())
			continue
		}
		nBuild := 0
		var badGate, badPair, badID, badElem, badSrc []string
		byType := map[string]map[string]bool{}
		for _, pa := range paths {
			fields := map[string]string{}
			for _, ev := range pathEvents(pa) {
				if i := strings.Index(ev, "="); i > 0 {
					fields[ev[:i]] = ev[i+1:]
				}
			}
			tpq, builds := fields["Type"]
			if !builds {
				continue
			}
			nBuild++
			tp, _ := strconv.Unquote(tpq)
			var tested, roots []string
			for _, l := range pa.Lits {
				if m := reHRD.FindStringSubmatch(l.Atom); m != nil && l.Val {
					tested = append(tested, m[1])
					roots = append(roots, m[2])
				}
			}
			if len(tested) == 0 {
				badGate = append(badGate, pa.String())
				continue
			}
			want, known := wantRoots[tp]
			pairOK := known
			for _, rt := range roots {
				s, err := strconv.Unquote(rt)
				if err != nil {
					pairOK = false // the root that was tested is not a constant on this path
					continue
				}
				allRoots[s] = true
				if byType[tp] == nil {
					byType[tp] = map[string]bool{}
				}
				byType[tp][s] = true
				found := false
				for _, w := range want {
					found = found || w == s
				}
				pairOK = pairOK && found
			}
			if !pairOK {
				badPair = append(badPair, fmt.Sprintf("Type=%s after a test for %v: %s", tpq, roots, pa.String()))
			}
			seenTypes[tp] = true
			for _, t := range tested {
				testedForms[name+": "+t] = true
				if strings.Contains(t, "dom.GetAttribute(nil,") {
					continue // the merge of a helper's nil answer, taken on a path that tested it non-nil: infeasible
				}
				if !isFrameAddress(t) {
					badSrc = append(badSrc, "tested: "+t)
				}
			}
			// the id is derived from the URL that was tested (or, for a rendered tweet, from an
			// attribute of the frame whose src was tested)
			idOK := false
			for _, t := range tested {
				if strings.Contains(fields["ID"], t) {
					idOK = true
				}
				if strings.HasPrefix(fields["ID"], "dom.GetAttribute($1,") && strings.HasPrefix(t, "dom.GetAttribute($1,") {
					idOK = true
				}
			}
			if !idOK {
				badID = append(badID, fmt.Sprintf("ID=%s tested=%v", fields["ID"], tested))
			}
			if fields["Element"] != "$1" {
				badElem = append(badElem, "Element="+fields["Element"])
			}
		}
		first := func(xs []string) []string {
			if len(xs) > 2 {
				return xs[:2]
			}
			return xs
		}
		pos := p.Pos(u.Pos())
		r.Add("H2", name+": every path that builds a webdoc.Embed passed a HasRootDomain test", pos, nBuild > 0 && len(badGate) == 0,
			fmt.Sprintf("%d decision paths build an embed, %d of them without a host test that came out true", nBuild, len(badGate)), first(badGate)...)
		r.Add("H3", name+": type/root pairing", pos, len(badPair) == 0, fmt.Sprintf("%d paths pair a Type with a root outside its documented list", len(badPair)), first(badPair)...)
		for tp, rs := range byType {
			r.Add("H3", name+": roots accepted for "+tp, pos, sameSet(keys(rs), wantRoots[tp]), fmt.Sprintf("accepted=%v documented=%v", sortedKeys(rs), wantRoots[tp]))
		}
		r.Add("H3", name+": id from tested URL", pos, len(badID) == 0, fmt.Sprintf("%d paths", len(badID)), first(badID)...)
		r.Add("H3", name+": the tested URL is the element's own address (src; data or <param name=movie> of an object; href of an anchor of a tweet)", pos, len(badSrc) == 0, fmt.Sprintf("%d paths", len(badSrc)), first(badSrc)...)
		r.Add("H3", name+": element is the tested node", pos, len(badElem) == 0, fmt.Sprintf("%d paths", len(badElem)), first(badElem)...)
	}
	r.Floor("H2", 3)
	for tp := range wantRoots {
		r.Add("H3", "service "+tp+" has an extractor", "", seenTypes[tp], "")
	}
	var ar []string
	for s := range allRoots {
		ar = append(ar, s)
	}
	sort.Strings(ar)
	r.Stats["tested_url_values"] = sortedKeys(testedForms)

	// H10: no frame can come into being out of text when Apply parses the output again (shared with C05-S4)
	checkLiteralTextRoundTrip(p, r, "H10")
	// H11: a relative frame address is resolved against the page URL the caller supplied and
	// nothing else - not an address the page declares about itself (canonical link, og:url,
	// base), which would let a page put its frames on an allow-listed host (C06-U6 shared)
	checkExtractorGetsCallerURL(p, r, "H11")

	// H9: a frame that survives (a rendered tweet inside its placeholder, a frame in a retained
	// table) shows what its src names only if it has no srcdoc: the attribute allow-list of the
	// output must not let srcdoc through. The list is found by content (the one fixed table of
	// package domutil that holds href, src and alt).
	if dp := p.SSAPkgs[core.ExpandKey(domutilPkg)]; dp != nil {
		n := 0
		for _, mem := range dp.Members {
			g, ok := mem.(*ssa.Global)
			if !ok {
				continue
			}
			tbl, ok := p.GlobalConst(g)
			if !ok {
				continue
			}
			have := map[string]bool{}
			for _, k := range tableKeys(tbl) {
				have[k] = true
			}
			if !(have["href"] && have["src"] && have["alt"]) {
				continue
			}
			n++
			r.Add("H9", "the attribute allow-list of the output does not let srcdoc through", p.Pos(g.Pos()), !have["srcdoc"], fmt.Sprintf("%d allowed attributes", len(have)))
		}
		if n == 0 {
			r.Undecided("H9", "the attribute allow-list", "no fixed table of package domutil holds href, src and alt")
		}
	}
	r.Add("H3", "allow-list of root domains", "", sameSet(ar, []string{"player.vimeo.com", "twitter.com", "youtube-nocookie.com", "youtube.com"}), fmt.Sprintf("roots tested anywhere in package embed: %v", ar))
	r.Stats["embed_constructions"] = nEmbeds

	// no other package constructs webdoc.Embed
	for _, fn := range p.ModFunctions(false) {
		if core.FnPkgPath(fn) == embedPkg.Pkg.Path() {
			continue
		}
		for _, a := range allocsOf(fn, "/internal/webdoc", "Embed") {
			r.Add("H2", core.ShortKey(fn)+": webdoc.Embed built outside package embed", p.Pos(a.Pos()), false, "embed placeholders may only be created by the extractors that test the host")
		}
	}

	// H5: the placeholder carries exactly the extracted type and id: it is built as a DOM element
	// (attributes set through dom.SetAttribute, so the serializer escapes them) and serialised
	// with dom.OuterHTML.
	if gen := mustInl(p, r, "H5", "(*mod/internal/webdoc.Embed).GenerateOutput"); gen != nil {
		c := core.NewCanon(p)
		div := `dom.CreateElement("div")`
		attrs := map[string]string{}
		for _, call := range core.Calls(gen, func(ci ssa.CallInstruction) bool { return core.IsCallTo(ci, "github.com/go-shiori/dom.SetAttribute") }) {
			a := call.Common().Args
			if c.Of(a[0]) == div {
				if k, ok := core.ConstString(a[1]); ok {
					attrs[k] = c.Of(a[2])
				}
			}
		}
		r.Add("H5", "placeholder data-type is the embed's Type", p.Pos(gen.Pos()), attrs["data-type"] == "$0.Type", "data-type = "+attrs["data-type"])
		r.Add("H5", "placeholder data-id is the embed's ID", p.Pos(gen.Pos()), attrs["data-id"] == "$0.ID", "data-id = "+attrs["data-id"])
		for _, ret := range core.Returns(gen) {
			v := c.Of(ret.Results[0])
			ok := v == `""` || v == "dom.OuterHTML("+div+")"
			r.Add("H5", "placeholder is serialised from the DOM element", p.Pos(ret.Pos()), ok, "returns "+v)
		}
	}

	// H4: converter skip clauses
	tbl := converterSwitch(p, r, "H4")
	if tbl != nil {
		for _, tag := range []string{"iframe", "object", "embed"} {
			cl := tbl.For(tag)
			ok := cl.Paths > 0 && cl.AlwaysReturnsFalse && !cl.Calls["StartNode"]
			r.Add("H4", "converter: "+tag+" is dropped when not extracted", tbl.Pos, ok, cl.Describe())
			// and it is offered to the extractors before being dropped
			offered := false
			for _, pa := range consistentWith(tbl.vm.paths, "dom.TagName($1)", tag) {
				for _, ev := range builderCalls(pa) {
					if strings.HasPrefix(ev, "AddEmbed(") {
						offered = true
					}
				}
			}
			r.Add("H4", "converter: "+tag+" is offered to the embed extractors before it is dropped", tbl.Pos, offered, "some decision path for the tag hands an extracted embed to the builder")
		}
	}
	// ---- H6
	checkPicturePruning(p, r, "H6")
	// ---- H8: the element put into a placeholder is the frame/blockquote its extractor checked;
	// frames nested in it were checked by nobody. Embed.GenerateOutput must take them out of the
	// clone before the clone enters the placeholder: on every path to the AppendChild of the
	// clone a loop over the clone's iframe/object/embed descendants is passed, and one iteration
	// of that loop detaches the element unless it is the clone itself.
	if eg := mustInl(p, r, "H8", "(*"+webdocPkg+".Embed).GenerateOutput"); eg != nil {
		cn := core.NewCanon(p)
		loops := findPruneLoops(eg)
		nApp := 0
		for _, call := range core.Calls(eg, func(ci ssa.CallInstruction) bool {
			return core.IsCallTo(ci, "github.com/go-shiori/dom.AppendChild", "(*golang.org/x/net/html.Node).AppendChild")
		}) {
			args := call.Common().Args
			child := core.StripConv(args[len(args)-1])
			// the clone itself, or the answer of an expanded helper that hands back the clone or
			// nil (the nil alternative never reaches the append: it is tested away, and the edges
			// that bring nil into the merge are left out of the path condition)
			cut := core.EdgeSet{}
			if ph, isPhi := child.(*ssa.Phi); isPhi {
				var clone ssa.Value
				okPhi := true
				for i, e := range ph.Edges {
					e = core.StripConv(e)
					switch {
					case core.IsNilConst(e):
						pred := ph.Block().Preds[i]
						for k, s := range pred.Succs {
							if s == ph.Block() {
								cut[core.Edge{From: pred, K: k}] = true
							}
						}
					case clone == nil || clone == e:
						clone = e
					default:
						okPhi = false
					}
				}
				if okPhi && clone != nil {
					child = clone
				}
			}
			if !core.IsCallValue(domutilPkg+".CloneAndProcessTree", domutilPkg+".CloneAndProcessList")(child) {
				continue
			}
			nApp++
			headers := map[ssa.Instruction]bool{}
			for _, pl := range loops {
				if pl.picture == child && pl.sibling == nil && len(pl.loop.Header.Instrs) > 0 && frameSelector(pl) {
					headers[pl.loop.Header.Instrs[0]] = true
				}
			}
			ok, w := core.MustPassThrough(eg, call, func(in ssa.Instruction) bool { return headers[in] }, cut)
			r.Add("H8", "frames nested in the embedded element are removed before it enters the placeholder", p.Pos(call.Pos()), ok && len(headers) > 0,
				fmt.Sprintf("%d loops over the iframe/object/embed descendants of the clone", len(headers)), w...)
		}
		r.Add("H8", "the embedded element enters the placeholder as a processed clone", p.Pos(eg.Pos()), nApp >= 1, fmt.Sprintf("%d AppendChild calls with a CloneAndProcessTree result", nApp))
		for i, pl := range loops {
			if !frameSelector(pl) {
				continue
			}
			root := cn.Of(pl.picture)
			paths, _, err := core.EnumerateDecisions(p, eg, core.DecisionOpts{IterateAt: pl.loop.Header, ExitOutcome: "exit", Outcome: noOutcome,
				Event: func(in ssa.Instruction, c *core.Canon) (string, bool) {
					if ci, ok := in.(ssa.CallInstruction); ok && core.IsCallTo(ci, detachKeys...) {
						return "detach " + c.Of(removedNode(ci)), true
					}
					return "", false
				}})
			if err != nil {
				r.Undecided("H8", fmt.Sprintf("frame loop #%d", i+1), err.Error())
				continue
			}
			n, bad := 0, 0
			var wit []string
			for _, pa := range paths {
				if !strings.Contains(pa.Outcome, "next(") {
					continue
				}
				n++
				if len(pathEvents(pa)) == 1 {
					continue
				}
				// kept: only the clone itself (or a node already detached together with an outer frame)
				kept := false
				for _, l := range pa.Lits {
					if (strings.HasSuffix(l.Atom, " == "+root) || strings.HasPrefix(l.Atom, root+" == ")) && l.Val {
						kept = true
					}
					if strings.HasSuffix(l.Atom, ".Parent == nil") && l.Val {
						kept = true
					}
				}
				if !kept {
					bad++
					if len(wit) < 2 {
						wit = append(wit, pa.String())
					}
				}
			}
			r.Add("H8", fmt.Sprintf("frame loop #%d detaches every nested frame", i+1), p.Pos(pl.loop.Header.Instrs[0].Pos()), n > 0 && bad == 0, fmt.Sprintf("%d iteration paths, %d keep a frame that is not the clone itself", n, bad), wit...)
		}
	}
	// ---- H7: the id of a placeholder is the last non-empty path segment of the tested URL
	// (not "embed"/"video"), or the tweet id attribute of a rendered tweet. Decision paths of each
	// extractor's Extract with its helpers expanded; the stored ID is rendered per path. The path is
	// that of the URL parsed as a URL reference (url.Parse): url.ParseRequestURI, documented to assume
	// no fragment, leaves "#t=30" in the last segment and makes segments of a fragment.
	reSeg := regexp.MustCompile(`^strings\.TrimSpace\(elem\(strings\.Split\(url\.Parse\(.*\)#0\.Path,"/"\)\)\)$`)
	// the scan starts at the last segment: the loop test is on an index that starts at len-1 and counts down
	reLast := regexp.MustCompile(`^loop\d+\((μ\(\(@0 - 1\)\|)?\(len\(strings\.Split\(url\.Parse\(.*\)#0\.Path,"/"\)\) - 1\)\)? <= -1\)$`)
	for _, ex := range []struct{ typ, skip string }{{"YouTubeExtractor", "embed"}, {"VimeoExtractor", "video"}, {"TwitterExtractor", ""}} {
		fn := mustInl(p, r, "H7", "(*mod/internal/extractor/embed."+ex.typ+").Extract")
		if fn == nil {
			continue
		}
		paths, _, err := core.EnumerateDecisions(p, fn, core.DecisionOpts{ResolvePhis: true,
			Outcome: func(in ssa.Instruction, c *core.Canon) (string, bool) {
				if _, ok := in.(*ssa.Return); ok {
					return "return", true
				}
				return "", false
			},
			Event: func(in ssa.Instruction, c *core.Canon) (string, bool) {
				if st, ok := in.(*ssa.Store); ok && strings.HasSuffix(c.Of(st.Addr), "webdoc.Embed).ID") {
					return "id=" + c.Of(st.Val), true
				}
				return "", false
			}})
		if err != nil {
			r.Undecided("H7", ex.typ+".Extract", err.Error())
			continue
		}
		n, bad := 0, 0
		var wit []string
		for _, pa := range paths {
			for _, ev := range pathEvents(pa) {
				if !strings.HasPrefix(ev, "id=") {
					continue
				}
				v := strings.TrimPrefix(ev, "id=")
				if v == `""` && litOf(pa, `"" == ""`) == -1 {
					continue // infeasible: the empty id was tested to be non-empty
				}
				n++
				ok := litOf(pa, v+` == ""`) == -1
				switch {
				case reSeg.MatchString(v):
					if ex.skip != "" && litOf(pa, v+` == "`+ex.skip+`"`) != -1 {
						ok = false
					}
					// scanned from the last segment backwards
					last := false
					for _, l := range pa.Lits {
						if reLast.MatchString(l.Atom) {
							last = true
						}
					}
					ok = ok && last
				case ex.typ == "TwitterExtractor" && v == `dom.GetAttribute($1,"data-tweet-id")`:
				default:
					ok = false
				}
				if !ok {
					bad++
					if len(wit) < 2 {
						wit = append(wit, pa.String())
					}
				}
			}
		}
		r.Add("H7", ex.typ+": the id is the last non-empty path segment of the URL (parsed fragment-aware, with url.Parse)", p.Pos(fn.Pos()), n > 0 && bad == 0,
			fmt.Sprintf("%d decision paths store an ID, %d of them with a value of another shape or without the non-empty/keyword tests", n, bad), wit...)
	}
}

// frameSelector reports whether the loop ranges over a QuerySelectorAll/GetElementsByTagName
// snapshot whose constant selector names iframe, object and embed.
func frameSelector(pl *pruneLoop) bool {
	for b := range pl.loop.Body {
		for _, in := range b.Instrs {
			ia, ok := in.(*ssa.IndexAddr)
			if !ok {
				continue
			}
			call, ok := core.StripConv(ia.X).(*ssa.Call)
			if !ok || len(call.Call.Args) < 2 {
				continue
			}
			sel, isC := core.ConstString(call.Call.Args[1])
			if !isC {
				continue
			}
			has := map[string]bool{}
			for _, s := range strings.Split(sel, ",") {
				has[strings.TrimSpace(s)] = true
			}
			if has["iframe"] && has["object"] && has["embed"] {
				return true
			}
		}
	}
	return false
}

func sortedKeys(m map[string]bool) []string {
	out := keys(m)
	sort.Strings(out)
	return out
}

// isFrameAddress: the value handed to the host test is, apart from being made absolute and the
// reviewed "&"->"?" repair, exactly one attribute read: the element's src or data, the value of
// its <param name="movie">, or the href of an anchor inside it (tweets).
func isFrameAddress(t string) bool {
	t = strings.TrimSuffix(strings.TrimPrefix(t, "stringutil.CreateAbsoluteURL("), ",$0.PageURL)")
	t = strings.TrimSuffix(strings.TrimPrefix(t, "strings.Replace("), `,"&","?",1)`)
	switch t {
	case `dom.GetAttribute($1,"src")`, `dom.GetAttribute($1,"data")`,
		`dom.GetAttribute(dom.QuerySelector($1,"param[name=\"movie\"]"),"value")`,
		`dom.GetAttribute(elem(dom.GetElementsByTagName($1,"a")),"href")`:
		return true
	}
	return false
}
