package props

import (
	"regexp"
	"strings"

	"ddcheck/core"

	"golang.org/x/tools/go/ssa"
)

// q quotes a canonical atom for exact matching.
func q(s string) string { return "^" + regexp.QuoteMeta(s) + "$" }

// qw quotes s but lets "…" stand for any text.
func qw(s string) string {
	parts := strings.Split(s, "…")
	for i := range parts {
		parts[i] = regexp.QuoteMeta(parts[i])
	}
	return "^" + strings.Join(parts, ".*") + "$"
}

// mustFunc resolves an anchor function or records an undecided obligation.
func mustFunc(p *core.Program, r *core.Report, rule, key string) *ssa.Function {
	fn := p.Func(key)
	if fn == nil || fn.Blocks == nil {
		r.Undecided(rule, "anchor "+key, "anchor function not found in the program (renamed or removed); the rule cannot be evaluated")
		return nil
	}
	return fn
}

func argsCanon(c *core.Canon, call ssa.CallInstruction, from int) string {
	var s []string
	for i, a := range call.Common().Args {
		if i >= from {
			s = append(s, c.Of(a))
		}
	}
	return strings.Join(s, ",")
}

func sameSet(a, b []string) bool {
	if len(a) != len(b) {
		return false
	}
	m := map[string]bool{}
	for _, x := range a {
		m[x] = true
	}
	for _, x := range b {
		if !m[x] {
			return false
		}
	}
	return true
}
