package props

import (
	"fmt"
	"go/types"
	"regexp"
	"sort"
	"strconv"
	"strings"

	"ddcheck/core"

	"golang.org/x/tools/go/ssa"
)

// q quotes a canonical atom for exact matching.
func q(s string) string { return "^" + regexp.QuoteMeta(s) + "$" }

// qw quotes s but lets "…" stand for any text.
func qw(s string) string {
	parts := strings.Split(s, "…")
	for i := range parts {
		parts[i] = regexp.QuoteMeta(parts[i])
	}
	return "^" + strings.Join(parts, ".*") + "$"
}

// mustFunc resolves an anchor function or records an undecided obligation.
func mustFunc(p *core.Program, r *core.Report, rule, key string) *ssa.Function {
	fn := p.Func(key)
	if fn == nil || fn.Blocks == nil {
		r.Undecided(rule, "anchor "+key, "anchor function not found in the program (renamed or removed); the rule cannot be evaluated")
		return nil
	}
	return fn
}

func argsCanon(c *core.Canon, call ssa.CallInstruction, from int) string {
	var s []string
	for i, a := range call.Common().Args {
		if i >= from {
			s = append(s, c.Of(a))
		}
	}
	return strings.Join(s, ",")
}

func sameSet(a, b []string) bool {
	if len(a) != len(b) {
		return false
	}
	m := map[string]bool{}
	for _, x := range a {
		m[x] = true
	}
	for _, x := range b {
		if !m[x] {
			return false
		}
	}
	return true
}

// funcValueTarget resolves a function-typed SSA value (a function, a closure, a bound method
// value) to the function that will run.
func funcValueTarget(v ssa.Value) *ssa.Function {
	switch x := core.StripConv(v).(type) {
	case *ssa.Function:
		return boundTarget(x)
	case *ssa.MakeClosure:
		if f, ok := x.Fn.(*ssa.Function); ok {
			return boundTarget(f)
		}
	}
	return nil
}

// boundTarget: for a synthetic bound-method wrapper (x.m as a value) the wrapped method.
func boundTarget(f *ssa.Function) *ssa.Function {
	if f == nil || f.Synthetic == "" || len(f.Blocks) != 1 {
		return f
	}
	for _, in := range f.Blocks[0].Instrs {
		if c, ok := in.(*ssa.Call); ok {
			if callee := c.Call.StaticCallee(); callee != nil {
				return callee
			}
		}
	}
	return f
}

// walkHandlers returns the inlined visit and exit callbacks that DomConverter.Convert hands to
// WalkNodes, whatever they are called.
func walkHandlers(p *core.Program, r *core.Report, rule string) (visit, exit *ssa.Function) {
	conv := mustFunc(p, r, rule, "(*"+converterPkg+".DomConverter).Convert")
	if conv == nil {
		return nil, nil
	}
	conv = p.Inlined(conv)
	walks := core.Calls(conv, func(ci ssa.CallInstruction) bool { return core.IsCallTo(ci, "mod/internal/domutil.WalkNodes") })
	if len(walks) != 1 || len(walks[0].Common().Args) != 3 {
		r.Undecided(rule, "Convert walks the clone once", fmt.Sprintf("expected one WalkNodes(root, visit, exit) call in Convert, found %d", len(walks)))
		return nil, nil
	}
	v := funcValueTarget(walks[0].Common().Args[1])
	e := funcValueTarget(walks[0].Common().Args[2])
	if v == nil || e == nil || len(v.Blocks) == 0 || len(e.Blocks) == 0 {
		r.Undecided(rule, "Convert's walk callbacks", "the visit/exit callbacks handed to WalkNodes cannot be resolved to functions")
		return nil, nil
	}
	return p.Inlined(v), p.Inlined(e)
}

// inRegion reports whether fn is root or one of the helpers expanded into it.
func inRegion(p *core.Program, root, fn *ssa.Function) bool {
	for _, f := range p.Region(root) {
		if f == p.Original(fn) {
			return true
		}
	}
	return false
}

// instrsOf lists the instructions of fn in block order.
func instrsOf(fn *ssa.Function) []ssa.Instruction {
	var out []ssa.Instruction
	for _, b := range fn.Blocks {
		out = append(out, b.Instrs...)
	}
	return out
}

// mustInl resolves an anchor function and returns its inlined clone (unexported helpers expanded).
func mustInl(p *core.Program, r *core.Report, rule, key string) *ssa.Function {
	fn := mustFunc(p, r, rule, key)
	if fn == nil {
		return nil
	}
	return p.Inlined(fn)
}

// litAbout evaluates a literal that tests `subject` against constants - `subject == "x"`, or the
// membership `in(set‹..›,subject)` / `in(map‹..›,subject)` in a fixed private table - for the
// case that the subject has the value val. relevant is false for any other literal.
func litAbout(l core.Lit, subject, val string) (relevant, holds bool) {
	pre := subject + ` == "`
	if strings.HasPrefix(l.Atom, pre) && strings.HasSuffix(l.Atom, `"`) {
		x := strings.TrimSuffix(strings.TrimPrefix(l.Atom, pre), `"`)
		return true, l.Val == (x == val)
	}
	if strings.HasPrefix(l.Atom, "in(") && strings.HasSuffix(l.Atom, ","+subject+")") {
		table := strings.TrimSuffix(strings.TrimPrefix(l.Atom, "in("), ","+subject+")")
		if strings.HasPrefix(table, "set‹") || strings.HasPrefix(table, "map‹") {
			member := false
			for _, k := range tableKeys(table) {
				if k == val {
					member = true
				}
			}
			return true, l.Val == member
		}
	}
	return false, false
}

// consistentWith selects the decision paths on which every test of the subject against constants
// (equalities, membership in fixed tables) has the value it has when the subject is val: an
// if/switch/table-free way of asking "what happens for val".
func consistentWith(paths []core.DecisionPath, subject, val string) []core.DecisionPath {
	var out []core.DecisionPath
	for _, pa := range paths {
		ok := true
		for _, l := range pa.Lits {
			if rel, holds := litAbout(l, subject, val); rel && !holds {
				ok = false
			}
		}
		if ok {
			out = append(out, pa)
		}
	}
	return out
}

// returnPaths enumerates the decision paths of fn with `return <canonical results>` outcomes.
func returnPaths(p *core.Program, fn *ssa.Function, max int) ([]core.DecisionPath, map[string]bool, error) {
	return core.EnumerateDecisions(p, fn, core.DecisionOpts{MaxPaths: max, Outcome: func(in ssa.Instruction, c *core.Canon) (string, bool) {
		if ret, ok := in.(*ssa.Return); ok {
			var s []string
			for _, x := range ret.Results {
				s = append(s, c.Of(x))
			}
			return "return " + strings.Join(s, ","), true
		}
		return "", false
	}})
}

// closuresOf lists the anonymous functions created in fn (MakeClosure or plain function values).
func closuresOf(fn *ssa.Function) []*ssa.Function {
	var out []*ssa.Function
	seen := map[*ssa.Function]bool{}
	for _, in := range instrsOf(fn) {
		for _, op := range in.Operands(nil) {
			if *op == nil {
				continue
			}
			var f *ssa.Function
			switch x := (*op).(type) {
			case *ssa.MakeClosure:
				f, _ = x.Fn.(*ssa.Function)
			case *ssa.Function:
				if x.Parent() != nil {
					f = x
				}
			}
			if f != nil && !seen[f] {
				seen[f] = true
				out = append(out, f)
			}
		}
		if mc, ok := in.(*ssa.MakeClosure); ok {
			if f, ok := mc.Fn.(*ssa.Function); ok && !seen[f] {
				seen[f] = true
				out = append(out, f)
			}
		}
	}
	return out
}

// flowsToReturn reports whether the value can reach a returned value of its function through
// copies, phis, appends, slices, conversions and stores into local arrays/variables.
func flowsToReturn(v ssa.Value) bool {
	seen := map[ssa.Value]bool{}
	var rec func(x ssa.Value) bool
	rec = func(x ssa.Value) bool {
		if x == nil || seen[x] {
			return false
		}
		seen[x] = true
		refs := x.Referrers()
		if refs == nil {
			return false
		}
		for _, ref := range *refs {
			switch y := ref.(type) {
			case *ssa.Return:
				return true
			case *ssa.Store:
				if y.Val == x {
					// into a local array slot or variable: follow the base allocation
					base := y.Addr
					for {
						switch b := base.(type) {
						case *ssa.IndexAddr:
							base = b.X
							continue
						case *ssa.FieldAddr:
							base = b.X
							continue
						}
						break
					}
					if al, ok := base.(*ssa.Alloc); ok && rec(al) {
						return true
					}
				}
			case *ssa.Call:
				if b, ok := y.Call.Value.(*ssa.Builtin); ok && (b.Name() == "append" || b.Name() == "copy") {
					if rec(y) {
						return true
					}
				}
			case *ssa.Phi, *ssa.Slice, *ssa.Convert, *ssa.ChangeType, *ssa.MakeInterface, *ssa.UnOp, *ssa.Extract, *ssa.IndexAddr, *ssa.Index, *ssa.Lookup, *ssa.Next, *ssa.Range:
				if rec(y.(ssa.Value)) {
					return true
				}
			}
		}
		return false
	}
	return rec(v)
}

// units returns the analysis units of the module: every module function that is not an
// unexported helper, with its unexported helpers expanded. Rules that scan "all module code" for a
// local pattern scan the units, so that a site inside a helper is judged in the context of its
// callers and extracting/inlining/renaming helpers neither moves nor renames a site.
func units(p *core.Program) []*ssa.Function {
	if us, ok := unitCache[p]; ok {
		return us
	}
	var us []*ssa.Function
	covered := map[*ssa.Function]bool{}
	add := func(fn *ssa.Function) {
		u := p.Inlined(fn)
		us = append(us, u)
		for _, f := range p.Region(u) {
			covered[f] = true
		}
	}
	for _, fn := range p.ModFunctions(false) {
		if !core.Transparent(fn) {
			add(fn)
		}
	}
	// unexported helpers that no unit expands (only used as function values, e.g. the walk
	// callbacks of the converter, or not called at all) are units of their own
	called := map[*ssa.Function]bool{} // statically called from module code
	for _, fn := range p.ModFunctions(false) {
		for _, in := range instrsOf(fn) {
			if ci, ok := in.(ssa.CallInstruction); ok {
				if callee := ci.Common().StaticCallee(); callee != nil && callee != fn {
					called[callee] = true
				}
			}
		}
	}
	for _, fn := range p.ModFunctions(false) {
		if !covered[fn] && !called[fn] {
			add(fn)
		}
	}
	for _, fn := range p.ModFunctions(false) {
		if !covered[fn] {
			add(fn)
		}
	}
	unitCache[p] = us
	// closures are named after the unit whose expanded body creates them
	names := map[*ssa.Function]string{}
	for _, u := range us {
		if p.Original(u).Parent() != nil {
			continue
		}
		for k, cl := range closuresOf(u) {
			if _, ok := names[cl]; !ok {
				names[cl] = fmt.Sprintf("%s/closure#%d", core.ShortKey(u), k+1)
			}
		}
	}
	for changed := true; changed; {
		changed = false
		for _, u := range us {
			o := p.Original(u)
			if o.Parent() == nil {
				continue
			}
			if base, ok := names[o]; ok {
				for k, cl := range closuresOf(u) {
					if _, ok := names[cl]; !ok {
						names[cl] = fmt.Sprintf("%s/closure#%d", base, k+1)
						changed = true
					}
				}
			}
		}
	}
	unitNames[p] = names
	return us
}

var unitCache = map[*core.Program][]*ssa.Function{}
var unitNames = map[*core.Program]map[*ssa.Function]string{}

// unitName names an analysis unit (closures by their creating unit).
func unitName(p *core.Program, fn *ssa.Function) string {
	units(p)
	o := p.Original(fn)
	if n, ok := unitNames[p][o]; ok {
		return n
	}
	// an unexported function that is a unit of its own (a recursive helper, a helper only used
	// as a function value) is named by its receiver and signature: its identifier is private
	if o.Parent() == nil && o.Object() != nil && !o.Object().Exported() && o.Name() != "init" {
		qual := func(pk *types.Package) string { return pk.Name() }
		sig := o.Signature
		var ps []string
		for i := 0; i < sig.Params().Len(); i++ {
			ps = append(ps, types.TypeString(sig.Params().At(i).Type(), qual))
		}
		var rs []string
		for i := 0; i < sig.Results().Len(); i++ {
			rs = append(rs, types.TypeString(sig.Results().At(i).Type(), qual))
		}
		name := "‹func(" + strings.Join(ps, ",") + ")"
		if len(rs) > 0 {
			name += " " + strings.Join(rs, ",")
		}
		name += "›"
		full := core.ShortKey(o)
		return strings.TrimSuffix(full, o.Name()) + name
	}
	return core.ShortKey(fn)
}

// isSelfCall reports whether call, found in fn (or its inlined clone), re-enters fn: a static
// call to fn itself or - in a closure - a call of a function value of the closure's own signature
// (the `var f func(..); f = func(..){ .. f(..) .. }` idiom).
func isSelfCall(p *core.Program, fn *ssa.Function, call ssa.CallInstruction) bool {
	orig := p.Original(fn)
	if callee := call.Common().StaticCallee(); callee != nil {
		return p.Original(callee) == orig
	}
	if call.Common().IsInvoke() || orig.Parent() == nil {
		return false
	}
	sig, ok := call.Common().Value.Type().Underlying().(*types.Signature)
	return ok && types.Identical(sig, orig.Signature)
}

// recursiveWorkers lists the self-recursive helpers fn delegates to: closures created in fn and
// module functions called from fn (after expansion of unexported helpers) that call themselves.
// Rules about "the recursive collector of X" use this instead of naming a closure, so that turning
// the closure into a named function (or back) does not move the anchor.
func recursiveWorkers(p *core.Program, fn *ssa.Function) []*ssa.Function {
	var cands []*ssa.Function
	seen := map[*ssa.Function]bool{}
	add := func(f *ssa.Function) {
		if f == nil || len(f.Blocks) == 0 {
			return
		}
		f = p.Original(f)
		if !seen[f] {
			seen[f] = true
			cands = append(cands, f)
		}
	}
	inl := p.Inlined(fn)
	for _, f := range closuresOf(inl) {
		add(f)
	}
	for _, call := range core.Calls(inl, func(ci ssa.CallInstruction) bool { return true }) {
		if callee := call.Common().StaticCallee(); callee != nil && core.IsModPkg(core.FnPkgPath(callee)) {
			add(callee)
		}
	}
	var out []*ssa.Function
	for _, f := range cands {
		body := p.Inlined(f)
		rec := false
		for _, call := range core.Calls(body, func(ci ssa.CallInstruction) bool { return true }) {
			if isSelfCall(p, f, call) {
				rec = true
			}
		}
		if rec {
			out = append(out, f)
		}
	}
	return out
}

// paramIndexOfType returns the index (in fn.Params) of the first parameter whose type string is ts, or -1.
func paramIndexOfType(fn *ssa.Function, ts string) int {
	for i, pa := range fn.Params {
		if types.TypeString(pa.Type(), func(p *types.Package) string { return p.Name() }) == ts {
			return i
		}
	}
	return -1
}

var reQuoted = regexp.MustCompile(`"(?:[^"\\]|\\.)*"`)

// tableKeys returns the string keys/elements of a fixed private table rendered by content
// (set‹"a","b"›, map‹"a":1›, list‹"a","b"›); map values are dropped.
func tableKeys(s string) []string {
	i := strings.Index(s, "‹")
	if i < 0 || !strings.HasSuffix(s, "›") {
		return nil
	}
	isMap := strings.HasPrefix(s, "map‹")
	body := s[i+len("‹") : len(s)-len("›")]
	var out []string
	for _, m := range reQuoted.FindAllStringIndex(body, -1) {
		if isMap && (m[1] >= len(body) || body[m[1]] != ':') {
			continue // a string value, not a key
		}
		if k, err := strconv.Unquote(body[m[0]:m[1]]); err == nil {
			out = append(out, k)
		}
	}
	return out
}

// reviewed patterns of private package-level regular expressions; canonical forms name such a
// variable by its pattern (core.RxName), so a rule that mentions one of these also pins its text.
var (
	rxDisplay       = core.RxName(`(?i)(?:^|[\s;])display\s*:\s*([\w-]+)\s*(?:!\s*important\s*)?(?:;|$)`)
	rxVisibility    = core.RxName(`(?i)(?:^|[\s;])visibility\s*:\s*(:?hidden|collapse)`)
	rxTitleSep      = core.RxName(`(?i) [\|\-\\/>»] `)
	rxUnlikely      = core.RxName(`(?i)-ad-|ai2html|banner|breadcrumbs|combx|comment|community|cover-wrap|disqus|extra|footer|gdpr|header|legends|menu|related|remark|replies|rss|shoutbox|sidebar|skyscraper|social|sponsor|supplemental|ad-break|agegate|pagination|pager|popup|yom-remote`)
	rxOkMaybe       = core.RxName(`(?i)and|article|body|column|content|main|shadow`)
	unlikelyRoleSet = `set‹"alert","alertdialog","complementary","dialog","menu","menubar","navigation"›`
)

// substituteFlagParams rewrites the decision paths of a helper whose boolean parameters are
// precomputed facts: when every call of the helper in caller (helpers expanded) passes, for such
// a parameter, a condition over the helper's other arguments, the literal on the parameter is
// replaced by the literal on that condition (in the helper's own parameter names). A flag that
// different callers compute differently is left alone.
func substituteFlagParams(p *core.Program, helper, caller *ssa.Function, paths []core.DecisionPath, atoms map[string]bool) ([]core.DecisionPath, map[string]bool) {
	orig := p.Original(helper)
	c := core.NewCanon(p)
	type sub struct {
		atom string
		same bool // the flag is true exactly when the atom is true
	}
	subs := map[string]sub{}
	calls := core.Calls(caller, func(ci ssa.CallInstruction) bool {
		callee := ci.Common().StaticCallee()
		return callee != nil && p.Original(callee) == orig
	})
	for j, pa := range orig.Params {
		if bt, ok := pa.Type().Underlying().(*types.Basic); !ok || bt.Kind() != types.Bool || len(calls) == 0 {
			continue
		}
		var found *sub
		okAll := true
		for _, call := range calls {
			args := call.Common().Args
			if j >= len(args) {
				okAll = false
				break
			}
			atom, whenTrue := c.CondAtom(args[j])
			// into the helper's parameter names
			for i, a := range args {
				if i != j {
					if s := c.Of(a); len(s) > 1 {
						atom = strings.ReplaceAll(atom, s, fmt.Sprintf("$%d", i))
					}
				}
			}
			cur := sub{atom, whenTrue}
			if found != nil && *found != cur {
				okAll = false
			}
			found = &cur
		}
		if okAll && found != nil {
			subs[fmt.Sprintf("$%d", j)] = *found
		}
	}
	if len(subs) == 0 {
		return paths, atoms
	}
	newAtoms := map[string]bool{}
	for a := range atoms {
		if s, ok := subs[a]; ok {
			newAtoms[s.atom] = true
		} else {
			newAtoms[a] = true
		}
	}
	out := make([]core.DecisionPath, len(paths))
	for i, pa := range paths {
		np := pa
		np.Lits = nil
		for _, l := range pa.Lits {
			if s, ok := subs[l.Atom]; ok {
				np.Lits = append(np.Lits, core.Lit{Atom: s.atom, Val: l.Val == s.same})
			} else {
				np.Lits = append(np.Lits, l)
			}
		}
		out[i] = np
	}
	return out, newAtoms
}

// substituteFlagResults rewrites decision paths of a caller that test a boolean result `@role(..)#k`
// of a role helper handing back precomputed facts: when, on the helper's own decision paths, the
// k-th result is a constant that is true exactly when one condition A over the helper's node
// parameter holds (or exactly when it does not), the literal on the result is replaced by the
// literal on A with the caller's argument put in. Paths that become contradictory are dropped.
func substituteFlagResults(p *core.Program, helper *ssa.Function, role string, paths []core.DecisionPath, atoms map[string]bool) ([]core.DecisionPath, map[string]bool) {
	orig := p.Original(helper)
	if !core.RoleFlagResults[orig] {
		return paths, atoms
	}
	inl := p.Inlined(orig)
	T := fmt.Sprintf("$%d", paramIndexOfType(inl, "*html.Node"))
	type sub struct {
		atom string
		same bool
	}
	subs := map[int]sub{}
	for k := 1; k < orig.Signature.Results().Len(); k++ {
		k := k
		hp, _, err := core.EnumerateDecisions(p, inl, core.DecisionOpts{Outcome: func(in ssa.Instruction, c *core.Canon) (string, bool) {
			if ret, ok := in.(*ssa.Return); ok && k < len(ret.Results) {
				return c.Of(ret.Results[k]), true
			}
			return "", false
		}})
		if err != nil || len(hp) == 0 {
			continue
		}
		// candidate atoms: decided on every path, with a value that determines the result
		cand := map[string]int{} // atom -> +1 same, -1 inverted, 0 no
		first := true
		for _, pa := range hp {
			if pa.Outcome != "true" && pa.Outcome != "false" {
				cand = nil
				break
			}
			res := pa.Outcome == "true"
			here := map[string]int{}
			for _, l := range pa.Lits {
				if l.Val == res {
					here[l.Atom] = 1
				} else {
					here[l.Atom] = -1
				}
			}
			if first {
				cand, first = here, false
				continue
			}
			for a, pol := range cand {
				if here[a] != pol {
					delete(cand, a)
				}
			}
		}
		var names []string
		for a := range cand {
			names = append(names, a)
		}
		sort.Strings(names)
		if len(names) == 1 {
			subs[k] = sub{names[0], cand[names[0]] == 1}
		}
	}
	if len(subs) == 0 {
		return paths, atoms
	}
	re := regexp.MustCompile(`^@` + regexp.QuoteMeta(role) + `\((.*)\)#(\d+)$`)
	rewrite := func(atom string) (string, bool, bool) {
		m := re.FindStringSubmatch(atom)
		if m == nil {
			return atom, true, false
		}
		k, _ := strconv.Atoi(m[2])
		s, ok := subs[k]
		if !ok {
			return atom, true, false
		}
		return strings.ReplaceAll(s.atom, T, m[1]), s.same, true
	}
	newAtoms := map[string]bool{}
	for a := range atoms {
		na, _, _ := rewrite(a)
		newAtoms[na] = true
	}
	var out []core.DecisionPath
	for _, pa := range paths {
		np := pa
		np.Lits = nil
		val := map[string]bool{}
		feasible := true
		for _, l := range pa.Lits {
			na, same, hit := rewrite(l.Atom)
			nl := l
			if hit {
				nl = core.Lit{Atom: na, Val: l.Val == same}
			}
			if v, seen := val[nl.Atom]; seen {
				if v != nl.Val {
					feasible = false
				}
				continue
			}
			val[nl.Atom] = nl.Val
			np.Lits = append(np.Lits, nl)
		}
		if feasible {
			out = append(out, np)
		}
	}
	return out, newAtoms
}

// loopExit is one way out of a loop: the branch condition (canonical atom with the value it has
// when the loop is left) and the block control continues in.
type loopExit struct {
	atom string
	val  bool
	to   *ssa.BasicBlock
}

// loopExits lists the edges that leave the loop; an exit that is not a conditional branch has atom "".
func loopExits(p *core.Program, l *core.Loop) []loopExit {
	c := core.NewCanon(p)
	var out []loopExit
	for _, b := range l.Fn.Blocks {
		if !l.Body[b] || len(b.Instrs) == 0 {
			continue
		}
		for k, s := range b.Succs {
			if l.Body[s] {
				continue
			}
			ifi, ok := b.Instrs[len(b.Instrs)-1].(*ssa.If)
			if !ok {
				out = append(out, loopExit{"", true, s})
				continue
			}
			atom, whenTrue := c.CondAtom(ifi.Cond)
			// succ 0 is taken when the condition is true
			out = append(out, loopExit{atom, (k == 0) == whenTrue, s})
		}
	}
	return out
}

// ThoroughSelfCheck (thorough tier): re-verifies the analysis' own intermediate representation.
// Every analysis unit is expanded and the clone is checked for structural sanity (core.VerifyClone);
// the same is done for every function a rule of this run asked to be expanded. A malformed clone
// is an internal failure of the checker (exit 2), never a verdict about /repo.
func ThoroughSelfCheck(p *core.Program, r *core.Report) {
	n, bad := 0, 0
	for _, u := range units(p) {
		n++
		if probs := core.VerifyClone(u); len(probs) > 0 {
			bad++
			r.Fatal("expanded clone of %s is malformed: %s", unitName(p, u), strings.Join(probs, "; "))
		}
	}
	r.Stats["thorough_clones_verified"] = n
	r.Stats["thorough_clones_malformed"] = bad
}

// inlineDisplayGiven: the literal says that the style attribute carries a display declaration
// (the reviewed pattern matched): `len(m) >= 2` or `m != nil` on the submatch result.
func inlineDisplayGiven(l core.Lit) bool {
	m := "regexp.Regexp.FindStringSubmatch(" + rxDisplay + ","
	if strings.HasPrefix(l.Atom, "len("+m) && strings.HasSuffix(l.Atom, " <= 1") {
		return !l.Val
	}
	if strings.HasPrefix(l.Atom, m) && strings.HasSuffix(l.Atom, " == nil") {
		return !l.Val
	}
	if strings.HasPrefix(l.Atom, "len("+m) && strings.HasSuffix(l.Atom, " <= 0") {
		return !l.Val
	}
	return false
}

// finderCall is a call of a pagination finder's FindPagination, static or through an interface
// whose dynamic types are all known (`var f finder = NewX(..)` merged over the algorithms).
type finderCall struct {
	call    ssa.CallInstruction
	callees []*ssa.Function // the concrete methods that may run
	args    []ssa.Value     // the arguments after the receiver: document, page URL
}

func finderCalls(p *core.Program, fn *ssa.Function) []finderCall {
	var out []finderCall
	for _, call := range core.Calls(fn, func(ci ssa.CallInstruction) bool { return true }) {
		cc := call.Common()
		if cc.IsInvoke() {
			if cc.Method.Name() != "FindPagination" {
				continue
			}
			fc := finderCall{call: call, args: cc.Args}
			ok := allPhiLeaves(cc.Value, func(v ssa.Value) bool {
				t := v.Type()
				if mi, isMI := v.(*ssa.MakeInterface); isMI {
					t = mi.X.Type()
				}
				if types.IsInterface(t) {
					return false // dynamic type unknown
				}
				m := p.Prog.LookupMethod(t, cc.Method.Pkg(), "FindPagination")
				if m == nil || !strings.Contains(core.FnPkgPath(m), "/internal/pagination") {
					return false
				}
				fc.callees = append(fc.callees, m)
				return true
			}, map[ssa.Value]bool{})
			if ok && len(fc.callees) > 0 {
				out = append(out, fc)
			}
			continue
		}
		if callee := cc.StaticCallee(); callee != nil && callee.Name() == "FindPagination" && strings.Contains(core.FnPkgPath(callee), "/internal/pagination") && len(cc.Args) >= 1 {
			out = append(out, finderCall{call: call, callees: []*ssa.Function{callee}, args: cc.Args[1:]})
		}
	}
	return out
}

// isFinderResult: v is the result of one of the finder calls.
func isFinderResult(fcs []finderCall, v ssa.Value) bool {
	for _, fc := range fcs {
		if cv, ok := fc.call.(ssa.Value); ok && cv == v {
			return true
		}
	}
	return false
}

var sinkWriteKeys = []string{"(*bytes.Buffer).WriteString", "(*strings.Builder).WriteString", "(*bytes.Buffer).WriteByte", "(*strings.Builder).WriteByte",
	"(*bytes.Buffer).WriteRune", "(*strings.Builder).WriteRune"}

// isSinkWrite: the instruction appends to a bytes.Buffer / strings.Builder.
func isSinkWrite(in ssa.Instruction) bool {
	ci, ok := in.(ssa.CallInstruction)
	return ok && core.IsCallTo(ci, sinkWriteKeys...)
}

// sinkWritten renders what a buffer/builder write appends, as a string expression: the argument
// of WriteString, or the one-character string for WriteByte/WriteRune of a constant
// (`WriteByte('\n')` and `WriteString("\n")` are the same write).
func sinkWritten(in ssa.Instruction, c *core.Canon) (string, bool) {
	ci, ok := in.(ssa.CallInstruction)
	if !ok || !core.IsCallTo(ci, sinkWriteKeys...) || len(ci.Common().Args) != 2 {
		return "", false
	}
	a := ci.Common().Args[1]
	if k, isC := core.StripConv(a).(*ssa.Const); isC && k.Value != nil {
		if _, isBasic := k.Type().Underlying().(*types.Basic); isBasic {
			if n, isInt := core.ConstInt(k); isInt && !core.IsCallTo(ci, "(*bytes.Buffer).WriteString", "(*strings.Builder).WriteString") {
				return strconv.Quote(string(rune(n))), true
			}
		}
	}
	return c.Of(a), true
}

// walkerBody returns the function that holds the recursion of domutil.WalkNodes, helpers
// expanded: WalkNodes itself when it calls itself, else the one self-recursive helper (function
// or method of a helper type) it delegates to.
func walkerBody(p *core.Program, r *core.Report, rule string) *ssa.Function {
	wn := mustFunc(p, r, rule, domutilPkg+".WalkNodes")
	if wn == nil {
		return nil
	}
	inl := p.Inlined(wn)
	for _, call := range core.Calls(inl, func(ci ssa.CallInstruction) bool { return true }) {
		if isSelfCall(p, wn, call) {
			return inl
		}
	}
	ws := recursiveWorkers(p, wn)
	if len(ws) != 1 {
		r.Undecided(rule, "WalkNodes: the recursive walk", fmt.Sprintf("WalkNodes neither calls itself nor delegates to exactly one self-recursive helper (%d found)", len(ws)))
		return nil
	}
	return p.Inlined(ws[0])
}
