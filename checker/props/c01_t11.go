package props

import (
	"fmt"
	"go/constant"
	"go/token"
	"go/types"
	"strings"

	"ddcheck/core"

	"golang.org/x/tools/go/ssa"
)

var searchFuncs = map[string]bool{"strings.Index": true, "strings.LastIndex": true, "strings.IndexByte": true, "strings.LastIndexByte": true,
	"strings.IndexAny": true, "strings.LastIndexAny": true, "strings.IndexRune": true, "bytes.Index": true, "bytes.LastIndex": true, "bytes.IndexByte": true}

// searchCall: v is the answer of a string search that is -1 when nothing is found.
func searchCall(v ssa.Value) *ssa.Call {
	c, ok := v.(*ssa.Call)
	if !ok {
		return nil
	}
	if f := c.Call.StaticCallee(); f != nil && searchFuncs[f.String()] && len(c.Call.Args) == 2 {
		return c
	}
	return nil
}

// checkSearchBounds (C01-T11): the answer of strings.Index & co. is -1 when nothing is found. Used
// as a slice bound it panics then - except as `s[i+k:]`/`s[:i+k]` with k >= 1. Every slice
// whose bound is such an answer (plus a constant below 1) must be unreachable once the edges are
// removed on which the search is known to have succeeded: a comparison of that very answer
// with -1/0, or - the idiom of the title heuristic - a successful search (Index != -1, Contains)
// in the SAME string value for a constant needle that contains the needle of the bound.
func checkSearchBounds(p *core.Program, r *core.Report, rule string, fns []*ssa.Function, unitName func(*ssa.Function) string) {
	c := core.NewCanon(p)
	n := 0
	seen := map[string]bool{}
	for _, fn := range fns {
		if strings.Contains(core.FnPkgPath(fn), "/pagination/pattern") {
			continue // offsets of a placeholder the pattern itself inserted: relational, not claimed (as T2)
		}
		for _, b := range fn.Blocks {
			for _, in := range b.Instrs {
				sl, ok := in.(*ssa.Slice)
				if !ok {
					continue
				}
				for _, bound := range []ssa.Value{sl.Low, sl.High} {
					if bound == nil {
						continue
					}
					v, k := bound, int64(0)
					if bo, ok := v.(*ssa.BinOp); ok && (bo.Op == token.ADD || bo.Op == token.SUB) {
						if cv, ok := bo.Y.(*ssa.Const); ok && cv.Value != nil && cv.Value.Kind() == constant.Int {
							d, _ := constant.Int64Val(cv.Value)
							if bo.Op == token.SUB {
								d = -d
							}
							v, k = bo.X, d
						}
					}
					sc := searchCall(v)
					if sc == nil || k >= 1 {
						continue
					}
					n++
					cut := core.EdgeSet{}
					nTests := 0
					for _, tb := range fn.Blocks {
						if len(tb.Instrs) == 0 {
							continue
						}
						ifi, ok := tb.Instrs[len(tb.Instrs)-1].(*ssa.If)
						if !ok {
							continue
						}
						foundWhenTrue, foundWhenFalse := searchSucceeded(ifi.Cond, sc)
						// guard-cut: with every edge removed on which the search is known to have
						// succeeded, the slice must be unreachable
						if foundWhenTrue {
							cut[core.Edge{From: tb, K: 0}] = true
							nTests++
						}
						if foundWhenFalse {
							cut[core.Edge{From: tb, K: 1}] = true
							nTests++
						}
					}
					okG := nTests > 0 && !core.InstrReachable(fn, cut, sl)
					key := fmt.Sprintf("%s: %s sliced at %s", unitName(fn), shortVal(c.Of(sl.X)), shortVal(c.Of(bound)))
					if seen[key] {
						continue
					}
					seen[key] = true
					r.Add(rule, key, p.Pos(sl.Pos()), okG, fmt.Sprintf("a search answers -1 when nothing is found; the slice must be unreachable unless the search is known to have succeeded (%d tests of it found)", nTests))
				}
			}
		}
	}
	r.Add(rule, "slice bounds that are search answers examined", "", true, fmt.Sprintf("%d sites", n))
}

// searchSucceeded: which outcome of the condition implies that the search sc found something.
func searchSucceeded(cond ssa.Value, sc *ssa.Call) (whenTrue, whenFalse bool) {
	neg := false
	for {
		u, ok := cond.(*ssa.UnOp)
		if !ok || u.Op != token.NOT {
			break
		}
		neg = !neg
		cond = u.X
	}
	t, f := false, false
	switch x := cond.(type) {
	case *ssa.Call:
		if fn := x.Call.StaticCallee(); fn != nil && (fn.String() == "strings.Contains" || fn.String() == "bytes.Contains") && len(x.Call.Args) == 2 && impliesFound(x.Call.Args[0], x.Call.Args[1], sc) {
			t = true
		}
	case *ssa.BinOp:
		cl, cv := x.X, x.Y
		op := x.Op
		if _, isC := cl.(*ssa.Const); isC {
			cl, cv = cv, cl
			switch op {
			case token.LSS:
				op = token.GTR
			case token.GTR:
				op = token.LSS
			case token.LEQ:
				op = token.GEQ
			case token.GEQ:
				op = token.LEQ
			}
		}
		call := searchCall(cl)
		kc, isC := cv.(*ssa.Const)
		if call == nil || !isC || kc.Value == nil || kc.Value.Kind() != constant.Int {
			break
		}
		if call != sc && !impliesFound(call.Call.Args[0], call.Call.Args[1], sc) {
			break
		}
		k, _ := constant.Int64Val(kc.Value)
		switch {
		case op == token.NEQ && k == -1, op == token.GEQ && k == 0, op == token.GTR && k == -1, op == token.GTR && k >= 0 && call == sc, op == token.GEQ && k >= 0 && call == sc:
			t = true
		case op == token.EQL && k == -1, op == token.LSS && k == 0, op == token.LEQ && k == -1:
			f = true
		}
	}
	if neg {
		t, f = f, t
	}
	return t, f
}

// impliesFound: a successful search for needle in hay implies that the search sc succeeds: same
// string value and a constant needle that contains sc's constant needle (forward or backward
// search alike: if the longer needle occurs, so does the shorter).
func impliesFound(hay, needle ssa.Value, sc *ssa.Call) bool {
	if !sameSSAValue(hay, sc.Call.Args[0], 0) {
		return false
	}
	n1, ok1 := core.ConstString(needle)
	n0, ok0 := core.ConstString(sc.Call.Args[1])
	if !ok1 || !ok0 {
		return needle == sc.Call.Args[1]
	}
	f := sc.Call.StaticCallee().String()
	if strings.HasSuffix(f, "Any") {
		return false
	}
	return n0 != "" && strings.Contains(n1, n0)
}

// sameSSAValue: identical values, or merges in one block of pairwise identical values (two
// variables that are assigned together: origTitle/curTitle).
func sameSSAValue(a, b ssa.Value, depth int) bool {
	if a == b {
		return true
	}
	pa, ok1 := a.(*ssa.Phi)
	pb, ok2 := b.(*ssa.Phi)
	if !ok1 || !ok2 || pa.Block() != pb.Block() || len(pa.Edges) != len(pb.Edges) || depth > 3 {
		return false
	}
	for i := range pa.Edges {
		if !sameSSAValue(pa.Edges[i], pb.Edges[i], depth+1) {
			if ca, ok := pa.Edges[i].(*ssa.Const); ok {
				if cb, ok := pb.Edges[i].(*ssa.Const); ok && ca.Value != nil && cb.Value != nil && ca.Value.ExactString() == cb.Value.ExactString() {
					continue
				}
			}
			return false
		}
	}
	return true
}

// checkEntryNilParams (C01-T12): "for every parsed node tree handed to the distiller ... returns
// either an error or a result": the pointer parameters of the entry points are the one place
// where a nil comes from outside. A direct dereference of such a parameter (field access, load)
// must be unreachable once the edges on which the parameter is known to be non-nil are removed.
func checkEntryNilParams(p *core.Program, r *core.Report, rule string) {
	n := 0
	for _, fn := range p.EntryPoints() {
		for _, par := range fn.Params {
			if _, ok := par.Type().Underlying().(*types.Pointer); !ok {
				continue
			}
			var derefs []ssa.Instruction
			for _, ref := range *par.Referrers() {
				switch x := ref.(type) {
				case *ssa.FieldAddr:
					if x.X == par {
						derefs = append(derefs, x)
					}
				case *ssa.UnOp:
					if x.Op == token.MUL && x.X == par {
						derefs = append(derefs, x)
					}
				}
			}
			cut := core.EdgeSet{}
			for _, b := range fn.Blocks {
				if len(b.Instrs) == 0 {
					continue
				}
				ifi, ok := b.Instrs[len(b.Instrs)-1].(*ssa.If)
				if !ok {
					continue
				}
				bo, ok := ifi.Cond.(*ssa.BinOp)
				if !ok || !(bo.X == ssa.Value(par) && core.IsNilConst(bo.Y) || bo.Y == ssa.Value(par) && core.IsNilConst(bo.X)) {
					continue
				}
				switch bo.Op {
				case token.EQL:
					cut[core.Edge{From: b, K: 1}] = true // != nil on the false edge
				case token.NEQ:
					cut[core.Edge{From: b, K: 0}] = true
				}
			}
			n++
			bad := ""
			for _, d := range derefs {
				if core.InstrReachable(fn, cut, d) {
					bad = p.Pos(d.Pos())
					break
				}
			}
			r.Add(rule, fmt.Sprintf("%s: parameter %s is dereferenced only where it is known not to be nil", core.ShortKey(fn), par.Name()), p.Pos(fn.Pos()), bad == "",
				fmt.Sprintf("%d direct dereferences; unguarded: %s", len(derefs), bad))
		}
	}
	r.Floor(rule, 4)
	_ = n
}
