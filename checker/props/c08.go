package props

import (
	"fmt"
	"go/token"
	"regexp"
	"strings"

	"ddcheck/core"

	"golang.org/x/tools/go/ssa"
)

func init() { Registry["C08"] = C08 }

const docfilterPkg = "mod/internal/filter/docfilter"

// loopHeaders returns the loop headers of fn in block order.
func loopHeaders(fn *ssa.Function) []*ssa.BasicBlock {
	var out []*ssa.BasicBlock
	for _, b := range fn.Blocks {
		for _, pr := range b.Preds {
			if b.Dominates(pr) {
				out = append(out, b)
				break
			}
		}
	}
	return out
}

// inLoop reports whether the block belongs to a natural loop of its function.
func inLoop(b *ssa.BasicBlock) bool {
	// b is in a loop iff b can reach itself
	for _, s := range b.Succs {
		if reachableFrom(s, b) {
			return true
		}
	}
	return false
}

func callEvent(re *regexp.Regexp) func(in ssa.Instruction, c *core.Canon) (string, bool) {
	return func(in ssa.Instruction, c *core.Canon) (string, bool) {
		if call, ok := in.(*ssa.Call); ok {
			s := c.Of(call)
			if re.MatchString(s) {
				return s, true
			}
		}
		return "", false
	}
}

func noOutcome(in ssa.Instruction, c *core.Canon) (string, bool) { return "", false }

// C08: media and tables are retained exactly when they follow retained text.
func C08(p *core.Program, r *core.Report) {
	r.Explanation = "E4: the loop of RelevantElements.Process is extracted as a transition function of one iteration (boolean loop variables become state atoms) and compared with the documented automaton: content element -> in-content run opens; non-content text -> run closes; any other element is marked content iff the run is open; nothing else is written. E1: in ExtractContent the filters run in the order RelevantElements, LeadImageFinder, NestedElementRetainer on every path, after the last processDocument and before GetImageURLs. E2: the lead image finder promotes with a single SetIsContent(true) that is outside every loop and its scoring loop has no promotion event; candidates are only non-content images/figures before the last content text. E3: Element.SetIsContent is called only from package docfilter and TextBlock.ApplyToModel (layering). E5: every builder method that appends a table/embed/tag flushes the pending text first (shared with C02-O5), so the element list has media after the text that precedes them. E6: the element visitor offers a candidate node to every embed extractor in turn (one Extract call, on the element of a complete range over the converter's extractor list, left only at the end or when an extractor answered) and the constructor's list holds an instance of every implementation of the extractor interface - several extractors claim the same tag, so a per-tag dispatch silently loses the media of all but one (shared with C19). E7: whether a media element exists for the filters is the documented visibility decision list (shared with C04-V3). E8: the HTML view of Image/Figure/Video/Table/Embed is a serialised tree on every path (an element flagged content never renders as \"\"). E9: the number of children of a wrapper is never compared with a count of descendants (a wrapper is empty only if each child is a line break). E10: nothing touches the converter's clone before the walk except the two reviewed removal passes (shared with C18-T7). E11: the text collector of InnerText, through which the table classifier and the caption code read the text of an element, conforms to its decision list (shared with C04-V5). E12 (C09-W3 shared): in Apply the container stored as Result.Node is only created, filled by one SetInnerHTML and stored - no later pass can take retained elements out of the HTML view."
	r.NotCovered = "the image scorers and the 13-point threshold semantics (numeric), which text blocks the classifier retains, and the correctness of the element order produced by the converter (C02)."

	// ---- E4
	re := mustInl(p, r, "E4", "(*"+docfilterPkg+".RelevantElements).Process")
	if re != nil {
		hs := loopHeaders(re)
		if len(hs) != 1 {
			r.Undecided("E4", "RelevantElements.Process loop", fmt.Sprintf("expected one loop, found %d", len(hs)))
		} else {
			opts := core.DecisionOpts{IterateAt: hs[0], Outcome: func(in ssa.Instruction, c *core.Canon) (string, bool) {
				if ret, ok := in.(*ssa.Return); ok {
					return "return " + c.Of(ret.Results[0]), true
				}
				return "", false
			}, Event: callEvent(regexp.MustCompile(`SetIsContent|AddLabel|SetIs`))}
			paths, atoms, err := core.EnumerateDecisions(p, re, opts)
			if err != nil {
				r.Undecided("E4", "RelevantElements.Process", err.Error())
			}
			// the state variable that is tested is the in-content flag; other boolean loop
			// variables (the `changes` result) are irrelevant for the automaton
			stateName := ""
			for a := range atoms {
				if regexp.MustCompile(`^state\d+$`).MatchString(a) {
					if stateName != "" {
						stateName = "ambiguous"
					} else {
						stateName = a
					}
				}
			}
			r.Add("E4", "RelevantElements.Process: one boolean run flag is tested", p.Pos(re.Pos()), stateName != "" && stateName != "ambiguous", "tested loop state: "+stateName)
			stRe := regexp.MustCompile(`state\d+=[^,)]*`)
			for i := range paths {
				o := paths[i].Outcome
				o = stRe.ReplaceAllStringFunc(o, func(m string) string {
					if strings.HasPrefix(m, stateName+"=") {
						return "run=" + strings.ReplaceAll(m[len(stateName)+1:], stateName, "run")
					}
					return ""
				})
				o = strings.NewReplacer("(,", "(", ",)", ")", ",,", ",").Replace(o)
				paths[i].Outcome = o
				for j := range paths[i].Lits {
					if paths[i].Lits[j].Atom == stateName {
						paths[i].Lits[j].Atom = "run"
					}
				}
			}
			if atoms[stateName] {
				delete(atoms, stateName)
				atoms["run"] = true
			}
			el := `elem($1.Elements)`
			spec := core.DecisionSpec{
				Atoms: map[string]string{
					"is.content": q(`iface.IsContent(` + el + `)`),
					"is.text":    q(`is(` + el + `,*webdoc.Text)`),
					"run.open":   q(`run`),
				},
				Rules: []core.SpecRule{
					{Name: "content element opens the run", Guard: core.A("is.content"), Outcome: "next(run=true)"},
					{Name: "dropped text closes the run", Guard: core.A("is.text"), Outcome: "next(run=false)"},
					{Name: "other element inside an open run is retained", Guard: core.A("run.open"), Outcome: "iface.SetIsContent(" + el + ",true) => next(run=run)"},
					{Name: "other element outside a run is left dropped", Guard: core.True(), Outcome: "next(run=run)"},
				},
			}
			core.CheckDecisionList(r, "E4", "RelevantElements.Process(iteration)", paths, atoms, spec)
			r.Add("E4", "RelevantElements.Process: no further conditions in the loop", p.Pos(re.Pos()), len(atoms) == 3, fmt.Sprintf("conditions: %v", keys(atoms)))
		}
	}

	// ---- E1
	checkFilterOrder(p, r, "E1")

	// ---- E5: an element enters the document after the text that precedes it (shared with C02-O5)
	checkFlushBeforeElement(p, r, "E5")
	// E7: whether an element exists at all for the filters is the documented visibility decision
	// (shared with C04-V3): a media element the converter takes for hidden never gets the chance
	// to follow its text
	checkVisibilityRules(p, r, "E7")
	// E8: a retained media element is rendered: its HTML view is a serialised tree on every path
	// (an element that is flagged content but renders as "" is absent from the result)
	for _, fn := range outputFuncs(p) {
		for i, o := range outputReturns(p, fn) {
			if o.typ == "Text" || o.typ == "Tag" || o.textOnly == 1 {
				continue
			}
			ok := o.serializer == "dom.OuterHTML" || o.serializer == "dom.InnerHTML"
			r.Add("E8", fmt.Sprintf("%s.GenerateOutput HTML rendering #%d is a serialised tree", o.typ, i+1), p.Pos(o.ret.Pos()), ok, "returns "+shortVal(o.value))
		}
	}
	r.Floor("E8", 5)
	// E10: the extractors find the media elements of the page as it was copied: no pass removes or
	// rewrites anything before the walk, except the two reviewed removal passes (shared with C18-T7)
	checkConvertWalksFaithfulClone(p, r, "E10")
	// E11: what the table classifier and the caption code read as the text of an element is what
	// the documented collector gathers (shared with C04-V5)
	checkInnerTextCollector(p, r, "E11")
	// ---- E12: what the document renders is what the caller gets: nothing is taken out of
	// Result.Node after the HTML rendering was parsed (C09-W3 shared)
	checkNodeUntouchedAfterParse(p, r, "E12")

	// E9: a wrapper (div, section, header, heading) is dropped as empty - and the media inside it
	// with it - only if it has no text and each of its CHILDREN is a line break or a rule. The
	// number of children must not be compared with a count of DESCENDANTS (the Readability idiom
	// `children.length == getElementsByTagName("br").length + ...` takes <div><span><img><br></span>
	// </div> for empty: one child, one br somewhere below).
	for _, fn := range p.ModFunctions(false) {
		if core.FnPkgPath(fn) != core.ExpandKey(converterPkg) {
			continue
		}
		cn := core.NewCanon(p)
		for _, in := range instrsOf(fn) {
			bo, ok := in.(*ssa.BinOp)
			if !ok || (bo.Op != token.EQL && bo.Op != token.NEQ) {
				continue
			}
			x, y := cn.Of(bo.X), cn.Of(bo.Y)
			for _, pair := range [][2]string{{x, y}, {y, x}} {
				if m := regexp.MustCompile(`^len\(dom\.Children\((.*)\)\)$`).FindStringSubmatch(pair[0]); m != nil {
					r.Add("E9", core.ShortKey(fn)+": the number of children is compared with a count of children", p.Pos(bo.Pos()),
						!strings.Contains(pair[1], "dom.GetElementsByTagName("+m[1]+",") && !strings.Contains(pair[1], "dom.QuerySelectorAll("+m[1]+","),
						"compared with "+shortVal(pair[1]))
				}
			}
		}
	}
	// ---- E6: media are recognised at all: every extractor is offered every candidate node
	checkExtractorDispatch(p, r, "E6")

	// ---- E2: LeadImageFinder.Process with its helpers expanded
	lp := mustInl(p, r, "E2", "(*"+docfilterPkg+".LeadImageFinder).Process")
	if lp != nil {
		nProm := 0
		for _, call := range core.Calls(lp, func(c ssa.CallInstruction) bool {
			return core.IsCallTo(c, "iface:SetIsContent", "(*mod/internal/webdoc.BaseElement).SetIsContent")
		}) {
			nProm++
			args := call.Common().Args
			bv, isC := core.ConstBool(args[len(args)-1])
			r.Add("E2", "lead image promotion", p.Pos(call.Pos()), isC && bv && !inLoop(call.Block()),
				"the promotion must be SetIsContent(true), outside every loop")
		}
		r.Add("E2", "exactly one promotion site", p.Pos(lp.Pos()), nProm == 1, fmt.Sprintf("%d SetIsContent calls below LeadImageFinder.Process", nProm))
		// the candidate collection loop: the loop whose iterations append to the candidate list
		el := `elem($1.Elements)`
		found := 0
		for _, h := range loopHeaders(lp) {
			opts := core.DecisionOpts{IterateAt: h, ExitOutcome: "stop", Outcome: func(in ssa.Instruction, c *core.Canon) (string, bool) {
				if _, ok := in.(*ssa.Return); ok {
					return "stop", true
				}
				return "", false
			}, Event: func(in ssa.Instruction, c *core.Canon) (string, bool) {
				if call, ok := in.(*ssa.Call); ok {
					if b, ok := call.Call.Value.(*ssa.Builtin); ok && b.Name() == "append" {
						return "candidate " + c.Of(call.Call.Args[1]), true
					}
				}
				return "", false
			}}
			paths, atoms, err := core.EnumerateDecisions(p, lp, opts)
			isCand := false
			for _, pa := range paths {
				if strings.Contains(pa.Outcome, "candidate {"+el+".(*webdoc.") {
					isCand = true
				}
			}
			if !isCand {
				continue
			}
			found++
			if err != nil {
				r.Undecided("E2", "LeadImageFinder.Process", err.Error())
			}
			spec := core.DecisionSpec{
				Atoms: map[string]string{
					"is.image":   q(`is(` + el + `,*webdoc.Image)`),
					"is.figure":  q(`is(` + el + `,*webdoc.Figure)`),
					"is.content": q(`iface.IsContent(` + el + `)`),
					"is.last":    qw(el + ` == μ(…` + el + `.(*webdoc.Text)…)`),
				},
				Rules: []core.SpecRule{
					{Name: "a retained image/figure ends the search", Guard: core.And(core.Or(core.A("is.image"), core.A("is.figure")), core.A("is.content")), Outcome: "stop"},
					{Name: "the last retained text ends the search", Guard: core.A("is.last"), Outcome: "stop"},
					{Name: "dropped image is a candidate", Guard: core.A("is.image"), Outcome: "candidate {" + el + ".(*webdoc.Image)} => next()"},
					{Name: "dropped figure is a candidate", Guard: core.A("is.figure"), Outcome: "candidate {" + el + ".(*webdoc.Figure)} => next()"},
					{Name: "anything else is skipped", Guard: core.True(), Outcome: "next()"},
				},
			}
			// spelled as a type switch, the content flag is read through the concrete type (one
			// condition per kind) and the last-text test is only made for what is neither: the last
			// retained text is a *webdoc.Text (the atom says so), so it is never an image or a figure
			cImg := `&` + el + `.(*webdoc.Image).BaseElement.‹bool›`
			cFig := `&` + el + `.(*webdoc.Figure).Image.BaseElement.‹bool›`
			if !atoms[`iface.IsContent(`+el+`)`] && atoms[cImg] && atoms[cFig] {
				spec = core.DecisionSpec{
					Atoms: map[string]string{
						"is.image":    q(`is(` + el + `,*webdoc.Image)`),
						"is.figure":   q(`is(` + el + `,*webdoc.Figure)`),
						"content.img": q(cImg),
						"content.fig": q(cFig),
						"is.last":     qw(el + ` == μ(…` + el + `.(*webdoc.Text)…)`),
					},
					Rules: []core.SpecRule{
						{Name: "a retained image ends the search", Guard: core.And(core.A("is.image"), core.A("content.img")), Outcome: "stop"},
						{Name: "a retained figure ends the search", Guard: core.And(core.A("is.figure"), core.A("content.fig")), Outcome: "stop"},
						{Name: "the last retained text ends the search", Guard: core.A("is.last"), Outcome: "stop"},
						{Name: "dropped image is a candidate", Guard: core.A("is.image"), Outcome: "candidate {" + el + ".(*webdoc.Image)} => next()"},
						{Name: "dropped figure is a candidate", Guard: core.A("is.figure"), Outcome: "candidate {" + el + ".(*webdoc.Figure)} => next()"},
						{Name: "anything else is skipped", Guard: core.True(), Outcome: "next()"},
					},
					Excl: [][2]string{{"is.image", "is.figure"}, {"is.image", "is.last"}, {"is.figure", "is.last"}},
				}
			}
			core.CheckDecisionList(r, "E2", "LeadImageFinder.Process(candidates)", paths, atoms, spec)
		}
		r.Add("E2", "one loop collects the lead image candidates", p.Pos(lp.Pos()), found == 1, fmt.Sprintf("%d loops append image/figure elements to a candidate list", found))
	}

	// ---- E3 layering
	n := 0
	for _, fn := range p.ModFunctions(false) {
		for _, call := range core.Calls(fn, func(c ssa.CallInstruction) bool {
			return core.IsCallTo(c, "iface:SetIsContent", "(*mod/internal/webdoc.BaseElement).SetIsContent")
		}) {
			// interface invokes on webdoc.Element only
			if call.Common().IsInvoke() && !strings.HasSuffix(call.Common().Value.Type().String(), "webdoc.Element") {
				continue
			}
			n++
			pp := core.FnPkgPath(fn)
			ok := pp == core.ExpandKey(docfilterPkg) || strings.HasSuffix(fn.String(), "webdoc.TextBlock).ApplyToModel")
			r.Add("E3", "content flag of document elements written by "+core.ShortKey(fn), p.Pos(call.Pos()), ok, "only package docfilter and TextBlock.ApplyToModel may decide retention")
		}
	}
	r.Floor("E3", 5)
	r.Stats["setiscontent_sites"] = n
}

// checkFilterOrder (E1 of C08, shared with C07-N5): in ExtractContent the three document filters
// run once each, on every path, in the order RelevantElements, LeadImageFinder,
// NestedElementRetainer (the stack pass must be the last one to change content flags).
func checkFilterOrder(p *core.Program, r *core.Report, rule string) {
	ec := mustInl(p, r, rule, "(*"+extractorPkg+".ContentExtractor).ExtractContent")
	if ec != nil {
		find := func(key string) []ssa.CallInstruction {
			return core.Calls(ec, func(c ssa.CallInstruction) bool { return core.IsCallTo(c, key) })
		}
		rel := find("(*" + docfilterPkg + ".RelevantElements).Process")
		lead := find("(*" + docfilterPkg + ".LeadImageFinder).Process")
		nest := find("(*" + docfilterPkg + ".NestedElementRetainer).Process")
		proc := find("(*mod/internal/webdoc.TextDocument).ApplyToModel")
		imgs := find("(*mod/internal/webdoc.Document).GetImageURLs")
		if len(rel) != 1 || len(lead) != 1 || len(nest) != 1 || len(proc) == 0 {
			r.Add(rule, "ExtractContent: the three document filters run once each", p.Pos(ec.Pos()), false,
				fmt.Sprintf("RelevantElements=%d LeadImageFinder=%d NestedElementRetainer=%d TextDocument.ApplyToModel=%d", len(rel), len(lead), len(nest), len(proc)))
		} else {
			is := func(x ssa.CallInstruction) func(ssa.Instruction) bool {
				return func(in ssa.Instruction) bool { return in == ssa.Instruction(x) }
			}
			for _, ret := range core.Returns(ec) {
				for name, x := range map[string]ssa.CallInstruction{"RelevantElements": rel[0], "LeadImageFinder": lead[0], "NestedElementRetainer": nest[0]} {
					ok, w := core.MustPassThrough(ec, ret, is(x), nil)
					r.Add(rule, "ExtractContent: "+name+" runs on every path", p.Pos(ret.Pos()), ok, "", w...)
				}
			}
			ok1, _ := core.MustPassThrough(ec, lead[0], is(rel[0]), nil)
			r.Add(rule, "RelevantElements before LeadImageFinder", p.Pos(lead[0].Pos()), ok1 && neverAfter(rel[0], lead[0]), "the lead image must not open a content run")
			ok2, _ := core.MustPassThrough(ec, nest[0], is(lead[0]), nil)
			r.Add(rule, "LeadImageFinder before NestedElementRetainer", p.Pos(nest[0].Pos()), ok2 && neverAfter(lead[0], nest[0]), "")
			for _, pc := range proc {
				r.Add(rule, "text classification (TextDocument.ApplyToModel) precedes the document filters", p.Pos(pc.Pos()), neverAfter(pc, rel[0]), "")
			}
			for _, gi := range imgs {
				ok3, _ := core.MustPassThrough(ec, gi, is(nest[0]), nil)
				r.Add(rule, "image URLs are collected after all filters", p.Pos(gi.Pos()), ok3 && neverAfter(nest[0], gi), "")
			}
			// all three filters get the document that is returned
			c := core.NewCanon(p)
			docs := map[string]bool{}
			for _, x := range []ssa.CallInstruction{rel[0], lead[0], nest[0]} {
				docs[c.Of(x.Common().Args[1])] = true
			}
			for _, ret := range core.Returns(ec) {
				docs[c.Of(ret.Results[0])] = true
			}
			r.Add(rule, "filters process the document that is returned", p.Pos(ec.Pos()), len(docs) == 1, fmt.Sprintf("%d distinct document values", len(docs)))
		}
	}

}
