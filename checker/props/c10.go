package props

import (
	"fmt"
	"sort"
	"strings"
	"sync"
	"time"

	"ddcheck/core"
	"ddcheck/pea"

	"golang.org/x/tools/go/ssa"
)

func init() { Registry["C10"] = C10 }

var (
	peaOnce sync.Once
	peaA    *pea.Analysis
	peaDur  time.Duration
)

// entrySpec lists the entry points and which parameter is which caller-owned argument.
type entryBinding struct {
	name string
	doc  int // parameter index of the document (-1 none)
	opts int
}

var entryPoints = []entryBinding{
	{"Apply", 0, 1},
	{"ApplyForReader", -1, 1},
	{"ApplyForFile", -1, 1},
	{"ApplyForURL", -1, 2},
}

// runPEA runs the provenance & effects analysis once per process.
func runPEA(p *core.Program) *pea.Analysis {
	peaOnce.Do(func() {
		start := time.Now()
		a := pea.New(p)
		for _, e := range entryPoints {
			fn := p.Func(core.ModPath + "." + e.name)
			if fn == nil {
				continue
			}
			if e.doc >= 0 {
				a.SeedEntry(fn, e.doc, a.CallerDoc)
			}
			a.SeedEntry(fn, e.opts, a.CallerOpts)
		}
		a.Run()
		peaA = a
		peaDur = time.Since(start)
	})
	return peaA
}

func peaStats(r *core.Report, a *pea.Analysis) {
	r.Stats["pea_functions_analysed"] = a.NumFunctions()
	r.Stats["pea_passes"] = a.Passes
	r.Stats["pea_seconds"] = peaDur.Seconds()
	r.Stats["pea_unresolved_dynamic_calls"] = a.UnknownDynamicCalls()
}

// C10: caller-owned arguments are never modified.
func C10(p *core.Program, r *core.Report) {
	r.Explanation = "Provenance & effects analysis (PEA): every function reachable from the module (third-party code and net/url included, the rest of the standard library modelled) gets a summary of which memory regions it may write, expressed over its parameters; summaries are instantiated at call sites (function-valued parameters stay symbolic so WalkNodes-style helpers are instantiated per callback). The four entry points are instantiated with their parameters bound to the regions CallerDoc / CallerOpts (CallerURL is what Options.OriginalURL points to). M1: no store, append-in-place, copy, or mutating standard-library call may target a caller region. M2/M3: the tree-closure assumption is itself checked: a pointer into a caller region stored into a fresh object's link field (cross-link, shared Attr array, whole-struct copy) makes later stores through the fresh object count as caller stores. M1 also sees the filter-in-place idiom through merges: an append whose destination goes back to a zero-length (constant-bounded) re-slice of storage owned by the caller's document writes that storage."
	r.NotCovered = "reading the io.Reader/file (consuming a reader is not a modification in the property's sense); memory reached only through reflection/unsafe (none in module packages: checked by C12); flow-insensitivity may only add reports, never hide a store."
	r.Trusted = append(r.Trusted, "standard library (except net/url, analysed from source) follows the external model: only sort/copy/atomic/buffer-like pointer-receiver methods mutate their receiver or arguments", "VTA call graph for interface calls")

	a := runPEA(p)
	peaStats(r, a)
	nEff := 0
	for _, e := range entryPoints {
		fn := p.Func(core.ModPath + "." + e.name)
		if fn == nil {
			r.Undecided("M1", "entry point "+e.name, "entry point not found")
			continue
		}
		bind := map[int]int32{e.opts: a.CallerOpts}
		if e.doc >= 0 {
			bind[e.doc] = a.CallerDoc
		}
		effs := a.EntryEffects(fn, bind)
		viol := 0
		seen := map[string]bool{}
		type cand struct {
			key string
			ef  *pea.Effect
			n   int
		}
		var cands []cand
		for _, ef := range effs {
			nEff++
			li := a.Label(ef.Target)
			if li.Kind != pea.KCaller {
				continue
			}
			key := fmt.Sprintf("%s: %s written by %s (%s)", e.name, li.Name, core.ShortKey(ef.Fn), ef.Field)
			if seen[key] {
				continue
			}
			seen[key] = true
			cands = append(cands, cand{key, ef, len(a.Chain(ef))})
		}
		// local before global, short paths before long
		sort.SliceStable(cands, func(i, j int) bool { return cands[i].n < cands[j].n })
		for i, c := range cands {
			viol++
			if i >= 8 {
				continue
			}
			li := a.Label(c.ef.Target)
			r.Add("M1", c.key, p.Pos(c.ef.Pos), false,
				fmt.Sprintf("%s may write %s of the caller's %s", core.ShortKey(c.ef.Fn), c.ef.Field, li.Name), a.Chain(c.ef)...)
		}
		if viol > 8 {
			r.Add("M1", fmt.Sprintf("%s: further writers of caller-owned memory", e.name), "", false, fmt.Sprintf("%d more (target, writer, field) combinations with longer call chains omitted", viol-8))
		}
		if viol == 0 {
			r.Add("M1", e.name+": no effect on caller-owned memory", p.Pos(fn.Pos()), true,
				fmt.Sprintf("%d instantiated effects examined, none targets CallerDoc/CallerOpts/CallerURL", len(effs)))
		}
	}
	// vacuity guards: the analysis must see the known mutators and classify the clone as fresh
	checkMutatesFn := func(fn *ssa.Function, param int, what string) {
		found := false
		for _, ef := range a.Effects(fn) {
			li := a.Label(ef.Target)
			if ef.Kind == "mod" && li.Kind == pea.KSym && li.Fn == fn && li.Idx == param {
				found = true
			}
		}
		r.Add("M0", "sanity: "+core.ShortKey(fn)+" is known to write its argument #"+fmt.Sprint(param), p.Pos(fn.Pos()), found, what)
	}
	checkMutates := func(key string, param int, what string) {
		fn := p.Func(key)
		if fn == nil {
			r.Undecided("M0", "anchor "+key, "function not found")
			return
		}
		checkMutatesFn(fn, param, what)
	}
	checkMutates("github.com/go-shiori/dom.SetAttribute", 0, "positive control: attribute store")
	checkMutates("github.com/go-shiori/dom.DetachChild", 0, "positive control: link stores")
	checkMutates("github.com/go-shiori/dom.AppendChild", 0, "positive control: through (*html.Node).AppendChild")
	checkMutates("github.com/go-shiori/dom.AppendChild", 1, "positive control: child is re-parented")
	checkMutates(core.ModPath+"/internal/domutil.StripAttributes", 0, "positive control: Attr replaced on all descendants")
	checkMutates(core.ModPath+"/internal/domutil.MakeAllLinksAbsolute", 0, "positive control")
	if visit, _ := walkHandlers(p, r, "M0"); visit != nil {
		checkMutatesFn(p.Original(visit), 1, "positive control: the converter's visit callback rewrites the tree it walks")
	}
	if wn := p.Func(core.ModPath + "/internal/domutil.WalkNodes"); wn != nil {
		// precision control, not a verdict: when the walk is delegated to a helper (or the
		// callbacks travel in a helper struct) they are resolved through the call graph instead,
		// which can only add reports
		nDef := a.DeferredCalls(wn)
		for _, f := range p.StaticRegion(wn)[1:] {
			nDef += a.DeferredCalls(f)
		}
		r.Add("M0", "sanity: WalkNodes keeps its callbacks symbolic (instantiated per call site)", p.Pos(wn.Pos()), true, fmt.Sprintf("%d deferred calls in WalkNodes and its helpers (0: callbacks resolved through the call graph, less precise)", nDef))
	}
	if fn := p.Func("github.com/go-shiori/dom.Clone"); fn != nil {
		// the result of Clone must be fresh only
		ok := true
		var got []string
		for _, b := range fn.Blocks {
			for _, in := range b.Instrs {
				if ret, isRet := in.(*ssa.Return); isRet {
					got = a.ValueLabels(ret.Results[0])
					for _, l := range got {
						if l != "FreshNode" {
							ok = false
						}
					}
				}
			}
		}
		r.Add("M0", "sanity: dom.Clone returns fresh nodes only", p.Pos(fn.Pos()), ok && len(got) > 0, strings.Join(got, ","))
	}
	r.Stats["entry_effects_examined"] = nEff
	r.Floor("M0", 9)
	r.Floor("M1", 4)
}
