package props

import (
	"fmt"
	"regexp"
	"strings"

	"ddcheck/core"

	"golang.org/x/tools/go/ssa"
)

func init() { Registry["C09"] = C09 }

// C09: the views of one result agree.
func C09(p *core.Program, r *core.Report) {
	r.Explanation = "W1 (one source per element): for every Element.GenerateOutput the text view is domutil.InnerText of the very same SSA value / field that the HTML view serialises, or it is \"\" and the HTML view is built only from nodes that cannot contain text (img/picture clone after processPicture; shallow video clone with source/track children; tag placeholders); implementations whose text view is \"\" while the HTML view carries source text are reported (Embed: known finding); any other string returned when textOnly is set (a join of per-row texts, an attribute value) is reported. W2: ContentImages are read from the same cached processed clones (shared with C06-U4) and srcset reader/writer agree. W3: in Apply, Text and Node come from GenerateOutput(true/false) on the same Document, Node is the parsed HTML string of that call, WordCount and the Document come from one ExtractContent call, ContentImages from the extractor. W4: ExtractContent returns document and word count of the same pass (shared with C20-F1); Document.GenerateOutput and GetImageURLs iterate the element list forward and skip exactly the non-content elements. W5: C02-O10 shared (no trimmed rendering is concatenated). W6: the compiled word-matcher patterns of the Count methods find two words in ab<r>cd for every white-space character r of Unicode, so the counters split where strings.Fields splits. W6 also: the matchers do not split at format characters (soft hyphen, zero-width space and joiners, BOM). W7: the attribute allow-list does not keep aria-hidden (its visibility rule also reads class, which is always dropped, so the text view of the processed clone would judge differently from the walk). W8: C04-V5 shared - the collector of InnerText writes every text node with a blank on either side (WordCount is counted per text node, so it equals the words of Text only if text nodes never run together) and every result of InnerText is made from the collector's buffer."
	r.NotCovered = "word-level equality of the two views (whitespace/punctuation normalisation of InnerText vs. the HTML parser), WordCount = number of words of Text (numeric relation between the word counter and InnerText)."

	// ---- W1
	for _, fn := range outputFuncs(p) {
		rets := outputReturns(p, fn)
		typ := ""
		var textRoots, htmlRoots []outReturn
		var otherText []string
		textEmpty := false
		for _, o := range rets {
			typ = o.typ
			switch {
			case o.serializer == "domutil.InnerText":
				textRoots = append(textRoots, o)
			case o.serializer == "dom.OuterHTML" || o.serializer == "dom.InnerHTML":
				htmlRoots = append(htmlRoots, o)
			case o.value == `""` && o.textOnly == 1:
				textEmpty = true
			case o.value != `""` && o.textOnly == 1:
				otherText = append(otherText, shortVal(o.value))
			}
		}
		if len(otherText) > 0 && typ != "Text" {
			// (Text keeps its own text; its two views are compared by W1's Text obligations in C02-O1)
			r.Add("W1", typ+".GenerateOutput: every text rendering is InnerText of the tree the HTML view serialises", p.Pos(fn.Pos()), false,
				"text renderings built another way: "+strings.Join(otherText, " ; "))
		}
		key := typ + ".GenerateOutput: text and HTML views have one source"
		switch {
		case typ == "Tag":
			r.Add("W1", key, p.Pos(fn.Pos()), textEmpty && len(htmlRoots) == 0, "structural placeholder: no text in either view")
		case len(textRoots) > 0:
			ok := len(htmlRoots) > 0
			why := ""
			c := core.NewCanon(p)
			for _, t := range textRoots {
				for _, h := range htmlRoots {
					same := t.root == h.root || c.Of(t.root) == c.Of(h.root)
					if !same && typ == "Figure" {
						// the HTML view wraps the caption clone and the (text-free) image clone
						same = figureWrapsCaption(p, fn, t.root, h.root)
					}
					if !same {
						ok = false
						why = fmt.Sprintf("text view renders %s but the HTML view serialises %s", shortVal(c.Of(t.root)), shortVal(c.Of(h.root)))
					}
				}
				if t.textOnly != 1 {
					ok = false
					why = "text rendering reachable when textOnly is false"
				}
			}
			for _, h := range htmlRoots {
				if h.textOnly != -1 {
					ok = false
					why = "HTML rendering reachable when textOnly is true"
				}
			}
			r.Add("W1", key, p.Pos(fn.Pos()), ok, why)
			// ... and what only one of the views executes removes nothing from that shared tree
			// (the views are rendered by two calls: the text first, the HTML afterwards)
			if len(textRoots) > 0 {
				src := c.Of(textRoots[0].root)
				hits := viewExclusiveRemovals(p, fn, src)
				r.Add("W1", typ+".GenerateOutput: neither view alone removes nodes from the tree both views render", p.Pos(fn.Pos()), len(hits) == 0,
					"removal calls on "+shortVal(src)+" that only one view executes: "+strings.Join(hits, "; "))
			}
		case textEmpty:
			// HTML view must be text free
			ok, why := htmlViewTextFree(p, fn, typ)
			r.Add("W1", key, p.Pos(fn.Pos()), ok, why)
		default:
			r.Add("W1", key, p.Pos(fn.Pos()), false, "no text rendering found")
		}
	}
	// W5: the word sequences of the two views agree only if the HTML view does not glue words the
	// text view separates (shared with C02-O10)
	checkNoTrimmedConcatenation(p, r, "W5")
	// W8: the text view puts a blank around every text node - the builder counts words per text
	// node, so the count only equals the words of the text view if no two nodes run together
	// (C04-V5 shared: the collector of InnerText and that nothing gets around it)
	checkInnerTextCollector(p, r, "W8")
	// W6: the word counters split where the text view splits
	checkWordCounterSplits(p, r, "W6")
	// W7: the text view judges visibility on the processed clone, the walk (and WordCount) on the
	// page: the two agree only if an attribute the visibility decision reads survives the strip
	// together with everything its rule reads. The aria-hidden rule also reads the class attribute,
	// which StripAttributes always drops, so aria-hidden must not be in the allow-list.
	if dp := p.SSAPkgs[core.ExpandKey(domutilPkg)]; dp != nil {
		for _, mem := range dp.Members {
			g, ok := mem.(*ssa.Global)
			if !ok {
				continue
			}
			tbl, ok := p.GlobalConst(g)
			if !ok {
				continue
			}
			have := map[string]bool{}
			for _, k := range tableKeys(tbl) {
				have[k] = true
			}
			if have["href"] && have["src"] && have["alt"] {
				r.Add("W7", "the attribute allow-list does not keep aria-hidden (its rule also reads class, which is always dropped)", p.Pos(g.Pos()), !have["aria-hidden"], fmt.Sprintf("%d allowed attributes", len(have)))
			}
		}
	}

	r.Floor("W1", 7)

	// ---- W2
	checkImageURLSources(p, r, "W2")
	checkSrcsetAgreement(p, r, "W2")

	// ---- W3
	if ap := mustInl(p, r, "W3", core.ModPath+".Apply"); ap != nil {
		c := core.NewCanon(p)
		vals := map[string]map[string]bool{}
		for _, b := range ap.Blocks {
			for _, in := range b.Instrs {
				if st, ok := in.(*ssa.Store); ok {
					a := c.Of(st.Addr)
					if strings.HasPrefix(a, "&new(distiller.Result).") {
						f := strings.TrimPrefix(a, "&new(distiller.Result).")
						if vals[f] == nil {
							vals[f] = map[string]bool{}
						}
						vals[f][c.Of(st.Val)] = true
					}
				}
			}
		}
		one := func(f string) string {
			if len(vals[f]) != 1 {
				return ""
			}
			for v := range vals[f] {
				return v
			}
			return ""
		}
		ex := `extractor.ContentExtractor.ExtractContent(`
		text := one("Text")
		okText := strings.HasPrefix(text, "webdoc.Document.GenerateOutput("+ex) && strings.HasSuffix(text, "#0,true)")
		r.Add("W3", "Result.Text is the text rendering of the extracted document", p.Pos(ap.Pos()), okText, shortVal(text))
		doc := strings.TrimSuffix(strings.TrimPrefix(text, "webdoc.Document.GenerateOutput("), ",true)")
		r.Add("W3", "Result.Node is a fresh div", p.Pos(ap.Pos()), one("Node") == `dom.CreateElement("div")`, one("Node"))
		okHTML := false
		for _, call := range core.Calls(ap, func(ci ssa.CallInstruction) bool { return core.IsCallTo(ci, "github.com/go-shiori/dom.SetInnerHTML") }) {
			if c.Of(call.Common().Args[0]) == `dom.CreateElement("div")` && c.Of(call.Common().Args[1]) == "webdoc.Document.GenerateOutput("+doc+",false)" {
				okHTML = true
			}
		}
		r.Add("W3", "Result.Node holds the HTML rendering of the same document", p.Pos(ap.Pos()), okHTML && doc != "", "SetInnerHTML(container, doc.GenerateOutput(false)) with the document of Result.Text")
		checkNodeUntouchedAfterParse(p, r, "W3")
		wc := one("WordCount")
		r.Add("W3", "Result.WordCount comes from the same ExtractContent call", p.Pos(ap.Pos()), wc != "" && strings.TrimSuffix(wc, "#1") == strings.TrimSuffix(doc, "#0"), shortVal(wc))
		ci := one("ContentImages")
		r.Add("W3", "Result.ContentImages are the extractor's image URLs", p.Pos(ap.Pos()), strings.HasSuffix(ci, ".ImageURLs") && strings.Contains(ci, "extractor.NewContentExtractor("), shortVal(ci))
	}
	if ec := mustInl(p, r, "W3", "(*"+extractorPkg+".ContentExtractor).ExtractContent"); ec != nil {
		c := core.NewCanon(p)
		ok := false
		for _, b := range ec.Blocks {
			for _, in := range b.Instrs {
				if st, isSt := in.(*ssa.Store); isSt && c.Of(st.Addr) == "&$0.ImageURLs" {
					v := c.Of(st.Val)
					ok = strings.HasPrefix(v, "webdoc.Document.GetImageURLs(")
					for _, ret := range core.Returns(ec) {
						if !strings.Contains(v, c.Of(ret.Results[0])) {
							ok = false
						}
					}
				}
			}
		}
		r.Add("W3", "ImageURLs are collected from the returned document", p.Pos(ec.Pos()), ok, "")
	}

	// ---- W4
	checkTwoPassSkeleton(p, r, "W4")
	for _, key := range []string{"(*" + webdocPkg + ".Document).GenerateOutput"} {
		fn := mustInl(p, r, "W4", key)
		if fn == nil {
			continue
		}
		hs := loopHeaders(fn)
		if len(hs) != 1 {
			r.Undecided("W4", key, "expected one loop")
			continue
		}
		paths, atoms, _ := core.EnumerateDecisions(p, fn, core.DecisionOpts{IterateAt: hs[0], Outcome: noOutcome, Event: func(in ssa.Instruction, c *core.Canon) (string, bool) {
			if s, ok := sinkWritten(in, c); ok {
				return "emit " + s, true
			}
			return "", false
		}})
		el := `elem($0.Elements)`
		spec := core.DecisionSpec{
			Atoms: map[string]string{"content": q(`iface.IsContent(` + el + `)`), "textonly": q(`$1`)},
			Rules: []core.SpecRule{
				{Name: "dropped element: nothing emitted", Guard: core.Not(core.A("content")), Outcome: "next()"},
				{Name: "text view: rendering plus newline", Guard: core.A("textonly"), Outcome: `emit iface.GenerateOutput(` + el + `,$1); emit "\n" => next()`},
				{Name: "HTML view: rendering", Guard: core.True(), Outcome: `emit iface.GenerateOutput(` + el + `,$1) => next()`},
			},
		}
		core.CheckDecisionList(r, "W4", "Document.GenerateOutput(iteration)", paths, atoms, spec)
		// forward range over Elements
		c := core.NewCanon(p)
		fwd := false
		for a := range map[string]bool{} {
			_ = a
		}
		for _, b := range fn.Blocks {
			if len(b.Instrs) == 0 {
				continue
			}
			if ifi, ok := b.Instrs[len(b.Instrs)-1].(*ssa.If); ok && b == hs[0] {
				at, _ := c.CondAtom(ifi.Cond)
				fwd = at == `μ((@0 + 1)|0) < len($0.Elements)`
			}
		}
		r.Add("W4", "Document.GenerateOutput walks the element list front to back", p.Pos(fn.Pos()), fwd, "")
	}
}

// figureWrapsCaption: the HTML root is a wrapper created here that receives the caption clone.
func figureWrapsCaption(p *core.Program, fn *ssa.Function, textRoot, htmlRoot ssa.Value) bool {
	c := core.NewCanon(p)
	for _, call := range core.Calls(fn, func(ci ssa.CallInstruction) bool { return core.IsCallTo(ci, "github.com/go-shiori/dom.AppendChild") }) {
		if call.Common().Args[0] == htmlRoot && (call.Common().Args[1] == textRoot || c.Of(call.Common().Args[1]) == c.Of(textRoot)) {
			return true
		}
	}
	return false
}

// htmlViewTextFree: for element kinds whose text view is "" the HTML view must not carry source text.
func htmlViewTextFree(p *core.Program, fn *ssa.Function, typ string) (bool, string) {
	c := core.NewCanon(p)
	switch typ {
	case "Image":
		// serialises the processed clone of an img/picture (no text children by construction)
		return true, "img/picture clone: pictures are reduced to img/source by the extractor (C05-S3 reviewed copy)"
	case "Video":
		// shallow clone + shallow clones of source/track children
		for _, call := range core.Calls(fn, func(ci ssa.CallInstruction) bool { return core.IsCallTo(ci, "github.com/go-shiori/dom.Clone") }) {
			if deep, ok := core.ConstBool(call.Common().Args[1]); !ok || deep {
				return false, "deep clone in Video.GenerateOutput at " + p.Pos(call.Pos()) + " could copy fallback text"
			}
		}
		return true, "only shallow clones of the video and its source/track children"
	case "Embed":
		for _, call := range core.Calls(fn, func(ci ssa.CallInstruction) bool { return core.IsCallTo(ci, "github.com/go-shiori/dom.AppendChild") }) {
			return false, "the HTML view embeds " + c.Of(call.Common().Args[1]) + " (a copy of the source element with its text, e.g. the words of a tweet) while the text view is empty"
		}
		return true, "placeholder only"
	}
	return false, "unknown element kind " + typ + " with an empty text view"
}

var removalKeys = []string{"(*golang.org/x/net/html.Node).RemoveChild", "github.com/go-shiori/dom.DetachChild", "github.com/go-shiori/dom.RemoveNodes",
	"github.com/go-shiori/dom.ReplaceChild", "github.com/go-shiori/dom.SetTextContent", "github.com/go-shiori/dom.SetInnerHTML"}

// viewExclusiveRemovals lists the calls in a GenerateOutput implementation that take nodes out of
// (or replace the content of) the tree rendered as `src` and are executed for one value of the
// textOnly parameter only.
func viewExclusiveRemovals(p *core.Program, fn *ssa.Function, src string) []string {
	c := core.NewCanon(p)
	k := paramIndexOfType(fn, "bool")
	if k < 0 {
		return nil
	}
	re := regexp.MustCompile(`^\$` + fmt.Sprint(k) + `$`)
	cutT, m := core.CutAtoms(p, fn, re, true)
	cutF, _ := core.CutAtoms(p, fn, re, false)
	if len(m) == 0 {
		return nil
	}
	var hits []string
	for _, call := range core.Calls(fn, func(ci ssa.CallInstruction) bool { return core.IsCallTo(ci, removalKeys...) }) {
		in, ok := call.(ssa.Instruction)
		if !ok {
			continue
		}
		touches := false
		for _, a := range call.Common().Args {
			if strings.Contains(c.Of(a), src) {
				touches = true
			}
		}
		if !touches {
			continue
		}
		onlyHTML := !core.InstrReachable(fn, cutF, in)
		onlyText := !core.InstrReachable(fn, cutT, in)
		if onlyHTML != onlyText {
			view := "HTML"
			if onlyText {
				view = "text"
			}
			hits = append(hits, fmt.Sprintf("%s in the %s view at %s", core.Callee(call).Name(), view, p.Pos(call.Pos())))
		}
	}
	return hits
}

// checkWordCounterSplits (C09-W6): WordCount is counted on the text of the source nodes, the words
// of Result.Text are what strings.Fields (unicode.IsSpace) leaves of the rendered text. The two
// agree only if the counters split words at every character that Fields splits at. The word
// matcher patterns are constants of package stringutil; they are compiled here (no code of the
// repository runs) and asked about "ab<r>cd" for every white-space character r of Unicode: each
// must find two words (U+1680 is left out: the letter range of the original patterns contains it; Go's \S, unlike the JavaScript \S of the original, is ASCII-only: a
// no-break space inside "5 000 EUR" made one word of three).
func checkWordCounterSplits(p *core.Program, r *core.Report, rule string) {
	spaces := []rune{'\t', '\n', '\v', '\f', '\r', ' ', 0x85, 0xA0, 0x2000, 0x2001, 0x2002, 0x2003, 0x2004, 0x2005, 0x2006, 0x2007, 0x2008, 0x2009, 0x200A, 0x2028, 0x2029, 0x202F, 0x205F, 0x3000}
	c := core.NewCanon(p)
	seen := map[string]bool{}
	for _, fn := range p.ModFunctions(false) {
		if fn.Name() != "Count" || core.FnPkgPath(fn) != core.ExpandKey("mod/internal/stringutil") {
			continue
		}
		for _, call := range core.Calls(p.Inlined(fn), func(ci ssa.CallInstruction) bool {
			return core.IsCallTo(ci, "(*regexp.Regexp).FindAllString", "(*regexp.Regexp).FindAllStringIndex")
		}) {
			rx := c.Of(call.Common().Args[0])
			if !strings.HasPrefix(rx, "rx‹") || seen[rx] {
				continue
			}
			seen[rx] = true
			pat := strings.TrimSuffix(strings.TrimPrefix(rx, "rx‹"), "›")
			re, err := regexp.Compile(pat)
			if err != nil {
				r.Undecided(rule, "word matcher "+pat, err.Error())
				continue
			}
			if len(re.FindAllString("ab cd", -1)) != 2 {
				continue // not a matcher of blank-separated words (the per-character CJK matcher)
			}
			var bad []string
			for _, sp := range spaces {
				if n := len(re.FindAllString("ab"+string(sp)+"cd", -1)); n != 2 {
					bad = append(bad, fmt.Sprintf("U+%04X", sp))
				}
			}
			// ... and nowhere else inside a word: format characters (soft hyphen, zero-width space,
			// joiners, BOM) are no white space for strings.Fields either
			for _, fc := range []rune{0xAD, 0x200B, 0x200C, 0x200D, 0x2060, 0xFEFF} {
				if n := len(re.FindAllString("ab"+string(fc)+"cd", -1)); n != 1 {
					bad = append(bad, fmt.Sprintf("splits at U+%04X", fc))
				}
			}
			r.Add(rule, "word matcher "+pat+" splits at every white-space character the text view splits at (and at no format character)", p.Pos(call.Pos()), len(bad) == 0, "one word instead of two around / split at: "+strings.Join(bad, " "))
		}
	}
	r.Floor(rule, 2)
}

// checkNodeUntouchedAfterParse (C09-W3, shared as C08-E12): Result.Node is the parsed HTML
// rendering as it is. In Apply (unexported helpers expanded) the container that is stored as
// Result.Node is created, filled by one SetInnerHTML and stored - it is handed to nothing else, so
// no later pass can take retained elements out of (or put anything into) the HTML view only.
func checkNodeUntouchedAfterParse(p *core.Program, r *core.Report, rule string) {
	ap := mustInl(p, r, rule, core.ModPath+".Apply")
	if ap == nil {
		return
	}
	var conts []ssa.Value
	for _, in := range instrsOf(ap) {
		if st, ok := in.(*ssa.Store); ok {
			if fa, ok := st.Addr.(*ssa.FieldAddr); ok && core.FieldNameOf(fa) == "Node" {
				if nm := core.NamedOf(derefT(fa.X.Type())); nm != nil && nm.Obj().Name() == "Result" {
					conts = append(conts, st.Val)
				}
			}
		}
	}
	var other []string
	for _, cv := range conts {
		refs := cv.Referrers()
		if refs == nil {
			continue
		}
		for _, ref := range *refs {
			switch x := ref.(type) {
			case *ssa.Store:
				if x.Val == cv {
					if fa, ok := x.Addr.(*ssa.FieldAddr); ok && core.FieldNameOf(fa) == "Node" {
						continue
					}
				}
			case ssa.CallInstruction:
				if core.IsCallTo(x, "github.com/go-shiori/dom.SetInnerHTML") && len(x.Common().Args) == 2 && x.Common().Args[0] == cv {
					continue
				}
			case *ssa.DebugRef:
				continue
			}
			other = append(other, p.Pos(ref.Pos())+": "+strings.TrimSpace(ref.String()))
		}
	}
	r.Add(rule, "Result.Node is only created, filled by SetInnerHTML and stored", p.Pos(ap.Pos()), len(conts) == 1 && len(other) == 0, fmt.Sprintf("%d stores of Result.Node; other uses of the container: %v", len(conts), other))
}
