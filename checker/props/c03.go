package props

import (
	"fmt"
	"go/ast"
	"go/types"
	"regexp"
	"sort"
	"strings"

	"ddcheck/core"

	"golang.org/x/tools/go/ssa"
)

func init() { Registry["C03"] = C03 }

var simpleInlineTags = []string{"a", "b", "code", "em", "font", "i", "span", "strong", "u"}

// siblingLoop describes `for c := ...; c != nil; c = c.NextSibling`.
type siblingLoop struct {
	fn     *ssa.Function
	phi    *ssa.Phi
	load   *ssa.UnOp // the advancing load of c.NextSibling / c.PrevSibling
	field  string
	header *ssa.BasicBlock
}

func findSiblingLoops(fn *ssa.Function) []siblingLoop {
	var out []siblingLoop
	for _, b := range fn.Blocks {
		for _, in := range b.Instrs {
			ph, ok := in.(*ssa.Phi)
			if !ok {
				break
			}
			if core.NamedOf(ph.Type()) == nil || !strings.HasSuffix(ph.Type().String(), "html.Node") {
				continue
			}
			for _, e := range ph.Edges {
				ld, ok := e.(*ssa.UnOp)
				if !ok {
					continue
				}
				fa, ok := ld.X.(*ssa.FieldAddr)
				if !ok {
					continue
				}
				st, ok := derefT(fa.X.Type()).Underlying().(*types.Struct)
				if !ok {
					continue
				}
				fname := st.Field(fa.Field).Name()
				if fname != "NextSibling" && fname != "PrevSibling" {
					continue
				}
				// the base must be the cursor itself
				if fa.X != ssa.Value(ph) {
					continue
				}
				out = append(out, siblingLoop{fn: fn, phi: ph, load: ld, field: fname, header: b})
			}
		}
	}
	return out
}

func derefT(t types.Type) types.Type {
	if p, ok := t.Underlying().(*types.Pointer); ok {
		return p.Elem()
	}
	return t
}

// executesBeforeInIteration: can `first` execute before `second` within one iteration of the
// loop headed by header (no passage through the header in between)?
func executesBeforeInIteration(first, second ssa.Instruction, header *ssa.BasicBlock) bool {
	if first.Block() == second.Block() {
		return instrIndex(first) < instrIndex(second)
	}
	seen := map[*ssa.BasicBlock]bool{first.Block(): true}
	stack := []*ssa.BasicBlock{first.Block()}
	for len(stack) > 0 {
		b := stack[len(stack)-1]
		stack = stack[:len(stack)-1]
		for _, s := range b.Succs {
			if s == header || seen[s] {
				continue
			}
			if s == second.Block() {
				return true
			}
			seen[s] = true
			stack = append(stack, s)
		}
	}
	return false
}

// C03: a simple paragraph is kept or dropped as a whole.
func C03(p *core.Program, r *core.Report) {
	r.Explanation = "I1 (iterator invalidation): every loop that walks siblings by re-reading cursor.NextSibling/PrevSibling is located in the analysed program; using the effect summaries (callbacks included context-insensitively) no call that executes before the advancing load in an iteration may write that link field of an object of the cursor's region - otherwise the walk silently skips the rest of the paragraph (the defect repaired in WalkNodes). I2 (inline tags stay inside the block): from the extracted tables, each of a,b,code,em,font,i,span,strong,u has display `inline`, inline display neither flushes nor labels, the converter's tag switch drops none of them unconditionally, font is renamed to an inline tag, and the builder's flush flag is only raised by SkipNode/StartNode. I3: TextBlock.ApplyToModel marks every Text element of a content block on every iteration path."
	r.NotCovered = "the classifier's decision which blocks are content; visibility of inline elements (C04); the three documented conditional drops inside paragraphs (mediawiki edit links/sections)."

	a := runPEA(p)
	peaStats(r, a)

	// ---- I1
	nLoops := 0
	for _, fn := range a.Functions() {
		for _, lp := range findSiblingLoops(fn) {
			nLoops++
			key := fmt.Sprintf("%s: loop over %s", core.ShortKey(fn), lp.field)
			bad := false
			for _, b := range fn.Blocks {
				for _, in := range b.Instrs {
					call, ok := in.(ssa.CallInstruction)
					if !ok {
						continue
					}
					if _, isB := call.Common().Value.(*ssa.Builtin); isB {
						continue
					}
					// only calls inside the loop that can run before the advancing load
					if !(reachableFrom(lp.header, b) && reachableFrom(b, lp.header)) {
						continue
					}
					if !executesBeforeInIteration(in, lp.load, lp.header) {
						continue
					}
					var vals []ssa.Value
					if call.Common().IsInvoke() {
						vals = append(vals, call.Common().Value)
					}
					vals = append(vals, call.Common().Args...)
					for _, callee := range a.SiteCallees(fn, call) {
						if !a.Analysed(callee) {
							continue
						}
						for j, v := range vals {
							if !a.Overlap(v, lp.phi) {
								continue
							}
							mods := a.ParamMods(callee, j, true)
							if ef, ok := mods["Node."+lp.field]; ok {
								bad = true
								r.Add("I1", key+" × "+core.ShortKey(callee), p.Pos(in.Pos()), false,
									fmt.Sprintf("the call may write %s of a node of the cursor's tree before the loop reads cursor.%s: the iteration can be cut short (read the next sibling before the call)", lp.field, lp.field),
									a.Chain(ef)...)
							}
						}
					}
				}
			}
			if !bad {
				r.Add("I1", key, p.Pos(lp.load.Pos()), true, "no call before the advancing load can write the cursor's "+lp.field)
			}
		}
	}
	r.Stats["sibling_loops"] = nLoops
	r.Floor("I1", 8)
	// positive control: the converter's visitor is known to write NextSibling of the visited node
	if ve := p.Func("(*" + core.ExpandKey(converterPkg) + ".DomConverter).visitElementNodeHandler"); ve != nil {
		_, ok := a.ParamMods(ve, 1, true)["Node.NextSibling"]
		r.Add("I1", "sanity: the element visitor may detach the visited node (writes its NextSibling)", p.Pos(ve.Pos()), ok, "javascript: anchors are replaced by their text node during the walk")
	}

	// ---- I2
	if fd, pkg := p.FuncDecl("internal/domutil", "", "GetDisplayStyle"); fd == nil {
		r.Undecided("I2", "anchor domutil.GetDisplayStyle", "not found")
	} else {
		var inline map[string]bool
		for _, sw := range core.StringSwitches(pkg, fd.Body, nil) {
			for _, cl := range sw.Clauses {
				if len(cl.Body) == 1 {
					if ret, ok := cl.Body[0].(*ast.ReturnStmt); ok && len(ret.Results) == 1 {
						if s, ok := core.ConstStringOf(pkg, ret.Results[0]); ok && s == "inline" {
							inline = map[string]bool{}
							for _, l := range cl.Labels {
								inline[l] = true
							}
						}
					}
				}
			}
		}
		if inline == nil {
			r.Undecided("I2", "GetDisplayStyle inline clause", "no switch clause returning \"inline\"")
		}
		for _, t := range simpleInlineTags {
			r.Add("I2", "display of <"+t+"> is inline", p.Pos(fd.Pos()), inline[t], "tags with default display inline do not end a text block")
		}
	}
	if fd, pkg := p.FuncDecl("internal/webdoc", "", "GetActionForElement"); fd == nil {
		r.Undecided("I2", "anchor webdoc.GetActionForElement", "not found")
	} else {
		ok, desc := false, "no switch on the display style"
		for _, sw := range core.StringSwitches(pkg, fd.Body, nil) {
			if cl := sw.ByLabel["inline"]; cl != nil {
				ok = len(cl.Body) == 0
				desc = fmt.Sprintf("clause %v has %d statements", cl.Labels, len(cl.Body))
			}
		}
		r.Add("I2", "inline display neither flushes nor changes the tag level", p.Pos(fd.Pos()), ok, desc)
		// the tag switch: none of the simple inline tags gets a label, only <a> is special
		for _, sw := range core.StringSwitches(pkg, fd.Body, nil) {
			if sw.ByLabel["h1"] == nil {
				continue
			}
			for _, t := range simpleInlineTags {
				cl := sw.ByLabel[t]
				okT := cl == nil
				why := "no special action"
				if cl != nil {
					// allowed: the anchor clause that only sets ChangesTagLevel / IsAnchor
					src := nodeText(p, cl.Clause)
					okT = t == "a" && !strings.Contains(src, "Flush") && !strings.Contains(src, "Labels")
					why = "clause: " + strings.Join(strings.Fields(src), " ")
				}
				r.Add("I2", "element action of <"+t+"> does not flush or label", p.Pos(fd.Pos()), okT, why)
			}
		}
	}
	if tbl := converterSwitch(p, r, "I2"); tbl != nil {
		for _, t := range simpleInlineTags {
			cl := tbl.ByLabel[t]
			switch {
			case cl == nil:
				r.Add("I2", "converter walks <"+t+"> like any element", tbl.Pos, tbl.AfterSwitchStart, "falls through to StartNode + return true")
			case t == "font":
				okF := cl.AlwaysReturnsTrue && cl.Calls["StartNode"]
				r.Add("I2", "converter keeps <font> (renamed to an inline tag)", tbl.Pos, okF, cl.Describe())
			default:
				r.Add("I2", "converter drops <"+t+"> only conditionally", tbl.Pos, !cl.AlwaysReturnsFalse && !cl.Calls["SkipNode"], cl.Describe())
			}
		}
	}
	// who raises the flush flag
	checkFlushWriters(p, r)

	// ---- I3
	am := mustFunc(p, r, "I3", "(*mod/internal/webdoc.TextBlock).ApplyToModel")
	if am != nil {
		hs := loopHeaders(am)
		if len(hs) != 1 {
			r.Undecided("I3", "TextBlock.ApplyToModel loop", fmt.Sprintf("expected one loop, found %d", len(hs)))
		} else {
			opts := core.DecisionOpts{IterateAt: hs[0], Outcome: func(in ssa.Instruction, c *core.Canon) (string, bool) {
				if _, ok := in.(*ssa.Return); ok {
					return "return", true
				}
				return "", false
			}, Event: callEvent(regexp.MustCompile(`SetIsContent`))}
			paths, _, err := core.EnumerateDecisions(p, am, opts)
			if err != nil {
				r.Undecided("I3", "ApplyToModel", err.Error())
			}
			for i, pa := range paths {
				ok := strings.Contains(pa.Outcome, "SetIsContent(") && strings.Contains(pa.Outcome, ",true)") && strings.HasSuffix(pa.Outcome, "next()")
				r.Add("I3", fmt.Sprintf("ApplyToModel iteration path %d marks the element and continues", i), pa.Pos, ok, pa.String())
			}
			r.Floor("I3", 2)
		}
		// the loop ranges over all TextElements of the block
		c := core.NewCanon(p)
		found := false
		for _, b := range am.Blocks {
			for _, in := range b.Instrs {
				if ia, ok := in.(*ssa.IndexAddr); ok && c.Of(ia.X) == "$0.TextElements" {
					found = true
				}
			}
		}
		r.Add("I3", "ApplyToModel ranges over the block's TextElements", p.Pos(am.Pos()), found, "")
	}
}

func nodeText(p *core.Program, n ast.Node) string {
	start := p.Fset.Position(n.Pos())
	end := p.Fset.Position(n.End())
	b, err := readFileCached(start.Filename)
	if err != nil || end.Offset > len(b) {
		return ""
	}
	return string(b[start.Offset:end.Offset])
}

// checkFlushWriters: WebDocumentBuilder.flush may be set to a non-false value only by SkipNode and
// StartNode (from the element action).
func checkFlushWriters(p *core.Program, r *core.Report) {
	c := core.NewCanon(p)
	writers := map[string]bool{}
	for _, fn := range p.ModFunctions(false) {
		if !strings.Contains(fn.String(), "webdoc.WebDocumentBuilder)") {
			continue
		}
		for _, b := range fn.Blocks {
			for _, in := range b.Instrs {
				st, ok := in.(*ssa.Store)
				if !ok || c.Of(st.Addr) != "&$0.flush" {
					continue
				}
				if bv, isC := core.ConstBool(st.Val); isC && !bv {
					continue
				}
				writers[fn.Name()] = true
			}
		}
	}
	var ws []string
	for w := range writers {
		ws = append(ws, w)
	}
	sort.Strings(ws)
	r.Add("I2", "the text builder is flushed only by skipped or block-level elements", "", sameSet(ws, []string{"SkipNode", "StartNode"}),
		fmt.Sprintf("functions that can raise WebDocumentBuilder.flush: %v (documented: SkipNode, StartNode)", ws))
}
