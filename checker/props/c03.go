package props

import (
	"fmt"
	"go/ast"
	"go/types"
	"regexp"
	"sort"
	"strings"

	"ddcheck/core"

	"golang.org/x/tools/go/ssa"
)

func init() { Registry["C03"] = C03 }

var simpleInlineTags = []string{"a", "b", "code", "em", "font", "i", "span", "strong", "u"}

// siblingLoop describes `for c := ...; c != nil; c = c.NextSibling`.
type siblingLoop struct {
	fn     *ssa.Function
	phi    *ssa.Phi
	load   *ssa.UnOp // the advancing load of c.NextSibling / c.PrevSibling
	field  string
	header *ssa.BasicBlock
}

func findSiblingLoops(fn *ssa.Function) []siblingLoop {
	var out []siblingLoop
	for _, b := range fn.Blocks {
		for _, in := range b.Instrs {
			ph, ok := in.(*ssa.Phi)
			if !ok {
				break
			}
			if core.NamedOf(ph.Type()) == nil || !strings.HasSuffix(ph.Type().String(), "html.Node") {
				continue
			}
			for _, e := range ph.Edges {
				ld, ok := e.(*ssa.UnOp)
				if !ok {
					continue
				}
				fa, ok := ld.X.(*ssa.FieldAddr)
				if !ok {
					continue
				}
				st, ok := derefT(fa.X.Type()).Underlying().(*types.Struct)
				if !ok {
					continue
				}
				fname := st.Field(fa.Field).Name()
				if fname != "NextSibling" && fname != "PrevSibling" {
					continue
				}
				// the base must be the cursor itself
				if fa.X != ssa.Value(ph) {
					continue
				}
				out = append(out, siblingLoop{fn: fn, phi: ph, load: ld, field: fname, header: b})
			}
		}
	}
	return out
}

func derefT(t types.Type) types.Type {
	if p, ok := t.Underlying().(*types.Pointer); ok {
		return p.Elem()
	}
	return t
}

// executesBeforeInIteration: can `first` execute before `second` within one iteration of the
// loop headed by header (no passage through the header in between)?
func executesBeforeInIteration(first, second ssa.Instruction, header *ssa.BasicBlock) bool {
	if first.Block() == second.Block() {
		return instrIndex(first) < instrIndex(second)
	}
	seen := map[*ssa.BasicBlock]bool{first.Block(): true}
	stack := []*ssa.BasicBlock{first.Block()}
	for len(stack) > 0 {
		b := stack[len(stack)-1]
		stack = stack[:len(stack)-1]
		for _, s := range b.Succs {
			if s == header || seen[s] {
				continue
			}
			if s == second.Block() {
				return true
			}
			seen[s] = true
			stack = append(stack, s)
		}
	}
	return false
}

// C03: a simple paragraph is kept or dropped as a whole.
func C03(p *core.Program, r *core.Report) {
	r.Explanation = "I1 (iterator invalidation): every loop that walks siblings by re-reading cursor.NextSibling/PrevSibling is located in the analysed program; using the effect summaries (callbacks included context-insensitively) no call that executes before the advancing load in an iteration may write that link field of an object of the cursor's region - otherwise the walk silently skips the rest of the paragraph (the defect repaired in WalkNodes). I2 (inline tags stay inside the block): from the extracted tables, each of a,b,code,em,font,i,span,strong,u has display `inline`, inline display neither flushes nor labels, the converter's tag switch drops none of them unconditionally, font is renamed to an inline tag, and the builder's flush flag is only raised by SkipNode/StartNode. I3: TextBlock.ApplyToModel marks every Text element of a content block on every iteration path. I4: on every decision path of the element visitor for an inline tag that does not descend into the element, the reason is a decision on a marking attribute of the element (class, id, rel, role, itemprop, data-*; of its href only the documented mediawiki edit-section test) or its visibility - or it is the javascript: anchor rewrite, which applies only to an anchor whose single child is a text node and hands that node to the builder. I5: StartNode pushes GetActionForElement of the very element it is given. I6: the output post-processors (absolutisers, StripAttributes) write no structural field of html.Node (effect summaries, callees included). I5: one iteration of the walker's child loop has no decision of its own (no depth or count bound, no filter) and always walks the child."
	r.NotCovered = "the classifier's decision which blocks are content; visibility of inline elements (C04); the three documented conditional drops inside paragraphs (mediawiki edit links/sections)."

	a := runPEA(p)
	peaStats(r, a)

	// ---- I1
	nLoops := 0
	for _, fn := range a.Functions() {
		for _, lp := range findSiblingLoops(fn) {
			nLoops++
			key := fmt.Sprintf("%s: loop over %s", core.ShortKey(fn), lp.field)
			bad := false
			for _, b := range fn.Blocks {
				for _, in := range b.Instrs {
					call, ok := in.(ssa.CallInstruction)
					if !ok {
						continue
					}
					if _, isB := call.Common().Value.(*ssa.Builtin); isB {
						continue
					}
					// only calls inside the loop that can run before the advancing load
					if !(reachableFrom(lp.header, b) && reachableFrom(b, lp.header)) {
						continue
					}
					if !executesBeforeInIteration(in, lp.load, lp.header) {
						continue
					}
					var vals []ssa.Value
					if call.Common().IsInvoke() {
						vals = append(vals, call.Common().Value)
					}
					vals = append(vals, call.Common().Args...)
					for _, callee := range a.SiteCallees(fn, call) {
						if !a.Analysed(callee) {
							continue
						}
						for j, v := range vals {
							if !a.Overlap(v, lp.phi) {
								continue
							}
							mods := a.ParamMods(callee, j, true)
							if ef, ok := mods["Node."+lp.field]; ok {
								bad = true
								r.Add("I1", key+" × "+core.ShortKey(callee), p.Pos(in.Pos()), false,
									fmt.Sprintf("the call may write %s of a node of the cursor's tree before the loop reads cursor.%s: the iteration can be cut short (read the next sibling before the call)", lp.field, lp.field),
									a.Chain(ef)...)
							}
						}
					}
				}
			}
			if !bad {
				r.Add("I1", key, p.Pos(lp.load.Pos()), true, "no call before the advancing load can write the cursor's "+lp.field)
			}
		}
	}
	r.Stats["sibling_loops"] = nLoops
	r.Floor("I1", 8)
	// positive control: the converter's visitor is known to write NextSibling of the visited node
	if ve, _ := walkHandlers(p, r, "I1"); ve != nil {
		ve = p.Original(ve)
		_, ok := a.ParamMods(ve, 1, true)["Node.NextSibling"]
		r.Add("I1", "sanity: the element visitor may detach the visited node (writes its NextSibling)", p.Pos(ve.Pos()), ok, "javascript: anchors are replaced by their text node during the walk")
	}

	// ---- I2
	if gd := mustInl(p, r, "I2", domutilPkg+".GetDisplayStyle"); gd != nil {
		paths, _, err := returnPaths(p, gd, 100000)
		if err != nil {
			r.Undecided("I2", "GetDisplayStyle", err.Error())
		}
		for _, t := range simpleInlineTags {
			n, okT := 0, true
			for _, pa := range consistentWith(paths, "dom.TagName($0)", t) {
				if len(pa.Lits) > 0 && inlineDisplayGiven(pa.Lits[0]) {
					continue // an inline style decides
				}
				n++
				if pa.Outcome != `return "inline"` {
					okT = false
				}
			}
			r.Add("I2", "display of <"+t+"> is inline", p.Pos(gd.Pos()), okT && n > 0, "tags with default display inline do not end a text block")
		}
	}
	if ga := mustInl(p, r, "I2", "mod/internal/webdoc.GetActionForElement"); ga != nil {
		act := "&new(webdoc.ElementAction)."
		paths, _, err := core.EnumerateDecisions(p, ga, core.DecisionOpts{MaxPaths: 200000,
			Outcome: func(in ssa.Instruction, c *core.Canon) (string, bool) {
				if _, ok := in.(*ssa.Return); ok {
					return "done", true
				}
				return "", false
			},
			Event: func(in ssa.Instruction, c *core.Canon) (string, bool) {
				if st, ok := in.(*ssa.Store); ok {
					if a := c.Of(st.Addr); strings.HasPrefix(a, act) {
						return strings.TrimPrefix(a, act) + "=" + c.Of(st.Val), true
					}
				}
				return "", false
			}})
		if err != nil {
			r.Undecided("I2", "GetActionForElement", err.Error())
		}
		inlinePaths := consistentWith(paths, "domutil.GetDisplayStyle($0)", "inline")
		for _, t := range simpleInlineTags {
			n, okT, why := 0, true, "no flush, no tag-level change, no label"
			for _, pa := range consistentWith(inlinePaths, "dom.TagName($0)", t) {
				n++
				for _, ev := range pathEvents(pa) {
					switch {
					case ev == "Flush=false" || ev == "ChangesTagLevel=false":
					case ev == "ChangesTagLevel=true" && t == "a":
					case strings.HasPrefix(ev, "IsAnchor=") && t == "a":
					case strings.HasPrefix(ev, "Labels=") && strings.Contains(ev, "STRICTLY_NOT_CONTENT") && !strings.Contains(ev, "HEADING"):
						// the comment-section rule (class/id), independent of the tag
					default:
						okT = false
						why = "sets " + ev
					}
				}
			}
			r.Add("I2", "element action of inline <"+t+"> does not flush or label", p.Pos(ga.Pos()), okT && n > 0, fmt.Sprintf("%d paths; %s", n, why))
		}
	}
	if tbl := converterSwitch(p, r, "I2"); tbl != nil {
		ref := tbl.For("zz-no-such-tag")
		for _, t := range simpleInlineTags {
			cl := tbl.For(t)
			r.Add("I2", "converter walks into <"+t+"> (never drops it for its tag alone)", tbl.Pos, cl.SomeReturnTrue && cl.Calls["StartNode"], cl.Describe())
			if t != "a" && t != "font" && t != "span" {
				r.Add("I2", "converter treats <"+t+"> like any element without a special case", tbl.Pos, cl.Sig == ref.Sig, "behaviour compared with that for an unknown tag name")
			}
		}
	}
	// ---- I5: the walk reaches every child of a node it descends into: one iteration of the
	// walker's sibling loop has no decision of its own (no depth or count bound, no filter) and
	// always walks the child
	if wn := walkerBody(p, r, "I5"); wn != nil {
		loops := findSiblingLoops(wn)
		if len(loops) != 1 {
			r.Undecided("I5", "WalkNodes: the loop over the children", fmt.Sprintf("%d sibling loops", len(loops)))
		} else {
			paths, atoms, err := core.EnumerateDecisions(p, wn, core.DecisionOpts{IterateAt: loops[0].header, Outcome: noOutcome, ExitOutcome: "exit",
				Event: func(in ssa.Instruction, c *core.Canon) (string, bool) {
					if call, ok := in.(*ssa.Call); ok && isSelfCall(p, wn, call) {
						return "descend", true
					}
					return "", false
				}})
			var extra, skipping []string
			for a := range atoms {
				if !strings.HasSuffix(a, " == nil") && !strings.HasSuffix(a, " == nil)") {
					extra = append(extra, a)
				}
			}
			sort.Strings(extra)
			for _, pa := range paths {
				if !strings.Contains(pa.Outcome, "descend") && !strings.Contains(pa.Outcome, "exit") {
					skipping = append(skipping, shortVal(pa.String()))
				}
			}
			r.Add("I5", "WalkNodes walks every child of a visited node (the child loop has no other exit or filter)", p.Pos(wn.Pos()),
				err == nil && len(paths) >= 1 && len(extra) == 0 && len(skipping) == 0, fmt.Sprintf("%d iteration paths; conditions besides the end of the child list: %v; iterations without the recursive call: %d", len(paths), extra, len(skipping)))
		}
	}
	// ---- I4: an inline element is only left out (the walk does not descend and nothing of it is
	// handed to the builder) for a reason that lies in its attributes or its visibility - a plain
	// <b>, <span>, <a href=..> never is. The javascript: anchor rewrite must hand over the whole
	// content: it applies only to an anchor with exactly one child, a text node, which is added.
	if tbl := converterSwitch(p, r, "I4"); tbl != nil {
		reAttr := regexp.MustCompile(`dom\.(ClassName|ID)\(\$1\)|dom\.GetAttribute\(\$1,"[^"]*"\)|dom\.HasAttribute\(\$1,`)
		jsTest := `strings.HasPrefix(dom.GetAttribute($1,"href"),"javascript:")`
		mwEdit := `strings.Contains(dom.GetAttribute($1,"href"),"action=edit&section=")`
		for _, t := range simpleInlineTags {
			n, bad := 0, 0
			var wit []string
			for _, pa := range tbl.PathsFor(t) {
				if pathResult(pa) != "return false" {
					continue
				}
				n++
				explained := false
				for _, l := range pa.Lits {
					switch {
					case l.Atom == "domutil.IsProbablyVisible($1)" && !l.Val:
						explained = true
					case l.Atom == jsTest:
						// the javascript: href itself is no reason to drop anything
					case strings.Contains(l.Atom, `dom.GetAttribute($1,"href")`):
						// where a link points is no reason to drop its label: a plain <a href=..> is part of
						// the paragraph. The one documented exception is the mediawiki edit-section link.
						if l.Val && l.Atom == mwEdit {
							explained = true
						}
					case l.Val && reAttr.MatchString(l.Atom):
						explained = true // a decision taken on a marking attribute of the element (class, id, rel, role, itemprop, data-*)
					}
				}
				if !explained && litOf(pa, jsTest) == 1 {
					// the rewrite: the only child is a text node and it is handed to the builder
					added := false
					for _, ev := range builderCalls(pa) {
						if ev == "AddTextNode(dom.ChildNodes($1)[0])" {
							added = true
						}
					}
					explained = added && litOf(pa, "len(dom.ChildNodes($1)) == 1") == 1 && litOf(pa, "dom.ChildNodes($1)[0].Type == html.TextNode") == 1
				}
				if !explained {
					bad++
					if len(wit) < 2 {
						wit = append(wit, pa.String())
					}
				}
			}
			r.Add("I4", "inline <"+t+"> is skipped only for its attributes/visibility, or rewritten with its whole content", tbl.Pos, bad == 0 && n > 0,
				fmt.Sprintf("%d paths do not descend into the element, %d of them without such a reason", n, bad), wit...)
		}
	}
	// ---- I5: the builder acts on the action of the very element it is given (no stale or shared
	// action: whether an inline element flushes depends on its own style attribute)
	if sn := mustInl(p, r, "I5", "(*"+webdocPkg+".WebDocumentBuilder).StartNode"); sn != nil {
		c := core.NewCanon(p)
		n, bad := 0, ""
		for _, call := range core.Calls(sn, func(ci ssa.CallInstruction) bool {
			b, ok := ci.Common().Value.(*ssa.Builtin)
			return ok && b.Name() == "append"
		}) {
			if !strings.HasSuffix(c.Of(call.Common().Args[0]), ".‹[]webdoc.ElementAction›") {
				continue
			}
			el := appendedElem(call.(*ssa.Call))
			if el == nil {
				continue
			}
			n++
			if !allPhiLeaves(el, func(v ssa.Value) bool {
				return c.Of(v) == "webdoc.GetActionForElement($1)"
			}, map[ssa.Value]bool{}) {
				bad = c.Of(el)
			}
		}
		r.Add("I5", "StartNode pushes GetActionForElement of the element it is given", p.Pos(sn.Pos()), n == 1 && bad == "", fmt.Sprintf("%d pushes onto the action stack; other source: %s", n, bad))
	}
	// ---- I6: what post-processes a clone for output rewrites attribute values only; it never
	// re-links, renames or removes nodes (effect summaries: no write to a structural field of
	// html.Node by the absolutisers or StripAttributes, callees included)
	{
		a := runPEA(p)
		structural := []string{"Parent", "FirstChild", "LastChild", "PrevSibling", "NextSibling", "Type", "DataAtom", "Data", "Namespace"}
		for _, key := range []string{absLinksKey, absSrcKey, absSrcSetKey, stripKey} {
			fn := mustFunc(p, r, "I6", key)
			if fn == nil {
				continue
			}
			var hits []string
			// the tree handed in is the first parameter; callees included (closed summaries)
			for f, e := range a.ParamMods(fn, 0, true) {
				for _, sf := range structural {
					if f == "Node."+sf {
						hits = append(hits, f+" ("+strings.Join(a.Chain(e), " > ")+")")
					}
				}
			}
			sort.Strings(hits)
			r.Add("I6", core.ShortKey(fn)+" leaves the structure of the tree alone", p.Pos(fn.Pos()), len(hits) == 0 && a.Analysed(fn), strings.Join(hits, "; "))
		}
	}
	// who raises the flush flag
	checkFlushWriters(p, r)

	// ---- I3
	am := mustInl(p, r, "I3", "(*mod/internal/webdoc.TextBlock).ApplyToModel")
	if am != nil {
		hs := loopHeaders(am)
		if len(hs) != 1 {
			r.Undecided("I3", "TextBlock.ApplyToModel loop", fmt.Sprintf("expected one loop, found %d", len(hs)))
		} else {
			opts := core.DecisionOpts{IterateAt: hs[0], Outcome: func(in ssa.Instruction, c *core.Canon) (string, bool) {
				if _, ok := in.(*ssa.Return); ok {
					return "return", true
				}
				return "", false
			}, Event: callEvent(regexp.MustCompile(`SetIsContent`))}
			paths, _, err := core.EnumerateDecisions(p, am, opts)
			if err != nil {
				r.Undecided("I3", "ApplyToModel", err.Error())
			}
			for i, pa := range paths {
				ok := strings.Contains(pa.Outcome, "SetIsContent(") && strings.Contains(pa.Outcome, ",true)") && strings.HasSuffix(pa.Outcome, "next()")
				r.Add("I3", fmt.Sprintf("ApplyToModel iteration path %d marks the element and continues", i), pa.Pos, ok, pa.String())
			}
			r.Floor("I3", 2)
		}
		// the loop ranges over all TextElements of the block
		c := core.NewCanon(p)
		found := false
		for _, b := range am.Blocks {
			for _, in := range b.Instrs {
				if ia, ok := in.(*ssa.IndexAddr); ok && c.Of(ia.X) == "$0.TextElements" {
					found = true
				}
			}
		}
		r.Add("I3", "ApplyToModel ranges over the block's TextElements", p.Pos(am.Pos()), found, "")
	}
}

func nodeText(p *core.Program, n ast.Node) string {
	start := p.Fset.Position(n.Pos())
	end := p.Fset.Position(n.End())
	b, err := readFileCached(start.Filename)
	if err != nil || end.Offset > len(b) {
		return ""
	}
	return string(b[start.Offset:end.Offset])
}

// checkFlushWriters: WebDocumentBuilder.flush may be set to a non-false value only by SkipNode and
// StartNode (from the element action).
func checkFlushWriters(p *core.Program, r *core.Report) {
	c := core.NewCanon(p)
	// the flush flag: the boolean field of the builder that AddTextNode tests first
	flag := ""
	if at := mustInl(p, r, "I2", "(*mod/internal/webdoc.WebDocumentBuilder).AddTextNode"); at != nil {
		for _, b := range at.Blocks {
			if ifi, ok := b.Instrs[len(b.Instrs)-1].(*ssa.If); ok {
				a, _ := c.CondAtom(ifi.Cond)
				if strings.HasPrefix(a, "$0.‹bool") {
					flag = a
				}
				break
			}
		}
	}
	if flag == "" {
		r.Undecided("I2", "the builder's flush flag", "AddTextNode does not start with a test of a boolean field of the builder")
		return
	}
	writers := map[string]bool{}
	for _, fn := range p.ModFunctions(false) {
		if !strings.Contains(fn.String(), "webdoc.WebDocumentBuilder)") || !ast.IsExported(fn.Name()) {
			continue
		}
		for _, in := range instrsOf(p.Inlined(fn)) {
			st, ok := in.(*ssa.Store)
			if !ok || c.Of(st.Addr) != "&"+flag {
				continue
			}
			if bv, isC := core.ConstBool(st.Val); isC && !bv {
				continue
			}
			writers[fn.Name()] = true
		}
	}
	var ws []string
	for w := range writers {
		ws = append(ws, w)
	}
	sort.Strings(ws)
	r.Add("I2", "the text builder is flushed only by skipped or block-level elements", "", sameSet(ws, []string{"SkipNode", "StartNode"}),
		fmt.Sprintf("builder methods that can raise the flush flag %s: %v (documented: SkipNode, StartNode)", flag, ws))
}
