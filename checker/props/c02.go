package props

import (
	"fmt"
	"go/types"
	"regexp"
	"strconv"
	"strings"

	"ddcheck/core"

	"golang.org/x/tools/go/ssa"
)

func init() { Registry["C02"] = C02 }

var sequenceFields = []string{".Elements", ".TextBlocks", ".TextElements", ".‹[]*html.Node›", ".TextNodes"}

var reShiftDst = regexp.MustCompile(`^(.*)\[(.*):\]$`)

// C02: distilled text is an ordered excerpt of the source.
func C02(p *core.Program, r *core.Report) {
	r.Explanation = "Order-preservation skeleton: between `the walk visits text nodes in document order` and `the output concatenates content elements` no step can reorder or duplicate. O1: the child loops on the output paths (WalkNodes, TreeClone, InnerText, dom.Clone) start at FirstChild, advance by NextSibling and attach with AppendChild only. O2: every writer of the sequence carriers (Document.Elements, TextDocument.TextBlocks, TextBlock.TextElements, TextBuilder.textNodes, Text.TextNodes) is an append to the field itself, the constructor's initial value, or the shift-left-by-one delete idiom (copy(s[i:], s[i+1:]) + truncate) on the same slice; none is sorted and no element is overwritten. O3: TextBuilder.Build hands out the window [firstNode, len(textNodes)) and every non-nil result is followed by Reset, which moves firstNode to len(textNodes) (disjoint windows). O4: the document emitters iterate the element list forward and skip exactly the non-content elements. O5: every builder method that appends a non-text element flushes the pending text block first, so an element cannot overtake text that precedes it. O6: synthesised figure captions are the visibility-aware text of a re-parsed fragment (nothing fabricated from markup); table text and HTML are rendered from the one clone. O8: whole subtrees enter the output only through the conforming per-node gate of GetOutputNodes or as reviewed Image/Figure copies pruned to img/source (shared with C04/C05), so no source text is emitted a second time inside a copied element. O7: the visibility decision list used by the walk, the table/caption cloner and InnerText is the documented one (shared with C04-V3). O9 (words come from text nodes only, the text half of C09-W1): every text rendering of a non-Text element is \"\" or domutil.InnerText of a tree - never an attribute value. O10 (no word is made of two): the HTML view concatenates the renderings without separator, so no HTML rendering may come from an inner serializer that trims its result; inner serializers (dom.InnerHTML, domutil.InnerHTML) and their trimming are recognised by shape. O11: the text collector of InnerText conforms to its decision list (shared with C04-V5). O12: nothing touches the converter's clone before the walk except the two reviewed removal passes (shared with C18-T7)."
	r.NotCovered = "fabrication by the classifier (none: it only flags), which blocks are selected, adjacency of merged blocks, the javascript: anchor rewriting (C03), correctness of the HTML serializer."

	c := core.NewCanon(p)
	// ---- O1
	for _, key := range []string{domutilPkg + ".WalkNodes", domutilPkg + ".TreeClone/rec", domutilPkg + ".InnerText/rec", "github.com/go-shiori/dom.Clone"} {
		var fn *ssa.Function
		label := ""
		if base, isRec := strings.CutSuffix(key, "/rec"); isRec {
			// the recursive worker of the function (a closure or a named helper that calls itself)
			owner := mustFunc(p, r, "O1", base)
			if owner == nil {
				continue
			}
			ws := recursiveWorkers(p, owner)
			if len(ws) != 1 {
				r.Undecided("O1", core.ShortKey(owner)+": the recursive worker", fmt.Sprintf("expected one self-recursive closure/helper below %s, found %d", core.ShortKey(owner), len(ws)))
				continue
			}
			fn = p.Inlined(ws[0])
			label = core.ShortKey(owner) + " (recursive worker)"
		} else if key == domutilPkg+".WalkNodes" {
			fn = walkerBody(p, r, "O1")
			if fn == nil {
				continue
			}
			label = "internal/domutil.WalkNodes"
		} else {
			fn = mustInl(p, r, "O1", key)
			if fn == nil {
				continue
			}
			label = core.ShortKey(fn)
		}
		loops := findSiblingLoops(fn)
		ok := len(loops) == 1
		desc := fmt.Sprintf("%d sibling loops", len(loops))
		for _, lp := range loops {
			fwd := lp.field == "NextSibling"
			start := false
			for _, e := range lp.phi.Edges {
				if s := c.Of(e); strings.HasSuffix(s, ".FirstChild") {
					start = true
				}
			}
			ok = ok && fwd && start
			desc = c.Of(lp.phi)
		}
		r.Add("O1", label+" visits children first to last", p.Pos(fn.Pos()), ok, desc)
		for _, call := range core.Calls(fn, func(ci ssa.CallInstruction) bool {
			return core.IsCallTo(ci, "(*golang.org/x/net/html.Node).InsertBefore", "github.com/go-shiori/dom.PrependChild", "github.com/go-shiori/dom.ReplaceChild")
		}) {
			r.Add("O1", label+" attaches children out of order", p.Pos(call.Pos()), false, core.CalleeKey(call))
		}
	}
	r.Floor("O1", 4)

	// ---- O2
	nW := 0
	for _, fn := range p.ModFunctions(false) {
		for _, b := range fn.Blocks {
			for _, in := range b.Instrs {
				switch x := in.(type) {
				case *ssa.Store:
					a := c.Of(x.Addr)
					for _, f := range sequenceFields {
						if strings.HasSuffix(a, f) {
							if f == ".‹[]*html.Node›" {
								fa, isFA := x.Addr.(*ssa.FieldAddr)
								if nt := core.NamedOf(func() types.Type {
									if isFA {
										return fa.X.Type()
									}
									return x.Addr.Type()
								}()); !isFA || nt == nil || nt.Obj().Name() != "TextBuilder" {
									continue
								}
							}
							nW++
							self := strings.TrimPrefix(a, "&")
							v := c.Of(x.Val)
							ok := strings.HasPrefix(v, "append("+self+",") || // append to itself
								strings.HasPrefix(a, "&new(") || // constructor / literal initialisation
								v == "μ("+self+"|μ(@1|@1[:(len(@1) - 1)]))" // delete idiom: truncate by one after shifting
							r.Add("O2", fmt.Sprintf("%s writes %s", core.ShortKey(fn), strings.TrimPrefix(f, ".")), p.Pos(x.Pos()), ok, self+" = "+shortVal(v))
						}
					}
					if ia, ok := x.Addr.(*ssa.IndexAddr); ok {
						xs := c.Of(ia.X)
						for _, f := range sequenceFields {
							if strings.HasSuffix(xs, f) || strings.Contains(xs, f+"|") {
								nW++
								// nil-ing the vacated last slot of the delete idiom is allowed
								okNil := core.IsNilConst(x.Val)
								r.Add("O2", fmt.Sprintf("%s overwrites an element of %s", core.ShortKey(fn), strings.TrimPrefix(f, ".")), p.Pos(x.Pos()), okNil, xs+"[...] = "+c.Of(x.Val))
							}
						}
					}
				case *ssa.Call:
					if f := x.Call.StaticCallee(); f != nil && (strings.HasPrefix(f.String(), "sort.") || strings.HasPrefix(f.String(), "slices.") || f.String() == "math/rand.Shuffle") {
						a0 := c.Of(x.Call.Args[0])
						for _, sf := range sequenceFields {
							if strings.Contains(a0, sf) {
								r.Add("O2", fmt.Sprintf("%s reorders %s", core.ShortKey(fn), strings.TrimPrefix(sf, ".")), p.Pos(x.Pos()), false, f.String()+"("+shortVal(a0)+")")
							}
						}
					}
					if bi, ok := x.Call.Value.(*ssa.Builtin); ok && bi.Name() == "copy" {
						dst, src := c.Of(x.Call.Args[0]), c.Of(x.Call.Args[1])
						touches := false
						for _, sf := range sequenceFields {
							if strings.Contains(dst, sf) {
								touches = true
							}
						}
						if touches {
							nW++
							ok := false
							if m := reShiftDst.FindStringSubmatch(dst); m != nil {
								ok = src == m[1]+"[("+m[2]+" + 1):]"
							}
							r.Add("O2", core.ShortKey(fn)+" deletes one element by shifting the tail left", p.Pos(x.Pos()), ok, "copy("+shortVal(dst)+", "+shortVal(src)+")")
						}
					}
				}
			}
		}
	}
	r.Stats["sequence_writers"] = nW
	r.Floor("O2", 10)

	// ---- O3: the window [start, len(nodes)) that TextBuilder.Build hands out. The two private
	// fields are identified by their role: what Build stores into Text.Start / Text.TextNodes.
	wstart, nodes := "", ""
	if bd := mustInl(p, r, "O3", "(*"+webdocPkg+".TextBuilder).Build"); bd != nil {
		for _, a := range allocsOf(bd, "/internal/webdoc", "Text") {
			fs := fieldStores(a)
			get := func(n string) string {
				if len(fs[n]) == 1 {
					return c.Of(fs[n][0])
				}
				return ""
			}
			if s := get("Start"); strings.HasPrefix(s, "$0.‹int") {
				wstart = s
			}
			if s := get("TextNodes"); s == "$0.‹[]*html.Node›" {
				nodes = s
			}
			r.Add("O3", "Text window starts at the builder's window start", p.Pos(a.Pos()), wstart != "", "Start = "+get("Start"))
			r.Add("O3", "Text shares the builder's node list", p.Pos(a.Pos()), nodes != "", "TextNodes = "+get("TextNodes"))
			r.Add("O3", "Text window ends at the last collected node", p.Pos(a.Pos()), nodes != "" && get("End") == "len("+nodes+")", "End = "+get("End"))
		}
		if wstart == "" || nodes == "" {
			r.Undecided("O3", "TextBuilder.Build: window fields", "Build does not fill Text.Start/Text.TextNodes from fields of the builder")
		} else {
			for _, ret := range core.Returns(bd) {
				if core.IsNilConst(ret.Results[0]) {
					continue
				}
				closes := func(in ssa.Instruction) bool {
					if st, isSt := in.(*ssa.Store); isSt && c.Of(st.Addr) == "&"+wstart && c.Of(st.Val) == "len("+nodes+")" {
						return true
					}
					if call, isCall := in.(ssa.CallInstruction); isCall {
						if f := core.Callee(call); f != nil && strings.Contains(f.String(), "webdoc.TextBuilder)") && windowCloser(p, f, wstart, nodes) {
							return true
						}
					}
					return false
				}
				ok, _ := core.MustPassThrough(bd, ret, closes, nil)
				r.Add("O3", "a handed-out window is closed (the window start moves to the end)", p.Pos(ret.Pos()), ok, "every path to a non-nil result stores start = len(nodes)")
			}
			// an empty window yields nil
			cut, m := core.CutAtoms(p, bd, regexp.MustCompile("^"+regexp.QuoteMeta(wstart+" == len("+nodes+")")+"$"), false)
			okEmpty := len(m) == 1
			for _, ret := range core.Returns(bd) {
				if core.InstrReachable(bd, cut, ret) && !core.IsNilConst(ret.Results[0]) {
					okEmpty = false
				}
			}
			r.Add("O3", "no Text for an empty window", p.Pos(bd.Pos()), okEmpty, "start == len(nodes) => nil")
			// the window start only ever moves to the end of the collected nodes
			nFirst := 0
			for _, fn := range p.ModFunctions(false) {
				if !strings.Contains(fn.String(), "webdoc.TextBuilder)") {
					continue
				}
				for _, in := range instrsOf(fn) {
					if st, ok := in.(*ssa.Store); ok && c.Of(st.Addr) == "&"+wstart {
						nFirst++
						r.Add("O3", core.ShortKey(fn)+" moves the window start to the end of the collected nodes", p.Pos(st.Pos()), c.Of(st.Val) == "len("+nodes+")", "start = "+c.Of(st.Val))
					}
				}
			}
			r.Add("O3", "writers of the window start found", "", nFirst >= 1, fmt.Sprintf("%d stores", nFirst))
		}
	}
	if gt := mustInl(p, r, "O3", "("+webdocPkg+".Text).GetTextNodes"); gt != nil {
		for _, ret := range core.Returns(gt) {
			v := c.Of(ret.Results[0])
			r.Add("O3", "a Text renders exactly its window", p.Pos(ret.Pos()), v == "$0.TextNodes[$0.Start:$0.End]" || v == "new(webdoc.Text).TextNodes[new(webdoc.Text).Start:new(webdoc.Text).End]", v)
		}
	}

	// ---- O4
	for _, spec := range []struct{ key, call string }{
		{"(*" + webdocPkg + ".Document).GenerateOutput", "GenerateOutput"},
		{"(*" + webdocPkg + ".Document).GetImageURLs", "URLs"},
	} {
		fn := mustInl(p, r, "O4", spec.key)
		if fn == nil {
			continue
		}
		hs := loopHeaders(fn)
		if len(hs) != 1 {
			r.Undecided("O4", spec.key, "expected one loop")
			continue
		}
		at := ""
		if ifi, ok := hs[0].Instrs[len(hs[0].Instrs)-1].(*ssa.If); ok {
			at, _ = core.NewCanon(p).CondAtom(ifi.Cond)
		}
		r.Add("O4", core.ShortKey(fn)+" walks the element list front to back", p.Pos(fn.Pos()), at == `μ((@0 + 1)|0) < len($0.Elements)`, at)
		paths, _, _ := core.EnumerateDecisions(p, fn, core.DecisionOpts{IterateAt: hs[0], Outcome: noOutcome, Event: func(in ssa.Instruction, c *core.Canon) (string, bool) {
			if call, ok := in.(*ssa.Call); ok {
				s := c.Of(call)
				if strings.Contains(s, spec.call+"(") {
					return "emit", true
				}
			}
			return "", false
		}})
		bad := 0
		for _, pa := range paths {
			content := 0
			for _, l := range pa.Lits {
				if l.Atom == "iface.IsContent(elem($0.Elements))" {
					content = tern(l.Val)
				}
			}
			emits := strings.Contains(pa.Outcome, "emit")
			if (content == 1) != emits && !(content == 1 && spec.call == "URLs") {
				bad++
			}
			if content != 1 && emits {
				bad++
			}
		}
		r.Add("O4", core.ShortKey(fn)+" emits exactly the content elements", p.Pos(fn.Pos()), bad == 0 && len(paths) >= 2, fmt.Sprintf("%d iteration paths, %d wrong", len(paths), bad))
	}

	// ---- O5
	checkFlushBeforeElement(p, r, "O5")
	// the converter hands each text node to the builder once (dispatcher: C04-V1) and the builder
	// appends it once
	if an := mustInl(p, r, "O5", "(*"+webdocPkg+".TextBuilder).AddTextNode"); an != nil && nodes != "" {
		n := 0
		for _, in := range instrsOf(an) {
			if st, ok := in.(*ssa.Store); ok && c.Of(st.Addr) == "&"+nodes {
				n++
			}
		}
		r.Add("O5", "a text node is collected once", p.Pos(an.Pos()), n == 1, fmt.Sprintf("%d appends to the node list", n))
	}

	// ---- O7: what counts as visible (shared with C04-V3): hidden text must not be emitted
	checkVisibilityRules(p, r, "O7")
	// ---- O9: words come from text nodes only
	checkTextViewsAreInnerText(p, r, "O9")
	// ---- O10: no word is made of two
	checkNoTrimmedConcatenation(p, r, "O10")
	// ---- O11: neighbouring text nodes never run together in the text view (shared with C04-V5)
	checkInnerTextCollector(p, r, "O11")
	// ---- O12: the clone reaches the visibility gate of the walk as it was copied: nothing but the
	// two reviewed removal passes touches it before (shared with C18-T7)
	checkConvertWalksFaithfulClone(p, r, "O12")
	// ---- O8: nothing is emitted twice or from outside the gate: whole subtrees are copied into
	// the output only through the per-node gate of GetOutputNodes (whose decision list conforms),
	// the reviewed deep copies are Image/Figure elements, and what the image extractor stores there
	// was pruned to img/source - a picture or figure link that kept its text would be emitted once
	// as caption text and once inside the copied element (shared with C04-V1/V2, C05-S3)
	checkOutputNodesGate(p, r, "O8")
	checkWholesaleCopies(p, r, "O8")
	checkPicturePruning(p, r, "O8")

	// ---- O6
	if cf := mustInl(p, r, "O6", "(*mod/internal/extractor/embed.ImageExtractor).Extract"); cf != nil {
		v, inner := "", ""
		for _, call := range core.Calls(cf, func(ci ssa.CallInstruction) bool { return core.IsCallTo(ci, "github.com/go-shiori/dom.SetTextContent") }) {
			v = c.Of(call.Common().Args[1])
		}
		for _, call := range core.Calls(cf, func(ci ssa.CallInstruction) bool { return core.IsCallTo(ci, "github.com/go-shiori/dom.SetInnerHTML") }) {
			inner = c.Of(call.Common().Args[1])
		}
		r.Add("O6", "synthesised captions are the visible text of a re-parsed fragment", p.Pos(cf.Pos()),
			v == `strings.TrimSpace(domutil.InnerText(dom.CreateElement("div")))` && strings.HasPrefix(inner, "domutil.InnerText("), "caption = "+v+"; fragment = "+inner)
	}
	if tg := mustInl(p, r, "O6", "(*"+webdocPkg+".Table).GenerateOutput"); tg != nil {
		for _, ret := range core.Returns(tg) {
			v := c.Of(ret.Results[0])
			r.Add("O6", "table text and HTML are rendered from the one clone", p.Pos(ret.Pos()), v == "domutil.InnerText($0.‹*html.Node›)" || v == "dom.OuterHTML($0.‹*html.Node›)", v)
		}
	}
}

// windowCloser: the TextBuilder method stores start = len(nodes) on every path.
func windowCloser(p *core.Program, fn *ssa.Function, wstart, nodes string) bool {
	c := core.NewCanon(p)
	fn = p.Inlined(fn)
	rets := core.Returns(fn)
	if len(rets) == 0 {
		return false
	}
	for _, ret := range rets {
		ok, _ := core.MustPassThrough(fn, ret, func(in ssa.Instruction) bool {
			st, isSt := in.(*ssa.Store)
			return isSt && c.Of(st.Addr) == "&"+wstart && c.Of(st.Val) == "len("+nodes+")"
		}, nil)
		if !ok {
			return false
		}
	}
	return true
}

// appendedElem2: the single element of a variadic argument slice {x}, if v is one.
func appendedElem2(v ssa.Value) ssa.Value {
	sl, ok := v.(*ssa.Slice)
	if !ok {
		return nil
	}
	al, ok := sl.X.(*ssa.Alloc)
	if !ok {
		return nil
	}
	var out ssa.Value
	for _, ref := range *al.Referrers() {
		if ia, ok := ref.(*ssa.IndexAddr); ok {
			for _, r2 := range *ia.Referrers() {
				if st, ok := r2.(*ssa.Store); ok && st.Addr == ia {
					out = st.Val
				}
			}
		}
	}
	return out
}

// loopHeadersContaining returns loops of fn whose body contains a call with the given name part.
func loopHeadersContaining(fn *ssa.Function, name string) []*ssa.BasicBlock {
	var out []*ssa.BasicBlock
	for _, b := range fn.Blocks {
		for _, in := range b.Instrs {
			if call, ok := in.(ssa.CallInstruction); ok && strings.Contains(core.CalleeKey(call), name) && inLoop(b) {
				out = append(out, b)
			}
		}
	}
	return out
}

// checkFlushBeforeElement (O5 of C02, shared with C08-E5): every builder method that appends a
// non-text element flushes the pending text block first, so an element cannot overtake the text
// that precedes it in the document (builder methods with their helpers expanded: flushing is
// recognised by what it does - it asks the text builder for the pending Text and appends that).
func checkFlushBeforeElement(p *core.Program, r *core.Report, rule string) {
	isAdd := func(ci ssa.CallInstruction) bool { return core.IsCallTo(ci, "(*"+webdocPkg+".Document).AddElements") }
	isBuild := func(in ssa.Instruction) bool { return core.IsCallTo(in, "(*"+webdocPkg+".TextBuilder).Build") }
	fromBuild := func(call ssa.CallInstruction) bool {
		// the pending text is the only *webdoc.Text a builder method appends
		for _, a := range call.Common().Args[1:] {
			if el := appendedElem2(a); el != nil {
				a = el
			}
			if nt := core.NamedOf(core.StripConv(a).Type()); nt != nil && nt.Obj().Name() == "Text" {
				return true
			}
		}
		return false
	}
	for _, m := range []string{"AddDataTable", "AddTag", "AddEmbed"} {
		fn := mustInl(p, r, rule, "(*"+webdocPkg+".WebDocumentBuilder)."+m)
		if fn == nil {
			continue
		}
		var own, text []ssa.CallInstruction
		for _, a := range core.Calls(fn, isAdd) {
			if fromBuild(a) {
				text = append(text, a)
			} else {
				own = append(own, a)
			}
		}
		if len(own) != 1 {
			r.Add(rule, m+" appends one element", p.Pos(fn.Pos()), false, fmt.Sprintf("%d AddElements calls for elements other than the pending text", len(own)))
			continue
		}
		ok, _ := core.MustPassThrough(fn, own[0], isBuild, nil)
		r.Add(rule, m+" flushes the pending text before appending its element", p.Pos(own[0].Pos()), ok && len(text) >= 1, "otherwise earlier text would be emitted after the element")
		for _, t := range text {
			r.Add(rule, m+": the pending text is appended once", p.Pos(t.Pos()), !inLoop(t.Block()) && len(text) == 1 && neverAfter(t, own[0]), fmt.Sprintf("%d appends of the pending text", len(text)))
		}
	}
}

// checkTextViewsAreInnerText (O9 of C02, the text-view half of C09-W1): apart from Text, which keeps
// the words the builder collected, every string an Element.GenerateOutput returns when textOnly
// is set is "" or domutil.InnerText of a tree - the words of text nodes, never an attribute
// value or anything else put together by the element.
func checkTextViewsAreInnerText(p *core.Program, r *core.Report, rule string) {
	n := 0
	for _, fn := range outputFuncs(p) {
		for i, o := range outputReturns(p, fn) {
			if o.typ == "Text" || o.textOnly != 1 {
				continue
			}
			n++
			ok := o.serializer == "domutil.InnerText" || o.value == `""`
			r.Add(rule, fmt.Sprintf("%s.GenerateOutput text rendering #%d is the text of a tree", o.typ, i+1), p.Pos(o.ret.Pos()), ok, "returns "+shortVal(o.value))
		}
	}
	r.Floor(rule, 4)
	_ = n
}

// checkNoTrimmedConcatenation (O10 of C02, shared with C09-W5): Document.GenerateOutput puts the
// renderings of the elements one after the other; in the text view it writes a newline after
// each, in the HTML view nothing. A rendering that has the white space at its ends cut off (what
// go-shiori/dom.InnerHTML does, and what is recognised by shape in any function written like it)
// therefore glues its last word to the first word of the next rendering inside the same pair of
// tags ("aaa <button>x</button> bbb" in a list item came out as "aaabbb"). Unless the HTML view
// writes a separator, no HTML rendering may come from a trimming serializer.
func checkNoTrimmedConcatenation(p *core.Program, r *core.Report, rule string) {
	sep := false
	if dg := mustInl(p, r, rule, "(*"+webdocPkg+".Document).GenerateOutput"); dg != nil {
		c := core.NewCanon(p)
		cutT, _ := core.CutAtoms(p, dg, reTextOnlyParam, true) // the HTML view: textOnly == true edges removed
		for _, call := range core.Calls(dg, func(ci ssa.CallInstruction) bool { return isSinkWrite(ci) }) {
			v, _ := sinkWritten(call, c)
			if !strings.HasPrefix(v, "iface.GenerateOutput(") && core.InstrReachable(dg, cutT, call.(ssa.Instruction)) {
				if s, err := strconv.Unquote(v); err == nil && strings.TrimSpace(s) == "" && s != "" {
					sep = true
				}
			}
		}
	}
	n := 0
	for _, fn := range outputFuncs(p) {
		for i, o := range outputReturns(p, fn) {
			if o.textOnly == 1 || o.serializer != "dom.InnerHTML" {
				continue
			}
			n++
			r.Add(rule, fmt.Sprintf("%s.GenerateOutput HTML rendering #%d keeps the white space at its ends (or the document separates renderings)", o.typ, i+1), p.Pos(o.ret.Pos()),
				sep || !o.trimmed, fmt.Sprintf("inner rendering of %s; trimmed: %v; separator between renderings in the HTML view: %v", shortVal(core.NewCanon(p).Of(o.root)), o.trimmed, sep))
		}
	}
	r.Add(rule, "inner renderings examined", "", n >= 1, fmt.Sprintf("%d", n))
}
