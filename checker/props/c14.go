package props

import (
	"fmt"
	"go/token"
	"go/types"
	"regexp"
	"sort"
	"strconv"
	"strings"

	"ddcheck/core"
	"ddcheck/pea"

	"golang.org/x/tools/go/ssa"
)

func init() { Registry["C14"] = C14 }

const markupPkg = "mod/internal/markup"

// srcName names where a copied value comes from: the field read, the method called, or the
// operand of an append/slice around them.
func srcName(v ssa.Value) string {
	switch x := v.(type) {
	case *ssa.UnOp:
		if fa, ok := x.X.(*ssa.FieldAddr); ok {
			t := fa.X.Type()
			if p, ok := t.Underlying().(*types.Pointer); ok {
				t = p.Elem()
			}
			if st, ok := t.Underlying().(*types.Struct); ok {
				return st.Field(fa.Field).Name()
			}
		}
	case *ssa.Field:
		if st, ok := x.X.Type().Underlying().(*types.Struct); ok {
			return st.Field(x.Field).Name()
		}
	case *ssa.Call:
		if f := x.Call.StaticCallee(); f != nil {
			return f.Name()
		}
		if b, ok := x.Call.Value.(*ssa.Builtin); ok && b.Name() == "append" && len(x.Call.Args) == 2 {
			return srcName(x.Call.Args[1])
		}
	case *ssa.Slice:
		return srcName(x.X)
	case *ssa.ChangeType:
		return srcName(x.X)
	case *ssa.Convert:
		return srcName(x.X)
	}
	return ""
}

// C14: metadata precedence and opt-out (combinator skeleton).
func C14(p *core.Program, r *core.Report) {
	r.Explanation = "P1: in markup.NewParser the accessor list is built in the order OpenGraph (only under err==nil && parser!=nil), schema.org, IE reading view (reachability/guard-cut on the appends). P2: opengraph.NewParser's decision list rejects (nil parser, error) when title, type, url or the image list is empty and accepts otherwise. P3: each of the ten getters of markup.Parser is a forward range over the accessor list returning the first non-empty answer of the same-named Accessor method (decision-list conformance per getter). P4: MarkupInfo returns the zero record whenever OptOut() holds; a filled record is reachable only through the OptOut()==false edge. P5: every field of the record is filled from the same-named getter/field. P6: the opt-out tag is searched among all meta elements of the whole root (name IE_RM_OFF, content true, case-insensitively) and all three parsers get that same root. P7: Apply stores Result.MarkupInfo once, as the whole record returned by the markup parser, and writes no field of it afterwards. P8: a declared OpenGraph prefix is stored only under the entry of its own namespace (og for the bare namespace, profile, article). P9: nothing below Apply rewrites the document the markup parsers read (effect analysis, shared with C10-M1). P10: og:type is in the property table before the first type-dependent parser (profile/article) runs. P11: a property is stored under a table name only if its name is that name as a whole (prefix matching only for names ending in a colon). P12: every schema.org type the microdata parser recognises is recognised under both URL schemes, http://schema.org/ and https://schema.org/ (the type table read from the code, the normalisation found on the path from the itemtype attribute to the table lookup). P13: C04-V5 shared - the text values the sources read from elements are InnerText renderings, whose collector tests the visibility of every element, the one asked for included, and whose results are only made from what the collector gathered. P14: sibling agreement of the getImage implementations of package schemaorg - an image record is only built where its URL was found non-empty (a record without an address would count as an image and hide the images of the sources below it)."
	r.NotCovered = "the three parsers' internals (nested microdata, type dependent OpenGraph properties, IE meta tags), i.e. what each source reports; only the combination of the sources is decided."

	// ---- P1
	np := mustInl(p, r, "P1", markupPkg+".NewParser")
	if np != nil {
		type app struct {
			call *ssa.Call
			typ  string
		}
		var apps []app
		for _, b := range np.Blocks {
			for _, in := range b.Instrs {
				c, ok := in.(*ssa.Call)
				if !ok {
					continue
				}
				if bi, ok := c.Call.Value.(*ssa.Builtin); !ok || bi.Name() != "append" {
					continue
				}
				// appended element: varargs slice [1]Accessor with a stored MakeInterface
				typ := appendedIfaceType(c)
				if typ != "" {
					apps = append(apps, app{c, typ})
				}
			}
		}
		var seq []string
		for _, a := range apps {
			seq = append(seq, a.typ)
		}
		want := []string{"*opengraph.Parser", "*schemaorg.Parser", "*iereader.Parser"}
		if len(apps) != 3 {
			r.Add("P1", "NewParser: accessor appends", p.Pos(np.Pos()), false, fmt.Sprintf("expected three appends (OpenGraph, schema.org, IE reader), found %v", seq))
		} else {
			idx := map[string]*ssa.Call{}
			for _, a := range apps {
				idx[a.typ] = a.call
			}
			og, so, ie := idx[want[0]], idx[want[1]], idx[want[2]]
			if og == nil || so == nil || ie == nil {
				r.Add("P1", "NewParser: accessor appends", p.Pos(np.Pos()), false, fmt.Sprintf("appended parser types %v, documented %v", seq, want))
			} else {
				r.Add("P1", "NewParser: OpenGraph before schema.org", p.Pos(og.Pos()), neverAfter(og, so), "no path may append schema.org before OpenGraph")
				ok1, w := core.MustPassThrough(np, ie, func(in ssa.Instruction) bool { return in == ssa.Instruction(so) }, nil)
				r.Add("P1", "NewParser: schema.org before IE reader", p.Pos(ie.Pos()), ok1 && neverAfter(so, ie), "every path to the IE-reader append passes the schema.org append", w...)
				// every return passes both unconditional appends
				for _, ret := range core.Returns(np) {
					okS, _ := core.MustPassThrough(np, ret, func(in ssa.Instruction) bool { return in == ssa.Instruction(so) }, nil)
					okI, _ := core.MustPassThrough(np, ret, func(in ssa.Instruction) bool { return in == ssa.Instruction(ie) }, nil)
					r.Add("P1", "NewParser: schema.org and IE reader are always consulted", p.Pos(ret.Pos()), okS && okI, "")
				}
				// OG guarded by err == nil and parser != nil
				ogCall := core.Calls(np, func(c ssa.CallInstruction) bool { return core.IsCallTo(c, markupPkg+"/opengraph.NewParser") })
				if len(ogCall) != 1 {
					r.Undecided("P1", "NewParser: opengraph.NewParser call", "expected exactly one call")
				} else {
					oc := ogCall[0].(*ssa.Call)
					isExtract := func(i int) func(ssa.Value) bool {
						return func(v ssa.Value) bool {
							b, ok := v.(*ssa.BinOp)
							if !ok {
								return false
							}
							for _, side := range []ssa.Value{b.X, b.Y} {
								if ex, ok := side.(*ssa.Extract); ok && ex.Tuple == oc && ex.Index == i {
									return true
								}
							}
							return false
						}
					}
					// err == nil must hold: cut edges where (err ?= nil) makes err nil
					c := core.NewCanon(p)
					cutErr := core.EdgeSet{}
					cutNil := core.EdgeSet{}
					for _, b := range np.Blocks {
						ifi, ok := b.Instrs[len(b.Instrs)-1].(*ssa.If)
						if !ok {
							continue
						}
						atom, whenTrue := c.CondAtom(ifi.Cond)
						if isExtract(1)(core.StripConv(unNot(ifi.Cond))) && strings.HasSuffix(atom, "== nil") {
							// atom true <=> err == nil ; cut that edge
							if whenTrue {
								cutErr[core.Edge{From: b, K: 0}] = true
							} else {
								cutErr[core.Edge{From: b, K: 1}] = true
							}
						}
						if isExtract(0)(core.StripConv(unNot(ifi.Cond))) && strings.HasSuffix(atom, "== nil") {
							// atom true <=> parser == nil ; cut the edge where parser != nil
							if whenTrue {
								cutNil[core.Edge{From: b, K: 1}] = true
							} else {
								cutNil[core.Edge{From: b, K: 0}] = true
							}
						}
					}
					r.Add("P1", "NewParser: OpenGraph accessor only if NewParser returned no error", p.Pos(og.Pos()), len(cutErr) > 0 && !core.InstrReachable(np, cutErr, og), "with the err==nil edge removed the append must be unreachable")
					// the nil test of the parser is redundant exactly when opengraph.NewParser pairs a nil
					// error with a parser it has just made (every `return x, nil` returns a fresh object)
					paired := false
					if ogNew := mustInl(p, r, "P1", "mod/internal/markup/opengraph.NewParser"); ogNew != nil {
						paired = true
						nOK := 0
						for _, ret := range core.Returns(ogNew) {
							if len(ret.Results) != 2 || !core.IsNilConst(ret.Results[1]) {
								continue
							}
							nOK++
							if _, fresh := core.StripConv(ret.Results[0]).(*ssa.Alloc); !fresh {
								paired = false
							}
						}
						paired = paired && nOK >= 1
					}
					guarded := len(cutNil) > 0 && !core.InstrReachable(np, cutNil, og)
					r.Add("P1", "NewParser: OpenGraph accessor only if the parser is non-nil", p.Pos(og.Pos()), guarded || paired,
						fmt.Sprintf("parser != nil tested before the append: %v; opengraph.NewParser returns a fresh parser whenever it returns no error: %v", guarded, paired))
				}
			}
		}
	}

	// ---- P2
	ogNew := mustInl(p, r, "P2", markupPkg+"/opengraph.NewParser")
	if ogNew != nil {
		opts := core.DecisionOpts{Outcome: func(in ssa.Instruction, c *core.Canon) (string, bool) {
			if ret, ok := in.(*ssa.Return); ok && len(ret.Results) == 2 {
				if core.IsNilConst(ret.Results[0]) && !core.IsNilConst(ret.Results[1]) {
					return "reject", true
				}
				if !core.IsNilConst(ret.Results[0]) && core.IsNilConst(ret.Results[1]) {
					return "accept " + c.Of(ret.Results[0]), true
				}
				return "return " + c.Of(ret.Results[0]) + "," + c.Of(ret.Results[1]), true
			}
			return "", false
		}}
		paths, atoms, err := core.EnumerateDecisions(p, ogNew, opts)
		if err != nil {
			r.Undecided("P2", "opengraph.NewParser", err.Error())
		}
		ps := `new(opengraph.Parser)`
		spec := core.DecisionSpec{
			Atoms: map[string]string{
				"title.empty": q(ps + `.‹map[string]string›["title"] == ""`),
				"type.empty":  q(ps + `.‹map[string]string›["type"] == ""`),
				"url.empty":   q(ps + `.‹map[string]string›["url"] == ""`),
				"no.image":    q(`len(` + ps + `.‹opengraph.ImagePropParser›.ImageList) <= 0`),
			},
			Rules: []core.SpecRule{
				{Name: "og:title required", Guard: core.A("title.empty"), Outcome: "reject"},
				{Name: "og:type required", Guard: core.A("type.empty"), Outcome: "reject"},
				{Name: "og:url required", Guard: core.A("url.empty"), Outcome: "reject"},
				{Name: "og:image required", Guard: core.A("no.image"), Outcome: "reject"},
				{Name: "complete OpenGraph markup", Guard: core.True(), Outcome: "accept " + ps},
			},
		}
		// the four rejects share one outcome label; a rule counts as reached if some reject path exists
		core.CheckDecisionList(r, "P2", "opengraph.NewParser", paths, atoms, spec)
	}

	// ---- P3 getters
	type getter struct{ name, emptyAtom, dflt string }
	el := `elem($0.‹[]markup.Accessor›)`
	getters := []getter{
		{"Title", `iface.Title(` + el + `) == ""`, `return ""`},
		{"Type", `iface.Type(` + el + `) == ""`, `return ""`},
		{"URL", `iface.URL(` + el + `) == ""`, `return ""`},
		{"Description", `iface.Description(` + el + `) == ""`, `return ""`},
		{"Publisher", `iface.Publisher(` + el + `) == ""`, `return ""`},
		{"Copyright", `iface.Copyright(` + el + `) == ""`, `return ""`},
		{"Author", `iface.Author(` + el + `) == ""`, `return ""`},
		{"Images", `len(iface.Images(` + el + `)) <= 0`, `return nil`},
		{"Article", `iface.Article(` + el + `) == nil`, `return nil`},
		{"OptOut", `iface.OptOut(` + el + `)`, `return false`},
	}
	for _, g := range getters {
		fn := mustInl(p, r, "P3", "(*"+markupPkg+".Parser)."+g.name)
		if fn == nil {
			continue
		}
		opts := core.DecisionOpts{Outcome: func(in ssa.Instruction, c *core.Canon) (string, bool) {
			if ret, ok := in.(*ssa.Return); ok {
				return "return " + c.Of(ret.Results[0]), true
			}
			return "", false
		}}
		paths, atoms, err := core.EnumerateDecisions(p, fn, opts)
		if err != nil {
			r.Undecided("P3", g.name, err.Error())
			continue
		}
		hit := `return iface.` + g.name + `(` + el + `)`
		guard := core.And(core.A("loop"), core.Not(core.A("empty")))
		if g.name == "OptOut" {
			hit = "return true"
			guard = core.And(core.A("loop"), core.A("empty"))
		}
		spec := core.DecisionSpec{
			Atoms: map[string]string{
				"loop":  q(`loop1(μ((@0 + 1)|0) < len($0.‹[]markup.Accessor›))`),
				"empty": q(g.emptyAtom),
			},
			Rules: []core.SpecRule{
				{Name: "first accessor with an answer wins", Guard: guard, Outcome: hit},
				{Name: "no accessor answers", Guard: core.True(), Outcome: g.dflt},
			},
		}
		core.CheckDecisionList(r, "P3", "markup.Parser."+g.name, paths, atoms, spec)
	}
	r.Floor("P3-rule", 20)

	// ---- P6
	checkOptOutDetection(p, r)

	// ---- P4 / P5
	mi := mustInl(p, r, "P4", "(*"+markupPkg+".Parser).MarkupInfo")
	if mi != nil {
		optOut := core.IsCallValue("(*" + markupPkg + ".Parser).OptOut")
		cutNotOpt := core.CutWhere(mi, optOut, false) // remove "OptOut()==false" edges
		nOpt := len(core.Calls(mi, func(c ssa.CallInstruction) bool { return core.IsCallTo(c, "(*"+markupPkg+".Parser).OptOut") }))
		r.Add("P4", "MarkupInfo consults OptOut", p.Pos(mi.Pos()), nOpt == 1 && len(cutNotOpt) >= 1, fmt.Sprintf("%d calls, %d branches", nOpt, len(cutNotOpt)))
		// with OptOut()==false removed: no getter call reachable and every reachable return is the zero record
		reach := core.ReachableBlocks(mi, cutNotOpt)
		for _, b := range mi.Blocks {
			for _, in := range b.Instrs {
				if ret, ok := in.(*ssa.Return); ok && reach[b] {
					k, isC := ret.Results[0].(*ssa.Const)
					r.Add("P4", "MarkupInfo: opted-out page gets the zero record", p.Pos(ret.Pos()), isC && k.Value == nil, "return value on the opt-out path: "+core.NewCanon(p).Of(ret.Results[0]))
				}
			}
		}
		// the non-zero return must be unreachable when OptOut()==true... i.e. dominated by OptOut()==false
		cutOpt := core.CutWhere(mi, optOut, true)
		for _, ret := range core.Returns(mi) {
			if _, isC := ret.Results[0].(*ssa.Const); !isC {
				// filled record: must require OptOut()==false
				r.Add("P4", "MarkupInfo: filled record only without opt-out", p.Pos(ret.Pos()), core.InstrReachable(mi, cutOpt, ret) && !core.InstrReachable(mi, cutNotOpt, ret), "")
			}
		}
		// P5
		for _, a := range allocsOfAny(mi) {
			n := core.NamedOf(a.Type().(*types.Pointer).Elem())
			if n == nil || a.Comment == "image" {
				continue
			}
			fs := fieldStores(a)
			var names []string
			for f := range fs {
				names = append(names, f)
			}
			sort.Strings(names)
			for _, f := range names {
				for _, v := range fs[f] {
					src := srcName(v)
					if n.Obj().Name() == "MarkupInfo" && (f == "Article" || f == "Images") {
						continue // filled from the structures checked below
					}
					r.Add("P5", fmt.Sprintf("MarkupInfo: %s.%s filled from the same-named source", n.Obj().Name(), f), p.Pos(a.Pos()), src == f, "source: "+src+" = "+core.NewCanon(p).Of(v))
				}
			}
			if n.Obj().Name() == "MarkupInfo" {
				wantFields := []string{"Title", "Type", "URL", "Description", "Publisher", "Copyright", "Author", "Article", "Images"}
				for _, f := range wantFields {
					r.Add("P5", "MarkupInfo."+f+" is filled", p.Pos(a.Pos()), len(fs[f]) > 0, "")
				}
			}
			if n.Obj().Name() == "MarkupArticle" {
				for _, f := range []string{"PublishedTime", "ModifiedTime", "ExpirationTime", "Section", "Authors"} {
					r.Add("P5", "MarkupArticle."+f+" is copied", p.Pos(a.Pos()), len(fs[f]) > 0, "")
				}
			}
		}
		r.Floor("P5", 20)
		// article taken wholesale from a single Article() call
		nArt := len(core.Calls(mi, func(c ssa.CallInstruction) bool { return core.IsCallTo(c, "(*"+markupPkg+".Parser).Article") }))
		r.Add("P5", "MarkupInfo: article sub-record from one Article() answer", p.Pos(mi.Pos()), nArt == 1, fmt.Sprintf("%d calls", nArt))
	}
	// P7: the result carries the parser's record as it is: Apply stores Result.MarkupInfo as a
	// whole, from the markup parser's MarkupInfo(), and never patches a field of it afterwards
	// (a field filled from anything else - the page URL, the title heuristic - would be metadata
	// the page does not declare)
	if ap := mustInl(p, r, "P7", core.ModPath+".Apply"); ap != nil {
		c := core.NewCanon(p)
		nWhole, bad := 0, ""
		for _, in := range instrsOf(ap) {
			st, ok := in.(*ssa.Store)
			if !ok {
				continue
			}
			a := c.Of(st.Addr)
			if !strings.HasPrefix(a, "&new(distiller.Result).MarkupInfo") {
				continue
			}
			if a == "&new(distiller.Result).MarkupInfo" && strings.HasPrefix(c.Of(st.Val), "markup.Parser.MarkupInfo(") {
				nWhole++
				continue
			}
			bad = a + " = " + c.Of(st.Val) + " at " + p.Pos(st.Pos())
		}
		r.Add("P7", "Result.MarkupInfo is the parser's record, stored once and not patched", p.Pos(ap.Pos()), nWhole == 1 && bad == "", fmt.Sprintf("%d whole-record stores; other store: %s", nWhole, bad))
	}
	// ---- P8
	checkPrefixTable(p, r, "P8")

	// ---- P10, P11
	checkOGMetaLoop(p, r)

	// ---- P12
	checkSchemaTypeSchemes(p, r, "P12")
	// ---- P13: the text values the IE-reader and schema.org sources read from the page (captions,
	// bylines, item properties) are InnerText renderings: hidden parts are left out only because
	// InnerText's collector tests every element, the one asked for included (C04-V5 shared)
	checkInnerTextCollector(p, r, "P13")
	// ---- P14: an image record has an address. The first source with a non-empty image list
	// wins (P3), so a record without a URL - an ImageObject that only gives a caption or a
	// size - would hide the images of the sources below it. Sibling agreement over the getImage
	// implementations of package schemaorg: a record is only built where its URL was found
	// non-empty (ArticleItem.getImage has always returned nil otherwise).
	{
		c := core.NewCanon(p)
		n := 0
		for _, f := range p.ModFunctions(false) {
			if core.FnPkgPath(f) != core.ExpandKey("mod/internal/markup/schemaorg") || f.Name() != "getImage" || f.Signature.Recv() == nil {
				continue
			}
			fn := p.Inlined(f)
			for _, a := range allocsOfAny(fn) {
				nm := core.NamedOf(a.Type().(*types.Pointer).Elem())
				if nm == nil || nm.Obj().Name() != "MarkupImage" {
					continue
				}
				for _, v := range fieldStores(a)["URL"] {
					n++
					vs := c.Of(v)
					cut, m := core.CutAtoms(p, fn, regexp.MustCompile(`^`+regexp.QuoteMeta(vs)+` == ""$`), false)
					ok := len(m) > 0 && !core.InstrReachable(fn, cut, a)
					r.Add("P14", core.ShortKey(f)+": an image record is built only for a non-empty URL", p.Pos(a.Pos()), ok, "URL = "+shortVal(vs)+"; the record is reachable without the URL having been found non-empty (it would count as an image and hide the images of the sources below)")
				}
			}
		}
		r.Add("P14", "getImage implementations of package schemaorg examined", "", n >= 2, fmt.Sprintf("%d image records", n))
	}

	// ---- P9: what the three markup parsers read is the page as the caller gave it: nothing below
	// Apply rewrites the caller's document (the converter works on a clone) - effect analysis,
	// shared with C10-M1. A conversion pass that consumed the tree itself (font -> span, detached
	// javascript: anchors, unwrapped elements) would change what the parsers of a later call see.
	{
		a := runPEA(p)
		for _, e := range entryPoints {
			if e.name != "Apply" {
				continue
			}
			fn := p.Func(core.ModPath + "." + e.name)
			if fn == nil {
				r.Undecided("P9", "entry point Apply", "not found")
				continue
			}
			bind := map[int]int32{e.opts: a.CallerOpts}
			if e.doc >= 0 {
				bind[e.doc] = a.CallerDoc
			}
			var hits []string
			seen := map[string]bool{}
			for _, ef := range a.EntryEffects(fn, bind) {
				li := a.Label(ef.Target)
				if li.Kind != pea.KCaller || li.Name != "CallerDoc" {
					continue
				}
				h := fmt.Sprintf("%s written by %s", ef.Field, core.ShortKey(ef.Fn))
				if !seen[h] && len(hits) < 4 {
					seen[h] = true
					hits = append(hits, h+" ("+strings.Join(a.Chain(ef), " > ")+")")
				}
			}
			r.Add("P9", "Apply: the document the markup parsers read is never rewritten", p.Pos(fn.Pos()), len(hits) == 0, strings.Join(hits, "; "))
		}
	}

}

// neverAfter reports that instruction a can never execute after instruction b.
func neverAfter(a, b ssa.Instruction) bool {
	if a.Block() == b.Block() {
		if instrIndex(a) > instrIndex(b) {
			return false
		}
		// same block, a first: a after b only via a cycle through the block
		for _, s := range b.Block().Succs {
			if reachableFrom(s, a.Block()) {
				return false
			}
		}
		return true
	}
	return !reachableFrom(b.Block(), a.Block())
}

// checkOptOutDetection (P6): the IE opt-out tag is searched among ALL meta elements of the root
// given to the markup parser, with the documented name/content test.
func checkOptOutDetection(p *core.Program, r *core.Report) {
	c := core.NewCanon(p)
	if np := mustInl(p, r, "P6", markupPkg+"/iereader.NewParser"); np != nil {
		ok := false
		for _, a := range allocsOfAny(np) {
			fs := fieldStores(a)
			if len(fs["‹[]*html.Node›"]) == 1 {
				ok = c.Of(fs["‹[]*html.Node›"][0]) == `dom.GetElementsByTagName($0,"meta")`
			}
		}
		r.Add("P6", "the IE reader looks at every meta element below its root", p.Pos(np.Pos()), ok, `allMeta = dom.GetElementsByTagName(root,"meta")`)
	}
	if mp := mustInl(p, r, "P6", markupPkg+".NewParser"); mp != nil {
		for _, call := range core.Calls(mp, func(ci ssa.CallInstruction) bool {
			return core.IsCallTo(ci, markupPkg+"/iereader.NewParser", markupPkg+"/schemaorg.NewParser", markupPkg+"/opengraph.NewParser")
		}) {
			r.Add("P6", core.ShortKey(core.Callee(call))+" parses the whole root given to the markup parser", p.Pos(call.Pos()), c.Of(call.Common().Args[0]) == "$0", "root = "+c.Of(call.Common().Args[0]))
		}
	}
	if fo := mustInl(p, r, "P6", "(*"+markupPkg+"/iereader.Parser).OptOut"); fo != nil {
		// the flag that OptOut reports
		flag := ""
		okRet := true
		for _, ret := range core.Returns(fo) {
			s := c.Of(ret.Results[0])
			if flag == "" {
				flag = s
			}
			if s != flag || !strings.HasPrefix(s, "$0.‹bool") {
				okRet = false
			}
		}
		r.Add("P6", "OptOut reports the parser's opt-out flag", p.Pos(fo.Pos()), okRet && flag != "", "returns "+flag)
		hs := loopHeaders(fo)
		if len(hs) != 1 {
			r.Undecided("P6", "OptOut: search loop", fmt.Sprintf("expected one loop, found %d", len(hs)))
		} else {
			paths, atoms, _ := core.EnumerateDecisions(p, fo, core.DecisionOpts{IterateAt: hs[0],
				Outcome: func(in ssa.Instruction, c *core.Canon) (string, bool) {
					if _, ok := in.(*ssa.Return); ok {
						return "stop", true
					}
					return "", false
				},
				Event: func(in ssa.Instruction, c *core.Canon) (string, bool) {
					if st, ok := in.(*ssa.Store); ok && c.Of(st.Addr) == "&"+flag {
						return "optOut=" + c.Of(st.Val), true
					}
					return "", false
				}})
			el := `elem($0.‹[]*html.Node›)`
			spec := core.DecisionSpec{
				Atoms: map[string]string{"is.optout.tag": q(`strings.ToUpper(dom.GetAttribute(` + el + `,"name")) == "IE_RM_OFF"`)},
				Rules: []core.SpecRule{
					{Name: "IE_RM_OFF tag: its content decides, search ends", Guard: core.A("is.optout.tag"), Outcome: `optOut=(strings.ToLower(dom.GetAttribute(` + el + `,"content")) == "true") => stop`},
					{Name: "any other meta tag: keep looking", Guard: core.True(), Outcome: "next()"},
				},
			}
			core.CheckDecisionList(r, "P6", "OptOut(search iteration)", paths, atoms, spec)
			at := ""
			if ifi, ok := hs[0].Instrs[len(hs[0].Instrs)-1].(*ssa.If); ok {
				at, _ = core.NewCanon(p).CondAtom(ifi.Cond)
			}
			r.Add("P6", "the search scans the complete meta list", p.Pos(fo.Pos()), at == `μ((@0 + 1)|0) < len($0.‹[]*html.Node›)`, at)
		}
	}
}

func unNot(v ssa.Value) ssa.Value {
	for {
		u, ok := v.(*ssa.UnOp)
		if !ok || u.Op.String() != "!" {
			return v
		}
		v = u.X
	}
}

func instrIndex(in ssa.Instruction) int {
	for i, x := range in.Block().Instrs {
		if x == in {
			return i
		}
	}
	return -1
}

func allocsOfAny(fn *ssa.Function) []*ssa.Alloc {
	var out []*ssa.Alloc
	for _, b := range fn.Blocks {
		for _, in := range b.Instrs {
			if a, ok := in.(*ssa.Alloc); ok {
				if _, isStruct := a.Type().(*types.Pointer).Elem().Underlying().(*types.Struct); isStruct {
					out = append(out, a)
				}
			}
		}
	}
	return out
}

// appendedIfaceType returns the dynamic type wrapped into the single interface element that an
// `append(s, x)` call adds ("" if the shape is different).
func appendedIfaceType(c *ssa.Call) string {
	if len(c.Call.Args) != 2 {
		return ""
	}
	sl, ok := c.Call.Args[1].(*ssa.Slice)
	if !ok {
		return ""
	}
	al, ok := sl.X.(*ssa.Alloc)
	if !ok {
		return ""
	}
	for _, ref := range *al.Referrers() {
		ia, ok := ref.(*ssa.IndexAddr)
		if !ok {
			continue
		}
		for _, r2 := range *ia.Referrers() {
			if st, ok := r2.(*ssa.Store); ok {
				if mi, ok := st.Val.(*ssa.MakeInterface); ok {
					return types.TypeString(mi.X.Type(), func(p *types.Package) string { return p.Name() })
				}
			}
		}
	}
	return ""
}

// checkPrefixTable (C14-P8): OpenGraph counts only when its required properties are found, and
// they are found under the prefix the page declares for the og namespace. The declared prefixes
// go into a three-entry table (og, profile, article); a declaration for another ogp.me namespace
// (fb, video, music ...) must leave it alone. Decision paths of addObjectType with the table
// writes as events: the og entry is written only for the bare namespace (object type ""), the
// profile/article entries only for their own object type, anything else writes nothing.
func checkPrefixTable(p *core.Program, r *core.Report, rule string) {
	fn := mustInl(p, r, rule, "(mod/internal/markup/opengraph.PrefixNameList).addObjectType")
	if fn == nil {
		return
	}
	paths, _, err := core.EnumerateDecisions(p, fn, core.DecisionOpts{Outcome: noOutcome,
		Event: func(in ssa.Instruction, c *core.Canon) (string, bool) {
			if mu, ok := in.(*ssa.MapUpdate); ok {
				return "set " + c.Of(mu.Key), true
			}
			return "", false
		}})
	if err != nil {
		r.Undecided(rule, "addObjectType", err.Error())
		return
	}
	// which object type a table key stands for; a key may be a constant or the answer of a lookup
	// in a fixed table of object types (rendered by content: map‹"article":2,"profile":1›[X])
	objOf := map[string]string{"opengraph.OG": "", "opengraph.Profile": "profile", "opengraph.Article": "article", "0": "", "1": "profile", "2": "article"}
	reLookup := regexp.MustCompile(`^(map‹.*›)\[(.*)\](#0)?$`)
	rePair := regexp.MustCompile(`"((?:[^"\\]|\\.)*)":([\w.]+)`)
	var bad []string
	n := 0
	covered := map[string]bool{}
	for _, pa := range paths {
		for _, ev := range pathEvents(pa) {
			if !strings.HasPrefix(ev, "set ") {
				continue
			}
			n++
			k := strings.TrimPrefix(ev, "set ")
			ok := false
			if obj, known := objOf[k]; known {
				covered[obj] = true
				// a constant key: the path holds a comparison of the (possibly slash-trimmed) object
				// type parameter with that key's object type
				for _, l := range pa.Lits {
					if l.Val && strings.HasSuffix(l.Atom, ` == `+strconv.Quote(obj)) && strings.Contains(l.Atom, "$2") {
						ok = true
					}
				}
			} else if m := reLookup.FindStringSubmatch(k); m != nil && strings.Contains(m[2], "$2") {
				// a looked-up key: the table maps every object type to its own key, and the entry was found
				ok = true
				for _, pr := range rePair.FindAllStringSubmatch(m[1], -1) {
					if obj, known := objOf[pr[2]]; !known || obj != pr[1] {
						ok = false
					} else {
						covered[obj] = true
					}
				}
				found := false
				for _, l := range pa.Lits {
					if l.Val && l.Atom == "in("+m[1]+","+m[2]+")" {
						found = true
					}
				}
				ok = ok && found
			}
			if !ok {
				bad = append(bad, shortVal(pa.String())+" ["+ev+"]")
			}
		}
	}
	r.Add(rule, "a declared prefix is stored only under the entry of its own namespace (og for the bare namespace, profile, article)", p.Pos(fn.Pos()), covered[""] && covered["profile"] && covered["article"] && len(bad) == 0,
		fmt.Sprintf("%d table writes on %d decision paths, %d not conditioned on their own object type; namespaces with an entry: %v", n, len(paths), len(bad), sortedKeys(covered)), bad...)
}

// checkOGTypeKnownFirst (C14-P10) and checkOGNameMatch (C14-P11), both on parseMetaTags with
// helpers expanded.
//
// P10: the profile:* and article:* properties count only for an object of their type, and the
// type-dependent parsers decide that from propertyTable["type"] at the moment they are called.
// "Any order in the document" therefore needs og:type to be in the table before the first of them
// runs: a loop over the meta elements that stores the content attribute under "type" must be
// complete (its header dominates, its body does not contain) every call of ProfilePropParser.Parse
// and ArticlePropParser.Parse.
//
// P11: a required property is set from the tag of exactly that name: prefix matching of the
// property name is reachable only for table names that end in ":" (the image structure prefix).
func checkOGMetaLoop(p *core.Program, r *core.Report) {
	fn := mustInl(p, r, "P10", "(*mod/internal/markup/opengraph.Parser).parseMetaTags")
	if fn == nil {
		return
	}
	c := core.NewCanon(p)
	loops, _ := core.NaturalLoops(fn)
	var typeCalls []ssa.Instruction
	nTypeParsers := 0
	for _, call := range core.Calls(fn, func(ci ssa.CallInstruction) bool {
		if core.IsCallTo(ci, "(*mod/internal/markup/opengraph.ProfilePropParser).Parse", "(*mod/internal/markup/opengraph.ArticlePropParser).Parse") {
			return true
		}
		// the parsers kept in a table and called through their interface: every implementation
		// may run here, the two type-dependent ones among them
		if cc := ci.Common(); cc.IsInvoke() && cc.Method.Name() == "Parse" && cc.Method.Pkg() != nil && strings.HasSuffix(cc.Method.Pkg().Path(), "/markup/opengraph") {
			return true
		}
		return false
	}) {
		typeCalls = append(typeCalls, call.(ssa.Instruction))
		if call.Common().IsInvoke() {
			nTypeParsers += 2
		} else {
			nTypeParsers++
		}
	}
	var pre []*ssa.MapUpdate
	for _, in := range instrsOf(fn) {
		mu, ok := in.(*ssa.MapUpdate)
		if !ok {
			continue
		}
		if k, isC := core.ConstString(mu.Key); !isC || k != "type" {
			continue
		}
		if v := c.Of(mu.Value); !strings.Contains(v, "dom.GetAttribute(") || !strings.HasSuffix(v, `,"content")`) {
			continue
		}
		for _, l := range loops {
			if !l.Body[mu.Block()] {
				continue
			}
			ok := len(typeCalls) > 0
			for _, tc := range typeCalls {
				if l.Body[tc.Block()] || !l.Header.Dominates(tc.Block()) {
					ok = false
				}
			}
			if ok {
				pre = append(pre, mu)
			}
		}
	}
	r.Add("P10", "og:type is in the property table before the first type-dependent parser runs", p.Pos(fn.Pos()), nTypeParsers >= 2 && len(pre) >= 1,
		fmt.Sprintf("%d calls of the profile/article parsers; %d stores of a content attribute under \"type\" in a loop that is complete before them", len(typeCalls), len(pre)))

	// P11
	var prefixTests []ssa.Instruction
	for _, call := range core.Calls(fn, func(ci ssa.CallInstruction) bool { return core.IsCallTo(ci, "strings.HasPrefix") }) {
		args := call.Common().Args
		if len(args) == 2 && strings.Contains(c.Of(args[0]), `"property")`) && strings.Contains(c.Of(args[1]), ".Name") {
			prefixTests = append(prefixTests, call.(ssa.Instruction))
		}
	}
	cut, m := core.CutAtoms(p, fn, regexp.MustCompile(`^strings\.HasSuffix\(.*\.Name.*,":"\)$`), true)
	bad := 0
	for _, t := range prefixTests {
		if len(m) == 0 || core.InstrReachable(fn, cut, t) {
			bad++
		}
	}
	nEq := 0
	for _, in := range instrsOf(fn) {
		if bo, ok := in.(*ssa.BinOp); ok && (bo.Op == token.EQL || bo.Op == token.NEQ) {
			x, y := c.Of(bo.X), c.Of(bo.Y)
			if strings.Contains(x, `"property")`) && strings.Contains(y, ".Name") || strings.Contains(y, `"property")`) && strings.Contains(x, ".Name") {
				nEq++
			}
		}
	}
	r.Add("P11", "a property is stored under a table name only if its name is that name as a whole (prefix matching only for names ending in \":\")", p.Pos(fn.Pos()),
		bad == 0 && nEq >= 1, fmt.Sprintf("%d prefix tests of the property name against a table name, %d of them reachable for names that do not end in \":\"; %d whole-name comparisons", len(prefixTests), bad, nEq))
}

// checkSchemaTypeSchemes (C14-P12): schema.org microdata is a source of MarkupInfo whatever
// scheme the page spells the vocabulary with - `itemtype="https://schema.org/Article"` names the
// same type as the http spelling. Wherever an itemtype attribute is looked up in the table of
// supported types, either the table knows both spellings of every type, or the key that is looked
// up is the attribute with a leading "https://" mapped to "http://" (the spelling of the table).
func checkSchemaTypeSchemes(p *core.Program, r *core.Report, rule string) {
	c := core.NewCanon(p)
	n := 0
	for _, fn := range p.ModFunctions(false) {
		if core.FnPkgPath(fn) != core.ExpandKey("mod/internal/markup/schemaorg") {
			continue
		}
		for _, in := range instrsOf(fn) {
			lk, ok := in.(*ssa.Lookup)
			if !ok {
				continue
			}
			tbl := c.Of(lk.X)
			if !strings.HasPrefix(tbl, "map‹") || !strings.Contains(tbl, "schema.org/") {
				continue
			}
			idx := c.Of(lk.Index)
			if !strings.Contains(idx, `"itemtype"`) {
				continue
			}
			n++
			keys := tableKeys(tbl)
			have := map[string]bool{}
			for _, k := range keys {
				have[k] = true
			}
			both := true
			for _, k := range keys {
				if strings.HasPrefix(k, "http://") && !have["https://"+strings.TrimPrefix(k, "http://")] {
					both = false
				}
				if strings.HasPrefix(k, "https://") && !have["http://"+strings.TrimPrefix(k, "https://")] {
					both = false
				}
			}
			attr := `dom.GetAttribute($1,"itemtype")`
			normalised := idx == `μ(("http://" + strings.TrimPrefix(`+attr+`,"https://"))|`+attr+`)` || idx == `μ(`+attr+`|("http://" + strings.TrimPrefix(`+attr+`,"https://")))` ||
				strings.Contains(idx, `"https://"`) && strings.Contains(idx, `"http://"`)
			r.Add(rule, core.ShortKey(fn)+": a type is recognised under the http and the https spelling of its URL", p.Pos(lk.Pos()), both || normalised,
				fmt.Sprintf("table of %d type URLs knows both spellings: %v; looked-up key: %s", len(keys), both, shortVal(idx)))
		}
	}
	r.Add(rule, "lookups of itemtype in the table of supported types examined", "", n >= 1, fmt.Sprintf("%d", n))
}
