package props

import (
	"fmt"
	"go/types"
	"regexp"
	"sort"
	"strings"

	"ddcheck/core"

	"golang.org/x/tools/go/ssa"
)

// checkExtractorDispatch (shared by C08 and C19): an element whose tag an embed extractor
// declares relevant is offered to EVERY extractor, in turn, until one recognises it. Several
// extractors claim the same tag (iframe: twitter, vimeo, youtube), so a dispatch that hands a
// node to one extractor per tag silently stops recognising the others: their media vanish from
// the output behind retained text (C08) and are dropped as unknown frames (C19).
//
//	D1 the element visitor calls EmbedExtractor.Extract in exactly one place, on the element of
//	   a range loop over a slice held by the converter, and the loop is left only at the end of
//	   the slice or when an extractor answered non-nil;
//	D2 the constructor stores into that field a list that holds an instance of every type of
//	   the module that implements the extractor interface.
func checkExtractorDispatch(p *core.Program, r *core.Report, rule string) {
	ve, _ := walkHandlers(p, r, rule)
	if ve == nil {
		return
	}
	c := core.NewCanon(p)
	var calls []*ssa.Call
	for _, in := range instrsOf(ve) {
		call, ok := in.(*ssa.Call)
		if !ok || !call.Call.IsInvoke() || call.Call.Method.Name() != "Extract" {
			continue
		}
		if n := core.NamedOf(call.Call.Value.Type()); n == nil || n.Obj().Name() != "EmbedExtractor" {
			continue
		}
		calls = append(calls, call)
	}
	if len(calls) != 1 {
		r.Add(rule, "the element visitor offers a node to the embed extractors in one place", p.Pos(ve.Pos()), false, fmt.Sprintf("%d calls of EmbedExtractor.Extract in the visitor", len(calls)))
		return
	}
	call := calls[0]
	recv := c.Of(call.Call.Value)
	var iface *types.Interface
	if n := core.NamedOf(call.Call.Value.Type()); n != nil {
		iface, _ = n.Underlying().(*types.Interface)
	}
	// the receiver is the element of a slice field of the converter
	var field *ssa.FieldAddr
	if ld, ok := core.StripConv(call.Call.Value).(*ssa.UnOp); ok {
		if ia, ok := ld.X.(*ssa.IndexAddr); ok {
			if fl, ok := core.StripConv(ia.X).(*ssa.UnOp); ok {
				field, _ = fl.X.(*ssa.FieldAddr)
			}
		}
	}
	isList := false
	if field != nil {
		if pt, ok := field.Type().Underlying().(*types.Pointer); ok {
			_, isList = pt.Elem().Underlying().(*types.Slice)
		}
	}
	// variant: the list is looked up per tag in a map of lists held by the converter
	// (map[tag][]extractor); the loop rule is the same, the completeness rule is D2'
	var tagMap *ssa.FieldAddr
	if field == nil {
		if ld, ok := core.StripConv(call.Call.Value).(*ssa.UnOp); ok {
			if ia, ok := ld.X.(*ssa.IndexAddr); ok {
				var lk *ssa.Lookup
				switch x := core.StripConv(ia.X).(type) {
				case *ssa.Lookup:
					lk = x
				case *ssa.Extract:
					lk, _ = x.Tuple.(*ssa.Lookup)
				}
				if lk != nil && c.Of(lk.Index) == "dom.TagName($1)" {
					if fl, ok := core.StripConv(lk.X).(*ssa.UnOp); ok {
						tagMap, _ = fl.X.(*ssa.FieldAddr)
					}
				}
			}
		}
		if tagMap != nil {
			if pt, ok := tagMap.Type().Underlying().(*types.Pointer); ok {
				if mt, ok := pt.Elem().Underlying().(*types.Map); ok {
					_, isList = mt.Elem().Underlying().(*types.Slice)
				}
			}
		}
	}
	loops, _ := core.NaturalLoops(ve)
	var loop *core.Loop
	for _, l := range loops {
		if l.Body[call.Block()] && (loop == nil || len(l.Body) < len(loop.Body)) {
			loop = l
		}
	}
	ok := isList && loop != nil && strings.HasPrefix(recv, "elem(")
	var desc []string
	if loop != nil && ok {
		list := strings.TrimSuffix(strings.TrimPrefix(recv, "elem("), ")")
		nEnd, nFound := 0, 0
		for _, ex := range loopExits(p, loop) {
			desc = append(desc, fmt.Sprintf("%s=%v", shortVal(ex.atom), ex.val))
			switch {
			case strings.HasSuffix(ex.atom, " < len("+list+")") && !ex.val:
				nEnd++
			case (ex.atom == "iface.Extract("+recv+",$1) == nil" && !ex.val):
				nFound++
			default:
				ok = false
			}
		}
		ok = ok && nEnd == 1 && nFound == 1
	}
	sort.Strings(desc)
	r.Add(rule, "every extractor is tried in turn until one recognises the node", p.Pos(call.Pos()), ok,
		fmt.Sprintf("Extract is called on %s; ways out of the loop: %s", shortVal(recv), strings.Join(desc, "; ")))
	if tagMap != nil && iface != nil {
		checkPerTagDispatch(p, r, rule, tagMap, iface)
		return
	}
	if field == nil || iface == nil {
		return
	}
	// D2: the list stored by the constructor holds every implementation
	ctor := mustInl(p, r, rule, converterPkg+".NewDomConverter")
	if ctor == nil {
		return
	}
	have := map[string]bool{}
	nStores := 0
	for _, in := range instrsOf(ctor) {
		st, isSt := in.(*ssa.Store)
		if !isSt {
			continue
		}
		fa, isFA := st.Addr.(*ssa.FieldAddr)
		if !isFA || fa.Field != field.Field || core.NamedOf(fa.X.Type()) == nil || core.NamedOf(fa.X.Type()) != core.NamedOf(field.X.Type()) {
			continue
		}
		nStores++
		sl, isSl := core.StripConv(st.Val).(*ssa.Slice)
		if !isSl {
			continue
		}
		al, isAl := sl.X.(*ssa.Alloc)
		if !isAl || al.Referrers() == nil {
			continue
		}
		for _, ref := range *al.Referrers() {
			ia, isIA := ref.(*ssa.IndexAddr)
			if !isIA || ia.Referrers() == nil {
				continue
			}
			for _, r2 := range *ia.Referrers() {
				if s2, isS2 := r2.(*ssa.Store); isS2 && s2.Addr == ssa.Value(ia) {
					if mi, isMI := s2.Val.(*ssa.MakeInterface); isMI {
						have[types.TypeString(mi.X.Type(), shortQualProps)] = true
					}
				}
			}
		}
	}
	var want []string
	for _, pkg := range p.SSAPkgs {
		if !core.IsModPkg(pkg.Pkg.Path()) {
			continue
		}
		for _, m := range pkg.Members {
			tp, isT := m.(*ssa.Type)
			if !isT {
				continue
			}
			if _, isI := tp.Type().Underlying().(*types.Interface); isI {
				continue
			}
			pt := types.NewPointer(tp.Type())
			if types.Implements(pt, iface) || types.Implements(tp.Type(), iface) {
				want = append(want, types.TypeString(pt, shortQualProps))
			}
		}
	}
	sort.Strings(want)
	var missing []string
	for _, w := range want {
		if !have[w] && !have[strings.TrimPrefix(w, "*")] {
			missing = append(missing, w)
		}
	}
	r.Add(rule, "the converter's extractor list holds every implementation of the extractor interface", p.Pos(ctor.Pos()), nStores == 1 && len(want) >= 4 && len(missing) == 0,
		fmt.Sprintf("%d implementations in the module, missing from the list: %v", len(want), missing))
}

func shortQualProps(pk *types.Package) string { return pk.Name() }

// implementationsOf lists the module's concrete types (as pointer types) that implement iface.
func implementationsOf(p *core.Program, iface *types.Interface) []*types.Named {
	var out []*types.Named
	for _, pkg := range p.SSAPkgs {
		if !core.IsModPkg(pkg.Pkg.Path()) {
			continue
		}
		for _, m := range pkg.Members {
			tp, isT := m.(*ssa.Type)
			if !isT {
				continue
			}
			if _, isI := tp.Type().Underlying().(*types.Interface); isI {
				continue
			}
			n, ok := tp.Type().(*types.Named)
			if ok && (types.Implements(types.NewPointer(n), iface) || types.Implements(n, iface)) {
				out = append(out, n)
			}
		}
	}
	sort.Slice(out, func(i, j int) bool { return out[i].String() < out[j].String() })
	return out
}

// checkPerTagDispatch (D2'): the converter keeps, per tag, the list of extractors interested in
// that tag. That offers a node to exactly the extractors that could recognise it when
//
//	(a) the constructor fills the map only by `m[t] = append(m[t], e)` in a complete loop over a
//	    list that holds every implementation, nested with a complete loop over
//	    e.RelevantTagNames() (so e is listed under every tag it declares, in list order), and
//	(b) every implementation's Extract answers nil, before doing anything else, for a node whose
//	    tag is not in the table that its RelevantTagNames enumerates.
func checkPerTagDispatch(p *core.Program, r *core.Report, rule string, tagMap *ssa.FieldAddr, iface *types.Interface) {
	c := core.NewCanon(p)
	ctor := mustInl(p, r, rule, converterPkg+".NewDomConverter")
	if ctor == nil {
		return
	}
	// (a)
	var stored ssa.Value
	nStores := 0
	for _, in := range instrsOf(ctor) {
		st, isSt := in.(*ssa.Store)
		if !isSt {
			continue
		}
		fa, isFA := st.Addr.(*ssa.FieldAddr)
		if isFA && fa.Field == tagMap.Field && core.NamedOf(fa.X.Type()) != nil && core.NamedOf(fa.X.Type()) == core.NamedOf(tagMap.X.Type()) {
			nStores++
			stored = core.StripConv(st.Val)
		}
	}
	mk, isMake := stored.(*ssa.MakeMap)
	okFill := nStores == 1 && isMake
	var why []string
	nUpd := 0
	var listVal ssa.Value
	if okFill {
		for _, ref := range *mk.Referrers() {
			mu, isMU := ref.(*ssa.MapUpdate)
			if !isMU {
				continue
			}
			nUpd++
			key, val := c.Of(mu.Key), c.Of(mu.Value)
			// key: an element of e.RelevantTagNames(); value: append(m[key], {e}); e: element of a list
			if !strings.HasPrefix(key, "elem(iface.RelevantTagNames(elem(") {
				okFill = false
				why = append(why, "key "+shortVal(key))
				continue
			}
			e := strings.TrimSuffix(strings.TrimPrefix(key, "elem(iface.RelevantTagNames("), "))")
			if val != "append("+c.Of(mk)+"["+key+"],{"+e+"})" {
				okFill = false
				why = append(why, "value "+shortVal(val))
			}
			// the loops around the update are complete range loops
			loops, _ := core.NaturalLoops(ctor)
			nAround := 0
			for _, l := range loops {
				if !l.Body[mu.Block()] {
					continue
				}
				nAround++
				for _, ex := range loopExits(p, l) {
					if !(strings.Contains(ex.atom, " < len(") && !ex.val) {
						okFill = false
						why = append(why, "loop exit "+shortVal(ex.atom))
					}
				}
			}
			if nAround != 2 {
				okFill = false
				why = append(why, fmt.Sprintf("%d loops around the insertion", nAround))
			}
			// the list the outer loop ranges over
			if call, ok := core.StripConv(mu.Key).(*ssa.UnOp); ok {
				if ia, ok := call.X.(*ssa.IndexAddr); ok {
					if rt, ok := core.StripConv(ia.X).(*ssa.Call); ok && rt.Call.IsInvoke() {
						if ld, ok := core.StripConv(rt.Call.Value).(*ssa.UnOp); ok {
							if ia2, ok := ld.X.(*ssa.IndexAddr); ok {
								listVal = core.StripConv(ia2.X)
							}
						}
					}
				}
			}
		}
	}
	r.Add(rule, "the per-tag extractor lists are filled by appending every extractor under every tag it declares", p.Pos(ctor.Pos()), okFill && nUpd == 1,
		fmt.Sprintf("%d stores of the map, %d insertions; %s", nStores, nUpd, strings.Join(why, "; ")))
	// the list holds every implementation
	have := map[string]bool{}
	if sl, ok := listVal.(*ssa.Slice); ok {
		if al, ok := sl.X.(*ssa.Alloc); ok && al.Referrers() != nil {
			for _, ref := range *al.Referrers() {
				if ia, ok := ref.(*ssa.IndexAddr); ok && ia.Referrers() != nil {
					for _, r2 := range *ia.Referrers() {
						if s2, ok := r2.(*ssa.Store); ok && s2.Addr == ssa.Value(ia) {
							if mi, ok := s2.Val.(*ssa.MakeInterface); ok {
								have[strings.TrimPrefix(types.TypeString(mi.X.Type(), shortQualProps), "*")] = true
							}
						}
					}
				}
			}
		}
	}
	impls := implementationsOf(p, iface)
	var missing []string
	for _, n := range impls {
		if !have[types.TypeString(n, shortQualProps)] {
			missing = append(missing, types.TypeString(n, shortQualProps))
		}
	}
	r.Add(rule, "the converter's extractor list holds every implementation of the extractor interface", p.Pos(ctor.Pos()), len(impls) >= 4 && len(missing) == 0,
		fmt.Sprintf("%d implementations in the module, missing from the list: %v", len(impls), missing))
	// (b)
	for _, n := range impls {
		name := types.TypeString(n, shortQualProps)
		ext := p.Func("(*" + n.String() + ").Extract")
		rel := p.Func("(*" + n.String() + ").RelevantTagNames")
		if ext == nil || rel == nil {
			r.Undecided(rule, name+": Extract / RelevantTagNames", "method not found")
			continue
		}
		// the table RelevantTagNames enumerates
		table := ""
		for _, in := range instrsOf(p.Inlined(rel)) {
			if ld, ok := in.(*ssa.UnOp); ok {
				if g, ok := ld.X.(*ssa.Global); ok {
					if s, ok := p.GlobalConst(g); ok && (strings.HasPrefix(s, "set‹") || strings.HasPrefix(s, "map‹")) {
						table = s
					}
				}
			}
		}
		if table == "" {
			r.Undecided(rule, name+".Extract: nil for a tag it does not declare", "RelevantTagNames does not enumerate a private table")
			continue
		}
		// with the edges removed on which the tag was found in the table, nothing but the
		// tag test itself may execute and every return that stays reachable answers nil
		ex := p.Inlined(ext)
		atom := "in(" + table + ",dom.TagName($1))"
		cut, m := core.CutAtoms(p, ex, regexp.MustCompile(q(atom)), true)
		nOut, bad := 0, 0
		if len(m) == 0 {
			bad++
		}
		for _, in := range instrsOf(ex) {
			if !core.InstrReachable(ex, cut, in) {
				continue
			}
			switch x := in.(type) {
			case *ssa.Return:
				nOut++
				if len(x.Results) != 1 || !core.IsNilConst(core.StripConv(x.Results[0])) {
					bad++
				}
			case ssa.CallInstruction:
				if _, isB := x.Common().Value.(*ssa.Builtin); !isB && !core.IsCallTo(x, "github.com/go-shiori/dom.TagName") {
					bad++
				}
			case *ssa.Store, *ssa.MapUpdate:
				bad++
			}
		}
		r.Add(rule, name+".Extract answers nil at once for a node whose tag it does not declare", p.Pos(ext.Pos()), nOut >= 1 && bad == 0,
			fmt.Sprintf("%d returns reachable with the tag outside %s; %d calls, stores or non-nil answers reachable there", nOut, shortVal(table), bad))
	}
}
