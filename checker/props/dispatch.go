package props

import (
	"fmt"
	"go/types"
	"sort"
	"strings"

	"ddcheck/core"

	"golang.org/x/tools/go/ssa"
)

// checkExtractorDispatch (shared by C08 and C19): an element whose tag an embed extractor
// declares relevant is offered to EVERY extractor, in turn, until one recognises it. Several
// extractors claim the same tag (iframe: twitter, vimeo, youtube), so a dispatch that hands a
// node to one extractor per tag silently stops recognising the others: their media vanish from
// the output behind retained text (C08) and are dropped as unknown frames (C19).
//
//	D1 the element visitor calls EmbedExtractor.Extract in exactly one place, on the element of
//	   a range loop over a slice held by the converter, and the loop is left only at the end of
//	   the slice or when an extractor answered non-nil;
//	D2 the constructor stores into that field a list that holds an instance of every type of
//	   the module that implements the extractor interface.
func checkExtractorDispatch(p *core.Program, r *core.Report, rule string) {
	ve, _ := walkHandlers(p, r, rule)
	if ve == nil {
		return
	}
	c := core.NewCanon(p)
	var calls []*ssa.Call
	for _, in := range instrsOf(ve) {
		call, ok := in.(*ssa.Call)
		if !ok || !call.Call.IsInvoke() || call.Call.Method.Name() != "Extract" {
			continue
		}
		if n := core.NamedOf(call.Call.Value.Type()); n == nil || n.Obj().Name() != "EmbedExtractor" {
			continue
		}
		calls = append(calls, call)
	}
	if len(calls) != 1 {
		r.Add(rule, "the element visitor offers a node to the embed extractors in one place", p.Pos(ve.Pos()), false, fmt.Sprintf("%d calls of EmbedExtractor.Extract in the visitor", len(calls)))
		return
	}
	call := calls[0]
	recv := c.Of(call.Call.Value)
	var iface *types.Interface
	if n := core.NamedOf(call.Call.Value.Type()); n != nil {
		iface, _ = n.Underlying().(*types.Interface)
	}
	// the receiver is the element of a slice field of the converter
	var field *ssa.FieldAddr
	if ld, ok := core.StripConv(call.Call.Value).(*ssa.UnOp); ok {
		if ia, ok := ld.X.(*ssa.IndexAddr); ok {
			if fl, ok := core.StripConv(ia.X).(*ssa.UnOp); ok {
				field, _ = fl.X.(*ssa.FieldAddr)
			}
		}
	}
	isList := false
	if field != nil {
		if pt, ok := field.Type().Underlying().(*types.Pointer); ok {
			_, isList = pt.Elem().Underlying().(*types.Slice)
		}
	}
	loops, _ := core.NaturalLoops(ve)
	var loop *core.Loop
	for _, l := range loops {
		if l.Body[call.Block()] && (loop == nil || len(l.Body) < len(loop.Body)) {
			loop = l
		}
	}
	ok := isList && loop != nil && strings.HasPrefix(recv, "elem(")
	var desc []string
	if loop != nil && ok {
		list := strings.TrimSuffix(strings.TrimPrefix(recv, "elem("), ")")
		nEnd, nFound := 0, 0
		for _, ex := range loopExits(p, loop) {
			desc = append(desc, fmt.Sprintf("%s=%v", shortVal(ex.atom), ex.val))
			switch {
			case strings.HasSuffix(ex.atom, " < len("+list+")") && !ex.val:
				nEnd++
			case (ex.atom == "iface.Extract("+recv+",$1) == nil" && !ex.val):
				nFound++
			default:
				ok = false
			}
		}
		ok = ok && nEnd == 1 && nFound == 1
	}
	sort.Strings(desc)
	r.Add(rule, "every extractor is tried in turn until one recognises the node", p.Pos(call.Pos()), ok,
		fmt.Sprintf("Extract is called on %s; ways out of the loop: %s", shortVal(recv), strings.Join(desc, "; ")))
	if field == nil || iface == nil {
		return
	}
	// D2: the list stored by the constructor holds every implementation
	ctor := mustInl(p, r, rule, converterPkg+".NewDomConverter")
	if ctor == nil {
		return
	}
	have := map[string]bool{}
	nStores := 0
	for _, in := range instrsOf(ctor) {
		st, isSt := in.(*ssa.Store)
		if !isSt {
			continue
		}
		fa, isFA := st.Addr.(*ssa.FieldAddr)
		if !isFA || fa.Field != field.Field || core.NamedOf(fa.X.Type()) == nil || core.NamedOf(fa.X.Type()) != core.NamedOf(field.X.Type()) {
			continue
		}
		nStores++
		sl, isSl := core.StripConv(st.Val).(*ssa.Slice)
		if !isSl {
			continue
		}
		al, isAl := sl.X.(*ssa.Alloc)
		if !isAl || al.Referrers() == nil {
			continue
		}
		for _, ref := range *al.Referrers() {
			ia, isIA := ref.(*ssa.IndexAddr)
			if !isIA || ia.Referrers() == nil {
				continue
			}
			for _, r2 := range *ia.Referrers() {
				if s2, isS2 := r2.(*ssa.Store); isS2 && s2.Addr == ssa.Value(ia) {
					if mi, isMI := s2.Val.(*ssa.MakeInterface); isMI {
						have[types.TypeString(mi.X.Type(), shortQualProps)] = true
					}
				}
			}
		}
	}
	var want []string
	for _, pkg := range p.SSAPkgs {
		if !core.IsModPkg(pkg.Pkg.Path()) {
			continue
		}
		for _, m := range pkg.Members {
			tp, isT := m.(*ssa.Type)
			if !isT {
				continue
			}
			if _, isI := tp.Type().Underlying().(*types.Interface); isI {
				continue
			}
			pt := types.NewPointer(tp.Type())
			if types.Implements(pt, iface) || types.Implements(tp.Type(), iface) {
				want = append(want, types.TypeString(pt, shortQualProps))
			}
		}
	}
	sort.Strings(want)
	var missing []string
	for _, w := range want {
		if !have[w] && !have[strings.TrimPrefix(w, "*")] {
			missing = append(missing, w)
		}
	}
	r.Add(rule, "the converter's extractor list holds every implementation of the extractor interface", p.Pos(ctor.Pos()), nStores == 1 && len(want) >= 4 && len(missing) == 0,
		fmt.Sprintf("%d implementations in the module, missing from the list: %v", len(want), missing))
}

func shortQualProps(pk *types.Package) string { return pk.Name() }
