package props

import (
	"fmt"
	"go/ast"
	"regexp"
	"sort"
	"strings"

	"ddcheck/core"

	"golang.org/x/tools/go/ssa"
)

func init() { Registry["C07"] = C07 }

var reTagEq = regexp.MustCompile(`^dom\.TagName\(\$1\) == "([^"]*)"$`)

// nestableTags extracts the set of tags for which webdoc.CanBeNested returns true.
func nestableTags(p *core.Program, r *core.Report, rule string) map[string]bool {
	fn := mustInl(p, r, rule, "mod/internal/webdoc.CanBeNested")
	if fn == nil {
		return nil
	}
	paths, _, err := core.EnumerateDecisions(p, fn, core.DecisionOpts{Outcome: func(in ssa.Instruction, c *core.Canon) (string, bool) {
		if ret, ok := in.(*ssa.Return); ok {
			return c.Of(ret.Results[0]), true
		}
		return "", false
	}})
	if err != nil {
		r.Undecided(rule, "CanBeNested", err.Error())
		return nil
	}
	n := map[string]bool{}
	re := regexp.MustCompile(`^\$0 == "([^"]*)"$`)
	reIn := regexp.MustCompile(`^in\(((?:set|map)‹.*›),\$0\)$`)
	for _, pa := range paths {
		// `return <membership in a fixed table>`: the table is the nestable set
		if m := reIn.FindStringSubmatch(pa.Outcome); m != nil {
			for _, k := range tableKeys(m[1]) {
				n[k] = true
			}
			continue
		}
		if pa.Outcome != "true" {
			continue
		}
		found := false
		for _, l := range pa.Lits {
			if m := re.FindStringSubmatch(l.Atom); m != nil && l.Val {
				n[m[1]] = true
				found = true
			}
			if m := reIn.FindStringSubmatch(l.Atom); m != nil && l.Val {
				for _, k := range tableKeys(m[1]) {
					n[k] = true
				}
				found = true
			}
		}
		if !found {
			r.Add(rule, "CanBeNested: true without a tag test", pa.Pos, false, pa.String())
		}
	}
	return n
}

// C07: retained text keeps its list/quote/pre nesting; data tables are kept whole.
func C07(p *core.Program, r *core.Report) {
	r.Explanation = "N1 (balanced placeholders): all decision paths of the converter's element visitor are enumerated with the start-tag emission as an event; a path that emits a start tag may only end in `return false` if it is conditioned on a tag that CanBeNested rejects (so for nestable tags the exit handler always runs); start and end emission are both guarded by CanBeNested(TagName(node)) and carry TagName(node); node.Data is only rewritten to non-nestable constants on non-nestable tags. N3: one iteration of NestedElementRetainer.Process is extracted as a transition function: any non-tag element contributes its content flag, a start tag records and resets the flag, an end tag marks both tags alike. N2: data tables are cloned and serialised as one unit from a clone that is append-only collected (no pruning after collection) and text rooted at a nestable element returns InnerHTML. N4: what counts as a visible descendant of a data table is the documented visibility decision list (shared with C04-V3). N5: NestedElementRetainer is the last of the three document filters on every path of ExtractContent (shared with C08-E1), so no content flag changes after the stack pass. N7: a placeholder is appended behind the text that precedes it - every builder method that appends an element flushes the pending text first (shared with C02-O5). N4 is also what decides whether a media element exists at all (see C08-E7)."
	r.NotCovered = "the integer stack/stackMark arithmetic of the retainer for nested pairs (only its boolean part and the pairing of SetIsContent calls are decided); the HTML parser re-nesting the emitted string; partial-list semantics."

	if !checkPlaceholderBalance(p, r, "N1") {
		return
	}

	// ---- N4: a data table is cloned with all its visible descendants: what counts as visible is
	// the documented decision list (shared with C04-V3)
	checkVisibilityRules(p, r, "N4")
	// N7: a placeholder goes into the document behind the text that precedes it (shared with C02-O5)
	checkFlushBeforeElement(p, r, "N7")
	// ---- N6: a retained data table is cloned through GetOutputNodes: its per-node gate admits
	// every element that is not script/style/hidden - in particular empty cells and rows
	// (decision-list conformance, shared with C04-V1/C05-S3)
	checkOutputNodesGate(p, r, "N6")
	// ---- N5: the stack pass is the last document filter to change content flags (shared with C08-E1)
	checkFilterOrder(p, r, "N5")

	// ---- N3 retainer
	nr := mustInl(p, r, "N3", "(*"+docfilterPkg+".NestedElementRetainer).Process")
	if nr != nil {
		hs := loopHeaders(nr)
		if len(hs) != 1 {
			r.Undecided("N3", "NestedElementRetainer.Process loop", fmt.Sprintf("expected one loop, found %d", len(hs)))
		} else {
			opts := core.DecisionOpts{IterateAt: hs[0], Outcome: noOutcome, Event: callEvent(regexp.MustCompile(`SetIsContent`))}
			paths, atoms, err := core.EnumerateDecisions(p, nr, opts)
			if err != nil {
				r.Undecided("N3", "NestedElementRetainer.Process", err.Error())
			}
			el := `elem($1.Elements)`
			tag := el + `.(*webdoc.Tag)`
			// normalise the end-tag paths: keep only which SetIsContent calls happen and with which value
			for i := range paths {
				o := paths[i].Outcome
				if strings.Contains(o, "next(state0=&elem(") || strings.Contains(o, "webdoc.BaseElement.SetIsContent(&elem(μ(") {
					// end tag: next state is the popped start tag's previous flag
					o = regexp.MustCompile(`next\(state0=&elem\(.*\)\.BaseElement\.‹bool›\)`).ReplaceAllString(o, "next(state0=<was content of start tag>)")
					o = regexp.MustCompile(`webdoc\.BaseElement\.SetIsContent\(&elem\(μ\(.*?\)\)\.BaseElement,`).ReplaceAllString(o, "SetIsContent(<start tag>,")
					o = strings.ReplaceAll(o, "webdoc.BaseElement.SetIsContent(&"+tag+".BaseElement,", "SetIsContent(<end tag>,")
				}
				paths[i].Outcome = o
			}
			spec := core.DecisionSpec{
				Atoms: map[string]string{
					"is.tag":   q(`is(` + el + `,*webdoc.Tag)`),
					"is.start": q(tag + `.Type == webdoc.TagStart`),
					"flag":     q(`state0`),
				},
				Rules: []core.SpecRule{
					{Name: "start tag: remember the flag on the tag, reset it", Guard: core.And(core.A("is.tag"), core.A("is.start")),
						Outcome: `webdoc.BaseElement.SetIsContent(&` + tag + `.BaseElement,state0) => next(state0=false)`},
					{Name: "end tag enclosing content: both tags retained", Guard: core.And(core.A("is.tag"), core.A("flag")),
						Outcome: `SetIsContent(<start tag>,true); SetIsContent(<end tag>,true) => next(state0=<was content of start tag>)`},
					{Name: "non-tag element after content: flag stays", Guard: core.And(core.Not(core.A("is.tag")), core.A("flag")), Outcome: `next(state0=state0)`},
					{Name: "non-tag element: its content flag is taken over", Guard: core.Not(core.A("is.tag")), Outcome: `next(state0=iface.IsContent(` + el + `))`},
				},
			}
			// the two remaining end-tag paths depend on the stack mark (integers): check only that
			// start and end tag receive the same value
			var keep []core.DecisionPath
			for _, pa := range paths {
				isEndNoFlag := false
				hasTag, hasStart, hasFlag := 0, 0, 0
				for _, l := range pa.Lits {
					switch l.Atom {
					case `is(` + el + `,*webdoc.Tag)`:
						if l.Val {
							hasTag = 1
						}
					case tag + `.Type == webdoc.TagStart`:
						if !l.Val {
							hasStart = -1
						}
					case "state0":
						if !l.Val {
							hasFlag = -1
						}
					}
				}
				isEndNoFlag = hasTag == 1 && hasStart == -1 && hasFlag == -1
				if isEndNoFlag {
					evs := strings.Split(strings.SplitN(pa.Outcome, " => ", 2)[0], "; ")
					ok := false
					if len(evs) == 2 && strings.HasPrefix(evs[0], "SetIsContent(<start tag>,") && strings.HasPrefix(evs[1], "SetIsContent(<end tag>,") {
						x := strings.TrimSuffix(strings.TrimPrefix(evs[0], "SetIsContent(<start tag>,"), ")")
						y := strings.TrimSuffix(strings.TrimPrefix(evs[1], "SetIsContent(<end tag>,"), ")")
						ok = x == y
					}
					r.Add("N3", "retainer: end tag without own content marks both tags alike", pa.Pos, ok, "", pa.String())
					continue
				}
				keep = append(keep, pa)
			}
			core.CheckDecisionList(r, "N3", "NestedElementRetainer.Process(iteration)", keep, atoms, spec)
		}
	}

	// ---- N2 tables as a unit
	tg := mustInl(p, r, "N2", "(*mod/internal/webdoc.Table).GenerateOutput")
	if tg != nil {
		c := core.NewCanon(p)
		want := `domutil.CloneAndProcessList(domutil.GetOutputNodes($0.Element),$0.PageURL)`
		cl := "$0.‹*html.Node›" // the table's private clone
		for _, fn := range p.ModFunctions(false) {
			if !strings.Contains(fn.String(), "webdoc.Table)") || !ast.IsExported(fn.Name()) {
				continue
			}
			for _, in := range instrsOf(p.Inlined(fn)) {
				if st, ok := in.(*ssa.Store); ok && c.Of(st.Addr) == "&"+cl {
					r.Add("N2", "the table's private clone is the processed clone of the whole table: "+core.ShortKey(fn), p.Pos(st.Pos()), c.Of(st.Val) == want, "stored: "+c.Of(st.Val))
				}
			}
		}
		for _, ret := range core.Returns(tg) {
			v := c.Of(ret.Results[0])
			ok := v == "domutil.InnerText("+cl+")" || v == "dom.OuterHTML("+cl+")"
			r.Add("N2", "Table.GenerateOutput serialises the one clone", p.Pos(ret.Pos()), ok, "returns "+v)
		}
		r.Floor("N2", 4)
	}
	// WebDocumentBuilder.AddDataTable keeps the node
	adt := mustInl(p, r, "N2", "(*mod/internal/webdoc.WebDocumentBuilder).AddDataTable")
	if adt != nil {
		ok := false
		for _, a := range allocsOf(adt, "/internal/webdoc", "Table") {
			fs := fieldStores(a)
			if len(fs["Element"]) == 1 {
				_, ok = fs["Element"][0].(*ssa.Parameter)
			}
		}
		r.Add("N2", "AddDataTable stores the table element itself", p.Pos(adt.Pos()), ok, "")
	}
	// GetOutputNodes: collected list is append-only
	gon := mustInl(p, r, "N2", "mod/internal/domutil.GetOutputNodes")
	if gon != nil {
		c := core.NewCanon(p)
		fns := append([]*ssa.Function{gon}, gon.AnonFuncs...)
		for _, fn := range fns {
			for _, b := range fn.Blocks {
				for _, in := range b.Instrs {
					st, ok := in.(*ssa.Store)
					if !ok {
						continue
					}
					addr := c.Of(st.Addr)
					if addr == "^0" || addr == "new([]*html.Node)" {
						v := c.Of(st.Val)
						ok := strings.HasPrefix(v, "append(*"+addr+",{") || v == "{}" || strings.HasPrefix(v, "new([0]*html.Node)")
						r.Add("N2", "GetOutputNodes: collected nodes are only appended ("+core.ShortKey(fn)+")", p.Pos(st.Pos()), ok, "outputNodes = "+v)
					}
				}
			}
		}
		for _, call := range core.Calls(gon, func(ci ssa.CallInstruction) bool { return core.IsCallTo(ci, "mod/internal/domutil.WalkNodes") }) {
			r.Add("N2", "GetOutputNodes: no exit-time pruning", p.Pos(call.Pos()), core.IsNilConst(call.Common().Args[2]), "exit handler: "+c.Of(call.Common().Args[2]))
		}
	}
	// Text rooted at a nestable element returns inner HTML only
	txt := mustInl(p, r, "N2", "(*mod/internal/webdoc.Text).GenerateOutput")
	if txt != nil {
		reN := regexp.MustCompile(`^webdoc\.CanBeNested\(dom\.TagName\(.*\)\)$`)
		cutT, m1 := core.CutAtoms(p, txt, reN, true)
		cutF, _ := core.CutAtoms(p, txt, reN, false)
		c := core.NewCanon(p)
		r.Add("N2", "Text.GenerateOutput tests whether its root is nestable", p.Pos(txt.Pos()), len(m1) >= 1, fmt.Sprintf("%d tests", len(m1)))
		// a nestable root is wrapped by its pair of Tags: it must not also be wrapped in clones
		// of its parents (the loop that retains parents of an inline root; a blockquote or pre
		// styled display:inline would come out as blockquote > div > blockquote)
		loops, _ := core.NaturalLoops(txt)
		nWrap := 0
		for _, call := range core.Calls(txt, func(ci ssa.CallInstruction) bool {
			return core.IsCallTo(ci, "github.com/go-shiori/dom.AppendChild", "(*golang.org/x/net/html.Node).AppendChild")
		}) {
			in := call.(ssa.Instruction)
			inLoop := false
			for _, l := range loops {
				inLoop = inLoop || l.Body[in.Block()]
			}
			if !inLoop {
				continue
			}
			nWrap++
			r.Add("N2", "Text: a root is wrapped in a clone of its parent only when it is not nestable", p.Pos(call.Pos()), !core.InstrReachable(txt, cutF, in),
				"with the `root is not nestable` edges removed the wrapping must be unreachable")
		}
		r.Add("N2", "Text: parent-retaining loop examined", p.Pos(txt.Pos()), nWrap >= 1, fmt.Sprintf("%d wrapping calls inside loops", nWrap))
		for _, ret := range core.Returns(txt) {
			v := c.Of(ret.Results[0])
			switch {
			case strings.HasPrefix(v, "dom.InnerHTML("):
				r.Add("N2", "Text: inner HTML only for a nestable root", p.Pos(ret.Pos()), !core.InstrReachable(txt, cutT, ret), "")
			case strings.HasPrefix(v, "dom.OuterHTML("):
				r.Add("N2", "Text: outer HTML only for a non-nestable root", p.Pos(ret.Pos()), !core.InstrReachable(txt, cutF, ret), "")
			}
		}
	}
}

// checkPlaceholderBalance: start and end placeholders of nestable elements are emitted in pairs
// (shared by C07-N1 and C01-T4: the retainer pops one start tag per end tag).
func checkPlaceholderBalance(p *core.Program, r *core.Report, rule string) bool {
	nest := nestableTags(p, r, rule)
	if nest == nil {
		return false
	}
	var ntags []string
	for t := range nest {
		ntags = append(ntags, t)
	}
	sort.Strings(ntags)
	r.Add(rule, "nestable tag set", "", sameSet(ntags, []string{"blockquote", "li", "ol", "pre", "ul"}), fmt.Sprintf("CanBeNested accepts %v; documented: ul ol li blockquote pre", ntags))

	// ---- N1 visitor: the visit callback of Convert with its helpers expanded
	vm := visitor(p, r, rule)
	if vm == nil {
		return false
	}
	startEv := `AddTag(webdoc.NewTag(dom.TagName($1),webdoc.TagStart))`
	{
		r.Stats["visitor_paths"] = len(vm.paths)
		nStart, nBadFalse, nUnguarded, nOtherTag := 0, 0, 0, 0
		renameSeen := map[string]bool{}
		var wit []string
		for _, pa := range vm.paths {
			hasStart := false
			for _, ev := range builderCalls(pa) {
				if strings.HasPrefix(ev, "AddTag(") {
					if ev == startEv {
						hasStart = true
					} else {
						nOtherTag++
						wit = append(wit, pa.String())
					}
				}
			}
			tagTrue := ""
			nestGuard := false
			for _, l := range pa.Lits {
				if m := reTagEq.FindStringSubmatch(l.Atom); m != nil && l.Val {
					tagTrue = m[1]
				}
				// membership in a fixed table of tag names none of which is nestable counts as
				// being conditioned on a non-nestable tag (represented by one of them)
				if strings.HasPrefix(l.Atom, "in(") && strings.HasSuffix(l.Atom, ",dom.TagName($1))") && l.Val {
					keys := tableKeys(strings.TrimSuffix(strings.TrimPrefix(l.Atom, "in("), ",dom.TagName($1))"))
					none := len(keys) > 0
					for _, k := range keys {
						if nest[k] {
							none = false
						}
					}
					if none && tagTrue == "" {
						tagTrue = keys[0]
					}
				}
				if l.Atom == "webdoc.CanBeNested(dom.TagName($1))" && l.Val {
					nestGuard = true
				}
			}
			if hasStart {
				nStart++
				if !nestGuard {
					nUnguarded++
					wit = append(wit, "unguarded: "+pa.String())
				}
				if pathResult(pa) == "return false" && (tagTrue == "" || nest[tagTrue]) {
					nBadFalse++
					wit = append(wit, "start tag then return false: "+pa.String())
				}
			}
			for _, ev := range pathEvents(pa) {
				if !strings.HasPrefix(ev, "rename ") {
					continue
				}
				to := strings.Trim(strings.TrimPrefix(ev, "rename "), `"`)
				ok := tagTrue != "" && !nest[tagTrue] && !nest[to]
				rk := tagTrue + "->" + to
				if !ok && !renameSeen[rk] {
					renameSeen[rk] = true
					r.Add(rule, "visitor renames an element across the nestable boundary", pa.Pos, false, fmt.Sprintf("tag %q renamed to %q: start and end placeholders would disagree", tagTrue, to), pa.String())
				}
			}
		}
		if len(wit) > 4 {
			wit = wit[:4]
		}
		r.Add(rule, "visitor: a start placeholder exists", vm.pos, nStart > 0 && vm.atoms["webdoc.CanBeNested(dom.TagName($1))"], fmt.Sprintf("%d of %d paths emit a start tag", nStart, len(vm.paths)))
		r.Add(rule, "visitor: start placeholder only under CanBeNested(TagName(node))", vm.pos, nUnguarded == 0, fmt.Sprintf("%d unguarded paths", nUnguarded), wit...)
		r.Add(rule, "visitor: after a start placeholder a nestable element is always walked (return true)", vm.pos, nBadFalse == 0, fmt.Sprintf("%d paths emit a start tag and then return false without being conditioned on a non-nestable tag", nBadFalse), wit...)
		r.Add(rule, "visitor: placeholders carry the node's tag name and are start tags", vm.pos, nOtherTag == 0, fmt.Sprintf("%d paths emit another kind of tag", nOtherTag), wit...)
	}
	// ---- N1 exit handler: the exit callback of the same walk
	if ex := vm.exit; ex != nil {
		opts := core.DecisionOpts{Outcome: func(in ssa.Instruction, c *core.Canon) (string, bool) {
			if _, ok := in.(*ssa.Return); ok {
				return "done", true
			}
			return "", false
		}, Event: func(in ssa.Instruction, c *core.Canon) (string, bool) {
			call, ok := in.(*ssa.Call)
			if !ok || !call.Call.IsInvoke() || c.Of(call.Call.Value) != vm.builder {
				return "", false
			}
			var args []string
			for _, a := range call.Call.Args {
				args = append(args, c.Of(a))
			}
			return call.Call.Method.Name() + "(" + strings.Join(args, ",") + ")", true
		}}
		paths, atoms, err := core.EnumerateDecisions(p, ex, opts)
		if err != nil {
			r.Undecided(rule, "exit callback", err.Error())
		}
		spec := core.DecisionSpec{
			Atoms: map[string]string{
				"element":  q(`$1.Type == html.ElementNode`),
				"nestable": q(`webdoc.CanBeNested(dom.TagName($1))`),
			},
			Rules: []core.SpecRule{
				{Name: "nestable element: end placeholder, then EndNode", Guard: core.And(core.A("element"), core.A("nestable")),
					Outcome: `AddTag(webdoc.NewTag(dom.TagName($1),webdoc.TagEnd)); EndNode() => done`},
				{Name: "anything else: EndNode only", Guard: core.True(), Outcome: `EndNode() => done`},
			},
		}
		core.CheckDecisionList(r, rule, "exit callback", paths, atoms, spec)
	}

	return true
}
