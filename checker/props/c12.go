package props

import (
	"fmt"
	"go/token"
	"sort"
	"strings"

	"ddcheck/core"
	"ddcheck/pea"

	"golang.org/x/tools/go/ssa"
)

func init() { Registry["C12"] = C12 }

// globalWrites collects, over the four entry points, the effects on package-level state.
func globalWrites(p *core.Program, a *pea.Analysis) map[string]*pea.Effect {
	out := map[string]*pea.Effect{}
	for _, e := range entryPoints {
		fn := p.Func(core.ModPath + "." + e.name)
		if fn == nil {
			continue
		}
		bind := map[int]int32{e.opts: a.CallerOpts}
		if e.doc >= 0 {
			bind[e.doc] = a.CallerDoc
		}
		for _, ef := range a.EntryEffects(fn, bind) {
			li := a.Label(ef.Target)
			if li.Kind != pea.KGlob {
				continue
			}
			key := fmt.Sprintf("%s written by %s (%s)", li.Name, core.ShortKey(ef.Fn), ef.Field)
			if old, ok := out[key]; !ok || len(a.Chain(ef)) < len(a.Chain(old)) {
				out[key] = ef
			}
		}
	}
	return out
}

// C12: Apply is safe for concurrent use.
func C12(p *core.Program, r *core.Report) {
	r.Explanation = "A data race (or a result that depends on other calls) needs a location touched by two calls, one of them writing. G1: using the provenance & effects analysis, no function reachable from the entry points writes memory reachable from a package-level variable (stores, map updates, append/copy/sort into it, mutating standard-library methods such as (*bytes.Buffer).Write on it), except inside functions that only run under (*sync.Once).Do or entries of the reviewed table. G2: arguments are only read (the C10 result, re-evaluated here). G3: module code starts no goroutines and uses no channels or sync primitives, so memory allocated by a call stays private to it. G4: module packages import neither unsafe nor reflect nor cgo, so the analysis sees every store. G5: nothing but timing data depends on the clock (no goroutines, random numbers, environment values either; shared with C11-D2) - under load a call is slower, not different. G1 follows records handed out by pointer: a field store through a pointer parameter is summarised symbolically and instantiated at every call site, so a store into a record that came out of a package-level table is reported at the store, whatever path the pointer took through fields and slices."
	r.NotCovered = "internals of the standard library (trusted to honour their documented concurrency contracts: regexp, sync.Pool, os.File, net/http); scheduling-dependent timing values (TimingInfo is excluded by the property)."
	r.Trusted = append(r.Trusted, "standard library concurrency contracts", "external model of standard-library mutators (pointer-receiver methods mutate their receiver unless the type is documented safe/immutable)")

	a := runPEA(p)
	peaStats(r, a)

	// ---- G1
	gw := globalWrites(p, a)
	var keys []string
	for k := range gw {
		keys = append(keys, k)
	}
	sort.Strings(keys)
	nOnce := 0
	for _, k := range keys {
		ef := gw[k]
		if ef.Once {
			nOnce++
			r.Add("G1", "once-guarded: "+k, p.Pos(ef.Pos), true, "only reachable through (*sync.Once).Do: initialisation that is synchronised by construction")
			continue
		}
		r.Add("G1", k, p.Pos(ef.Pos), false, "package-level state may be written during a call: concurrent calls race on it and later calls can observe it", a.Chain(ef)...)
	}
	r.Add("G1", "entry points examined for writes to package-level state", "", len(entryPoints) == 4, fmt.Sprintf("%d distinct (variable, writer) pairs found, %d of them once-guarded", len(keys), nOnce))

	// positive control: the analysis must notice a known global write in init code
	nInitWrites := 0
	for _, fn := range a.Functions() {
		if !core.IsModPkg(core.FnPkgPath(fn)) || fn.Name() != "init" {
			continue
		}
		for _, ef := range a.Effects(fn) {
			if a.Label(ef.Target).Kind == pea.KGlob {
				nInitWrites++
			}
		}
	}
	r.Add("G1", "sanity: package initialisers are seen writing package-level variables", "", nInitWrites >= 20, fmt.Sprintf("%d global stores found in module init functions (regexps and tables)", nInitWrites))

	// ---- G2
	for _, e := range entryPoints {
		fn := p.Func(core.ModPath + "." + e.name)
		if fn == nil {
			continue
		}
		bind := map[int]int32{e.opts: a.CallerOpts}
		if e.doc >= 0 {
			bind[e.doc] = a.CallerDoc
		}
		n := 0
		var first *pea.Effect
		for _, ef := range a.EntryEffects(fn, bind) {
			if a.Label(ef.Target).Kind == pea.KCaller {
				n++
				if first == nil || len(a.Chain(ef)) < len(a.Chain(first)) {
					first = ef
				}
			}
		}
		if n == 0 {
			r.Add("G2", e.name+": shared arguments are only read", p.Pos(fn.Pos()), true, "no effect on CallerDoc/CallerOpts/CallerURL (see C10)")
		} else {
			r.Add("G2", e.name+": shared arguments are written", p.Pos(first.Pos), false,
				fmt.Sprintf("%d effects on caller-owned memory; two calls sharing a document or Options race (details: check C10)", n), a.Chain(first)...)
		}
	}

	// ---- G3
	nFns := 0
	for _, fn := range p.ModFunctions(false) {
		nFns++
		for _, b := range fn.Blocks {
			for _, in := range b.Instrs {
				bad := ""
				switch x := in.(type) {
				case *ssa.Go:
					bad = "go statement"
				case *ssa.Send:
					bad = "channel send"
				case *ssa.Select:
					bad = "select"
				case *ssa.MakeChan:
					bad = "channel creation"
				case *ssa.UnOp:
					if x.Op == token.ARROW {
						bad = "channel receive"
					}
				case ssa.CallInstruction:
					if f := core.Callee(x); f != nil {
						pp := core.FnPkgPath(f)
						if pp == "sync" || pp == "sync/atomic" {
							bad = "use of " + f.String()
						}
					}
				}
				if bad != "" {
					r.Add("G3", core.ShortKey(fn)+": "+bad, p.Pos(in.Pos()), false, "module code must not introduce concurrency or shared-state synchronisation: the privacy argument for per-call memory depends on it")
				}
			}
		}
	}
	r.Add("G3", "module functions scanned for goroutines/channels/sync", "", nFns > 300, fmt.Sprintf("%d functions", nFns))

	// ---- G4
	nPk := 0
	for _, pkg := range p.Pkgs {
		if strings.HasSuffix(pkg.PkgPath, "/internal/testutil") {
			continue
		}
		nPk++
		for imp := range pkg.Imports {
			if imp == "unsafe" || imp == "reflect" || imp == "C" {
				r.Add("G4", pkg.PkgPath+" imports "+imp, "", false, "the effects analysis cannot see stores made through "+imp)
			}
		}
	}
	// G5: "every call returns exactly the result it returns when run alone": under load a call is
	// slower, so nothing but timing data may depend on the clock (shared with C11-D2)
	checkNondeterminismSources(p, r, "G5")
	r.Add("G4", "module packages import neither unsafe, reflect nor cgo", "", nPk >= 24, fmt.Sprintf("%d packages", nPk))
}
