package props

import (
	"fmt"
	"go/token"
	"go/types"
	"regexp"
	"sort"
	"strings"

	"ddcheck/core"

	"golang.org/x/tools/go/ssa"
)

func init() { Registry["C15"] = C15 }

const heuristicPkg = "mod/internal/filter/heuristic"

// the <title> or first <h1> below the extractor's document element (or below the parameter of
// the title heuristic when that is analysed on its own)
var rxTitleSource = regexp.MustCompile(`^dom\.QuerySelector\((\$0|\$0\.‹\*html\.Node›),"(title|h1)"\)$`)

// titleProvenance checks that a string value is built from the <title>/<h1> text by
// substring-preserving operations only. It returns a description of the first offending construct.
func titleProvenance(p *core.Program, v ssa.Value, seen map[ssa.Value]bool) string {
	if seen[v] {
		return ""
	}
	seen[v] = true
	c := core.NewCanon(p)
	switch x := v.(type) {
	case *ssa.Const:
		if s, ok := core.ConstString(x); ok && strings.TrimSpace(s) == "" {
			return ""
		}
		return "constant " + c.Of(x)
	case *ssa.Phi:
		for _, e := range x.Edges {
			if w := titleProvenance(p, e, seen); w != "" {
				return w
			}
		}
		return ""
	case *ssa.Slice:
		return titleProvenance(p, x.X, seen)
	case *ssa.Extract:
		// before/after of strings.Cut are substrings of its first argument
		if call, ok := x.Tuple.(*ssa.Call); ok && x.Index <= 1 && core.IsCallTo(call, "strings.Cut", "strings.CutPrefix", "strings.CutSuffix") {
			return titleProvenance(p, call.Call.Args[0], seen)
		}
		return fmt.Sprintf("%T %s", v, c.Of(v))
	case *ssa.BinOp:
		if x.Op == token.ADD {
			// concatenation: allowed only with whitespace
			for _, side := range []ssa.Value{x.X, x.Y} {
				if w := titleProvenance(p, side, seen); w != "" {
					return "concatenation with " + w
				}
			}
			return ""
		}
		return "operator " + x.Op.String()
	case *ssa.Call:
		f := x.Call.StaticCallee()
		if f == nil {
			return "dynamic call " + c.Of(x)
		}
		switch f.String() {
		case core.ExpandKey(domutilPkg) + ".InnerText":
			a := c.Of(x.Call.Args[0])
			if rxTitleSource.MatchString(a) {
				return ""
			}
			return "text of " + a
		case "strings.TrimSpace", "strings.Fields", "strings.ToValidUTF8", "strings.TrimPrefix", "strings.TrimSuffix", "strings.Trim", "strings.TrimLeft", "strings.TrimRight":
			return titleProvenance(p, x.Call.Args[0], seen)
		case "strings.Join":
			if s, ok := core.ConstString(x.Call.Args[1]); !ok || strings.TrimSpace(s) != "" {
				return "join with " + c.Of(x.Call.Args[1])
			}
			return titleProvenance(p, x.Call.Args[0], seen)
		case "(*regexp.Regexp).ReplaceAllString":
			if s, ok := core.ConstString(x.Call.Args[2]); !ok || (s != "$1" && s != "") {
				return "replacement " + c.Of(x.Call.Args[2])
			}
			return titleProvenance(p, x.Call.Args[1], seen)
		}
		return "call " + f.String()
	}
	return fmt.Sprintf("%T %s", v, c.Of(v))
}

// C15: title comes from the page, is never invented, and is not repeated in content.
func C15(p *core.Program, r *core.Report) {
	r.Explanation = "A1 (candidate order): ensureTitleInitialized appends the markup title (when non-empty) before the document-title heuristic on every path and ExtractTitle returns element 0; Apply stores exactly that as Result.Title. A2 (provenance): every value returned by getDocumentTitle is built from InnerText(<title>) / InnerText(<h1>) by slicing, TrimSpace, Fields+Join(\" \") and ReplaceAllString(_, \"$1\") only - no concatenation with non-blank literals, no other text source; the length gate is counted in characters (RuneCountInString) with the bounds 15 and 150. A3 (the title is its own candidate): processPotentialTitle inserts the normalised title it looked up, on every path that gets past the early returns, and the block side (Process) normalises with the same chain of operations, so a block equal to the title can match. A4 (suppression): a matching block gets label Title, ApplyToModel copies it to the block's Text elements and Text.GenerateOutput returns \"\" before anything else when the label is present. A1 also: a page that opted out gets no markup title. A2 also: domutil.InnerText changes nothing but whitespace (collapse, blanks before punctuation, line-break markers): its result is the reviewed chain over the collected text. A3 also: every text block is compared with the potential titles (no iteration of the title filter ends before the whole-text lookup). A5: MarkupInfo.Title is the unchanged answer of Parser.Title(), the very call Result.Title is taken from."
	r.NotCovered = "the separator heuristics themselves (which part of a long <title> is chosen), the word counter, titles repeated with different punctuation beyond the two documented lookups."

	c := core.NewCanon(p)
	// ---- A1 / A2: ExtractTitle with its helpers expanded
	cand := "$0.‹[]string›" // the extractor's candidate title list
	mt := `markup.Parser.Title($0.Parser)`
	title := `μ(""|domutil.InnerText(dom.QuerySelector($0.‹*html.Node›,"title")))`
	if ex := mustInl(p, r, "A1", "(*"+extractorPkg+".ContentExtractor).ExtractTitle"); ex != nil {
		nDoc := 0
		paths, atoms, err := core.EnumerateDecisions(p, ex, core.DecisionOpts{
			Outcome: func(in ssa.Instruction, c *core.Canon) (string, bool) {
				if ret, ok := in.(*ssa.Return); ok {
					return "return " + c.Of(ret.Results[0]), true
				}
				return "", false
			},
			Event: func(in ssa.Instruction, c *core.Canon) (string, bool) {
				// the list may be built in a local and stored once, or stored after every append:
				// a store of a list grown from the candidate list into the candidate list commits
				// the additions made so far
				if st, ok := in.(*ssa.Store); ok && strings.TrimPrefix(c.Of(st.Addr), "&") == cand && rootsAt(c, st.Val, cand, 0) {
					return "commit", true
				}
				call, ok := in.(*ssa.Call)
				if !ok {
					return "", false
				}
				if b, ok := call.Call.Value.(*ssa.Builtin); !ok || b.Name() != "append" || !rootsAt(c, call.Call.Args[0], cand, 0) {
					return "", false
				}
				if c.Of(call.Call.Args[0]) != cand && !flowsToStoreAt(c, call, cand, map[ssa.Value]bool{}) {
					return "", false // some other local list
				}
				el := c.Of(call.Call.Args[1])
				if el == "{"+mt+"}" || el == `{μ(""|`+mt+`)}` || el == `{μ(`+mt+`|"")}` {
					// (the second form: a helper that answers "" for a page that opted out, merged
					// with the parser's title; "" is never appended, the test below sees the merge)
					return "add markup title", true
				}
				// anything else must be made of <title>/<h1> text (A2)
				if v := appendedElem(call); v != nil {
					if w := titleProvenance(p, v, map[ssa.Value]bool{}); w == "" {
						nDoc++
						return "add document title", true
					} else {
						return "add " + el + " [" + w + "]", true
					}
				}
				return "add " + el, true
			}})
		if err != nil {
			r.Undecided("A1", "ExtractTitle", err.Error())
		}
		first := "return " + cand + "[0]"
		spec := core.DecisionSpec{
			Atoms: map[string]string{"fresh": q(`len(` + cand + `) <= 0`), "no.markup.title": `^(` + regexp.QuoteMeta(mt) + `|` + regexp.QuoteMeta(`μ(""|`+mt+`)`) + `|` + regexp.QuoteMeta(`μ(`+mt+`|"")`) + `) == ""$`, "opt.out": q(`markup.Parser.OptOut($0.Parser)`)},
			Rules: []core.SpecRule{
				{Name: "already initialised: first candidate", Guard: core.Not(core.A("fresh")), Outcome: first},
				{Name: "the page opted out (MarkupInfo is empty): document title only", Guard: core.A("opt.out"), Outcome: "add document title => " + first},
				{Name: "markup title first, then the document title", Guard: core.Not(core.A("no.markup.title")), Outcome: "add markup title; add document title => " + first},
				{Name: "no markup title: document title only", Guard: core.True(), Outcome: "add document title => " + first},
			},
		}
		// after the appends the list is non-empty: the `len > 0` test of ExtractTitle is decided by
		// the same atom as `fresh`; paths that claim an empty list after an append are infeasible
		var feasible []core.DecisionPath
		for i := range paths {
			// every addition must be committed to the extractor's list before the return
			evs, out := pathEvents(paths[i]), paths[i].Outcome
			if k := strings.LastIndex(out, "=> "); k >= 0 {
				out = out[k+3:]
			}
			var adds []string
			pending := false
			for _, e := range evs {
				if e == "commit" {
					pending = false
					continue
				}
				adds = append(adds, e)
				pending = true
			}
			if pending {
				adds = append(adds, "addition never stored into the candidate list")
			}
			if len(adds) > 0 {
				out = strings.Join(adds, "; ") + " => " + out
			}
			paths[i].Outcome = out
		}
		// a helper that answers "" for a page that opted out and the parser's title otherwise gives
		// a merge μ(""|title): if (checked on the CFG) the "" arrives exactly over the opted-out
		// edge, a path that takes the page for opted out and the merge for non-empty is infeasible
		optAtom := `markup.Parser.OptOut($0.Parser)`
		mergeEmptyIffOptOut := func(atom string) bool {
			for _, in := range instrsOf(ex) {
				ph, ok := in.(*ssa.Phi)
				if !ok || len(ph.Edges) != 2 || c.Of(ph)+` == ""` != atom {
					continue
				}
				cutOut, m1 := core.CutAtoms(p, ex, regexp.MustCompile(q(optAtom)), true)
				cutIn, _ := core.CutAtoms(p, ex, regexp.MustCompile(q(optAtom)), false)
				okAll := len(m1) > 0
				for i, e := range ph.Edges {
					pred := ph.Block().Preds[i]
					if len(pred.Instrs) == 0 {
						return false
					}
					last := pred.Instrs[len(pred.Instrs)-1]
					if s, isC := core.ConstString(e); isC && s == "" {
						okAll = okAll && !core.InstrReachable(ex, cutOut, last) // only when opted out
					} else {
						okAll = okAll && !core.InstrReachable(ex, cutIn, last) // only when not opted out
					}
				}
				return okAll
			}
			return false
		}
		for _, pa := range paths {
			if strings.Contains(pa.Outcome, "add ") && pa.Outcome[strings.LastIndex(pa.Outcome, "=> ")+3:] == `return ""` {
				continue
			}
			infeasible := false
			opt := litOf(pa, optAtom)
			for _, l := range pa.Lits {
				if strings.HasPrefix(l.Atom, "μ(") && strings.HasSuffix(l.Atom, ` == ""`) && strings.Contains(l.Atom, mt) && mergeEmptyIffOptOut(l.Atom) {
					if opt == 1 && !l.Val {
						infeasible = true
					}
				}
			}
			if infeasible {
				continue
			}
			feasible = append(feasible, pa)
		}
		core.CheckDecisionList(r, "A1", "ExtractTitle", feasible, atoms, spec)
		r.Add("A2", "the second candidate is made of <title>/<h1> text only (slicing, trimming, whitespace joins)", p.Pos(ex.Pos()), nDoc > 0, fmt.Sprintf("%d append events carry a value of that provenance", nDoc))
		// A2: length gate in characters, separator tests
		checkInnerTextChain(p, r, "A2")
		r.Add("A2", "title length gate: more than 150 characters", p.Pos(ex.Pos()), atoms[`utf8.RuneCountInString(`+title+`) <= 150`], "counted with utf8.RuneCountInString on the <title> text")
		r.Add("A2", "title length gate: fewer than 15 characters", p.Pos(ex.Pos()), atoms[`utf8.RuneCountInString(`+title+`) <= 14`], "")
		sepColon := atoms[`strings.Index(`+title+`,": ") == -1`] || atoms[`strings.Contains(`+title+`,": ")`]
		r.Add("A2", "separator test on the <title> text", p.Pos(ex.Pos()), atoms[`regexp.Regexp.MatchString(`+rxTitleSep+`,`+title+`)`] && sepColon, "")
		nPlain, bad := 0, 0
		for _, pa := range feasible {
			lit := map[string]int{}
			for _, l := range pa.Lits {
				lit[l.Atom] = tern(l.Val)
			}
			noColon := lit[`strings.Index(`+title+`,": ") == -1`] == 1 || lit[`strings.Contains(`+title+`,": ")`] == -1
			if lit[`regexp.Regexp.MatchString(`+rxTitleSep+`,`+title+`)`] == -1 && noColon &&
				lit[`utf8.RuneCountInString(`+title+`) <= 150`] == 1 && lit[`utf8.RuneCountInString(`+title+`) <= 14`] == -1 {
				nPlain++
				if lit[`dom.QuerySelector($0.‹*html.Node›,"h1") == nil`] != 0 {
					bad++
				}
			}
		}
		r.Add("A2", "a <title> of 15..150 characters without separators is used without consulting <h1>", p.Pos(ex.Pos()), nPlain >= 1 && bad == 0, fmt.Sprintf("%d such decision paths, %d of them look at <h1>", nPlain, bad))
	}
	if ap := mustInl(p, r, "A1", core.ModPath+".Apply"); ap != nil {
		ok := false
		for _, in := range instrsOf(ap) {
			if st, isSt := in.(*ssa.Store); isSt && c.Of(st.Addr) == "&new(distiller.Result).Title" {
				ok = strings.HasPrefix(c.Of(st.Val), "extractor.ContentExtractor.ExtractTitle(")
			}
		}
		r.Add("A1", "Result.Title is the extractor's first candidate", p.Pos(ap.Pos()), ok, "")
	}

	// ---- A1 continued: the candidate list is handed to the article extractor while the
	// extractor still holds it: whoever receives it may read it only (a sort or an in-place
	// filter would change which title is "the first candidate")
	if ec := mustInl(p, r, "A1", "(*"+extractorPkg+".ContentExtractor).ExtractContent"); ec != nil {
		a := runPEA(p)
		n := 0
		seenRecv := map[string]bool{}
		for _, call := range core.Calls(ec, func(ci ssa.CallInstruction) bool { return ci.Common().StaticCallee() != nil }) {
			callee := call.Common().StaticCallee()
			for i, arg := range call.Common().Args {
				if c.Of(arg) != cand || i >= len(callee.Params) {
					continue
				}
				n++
				if seenRecv[core.ShortKey(callee)] {
					continue
				}
				seenRecv[core.ShortKey(callee)] = true
				var mods []string
				for f, e := range a.ParamMods(callee, i, true) {
					mods = append(mods, f+" ("+strings.Join(a.Chain(e), " > ")+")")
				}
				sort.Strings(mods)
				r.Add("A1", "the candidate list is only read by "+core.ShortKey(callee), p.Pos(call.Pos()), len(mods) == 0 && a.Analysed(callee), strings.Join(mods, "; "))
			}
		}
		r.Add("A1", "receivers of the candidate list found", p.Pos(ec.Pos()), n >= 1, fmt.Sprintf("%d calls pass the list on", n))
	}

	// ---- A3
	norm := func(leaf string) string {
		return `strings.ToLower(strings.TrimSpace(strings.ReplaceAll(strings.ReplaceAll(` + leaf + `,"\u00a0"," "),"'","")))`
	}
	if nd := mustInl(p, r, "A3", heuristicPkg+".NewDocumentTitleMatch"); nd != nil {
		set := "new(heuristic.DocumentTitleMatch).‹map[string]struct{}›"
		// the loop over the given titles
		var titlesLoop *ssa.BasicBlock
		for _, h := range loopHeaders(nd) {
			if ifi, ok := h.Instrs[len(h.Instrs)-1].(*ssa.If); ok {
				if a, _ := core.NewCanon(p).CondAtom(ifi.Cond); a == `μ((@0 + 1)|0) < len($1)` {
					titlesLoop = h
				}
			}
		}
		if titlesLoop == nil {
			r.Undecided("A3", "NewDocumentTitleMatch: loop over the given titles", "no range over the titles parameter found")
		} else {
			paths, _, err := core.EnumerateDecisions(p, nd, core.DecisionOpts{IterateAt: titlesLoop,
				Outcome: func(in ssa.Instruction, c *core.Canon) (string, bool) {
					if _, ok := in.(*ssa.Return); ok {
						return "done", true
					}
					return "", false
				},
				Event: func(in ssa.Instruction, c *core.Canon) (string, bool) {
					if mu, ok := in.(*ssa.MapUpdate); ok && c.Of(mu.Map) == set {
						return "insert " + c.Of(mu.Key), true
					}
					return "", false
				}})
			if err != nil {
				r.Undecided("A3", "NewDocumentTitleMatch", err.Error())
			}
			key := norm("elem($1)")
			nFull, bad := 0, 0
			for _, pa := range paths {
				lit := map[string]int{}
				for _, l := range pa.Lits {
					lit[l.Atom] = tern(l.Val)
				}
				if lit[key+` == ""`] == 1 || lit[`in(`+set+`,`+key+`)`] == 1 {
					continue // empty or already known title: nothing to add
				}
				nFull++
				if !strings.Contains(pa.Outcome, "insert "+key+";") && !strings.HasPrefix(pa.Outcome, "insert "+key+" =>") {
					bad++
				}
			}
			r.Add("A3", "every given title is registered whole, in normalised form", p.Pos(nd.Pos()), nFull >= 4 && bad == 0, fmt.Sprintf("%d iteration paths past the empty/known tests, %d without the insert of the looked-up key", nFull, bad))
		}
	}
	if pr := mustInl(p, r, "A3", "(*"+heuristicPkg+".DocumentTitleMatch).Process"); pr != nil {
		// first lookup key of the block side
		want := norm("*elem($1.TextBlocks).Text")
		want2 := norm("elem($1.TextBlocks).Text")
		found := false
		var keys []string
		for _, in := range instrsOf(pr) {
			if lk, ok := in.(*ssa.Lookup); ok && c.Of(lk.X) == "$0.‹map[string]struct{}›" {
				k := c.Of(lk.Index)
				keys = append(keys, k)
				if k == want || k == want2 {
					found = true
				}
			}
		}
		r.Add("A3", "blocks are normalised with the same chain as potential titles", p.Pos(pr.Pos()), found, "lookup keys: "+strings.Join(keys, " ; "))
		// a match labels the block as title: every lookup hit leads to AddLabels(Title)
		hs := loopHeaders(pr)
		okLabel := false
		if len(hs) == 1 {
			paths, _, _ := core.EnumerateDecisions(p, pr, core.DecisionOpts{IterateAt: hs[0], Outcome: noOutcome, Event: callEvent(regexp.MustCompile(`AddLabels`))})
			okLabel = len(paths) > 0
			for _, pa := range paths {
				hit := false
				for _, l := range pa.Lits {
					if strings.HasPrefix(l.Atom, "in($0.‹map[string]struct{}›,") && l.Val {
						hit = true
					}
				}
				if hit != strings.Contains(pa.Outcome, `AddLabels(elem($1.TextBlocks),{"de.l3s.boilerpipe/TITLE"})`) {
					okLabel = false
				}
			}
		}
		r.Add("A3", "a matching block is labelled Title (and only a matching one)", p.Pos(pr.Pos()), okLabel, "")
		// every block is compared: no iteration ends before the whole-text lookup is decided
		if len(hs) == 1 {
			paths, _, _ := core.EnumerateDecisions(p, pr, core.DecisionOpts{IterateAt: hs[0], Outcome: noOutcome})
			var skipped []string
			for _, pa := range paths {
				looked := false
				for _, l := range pa.Lits {
					if strings.HasPrefix(l.Atom, "in($0.‹map[string]struct{}›,") {
						looked = true
					}
				}
				if !looked && !strings.Contains(pa.Outcome, "exit") {
					skipped = append(skipped, shortVal(pa.String()))
				}
			}
			r.Add("A3", "every text block is compared with the potential titles", p.Pos(pr.Pos()), len(paths) > 0 && len(skipped) == 0,
				fmt.Sprintf("%d iteration paths, %d end without a lookup", len(paths), len(skipped)), skipped...)
		}
	}
	// the candidates given to the matcher are the extractor's candidate titles
	if ec := mustInl(p, r, "A3", "(*"+extractorPkg+".ContentExtractor).ExtractContent"); ec != nil {
		calls := core.Calls(ec, func(ci ssa.CallInstruction) bool {
			return core.IsCallTo(ci, "(*"+extractorPkg+".ArticleExtractor).Extract")
		})
		ok := len(calls) > 0
		for _, call := range calls {
			if c.Of(call.Common().Args[3]) != cand {
				ok = false
			}
		}
		r.Add("A3", "the article extractor receives the candidate titles", p.Pos(ec.Pos()), ok, fmt.Sprintf("%d Extract calls", len(calls)))
	}

	// ---- A5: Result.Title is what Parser.Title() answers (A1) and MarkupInfo.Title is what
	// Parser.MarkupInfo() stores: the two are the same string only if MarkupInfo stores the
	// Title() answer as it is
	if mi := mustInl(p, r, "A5", "(*"+markupPkg+".Parser).MarkupInfo"); mi != nil {
		n, bad := 0, []string{}
		for _, a := range allocsOfAny(mi) {
			nm := core.NamedOf(a.Type().(*types.Pointer).Elem())
			if nm == nil || nm.Obj().Name() != "MarkupInfo" {
				continue
			}
			for _, v := range fieldStores(a)["Title"] {
				n++
				call, ok := v.(*ssa.Call)
				if !ok || !core.IsCallTo(call, "(*"+markupPkg+".Parser).Title") {
					bad = append(bad, shortVal(c.Of(v)))
				}
			}
		}
		r.Add("A5", "MarkupInfo.Title is the unchanged answer of Parser.Title(), which Result.Title uses too", p.Pos(mi.Pos()), n >= 1 && len(bad) == 0, fmt.Sprintf("%d stores; other values: %v", n, bad))
	}

	// ---- A4
	_ = c
	if tg := mustInl(p, r, "A4", "(*"+webdocPkg+".Text).GenerateOutput"); tg != nil {
		cut, m := core.CutAtoms(p, tg, regexp.MustCompile(`^in\(\$0\.Labels,"de\.l3s\.boilerpipe/TITLE"\)$`), false)
		// with the "has no title label" edge removed only `return ""` remains reachable
		ok := len(m) == 1
		for _, ret := range core.Returns(tg) {
			if core.InstrReachable(tg, cut, ret) && c.Of(ret.Results[0]) != `""` {
				ok = false
			}
		}
		// and the test is the first branch
		first := ""
		for _, b := range tg.Blocks {
			if len(b.Instrs) > 0 {
				if ifi, isIf := b.Instrs[len(b.Instrs)-1].(*ssa.If); isIf {
					first, _ = c.CondAtom(ifi.Cond)
					break
				}
			}
		}
		r.Add("A4", "a Text labelled Title renders as \"\" in both views, before anything else", p.Pos(tg.Pos()), ok && first == `in($0.Labels,"de.l3s.boilerpipe/TITLE")`, "first test: "+first)
	}
	if am := mustInl(p, r, "A4", "(*"+webdocPkg+".TextBlock).ApplyToModel"); am != nil {
		hs := loopHeaders(am)
		ok := false
		if len(hs) == 1 {
			paths, _, _ := core.EnumerateDecisions(p, am, core.DecisionOpts{IterateAt: hs[0], Outcome: noOutcome, Event: callEvent(regexp.MustCompile(`AddLabel`))})
			for _, pa := range paths {
				for _, l := range pa.Lits {
					if l.Atom == `in($0.Labels,"de.l3s.boilerpipe/TITLE")` && l.Val && strings.Contains(pa.Outcome, `webdoc.Text.AddLabel(elem($0.TextElements),"de.l3s.boilerpipe/TITLE")`) {
						ok = true
					}
				}
			}
		}
		r.Add("A4", "a title block passes the Title label to its Text elements", p.Pos(am.Pos()), ok, "")
	}
}

// appendedElem: for append(s, x) with a single variadic element, the element value.
func appendedElem(c *ssa.Call) ssa.Value {
	if len(c.Call.Args) != 2 {
		return nil
	}
	sl, ok := c.Call.Args[1].(*ssa.Slice)
	if !ok {
		return nil
	}
	al, ok := sl.X.(*ssa.Alloc)
	if !ok {
		return nil
	}
	var out ssa.Value
	n := 0
	for _, ref := range *al.Referrers() {
		if ia, ok := ref.(*ssa.IndexAddr); ok {
			for _, r2 := range *ia.Referrers() {
				if st, ok := r2.(*ssa.Store); ok && st.Addr == ia {
					out = st.Val
					n++
				}
			}
		}
	}
	if n == 1 {
		return out
	}
	return nil
}

// rootsAt reports whether a slice value is the place `root` (canonical form of a load) possibly
// grown by appends and merged by phis: every leaf of the append/phi chain is a load of root.
func rootsAt(c *core.Canon, v ssa.Value, root string, depth int) bool {
	if depth > 8 {
		return false
	}
	v = core.StripConv(v)
	if c.Of(v) == root {
		return true
	}
	// a fresh empty list that ends up stored into root: on the paths where root is still empty
	// (the only ones on which the documented outcome contains additions) building the list in
	// a local and assigning it is the same as appending to root
	if emptySlice(v) {
		return true
	}
	switch x := v.(type) {
	case *ssa.Phi:
		for _, e := range x.Edges {
			if e == ssa.Value(x) {
				continue
			}
			if !rootsAt(c, e, root, depth+1) {
				return false
			}
		}
		return len(x.Edges) > 0
	case *ssa.Call:
		if b, ok := x.Call.Value.(*ssa.Builtin); ok && b.Name() == "append" {
			return rootsAt(c, x.Call.Args[0], root, depth+1)
		}
	}
	return false
}

// emptySlice: nil, []T{} or make([]T, 0, ..).
func emptySlice(v ssa.Value) bool {
	switch x := v.(type) {
	case *ssa.Const:
		_, isSlice := x.Type().Underlying().(*types.Slice)
		return isSlice && x.IsNil()
	case *ssa.Slice:
		if a, ok := x.X.(*ssa.Alloc); ok && x.Low == nil && x.High == nil {
			if pt, ok := a.Type().Underlying().(*types.Pointer); ok {
				if at, ok := pt.Elem().Underlying().(*types.Array); ok {
					return at.Len() == 0
				}
			}
		}
	case *ssa.MakeSlice:
		if k, ok := x.Len.(*ssa.Const); ok {
			n, isInt := k.Int64(), k.Value != nil
			return isInt && n == 0
		}
	}
	return false
}

// flowsToStoreAt: the list value v, possibly grown by further appends and merged by phis, is
// stored into the place `root`.
func flowsToStoreAt(c *core.Canon, v ssa.Value, root string, seen map[ssa.Value]bool) bool {
	if seen[v] {
		return false
	}
	seen[v] = true
	refs := v.Referrers()
	if refs == nil {
		return false
	}
	for _, in := range *refs {
		switch x := in.(type) {
		case *ssa.Store:
			if x.Val == v && strings.TrimPrefix(c.Of(x.Addr), "&") == root {
				return true
			}
		case *ssa.Phi:
			if flowsToStoreAt(c, x, root, seen) {
				return true
			}
		case *ssa.Call:
			if b, ok := x.Call.Value.(*ssa.Builtin); ok && b.Name() == "append" && len(x.Call.Args) > 0 && x.Call.Args[0] == v {
				if flowsToStoreAt(c, x, root, seen) {
					return true
				}
			}
		case *ssa.ChangeType, *ssa.MakeInterface:
		}
	}
	return false
}

// reviewed post-processing of domutil.InnerText: whitespace collapsed (Fields+Join), blanks in
// front of punctuation re-spaced, line-break markers turned into newlines - nothing else touches
// the characters of the text (the <title> text of A2 is this function's result).
var reInnerTextChain = regexp.MustCompile(`^regexp\.Regexp\.ReplaceAllString\(rx‹\\s\*\\\|\\\\/\\\|\\s\*›,regexp\.Regexp\.ReplaceAllString\(rx‹\\s\+\(\[\.\?!,;\]\)\\s\*\(\\S\*\)›,strings\.Join\(strings\.Fields\((?:bytes\.Buffer|strings\.Builder)\.String\([^()]*(?:\([^()]*\))?[^()]*\)\)," "\),"\$1 \$2"\),"\\n"\)$`)

func checkInnerTextChain(p *core.Program, r *core.Report, rule string) {
	it := mustInl(p, r, rule, domutilPkg+".InnerText")
	if it == nil {
		return
	}
	c := core.NewCanon(p)
	rets := core.Returns(it)
	ok := len(rets) > 0
	var got []string
	for _, ret := range rets {
		v := c.Of(ret.Results[0])
		got = append(got, v)
		if !reInnerTextChain.MatchString(v) {
			ok = false
		}
	}
	r.Add(rule, "InnerText changes nothing but whitespace (collapse, blanks before punctuation, line-break markers)", p.Pos(it.Pos()), ok, "returns: "+strings.Join(got, " | "))
}
