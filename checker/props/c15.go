package props

import (
	"fmt"
	"go/token"
	"regexp"
	"strings"

	"ddcheck/core"

	"golang.org/x/tools/go/ssa"
)

func init() { Registry["C15"] = C15 }

const heuristicPkg = "mod/internal/filter/heuristic"

// titleProvenance checks that a string value is built from the <title>/<h1> text by
// substring-preserving operations only. It returns a description of the first offending construct.
func titleProvenance(p *core.Program, v ssa.Value, seen map[ssa.Value]bool) string {
	if seen[v] {
		return ""
	}
	seen[v] = true
	c := core.NewCanon(p)
	switch x := v.(type) {
	case *ssa.Const:
		if s, ok := core.ConstString(x); ok && strings.TrimSpace(s) == "" {
			return ""
		}
		return "constant " + c.Of(x)
	case *ssa.Phi:
		for _, e := range x.Edges {
			if w := titleProvenance(p, e, seen); w != "" {
				return w
			}
		}
		return ""
	case *ssa.Slice:
		return titleProvenance(p, x.X, seen)
	case *ssa.BinOp:
		if x.Op == token.ADD {
			// concatenation: allowed only with whitespace
			for _, side := range []ssa.Value{x.X, x.Y} {
				if w := titleProvenance(p, side, seen); w != "" {
					return "concatenation with " + w
				}
			}
			return ""
		}
		return "operator " + x.Op.String()
	case *ssa.Call:
		f := x.Call.StaticCallee()
		if f == nil {
			return "dynamic call " + c.Of(x)
		}
		switch f.String() {
		case core.ExpandKey(domutilPkg) + ".InnerText":
			a := c.Of(x.Call.Args[0])
			if a == `dom.QuerySelector($0,"title")` || a == `dom.QuerySelector($0,"h1")` {
				return ""
			}
			return "text of " + a
		case "strings.TrimSpace", "strings.Fields", "strings.ToValidUTF8":
			return titleProvenance(p, x.Call.Args[0], seen)
		case "strings.Join":
			if s, ok := core.ConstString(x.Call.Args[1]); !ok || strings.TrimSpace(s) != "" {
				return "join with " + c.Of(x.Call.Args[1])
			}
			return titleProvenance(p, x.Call.Args[0], seen)
		case "(*regexp.Regexp).ReplaceAllString":
			if s, ok := core.ConstString(x.Call.Args[2]); !ok || (s != "$1" && s != "") {
				return "replacement " + c.Of(x.Call.Args[2])
			}
			return titleProvenance(p, x.Call.Args[1], seen)
		}
		return "call " + f.String()
	}
	return fmt.Sprintf("%T %s", v, c.Of(v))
}

// C15: title comes from the page, is never invented, and is not repeated in content.
func C15(p *core.Program, r *core.Report) {
	r.Explanation = "A1 (candidate order): ensureTitleInitialized appends the markup title (when non-empty) before the document-title heuristic on every path and ExtractTitle returns element 0; Apply stores exactly that as Result.Title. A2 (provenance): every value returned by getDocumentTitle is built from InnerText(<title>) / InnerText(<h1>) by slicing, TrimSpace, Fields+Join(\" \") and ReplaceAllString(_, \"$1\") only - no concatenation with non-blank literals, no other text source; the length gate is counted in characters (RuneCountInString) with the bounds 15 and 150. A3 (the title is its own candidate): processPotentialTitle inserts the normalised title it looked up, on every path that gets past the early returns, and the block side (Process) normalises with the same chain of operations, so a block equal to the title can match. A4 (suppression): a matching block gets label Title, ApplyToModel copies it to the block's Text elements and Text.GenerateOutput returns \"\" before anything else when the label is present."
	r.NotCovered = "the separator heuristics themselves (which part of a long <title> is chosen), the word counter, titles repeated with different punctuation beyond the two documented lookups."

	c := core.NewCanon(p)
	// ---- A1
	if et := mustFunc(p, r, "A1", "(*"+extractorPkg+".ContentExtractor).ensureTitleInitialized"); et != nil {
		paths, atoms, err := core.EnumerateDecisions(p, et, core.DecisionOpts{
			Outcome: func(in ssa.Instruction, c *core.Canon) (string, bool) {
				if _, ok := in.(*ssa.Return); ok {
					return "done", true
				}
				return "", false
			},
			Event: func(in ssa.Instruction, c *core.Canon) (string, bool) {
				if call, ok := in.(*ssa.Call); ok {
					if b, ok := call.Call.Value.(*ssa.Builtin); ok && b.Name() == "append" {
						return "add " + c.Of(call.Call.Args[1]), true
					}
				}
				return "", false
			}})
		if err != nil {
			r.Undecided("A1", "ensureTitleInitialized", err.Error())
		}
		mt := `markup.Parser.Title($0.Parser)`
		dt := `extractor.getDocumentTitle($0.documentElement,$0.WordCounter)`
		spec := core.DecisionSpec{
			Atoms: map[string]string{"fresh": q(`len($0.candidateTitles) <= 0`), "no.markup.title": q(mt + ` == ""`)},
			Rules: []core.SpecRule{
				{Name: "already initialised", Guard: core.Not(core.A("fresh")), Outcome: "done"},
				{Name: "markup title first, then the document title", Guard: core.Not(core.A("no.markup.title")), Outcome: "add {" + mt + "}; add {" + dt + "} => done"},
				{Name: "no markup title: document title only", Guard: core.True(), Outcome: "add {" + dt + "} => done"},
			},
		}
		core.CheckDecisionList(r, "A1", "ensureTitleInitialized", paths, atoms, spec)
	}
	if ex := mustFunc(p, r, "A1", "(*"+extractorPkg+".ContentExtractor).ExtractTitle"); ex != nil {
		okAll := true
		var rs []string
		for _, ret := range core.Returns(ex) {
			s := c.Of(ret.Results[0])
			rs = append(rs, s)
			if s != `""` && s != "elem($0.candidateTitles)" {
				okAll = false
			}
		}
		// index 0
		for _, b := range ex.Blocks {
			for _, in := range b.Instrs {
				if ia, ok := in.(*ssa.IndexAddr); ok {
					if i, isC := core.ConstInt(ia.Index); !isC || i != 0 {
						okAll = false
					}
				}
			}
		}
		r.Add("A1", "ExtractTitle returns the first candidate (or \"\")", p.Pos(ex.Pos()), okAll && len(rs) == 2, strings.Join(rs, " | "))
	}
	if ap := mustFunc(p, r, "A1", core.ModPath+".Apply"); ap != nil {
		ok := false
		for _, b := range ap.Blocks {
			for _, in := range b.Instrs {
				if st, isSt := in.(*ssa.Store); isSt && c.Of(st.Addr) == "&new(distiller.Result).Title" {
					ok = strings.HasPrefix(c.Of(st.Val), "extractor.ContentExtractor.ExtractTitle(")
				}
			}
		}
		r.Add("A1", "Result.Title is the extractor's first candidate", p.Pos(ap.Pos()), ok, "")
	}

	// ---- A2
	if gt := mustFunc(p, r, "A2", extractorPkg+".getDocumentTitle"); gt != nil {
		for i, ret := range core.Returns(gt) {
			w := titleProvenance(p, ret.Results[0], map[ssa.Value]bool{})
			r.Add("A2", fmt.Sprintf("getDocumentTitle return #%d is made of <title>/<h1> text only", i+1), p.Pos(ret.Pos()), w == "", "offending construct: "+w)
		}
		// length gate in characters
		atoms := map[string]bool{}
		cc := core.NewCanon(p)
		for _, b := range gt.Blocks {
			if len(b.Instrs) == 0 {
				continue
			}
			if ifi, ok := b.Instrs[len(b.Instrs)-1].(*ssa.If); ok {
				a, _ := cc.CondAtom(ifi.Cond)
				atoms[a] = true
			}
		}
		title := `μ(""|domutil.InnerText(dom.QuerySelector($0,"title")))`
		r.Add("A2", "title length gate: more than 150 characters", p.Pos(gt.Pos()), atoms[`utf8.RuneCountInString(`+title+`) <= 150`], "counted with utf8.RuneCountInString on the <title> text")
		r.Add("A2", "title length gate: fewer than 15 characters", p.Pos(gt.Pos()), atoms[`utf8.RuneCountInString(`+title+`) <= 14`], "")
		r.Add("A2", "separator test on the <title> text", p.Pos(gt.Pos()), atoms[`regexp.Regexp.MatchString(extractor.rxTitleSeparator,`+title+`)`] && atoms[`strings.Index(`+title+`,": ") == -1`], "")
		// on the "plain title of acceptable length" paths the h1 is not consulted
		paths, _, _ := core.EnumerateDecisions(p, gt, core.DecisionOpts{Outcome: func(in ssa.Instruction, c *core.Canon) (string, bool) {
			if ret, ok := in.(*ssa.Return); ok {
				return "return " + c.Of(ret.Results[0]), true
			}
			return "", false
		}})
		nPlain, bad := 0, 0
		for _, pa := range paths {
			lit := map[string]int{}
			for _, l := range pa.Lits {
				lit[l.Atom] = tern(l.Val)
			}
			if lit[`regexp.Regexp.MatchString(extractor.rxTitleSeparator,`+title+`)`] == -1 && lit[`strings.Index(`+title+`,": ") == -1`] == 1 &&
				lit[`utf8.RuneCountInString(`+title+`) <= 150`] == 1 && lit[`utf8.RuneCountInString(`+title+`) <= 14`] == -1 {
				nPlain++
				if lit[`dom.QuerySelector($0,"h1") == nil`] != 0 || strings.Contains(pa.Outcome, `"h1"`) && !strings.Contains(pa.Outcome, "μ(") {
					bad++
				}
			}
		}
		r.Add("A2", "a <title> of 15..150 characters without separators is used without consulting <h1>", p.Pos(gt.Pos()), nPlain >= 1 && bad == 0, fmt.Sprintf("%d such decision paths, %d of them look at <h1>", nPlain, bad))
	}
	lits := regexpLiterals(p, "internal/extractor")
	r.Add("A2", "separator pattern is the reviewed one", "", lits["rxTitleSeparator"] == `(?i) [\|\-\\/>»] `, fmt.Sprintf("%q", lits["rxTitleSeparator"]))

	// ---- A3
	norm := func(leaf string) string {
		return `strings.ToLower(strings.TrimSpace(strings.ReplaceAll(strings.ReplaceAll(` + leaf + `,"\u00a0"," "),"'","")))`
	}
	if pp := mustFunc(p, r, "A3", "(*"+heuristicPkg+".DocumentTitleMatch).processPotentialTitle"); pp != nil {
		paths, _, err := core.EnumerateDecisions(p, pp, core.DecisionOpts{
			Outcome: func(in ssa.Instruction, c *core.Canon) (string, bool) {
				if _, ok := in.(*ssa.Return); ok {
					return "done", true
				}
				return "", false
			},
			Event: func(in ssa.Instruction, c *core.Canon) (string, bool) {
				if mu, ok := in.(*ssa.MapUpdate); ok && c.Of(mu.Map) == "$0.potentialTitles" {
					return "insert " + c.Of(mu.Key), true
				}
				return "", false
			}})
		if err != nil {
			r.Undecided("A3", "processPotentialTitle", err.Error())
		}
		key := norm("$1")
		nFull, bad := 0, 0
		for _, pa := range paths {
			lit := map[string]int{}
			for _, l := range pa.Lits {
				lit[l.Atom] = tern(l.Val)
			}
			if lit[key+` == ""`] == 1 || lit[`in($0.potentialTitles,`+key+`)`] == 1 {
				continue // early returns
			}
			nFull++
			if !strings.Contains(pa.Outcome, "insert "+key+";") && !strings.HasPrefix(pa.Outcome, "insert "+key+" =>") {
				bad++
			}
		}
		r.Add("A3", "processPotentialTitle registers the whole normalised title it looked up", p.Pos(pp.Pos()), nFull >= 4 && bad == 0, fmt.Sprintf("%d paths past the early returns, %d without the insert of the looked-up key", nFull, bad))
	}
	if pr := mustFunc(p, r, "A3", "(*"+heuristicPkg+".DocumentTitleMatch).Process"); pr != nil {
		// first lookup key of the block side
		want := norm("*elem($1.TextBlocks).Text")
		want2 := norm("elem($1.TextBlocks).Text")
		found := false
		var keys []string
		for _, b := range pr.Blocks {
			for _, in := range b.Instrs {
				if lk, ok := in.(*ssa.Lookup); ok && c.Of(lk.X) == "$0.potentialTitles" {
					k := c.Of(lk.Index)
					keys = append(keys, k)
					if k == want || k == want2 {
						found = true
					}
				}
			}
		}
		r.Add("A3", "blocks are normalised with the same chain as potential titles", p.Pos(pr.Pos()), found, "lookup keys: "+strings.Join(keys, " ; "))
		// a match labels the block as title
		n := len(core.Calls(pr, func(ci ssa.CallInstruction) bool { return core.IsCallTo(ci, "(*"+webdocPkg+".TextBlock).AddLabels") }))
		r.Add("A3", "a matching block is labelled Title", p.Pos(pr.Pos()), n == 2, fmt.Sprintf("%d AddLabels calls", n))
	}
	// the candidates given to the matcher are the extractor's candidate titles
	if pd := mustFunc(p, r, "A3", "(*"+extractorPkg+".ContentExtractor).processDocument"); pd != nil {
		ok := false
		for _, call := range core.Calls(pd, func(ci ssa.CallInstruction) bool { return core.IsCallTo(ci, "(*"+extractorPkg+".ArticleExtractor).Extract") }) {
			ok = c.Of(call.Common().Args[3]) == "$0.candidateTitles"
		}
		r.Add("A3", "the article extractor receives the candidate titles", p.Pos(pd.Pos()), ok, "")
	}

	// ---- A4
	if tg := mustFunc(p, r, "A4", "(*"+webdocPkg+".Text).GenerateOutput"); tg != nil {
		cut, m := core.CutAtoms(p, tg, regexp.MustCompile(`^in\(\$0\.Labels,"de\.l3s\.boilerpipe/TITLE"\)$`), false)
		// with the "has no title label" edge removed only `return ""` remains reachable
		ok := len(m) == 1
		for _, ret := range core.Returns(tg) {
			if core.InstrReachable(tg, cut, ret) && c.Of(ret.Results[0]) != `""` {
				ok = false
			}
		}
		// and the test is the first branch
		first := ""
		for _, b := range tg.Blocks {
			if len(b.Instrs) > 0 {
				if ifi, isIf := b.Instrs[len(b.Instrs)-1].(*ssa.If); isIf {
					first, _ = c.CondAtom(ifi.Cond)
					break
				}
			}
		}
		r.Add("A4", "a Text labelled Title renders as \"\" in both views, before anything else", p.Pos(tg.Pos()), ok && first == `in($0.Labels,"de.l3s.boilerpipe/TITLE")`, "first test: "+first)
	}
	if am := mustFunc(p, r, "A4", "(*"+webdocPkg+".TextBlock).ApplyToModel"); am != nil {
		hs := loopHeaders(am)
		ok := false
		if len(hs) == 1 {
			paths, _, _ := core.EnumerateDecisions(p, am, core.DecisionOpts{IterateAt: hs[0], Outcome: noOutcome, Event: callEvent(regexp.MustCompile(`AddLabel`))})
			for _, pa := range paths {
				for _, l := range pa.Lits {
					if l.Atom == `in($0.Labels,"de.l3s.boilerpipe/TITLE")` && l.Val && strings.Contains(pa.Outcome, `webdoc.Text.AddLabel(elem($0.TextElements),"de.l3s.boilerpipe/TITLE")`) {
						ok = true
					}
				}
			}
		}
		r.Add("A4", "a title block passes the Title label to its Text elements", p.Pos(am.Pos()), ok, "")
	}
}
