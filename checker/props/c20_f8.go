package props

import (
	"fmt"
	"regexp"
	"strings"

	"ddcheck/core"

	"golang.org/x/tools/go/ssa"
)

// checkPrunedIsDeleted (C20-F8): "the result is then identical to that of the same page with those
// subtrees deleted". Skipping an unlikely element when the walk reaches it is not the same as
// deleting it: what the visitor decides for an ANCESTOR from its whole subtree (is it without
// content, is it a byline, is its table a data table, the caption of its figure) is decided before
// the walk reaches the descendant. Required, in Convert with helpers expanded: a loop over ALL
// elements of the clone (`GetElementsByTagName(clone, "*")`) that (1) is executed only when
// SkipUnlikelies is set and on every path to the walk when it is set, and (2) whose iteration is
// the decision list: no parent -> left; role in the unlikely-role table -> removed; class/id
// matches the unlikely pattern, not the ok-maybe pattern, not below a table, not body, not a ->
// removed; anything else -> left. The patterns and the table are those F3 pins for the visitor.
func checkPrunedIsDeleted(p *core.Program, r *core.Report) {
	conv := mustInl(p, r, "F8", "(*"+converterPkg+".DomConverter).Convert")
	if conv == nil {
		return
	}
	c := core.NewCanon(p)
	clone := "dom.Clone($1,true)"
	E := `elem(dom.GetElementsByTagName(` + clone + `,"*"))`
	key := "a pruned subtree is deleted before the walk (ancestors decide without it)"
	var all ssa.CallInstruction
	for _, call := range core.Calls(conv, func(ci ssa.CallInstruction) bool {
		return core.IsCallTo(ci, "github.com/go-shiori/dom.GetElementsByTagName")
	}) {
		if c.Of(call.Common().Args[0]) == clone && c.Of(call.Common().Args[1]) == `"*"` {
			all = call
		}
	}
	walks := core.Calls(conv, func(ci ssa.CallInstruction) bool { return core.IsCallTo(ci, domutilPkg+".WalkNodes") })
	if all == nil || len(walks) != 1 {
		r.Add("F8", key, p.Pos(conv.Pos()), false, "Convert has no pass over all elements of its clone before the walk: an unlikely subtree is only skipped when the walk reaches it, and whole-subtree tests of its ancestors (isElementWithoutContent, isByline, the table classifier, figure captions) still see it")
		return
	}
	reFlag := regexp.MustCompile(`^\(\$0\.‹converter\.ConverterFlag› & converter\.SkipUnlikelies\) == converter\.Default$`)
	cutSet, m1 := core.CutAtoms(p, conv, reFlag, false) // the edges taken when the flag is set
	cutClear, _ := core.CutAtoms(p, conv, reFlag, true) // the edges taken when it is clear
	onlyWhenSet := len(m1) >= 1 && !core.InstrReachable(conv, cutSet, all.(ssa.Instruction))
	always, _ := core.MustPassThrough(conv, walks[0].(ssa.Instruction), func(x ssa.Instruction) bool { return x == all.(ssa.Instruction) }, cutClear)
	r.Add("F8", "the pruning pass runs exactly when SkipUnlikelies is set", p.Pos(all.Pos()), onlyWhenSet && always,
		fmt.Sprintf("reachable only with the flag set: %v; on every path to the walk when it is set: %v", onlyWhenSet, always))

	// the iteration
	nd := `((dom.ClassName(` + E + `) + " ") + dom.ID(` + E + `))`
	hs := loopHeaders(conv)
	for i := len(hs) - 1; i >= 0; i-- {
		paths, atoms, err := core.EnumerateDecisions(p, conv, core.DecisionOpts{IterateAt: hs[i], ExitOutcome: "exit",
			Outcome: noOutcome,
			Event: func(in ssa.Instruction, cc *core.Canon) (string, bool) {
				ci, ok := in.(ssa.CallInstruction)
				if !ok {
					return "", false
				}
				args := ci.Common().Args
				switch {
				case core.IsCallTo(in, "(*golang.org/x/net/html.Node).RemoveChild") && len(args) == 2:
					return "remove " + cc.Of(args[1]), true
				case core.IsCallTo(in, "github.com/go-shiori/dom.DetachChild", "github.com/go-shiori/dom.RemoveNodes") && len(args) >= 1:
					return "remove " + cc.Of(args[0]), true
				}
				return "", false
			}})
		if err != nil {
			continue
		}
		has := false
		for a := range atoms {
			if a == `regexp.Regexp.MatchString(`+rxUnlikely+`,`+nd+`)` {
				has = true
			}
		}
		if !has {
			continue
		}
		var body []core.DecisionPath
		for _, pa := range paths {
			if !strings.HasSuffix(pa.Outcome, "exit") {
				body = append(body, pa)
			}
		}
		spec := core.DecisionSpec{
			Atoms: map[string]string{
				"no.parent":   q(E + `.Parent == nil`),
				"role":        q(`in(` + unlikelyRoleSet + `,dom.GetAttribute(` + E + `,"role"))`),
				"unlikely":    q(`regexp.Regexp.MatchString(` + rxUnlikely + `,` + nd + `)`),
				"ok.maybe":    q(`regexp.Regexp.MatchString(` + rxOkMaybe + `,` + nd + `)`),
				"below.table": q(`domutil.HasAncestor(` + E + `,{"table"})`),
				"body":        q(`dom.TagName(` + E + `) == "body"`),
				"a":           q(`dom.TagName(` + E + `) == "a"`),
			},
			Rules: []core.SpecRule{
				{Name: "detached already", Guard: core.A("no.parent"), Outcome: "next()"},
				{Name: "unlikely role", Guard: core.A("role"), Outcome: "remove " + E + " => next()"},
				{Name: "unlikely class/id", Guard: core.And(core.A("unlikely"), core.Not(core.A("ok.maybe")), core.Not(core.A("below.table")), core.Not(core.A("body")), core.Not(core.A("a"))), Outcome: "remove " + E + " => next()"},
				{Name: "anything else stays", Guard: core.True(), Outcome: "next()"},
			},
		}
		core.CheckDecisionList(r, "F8", "pruning pass", body, atoms, spec)
		r.Add("F8", key, p.Pos(all.Pos()), true, fmt.Sprintf("%d iteration paths compared with the documented list", len(body)))
		return
	}
	r.Add("F8", key, p.Pos(all.Pos()), false, "no loop over the elements of the clone tests the unlikely pattern")
}
