// Package props holds one file per property; each registers its rule set.
package props

import "ddcheck/core"

// PropFunc evaluates all rules of one property and records obligations in the report.
type PropFunc func(p *core.Program, r *core.Report)

// Registry maps property ids to their rule sets.
var Registry = map[string]PropFunc{}
