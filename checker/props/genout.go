package props

import (
	"fmt"
	"go/types"
	"regexp"
	"sort"
	"strings"

	"ddcheck/core"

	"golang.org/x/tools/go/ssa"
)

const (
	stripKey   = "mod/internal/domutil.StripAttributes"
	webdocPkg  = "mod/internal/webdoc"
	domutilPkg = "mod/internal/domutil"
)

// outReturn is one return of an Element.GenerateOutput implementation.
type outReturn struct {
	fn         *ssa.Function
	typ        string
	ret        *ssa.Return
	value      string    // canonical return value
	serializer string    // dom.OuterHTML | dom.InnerHTML | domutil.InnerText | "" (constant / concatenation)
	root       ssa.Value // argument of the serializer
	textOnly   int       // 1: only reachable when textOnly is true, -1: only when false, 0: both
	trimmed    bool      // the serializer cuts white space off both ends of what it returns
}

// innerSerializerKind recognises, by shape, a function that renders the children of its node
// parameter one after the other and returns the concatenation (go-shiori/dom.InnerHTML and any
// function of the module written like it): one forward sibling loop starting at FirstChild of the
// first parameter, in which the cursor is rendered (html.Render / dom.OuterHTML) into a buffer,
// and returns of that buffer's String() - "inner" - or of strings.TrimSpace of it - "inner-trimmed".
func innerSerializerKind(f *ssa.Function) string {
	if f == nil || len(f.Blocks) == 0 || len(f.Params) != 1 || f.Signature.Results().Len() != 1 {
		return ""
	}
	if !strings.HasSuffix(f.Params[0].Type().String(), "html.Node") || f.Signature.Results().At(0).Type().String() != "string" {
		return ""
	}
	loops := findSiblingLoops(f)
	if len(loops) != 1 || loops[0].field != "NextSibling" {
		return ""
	}
	rendered := false
	for _, in := range instrsOf(f) {
		if call, ok := in.(ssa.CallInstruction); ok && core.IsCallTo(call, "golang.org/x/net/html.Render", "github.com/go-shiori/dom.OuterHTML") {
			for _, a := range call.Common().Args {
				if a == ssa.Value(loops[0].phi) {
					rendered = true
				}
			}
		}
	}
	if !rendered {
		return ""
	}
	kind := ""
	for _, ret := range core.Returns(f) {
		v := ret.Results[0]
		if s, ok := core.ConstString(v); ok && s == "" {
			continue
		}
		call, ok := v.(*ssa.Call)
		if !ok || call.Call.StaticCallee() == nil {
			return ""
		}
		switch call.Call.StaticCallee().String() {
		case "strings.TrimSpace":
			kind = "inner-trimmed"
		case "(*bytes.Buffer).String", "(*strings.Builder).String":
			if kind == "" {
				kind = "inner"
			}
		default:
			return ""
		}
	}
	return kind
}

// outputFuncs lists the GenerateOutput methods of package webdoc (implementations of Element).
func outputFuncs(p *core.Program) []*ssa.Function {
	var out []*ssa.Function
	for _, fn := range p.ModFunctions(false) {
		if fn.Name() == "GenerateOutput" && fn.Signature.Recv() != nil && core.FnPkgPath(fn) == core.ExpandKey(webdocPkg) {
			if n := core.NamedOf(fn.Signature.Recv().Type()); n != nil && n.Obj().Name() != "Document" {
				out = append(out, p.Inlined(fn)) // unexported helpers expanded
			}
		}
	}
	sort.Slice(out, func(i, j int) bool { return out[i].String() < out[j].String() })
	return out
}

var reTextOnlyParam = regexp.MustCompile(`^\$1$`)

func outputReturns(p *core.Program, fn *ssa.Function) []outReturn {
	c := core.NewCanon(p)
	cutT, _ := core.CutAtoms(p, fn, reTextOnlyParam, true)  // remove textOnly==true edges
	cutF, _ := core.CutAtoms(p, fn, reTextOnlyParam, false) // remove textOnly==false edges
	typ := core.NamedOf(fn.Signature.Recv().Type()).Obj().Name()
	var out []outReturn
	for _, ret := range core.Returns(fn) {
		o := outReturn{fn: fn, typ: typ, ret: ret, value: c.Of(ret.Results[0])}
		if call, ok := ret.Results[0].(*ssa.Call); ok {
			if f := call.Call.StaticCallee(); f != nil {
				switch f.String() {
				case "github.com/go-shiori/dom.OuterHTML", core.ExpandKey(domutilPkg) + ".InnerText":
					o.serializer = strings.Replace(strings.Replace(f.String(), "github.com/go-shiori/", "", 1), core.ModPath+"/internal/", "", 1)
					o.root = call.Call.Args[0]
				default:
					// inner renderings are recognised by shape (dom.InnerHTML, or a function written like it)
					if k := innerSerializerKind(f); k != "" {
						o.serializer = "dom.InnerHTML"
						o.root = call.Call.Args[0]
						o.trimmed = k == "inner-trimmed"
					}
				}
			}
		}
		withT := core.InstrReachable(fn, cutF, ret) // reachable with textOnly == true
		withF := core.InstrReachable(fn, cutT, ret)
		switch {
		case withT && !withF:
			o.textOnly = 1
		case withF && !withT:
			o.textOnly = -1
		}
		out = append(out, o)
	}
	return out
}

func isCallToWithArg0(in ssa.Instruction, key string, v ssa.Value) bool {
	c, ok := in.(ssa.CallInstruction)
	if !ok || !core.IsCallTo(c, key) {
		return false
	}
	return len(c.Common().Args) > 0 && c.Common().Args[0] == v
}

// nodeProcessors computes the module functions returning *html.Node whose every result has been
// passed (as the very same value) to the function `procKey` before being returned - directly or
// through another such function / a field only written from such functions.
func nodeProcessors(p *core.Program, procKeys ...string) map[*ssa.Function]bool {
	res := map[*ssa.Function]bool{}
	fieldOK := func(v ssa.Value) bool { return false }
	isProcessed := func(fn *ssa.Function, ret *ssa.Return, v ssa.Value) bool {
		if core.IsNilConst(v) {
			return true
		}
		if call, ok := v.(*ssa.Call); ok {
			if f := call.Call.StaticCallee(); f != nil && res[f] {
				return true
			}
		}
		if fieldOK(v) {
			return true
		}
		for _, k := range procKeys {
			ok, _ := core.MustPassThrough(fn, ret, func(in ssa.Instruction) bool { return isCallToWithArg0(in, k, v) }, nil)
			if !ok {
				return false
			}
		}
		return true
	}
	fieldOK = func(v ssa.Value) bool {
		ld, ok := v.(*ssa.UnOp)
		if !ok {
			return false
		}
		fa, ok := ld.X.(*ssa.FieldAddr)
		if !ok {
			return false
		}
		return fieldWritersAll(p, fa, func(fn *ssa.Function, val ssa.Value) bool {
			if core.IsNilConst(val) {
				return true
			}
			if call, ok := val.(*ssa.Call); ok {
				if f := call.Call.StaticCallee(); f != nil && res[f] {
					return true
				}
			}
			return false
		})
	}
	var cands []*ssa.Function
	for _, fn := range p.ModFunctions(false) {
		if fn.Signature.Results().Len() == 1 && strings.HasSuffix(fn.Signature.Results().At(0).Type().String(), "html.Node") {
			cands = append(cands, fn)
		}
	}
	for changed := true; changed; {
		changed = false
		for _, fn := range cands {
			if res[fn] {
				continue
			}
			all := true
			for _, ret := range core.Returns(fn) {
				if !isProcessed(fn, ret, ret.Results[0]) {
					all = false
				}
			}
			// the processing may sit in an unexported helper that returns nothing (the tail of
			// two clone-and-process functions shared): look at the expanded body as well
			if !all {
				if ifn := p.Inlined(fn); ifn != nil && ifn != fn && len(core.Returns(ifn)) > 0 {
					all = true
					for _, ret := range core.Returns(ifn) {
						if !isProcessed(ifn, ret, ret.Results[0]) {
							all = false
						}
					}
				}
			}
			if all && len(core.Returns(fn)) > 0 {
				res[fn] = true
				changed = true
			}
		}
	}
	return res
}

// fieldWritersAll checks all stores (in the module) into the struct field addressed by fa.
func fieldWritersAll(p *core.Program, fa *ssa.FieldAddr, ok func(fn *ssa.Function, val ssa.Value) bool) bool {
	st := derefT(fa.X.Type())
	n := 0
	for _, fn := range p.ModFunctions(false) {
		for _, b := range fn.Blocks {
			for _, in := range b.Instrs {
				s, isStore := in.(*ssa.Store)
				if !isStore {
					continue
				}
				fa2, isFA := s.Addr.(*ssa.FieldAddr)
				if !isFA || fa2.Field != fa.Field || !types.Identical(derefT(fa2.X.Type()), st) {
					continue
				}
				n++
				if !ok(fn, s.Val) {
					return false
				}
			}
		}
	}
	return n > 0
}

var treeAdders = []string{
	"github.com/go-shiori/dom.AppendChild", "github.com/go-shiori/dom.PrependChild", "github.com/go-shiori/dom.SetAttribute",
	"github.com/go-shiori/dom.SetInnerHTML", "github.com/go-shiori/dom.ReplaceChild", "github.com/go-shiori/dom.SetTextContent",
	"(*golang.org/x/net/html.Node).AppendChild", "(*golang.org/x/net/html.Node).InsertBefore",
}

// processedBeforeReturn: root has been handed to all procKeys on every path to ret and nothing
// is added to it afterwards; or it comes from a processing function / processed field; or it is
// a wrapper created here whose children are all processed.
func processedBeforeReturn(p *core.Program, fn *ssa.Function, at ssa.Instruction, root ssa.Value, procs map[*ssa.Function]bool, allowedWrapperAttrs map[string]bool, procKeys ...string) (bool, string) {
	c := core.NewCanon(p)
	if core.IsNilConst(root) {
		return true, "nil"
	}
	// a merge (the answer of an expanded helper that returns the clone or nil): every alternative
	// must be processed
	if ph, ok := root.(*ssa.Phi); ok && len(ph.Edges) > 0 && len(ph.Edges) <= 6 {
		all := true
		for _, e := range ph.Edges {
			if e == root {
				all = false
				break
			}
			if ok2, _ := processedBeforeReturn(p, fn, at, e, procs, nil, procKeys...); !ok2 {
				all = false
				break
			}
		}
		if all {
			return true, "every alternative of the merge is processed"
		}
	}
	if call, ok := root.(*ssa.Call); ok {
		if f := call.Call.StaticCallee(); f != nil && procs[f] {
			// ... and this function gives it nothing back afterwards: no attribute set on, nothing
			// attached to the processed tree (removals are fine)
			for _, in := range instrsOf(fn) {
				ci, isCall := in.(ssa.CallInstruction)
				if !isCall || len(ci.Common().Args) == 0 || ci.Common().Args[0] != root {
					continue
				}
				if core.IsCallTo(ci, "github.com/go-shiori/dom.SetAttribute") || core.IsCallTo(ci, treeAdders...) {
					return false, fmt.Sprintf("%s at %s modifies the tree after %s processed it", core.CalleeKey(ci), p.Pos(in.Pos()), core.ShortKey(f))
				}
			}
			return true, "result of " + core.ShortKey(f) + " (processes everything it returns)"
		}
	}
	if ld, ok := root.(*ssa.UnOp); ok {
		if fa, ok := ld.X.(*ssa.FieldAddr); ok {
			okAll := fieldWritersAll(p, fa, func(f2 *ssa.Function, val ssa.Value) bool {
				if core.IsNilConst(val) {
					return true
				}
				if call, ok := val.(*ssa.Call); ok {
					if f := call.Call.StaticCallee(); f != nil && procs[f] {
						return true
					}
				}
				return false
			})
			if okAll {
				return true, "field " + c.Of(ld) + " is only written with processed clones"
			}
		}
	}
	direct := true
	for _, k := range procKeys {
		ok, _ := core.MustPassThrough(fn, at, func(in ssa.Instruction) bool { return isCallToWithArg0(in, k, root) }, nil)
		if !ok {
			direct = false
		}
	}
	if direct {
		// nothing may be added after the last processing call
		for _, b := range fn.Blocks {
			for _, in := range b.Instrs {
				call, ok := in.(ssa.CallInstruction)
				if !ok || !core.IsCallTo(call, treeAdders...) || len(call.Common().Args) == 0 || call.Common().Args[0] != root {
					continue
				}
				for _, k := range procKeys {
					if !core.MustPassBetween(fn, in, at, func(x ssa.Instruction) bool { return isCallToWithArg0(x, k, root) }) {
						return false, fmt.Sprintf("%s at %s modifies the tree after it was processed by %s", core.CalleeKey(call), p.Pos(in.Pos()), k[strings.LastIndex(k, ".")+1:])
					}
				}
			}
		}
		return true, "processed in place on every path"
	}
	// wrapper created here
	if call, ok := root.(*ssa.Call); ok && core.IsCallTo(call, "github.com/go-shiori/dom.CreateElement") && allowedWrapperAttrs != nil {
		for _, b := range fn.Blocks {
			for _, in := range b.Instrs {
				ci, ok := in.(ssa.CallInstruction)
				if !ok || len(ci.Common().Args) == 0 || ci.Common().Args[0] != root {
					continue
				}
				switch {
				case core.IsCallTo(ci, "github.com/go-shiori/dom.SetAttribute"):
					k, isC := core.ConstString(ci.Common().Args[1])
					if !isC || !allowedWrapperAttrs[k] {
						return false, "wrapper attribute " + c.Of(ci.Common().Args[1]) + " is not one of the placeholder markers"
					}
				case core.IsCallTo(ci, "github.com/go-shiori/dom.AppendChild", "github.com/go-shiori/dom.PrependChild"):
					child := ci.Common().Args[1]
					ok2, why := processedBeforeReturn(p, fn, in, child, procs, nil, procKeys...)
					if !ok2 {
						return false, "child " + c.Of(child) + " appended to the wrapper is not processed: " + why
					}
				}
			}
		}
		return true, "wrapper created by the distiller; every child is processed before it is appended"
	}
	return false, "value " + c.Of(root) + " is serialised without being processed on every path"
}
