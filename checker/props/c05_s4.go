package props

import (
	"fmt"
	"go/ast"
	"go/token"
	"regexp"
	"sort"
	"strconv"
	"strings"

	"ddcheck/core"

	"golang.org/x/tools/go/ssa"
)

// serializerLiteralNames reads, from the source of the x/net/html version the module is built
// with, the element names whose text children the serializer writes without escaping: the case
// clause that lists "xmp" in render.go.
func serializerLiteralNames(p *core.Program) (names []string, pos string) {
	pkg := p.AllPkgs["golang.org/x/net/html"]
	if pkg == nil {
		return nil, ""
	}
	for _, f := range pkg.Syntax {
		ast.Inspect(f, func(n ast.Node) bool {
			cc, ok := n.(*ast.CaseClause)
			if !ok || names != nil {
				return true
			}
			var lits []string
			hasXmp := false
			for _, e := range cc.List {
				bl, ok := e.(*ast.BasicLit)
				if !ok || bl.Kind != token.STRING {
					return true
				}
				s, err := strconv.Unquote(bl.Value)
				if err != nil {
					return true
				}
				lits = append(lits, s)
				hasXmp = hasXmp || s == "xmp"
			}
			if hasXmp && strings.HasSuffix(p.Fset.Position(cc.Pos()).Filename, "render.go") {
				names = lits
				pos = p.Pos(cc.Pos())
			}
			return true
		})
	}
	sort.Strings(names)
	return names, pos
}

// checkLiteralTextRoundTrip (C05-S4). Apply parses the joined renderings again. The serializer
// writes the text of some elements as it is (by NAME only), the parser reads it back verbatim only
// where those are HTML elements; inside <svg>/<math> they are ordinary elements whose text is
// whatever the page escaped there, and every clone has lost the namespace. Required: before the
// converter walks its clone, a pass over that same clone visits the elements of every such name
// and takes each one that has an <svg> or <math> ancestor out of the tree; the only other way an
// element may stay is that it has no parent.
func checkLiteralTextRoundTrip(p *core.Program, r *core.Report, rule string) {
	lit, litPos := serializerLiteralNames(p)
	if len(lit) == 0 {
		r.Undecided(rule, "names written verbatim by the serializer", "no case clause listing \"xmp\" found in render.go of golang.org/x/net/html")
		return
	}
	r.Stats["serializer_literal_text_elements"] = lit
	conv := mustFunc(p, r, rule, "(*"+converterPkg+".DomConverter).Convert")
	if conv == nil {
		return
	}
	walks := core.Calls(conv, func(ci ssa.CallInstruction) bool { return core.IsCallTo(ci, domutilPkg+".WalkNodes") })
	if len(walks) != 1 {
		r.Undecided(rule, "Convert walks the clone once", fmt.Sprintf("%d WalkNodes calls", len(walks)))
		return
	}
	walk := walks[0].(ssa.Instruction)
	root := walks[0].Common().Args[0]
	// passes over the same value that are executed before the walk
	type cand struct {
		call ssa.CallInstruction
		fn   *ssa.Function
	}
	var cands []cand
	for _, ci := range core.Calls(conv, func(ci ssa.CallInstruction) bool {
		f := core.Callee(ci)
		return f != nil && len(f.Blocks) > 0 && f.Pkg != nil && core.IsModPkg(f.Pkg.Pkg.Path()) && ci != walks[0]
	}) {
		uses := false
		for _, a := range ci.Common().Args {
			if a == root {
				uses = true
			}
		}
		in := ci.(ssa.Instruction)
		before := in.Block() == walk.Block() && instrIndex(in) < instrIndex(walk) || in.Block() != walk.Block() && in.Block().Dominates(walk.Block())
		if uses && before {
			cands = append(cands, cand{ci, core.Callee(ci)})
		}
	}
	key := "elements written verbatim by the serializer are taken out of <svg>/<math> before the walk"
	if len(cands) == 0 {
		r.Add(rule, key, p.Pos(conv.Pos()), false, fmt.Sprintf("Convert hands its clone to WalkNodes without a pass over it; the serializer (%s) writes the text of %s unescaped, and inside foreign content that text is page-controlled markup once the output is parsed again", litPos, strings.Join(lit, ",")))
		return
	}
	var why []string
	for _, cd := range cands {
		ok, w := neutralisesLiteralText(p, p.Inlined(cd.fn), lit)
		if ok {
			r.Add(rule, key, p.Pos(cd.call.Pos()), true, core.ShortKey(cd.fn)+": "+w)
			return
		}
		why = append(why, core.ShortKey(cd.fn)+": "+w)
	}
	r.Add(rule, key, p.Pos(cands[0].call.Pos()), false, strings.Join(why, " | "))
}

// neutralisesLiteralText examines one iteration of the loop of fn that tests for an <svg>/<math>
// ancestor: the tested element comes from a by-name query whose names include all of lit, every
// iteration path on which the test holds detaches that element, and an element is otherwise only
// left alone when the test fails or it has no parent.
func neutralisesLiteralText(p *core.Program, fn *ssa.Function, lit []string) (bool, string) {
	const pre = "domutil.HasAncestor("
	hs := loopHeaders(fn)
	for i := len(hs) - 1; i >= 0; i-- { // innermost first: the loop over the elements of one name
		h := hs[i]
		paths, atoms, err := core.EnumerateDecisions(p, fn, core.DecisionOpts{IterateAt: h, Outcome: noOutcome,
			Event: func(in ssa.Instruction, c *core.Canon) (string, bool) {
				ci, ok := in.(ssa.CallInstruction)
				if !ok {
					return "", false
				}
				args := ci.Common().Args
				switch {
				case core.IsCallTo(in, "(*golang.org/x/net/html.Node).RemoveChild") && len(args) == 2:
					return "detach " + c.Of(args[1]), true
				case core.IsCallTo(in, "github.com/go-shiori/dom.DetachChild", "github.com/go-shiori/dom.RemoveNodes") && len(args) >= 1:
					return "detach " + c.Of(args[0]), true
				}
				return "", false
			}})
		if err != nil {
			continue
		}
		var test string
		for a := range atoms {
			if strings.HasPrefix(a, pre) {
				if test != "" && test != a {
					return false, "more than one ancestor test in one iteration: " + shortVal(test) + " / " + shortVal(a)
				}
				test = a
			}
		}
		if test == "" {
			continue
		}
		i := strings.LastIndex(test, ",{")
		if i < 0 {
			return false, "ancestor test without a fixed list of names: " + shortVal(test)
		}
		elem, anc := test[len(pre):i], test[i+1:len(test)-1]
		ancSet := map[string]bool{}
		for _, q := range reQuoted.FindAllString(anc, -1) {
			s, _ := strconv.Unquote(q)
			ancSet[s] = true
		}
		if !ancSet["svg"] || !ancSet["math"] {
			return false, "the ancestor test does not cover both svg and math: " + anc
		}
		have := map[string]bool{}
		for _, q := range reQuoted.FindAllString(elem, -1) {
			s, _ := strconv.Unquote(q)
			have[s] = true
		}
		if !strings.Contains(elem, "dom.GetElementsByTagName(") {
			return false, "the tested element does not come from a by-name query: " + shortVal(elem)
		}
		var missing []string
		for _, n := range lit {
			if !have[n] {
				missing = append(missing, n)
			}
		}
		if len(missing) > 0 {
			return false, "names written verbatim by the serializer but not visited: " + strings.Join(missing, ",")
		}
		n := 0
		for _, pa := range paths {
			if strings.HasPrefix(pa.Outcome, "exit") || strings.HasSuffix(pa.Outcome, "exit") {
				continue
			}
			detached := false
			for _, ev := range pathEvents(pa) {
				if ev == "detach "+elem {
					detached = true
				}
			}
			if detached {
				n++
				continue
			}
			excused := false
			for _, l := range pa.Lits {
				if l.Atom == test && !l.Val || l.Atom == elem+".Parent == nil" && l.Val {
					excused = true
				}
			}
			if !excused {
				return false, "an iteration leaves an element in foreign content in place: " + shortVal(pa.String())
			}
		}
		if n == 0 {
			return false, "no iteration path detaches the element"
		}
		return true, fmt.Sprintf("%d names visited, %d detaching iteration paths of %d", len(have), n, len(paths))
	}
	return false, "no loop that tests for an <svg>/<math> ancestor"
}

// checkForeignUnwrapKeeps (C04-V7): the pass of S4 may put the children of an element it removes
// in the element's place. That makes their text ordinary text of the page. It may do so only for
// the two kinds whose text a browser shows (xmp, plaintext) and only if the element itself is
// probably visible: noscript, iframe, noembed, noframes (and script, style) are never rendered,
// the walk would have skipped them by name, so they go with their text.
func checkForeignUnwrapKeeps(p *core.Program, r *core.Report, rule string) {
	conv := mustFunc(p, r, rule, "(*"+converterPkg+".DomConverter).Convert")
	if conv == nil {
		return
	}
	const pre = "domutil.HasAncestor("
	n, nKeep := 0, 0
	var bad []string
	for _, call := range core.Calls(conv, func(ci ssa.CallInstruction) bool {
		f := core.Callee(ci)
		return f != nil && len(f.Blocks) > 0 && f.Pkg != nil && core.IsModPkg(f.Pkg.Pkg.Path())
	}) {
		fn := p.Inlined(core.Callee(call))
		hs := loopHeaders(fn)
		for i := len(hs) - 1; i >= 0; i-- {
			paths, atoms, err := core.EnumerateDecisions(p, fn, core.DecisionOpts{IterateAt: hs[i], Outcome: noOutcome,
				Event: func(in ssa.Instruction, c *core.Canon) (string, bool) {
					if ci, ok := in.(ssa.CallInstruction); ok && core.IsCallTo(in, "(*golang.org/x/net/html.Node).InsertBefore", "(*golang.org/x/net/html.Node).AppendChild", "github.com/go-shiori/dom.AppendChild", "github.com/go-shiori/dom.PrependChild") {
						_ = ci
						return "keep", true
					}
					return "", false
				}})
			if err != nil {
				continue
			}
			test := ""
			for a := range atoms {
				if strings.HasPrefix(a, pre) && strings.Contains(a, `"svg"`) {
					test = a
				}
			}
			if test == "" {
				continue
			}
			n++
			j := strings.LastIndex(test, ",{")
			elem := test[len(pre):j]
			for _, pa := range paths {
				kept := false
				for _, ev := range pathEvents(pa) {
					kept = kept || ev == "keep"
				}
				if !kept {
					continue
				}
				nKeep++
				shown, visible := false, false
				for _, l := range pa.Lits {
					if l.Val && (strings.HasSuffix(l.Atom, ` == "xmp"`) || strings.HasSuffix(l.Atom, ` == "plaintext"`) || strings.HasPrefix(l.Atom, `in(set‹"plaintext","xmp"›,`)) {
						shown = true
					}
					// the same decided once per kind, outside the loop over the elements: a merge of
					// such comparisons, or a flag in the table of kinds that is set for these two only
					if l.Val && (mergeOfShownKinds(p, fn, l.Atom) || flagOfShownKinds(l.Atom)) {
						shown = true
					}
					if l.Val && l.Atom == "domutil.IsProbablyVisible("+elem+")" {
						visible = true
					}
				}
				if !shown || !visible {
					bad = append(bad, shortVal(pa.String()))
				}
			}
			break
		}
	}
	if len(bad) > 2 {
		bad = bad[:2]
	}
	r.Add(rule, "the foreign-content pass keeps the children only of a visible xmp/plaintext (never-rendered kinds go with their text)", p.Pos(conv.Pos()), n >= 1 && len(bad) == 0,
		fmt.Sprintf("%d passes with an svg/math ancestor test, %d iteration paths keep children, %d of them for another kind or without the visibility test", n, nKeep, len(bad)), bad...)
}

var reKindRow = regexp.MustCompile(`\{"([a-z]+)",(true|false)\}`)

// flagOfShownKinds: the atom reads a boolean column of a fixed table of {kind, flag} rows in which
// the flag is set for xmp and plaintext only.
func flagOfShownKinds(atom string) bool {
	if !strings.HasPrefix(atom, "&elem({{") {
		return false
	}
	rows := reKindRow.FindAllStringSubmatch(atom, -1)
	if len(rows) == 0 {
		return false
	}
	nTrue := 0
	for _, m := range rows {
		if m[2] == "true" {
			nTrue++
			if m[1] != "xmp" && m[1] != "plaintext" {
				return false
			}
		}
	}
	return nTrue > 0
}

// mergeOfShownKinds: the branch condition with this atom is a merge of booleans that is true only
// if a comparison of the kind with "xmp" or "plaintext" came out true (`k == "xmp" || k ==
// "plaintext"` evaluated into a variable).
func mergeOfShownKinds(p *core.Program, fn *ssa.Function, atom string) bool {
	c := core.NewCanon(p)
	isShownCmp := func(v ssa.Value) bool {
		a, wt := c.CondAtom(v)
		return wt && (strings.HasSuffix(a, ` == "xmp"`) || strings.HasSuffix(a, ` == "plaintext"`))
	}
	for _, b := range fn.Blocks {
		if len(b.Instrs) == 0 {
			continue
		}
		ifi, ok := b.Instrs[len(b.Instrs)-1].(*ssa.If)
		if !ok {
			continue
		}
		if a, wt := c.CondAtom(ifi.Cond); a != atom || !wt {
			continue
		}
		ph, ok := ifi.Cond.(*ssa.Phi)
		if !ok || len(ph.Edges) != len(ph.Block().Preds) {
			return false
		}
		for i, e := range ph.Edges {
			if cv, isC := core.ConstBool(e); isC {
				if !cv {
					continue
				}
				// true arrives: over the true edge of a shown-kind comparison
				pred := ph.Block().Preds[i]
				pi, ok := pred.Instrs[len(pred.Instrs)-1].(*ssa.If)
				if !ok || !isShownCmp(pi.Cond) || pred.Succs[0] != ph.Block() {
					return false
				}
				continue
			}
			if !isShownCmp(e) {
				return false
			}
		}
		return true
	}
	return false
}
