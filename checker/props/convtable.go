package props

import (
	"fmt"
	"go/ast"
	"go/token"
	"sort"
	"strings"

	"ddcheck/core"
)

// ConvClause describes one clause of the converter's final tag switch.
type ConvClause struct {
	Labels             []string
	AlwaysReturnsFalse bool // the clause body ends in `return false` on its fall-through path
	AlwaysReturnsTrue  bool
	ReturnsFalseSome   bool            // contains a conditional `return false`
	Calls              map[string]bool // builder methods / helpers called in the clause
	Stores             []string        // assignments to fields of the node
}

func (c *ConvClause) Describe() string {
	var calls []string
	for k := range c.Calls {
		calls = append(calls, k)
	}
	sort.Strings(calls)
	return fmt.Sprintf("labels=%v alwaysFalse=%v alwaysTrue=%v someFalse=%v calls=%v stores=%v", c.Labels, c.AlwaysReturnsFalse, c.AlwaysReturnsTrue, c.ReturnsFalseSome, calls, c.Stores)
}

// ConvTable is the table extracted from DomConverter.visitElementNodeHandler.
type ConvTable struct {
	Pos                 string
	Clauses             []*ConvClause
	ByLabel             map[string]*ConvClause
	ExtractBeforeSwitch bool
	AfterSwitchStart    bool // after the switch: StartNode + return true
}

// converterSwitch extracts the last string switch on the tag name in visitElementNodeHandler.
func converterSwitch(p *core.Program, r *core.Report, rule string) *ConvTable {
	fd, pkg := p.FuncDecl("internal/converter", "DomConverter", "visitElementNodeHandler")
	if fd == nil {
		r.Undecided(rule, "anchor converter.DomConverter.visitElementNodeHandler", "function declaration not found")
		return nil
	}
	sws := core.StringSwitches(pkg, fd.Body, nil)
	if len(sws) == 0 {
		r.Undecided(rule, "converter tag switch", "no string switch found in visitElementNodeHandler")
		return nil
	}
	// the main one is the switch with the most labels
	var main *core.SwitchTable
	for _, s := range sws {
		if main == nil || len(s.ByLabel) > len(main.ByLabel) {
			main = s
		}
	}
	t := &ConvTable{Pos: p.Pos(main.Stmt.Pos()), ByLabel: map[string]*ConvClause{}}
	for _, cl := range main.Clauses {
		c := &ConvClause{Labels: cl.Labels, Calls: map[string]bool{}}
		if n := len(cl.Body); n > 0 {
			if ret, ok := cl.Body[n-1].(*ast.ReturnStmt); ok && len(ret.Results) == 1 {
				if id, ok := ret.Results[0].(*ast.Ident); ok {
					c.AlwaysReturnsFalse = id.Name == "false"
					c.AlwaysReturnsTrue = id.Name == "true"
				}
			}
		}
		for _, st := range cl.Body {
			ast.Inspect(st, func(n ast.Node) bool {
				switch x := n.(type) {
				case *ast.ReturnStmt:
					if len(x.Results) == 1 {
						if id, ok := x.Results[0].(*ast.Ident); ok && id.Name == "false" {
							c.ReturnsFalseSome = true
						}
					}
				case *ast.CallExpr:
					if sel, ok := x.Fun.(*ast.SelectorExpr); ok {
						c.Calls[sel.Sel.Name] = true
					}
				case *ast.AssignStmt:
					for _, l := range x.Lhs {
						if sel, ok := l.(*ast.SelectorExpr); ok {
							c.Stores = append(c.Stores, exprString(sel))
						}
					}
				}
				return true
			})
		}
		t.Clauses = append(t.Clauses, c)
		for _, l := range cl.Labels {
			t.ByLabel[l] = c
		}
	}
	// extraction before the switch: a call to a method named Extract occurs textually before it
	ast.Inspect(fd.Body, func(n ast.Node) bool {
		if call, ok := n.(*ast.CallExpr); ok {
			if sel, ok := call.Fun.(*ast.SelectorExpr); ok && sel.Sel.Name == "Extract" && call.Pos() < main.Stmt.Pos() {
				t.ExtractBeforeSwitch = true
			}
		}
		return true
	})
	// after the switch
	stmts := fd.Body.List
	for i, s := range stmts {
		if s == ast.Stmt(main.Stmt) {
			rest := stmts[i+1:]
			if len(rest) == 2 {
				if es, ok := rest[0].(*ast.ExprStmt); ok {
					if call, ok := es.X.(*ast.CallExpr); ok {
						if sel, ok := call.Fun.(*ast.SelectorExpr); ok && sel.Sel.Name == "StartNode" {
							if ret, ok := rest[1].(*ast.ReturnStmt); ok && len(ret.Results) == 1 {
								if id, ok := ret.Results[0].(*ast.Ident); ok && id.Name == "true" {
									t.AfterSwitchStart = true
								}
							}
						}
					}
				}
			}
		}
	}
	return t
}

func exprString(e ast.Expr) string {
	switch x := e.(type) {
	case *ast.Ident:
		return x.Name
	case *ast.SelectorExpr:
		return exprString(x.X) + "." + x.Sel.Name
	case *ast.StarExpr:
		return "*" + exprString(x.X)
	case *ast.BasicLit:
		if x.Kind == token.STRING {
			return x.Value
		}
		return x.Value
	}
	return strings.TrimSpace(fmt.Sprintf("%T", e))
}
