package props

import (
	"fmt"
	"sort"
	"strings"

	"ddcheck/core"

	"golang.org/x/tools/go/ssa"
)

// The converter's element visitor, as a set of decision paths.
//
// Everything the properties say about "what the converter does with a <tag>" is decided on the
// decision paths of the visit callback that DomConverter.Convert hands to WalkNodes (resolved
// through the call, whatever the callback is called), with unexported helpers expanded. The
// events of a path are the calls on the document builder, the outcome is the visitor's result
// (true = the walk descends into the element). Whether the source spells the dispatch as a
// switch, an if-chain or a table of helpers makes no difference.

type visitorModel struct {
	visit, exit *ssa.Function
	paths       []core.DecisionPath
	atoms       map[string]bool
	builder     string // canonical expression of the document builder
	pos         string
}

var visitorCache = map[*core.Program]*visitorModel{}

const tagAtomPrefix = `dom.TagName($1) == "`

// visitor builds (once per program) the path model of the visit callback.
func visitor(p *core.Program, r *core.Report, rule string) *visitorModel {
	if vm, ok := visitorCache[p]; ok {
		if vm == nil {
			r.Undecided(rule, "converter visitor model", "the visit callback of Convert could not be analysed (see the first report)")
		}
		return vm
	}
	visitorCache[p] = nil
	visit, exit := walkHandlers(p, r, rule)
	if visit == nil {
		return nil
	}
	vm := &visitorModel{visit: visit, exit: exit, pos: p.Pos(visit.Pos())}
	// the builder: the receiver of the AddTextNode invocation
	plain := core.NewCanon(p)
	for _, in := range instrsOf(visit) {
		if call, ok := in.(*ssa.Call); ok && call.Call.IsInvoke() && call.Call.Method.Name() == "AddTextNode" {
			vm.builder = plain.Of(call.Call.Value)
		}
	}
	if vm.builder == "" {
		r.Undecided(rule, "converter visitor: document builder", "no AddTextNode call on a document builder found in the visit callback")
		return nil
	}
	opts := core.DecisionOpts{MaxPaths: 400000,
		Outcome: func(in ssa.Instruction, c *core.Canon) (string, bool) {
			if ret, ok := in.(*ssa.Return); ok && len(ret.Results) == 1 {
				return "return " + c.Of(ret.Results[0]), true
			}
			return "", false
		},
		Event: func(in ssa.Instruction, c *core.Canon) (string, bool) {
			if st, ok := in.(*ssa.Store); ok && c.Of(st.Addr) == "&$1.Data" {
				return "rename " + c.Of(st.Val), true // the visited element is given another tag name
			}
			call, ok := in.(*ssa.Call)
			if !ok || !call.Call.IsInvoke() || c.Of(call.Call.Value) != vm.builder {
				return "", false
			}
			var args []string
			for _, a := range call.Call.Args {
				args = append(args, c.Of(a))
			}
			return call.Call.Method.Name() + "(" + strings.Join(args, ",") + ")", true
		}}
	paths, atoms, err := core.EnumerateDecisions(p, visit, opts)
	if err != nil {
		r.Undecided(rule, "converter visitor model", err.Error())
		return nil
	}
	vm.paths, vm.atoms = paths, atoms
	visitorCache[p] = vm
	return vm
}

// events of a path, in order.
func pathEvents(pa core.DecisionPath) []string {
	i := strings.LastIndex(pa.Outcome, " => ")
	if i < 0 {
		return nil
	}
	return strings.Split(pa.Outcome[:i], "; ")
}

// builderCalls: the events of a visitor path that are calls on the document builder.
func builderCalls(pa core.DecisionPath) []string {
	var out []string
	for _, ev := range pathEvents(pa) {
		if !strings.HasPrefix(ev, "rename ") {
			out = append(out, ev)
		}
	}
	return out
}

func pathResult(pa core.DecisionPath) string {
	if i := strings.LastIndex(pa.Outcome, " => "); i >= 0 {
		return pa.Outcome[i+4:]
	}
	return pa.Outcome
}

func litOf(pa core.DecisionPath, atom string) int {
	for _, l := range pa.Lits {
		if l.Atom == atom {
			return tern(l.Val)
		}
	}
	return 0
}

// ConvClause describes what the visitor does with elements of one tag name.
type ConvClause struct {
	Tag                string
	Paths              int             // decision paths consistent with the tag (element, not turned into an embed)
	AlwaysReturnsFalse bool            // no consistent path lets the walk descend
	SomeReturnTrue     bool            // some consistent path descends
	Calls              map[string]bool // builder methods called on consistent paths
	Sig                string          // signature of the behaviour with the tag tests themselves removed
}

func (c *ConvClause) Describe() string {
	var calls []string
	for k := range c.Calls {
		calls = append(calls, k)
	}
	sort.Strings(calls)
	return fmt.Sprintf("<%s>: %d paths, never descends=%v, builder calls=%v", c.Tag, c.Paths, c.AlwaysReturnsFalse, calls)
}

// ConvTable answers per-tag questions about the element visitor.
type ConvTable struct {
	Pos string
	vm  *visitorModel
	mem map[string]*ConvClause
}

func converterSwitch(p *core.Program, r *core.Report, rule string) *ConvTable {
	vm := visitor(p, r, rule)
	if vm == nil {
		return nil
	}
	return &ConvTable{Pos: vm.pos, vm: vm, mem: map[string]*ConvClause{}}
}

// For computes the behaviour for elements named tag: the element paths on which every test
// `TagName(node) == "x"` has the value it has for that tag, leaving out the paths on which an
// embed extractor claimed the element (those are the business of C19).
func (t *ConvTable) For(tag string) *ConvClause {
	if c, ok := t.mem[tag]; ok {
		return c
	}
	c := &ConvClause{Tag: tag, AlwaysReturnsFalse: true, Calls: map[string]bool{}}
	sigs := map[string]bool{}
	for _, pa := range t.vm.paths {
		if litOf(pa, `$1.Type == html.ElementNode`) == -1 || litOf(pa, `$1.Type == html.TextNode`) == 1 {
			continue
		}
		consistent := true
		var rest []string
		for _, l := range pa.Lits {
			if rel, holds := litAbout(l, "dom.TagName($1)", tag); rel {
				if !holds {
					consistent = false
				}
				continue
			}
			rest = append(rest, l.String())
		}
		if !consistent {
			continue
		}
		embed := false
		for _, ev := range builderCalls(pa) {
			if strings.HasPrefix(ev, "AddEmbed(") {
				embed = true
			}
		}
		if embed {
			continue
		}
		c.Paths++
		for _, ev := range builderCalls(pa) {
			c.Calls[ev[:strings.Index(ev, "(")]] = true
		}
		if pathResult(pa) != "return false" {
			c.AlwaysReturnsFalse = false
			c.SomeReturnTrue = true
		}
		sort.Strings(rest)
		sigs[strings.Join(rest, " ∧ ")+" ⇒ "+pa.Outcome] = true
	}
	var ss []string
	for s := range sigs {
		ss = append(ss, s)
	}
	sort.Strings(ss)
	c.Sig = strings.Join(ss, "\n")
	t.mem[tag] = c
	return c
}

// PathsFor lists the element paths of the visitor that are consistent with the tag name and on
// which no embed extractor claimed the element.
func (t *ConvTable) PathsFor(tag string) []core.DecisionPath {
	var out []core.DecisionPath
	for _, pa := range t.vm.paths {
		if litOf(pa, `$1.Type == html.ElementNode`) == -1 || litOf(pa, `$1.Type == html.TextNode`) == 1 {
			continue
		}
		consistent := true
		for _, l := range pa.Lits {
			if rel, holds := litAbout(l, "dom.TagName($1)", tag); rel && !holds {
				consistent = false
			}
		}
		embed := false
		for _, ev := range builderCalls(pa) {
			if strings.HasPrefix(ev, "AddEmbed(") {
				embed = true
			}
		}
		if consistent && !embed {
			out = append(out, pa)
		}
	}
	return out
}

// DebugConv prints the behaviour signature of the converter for a tag (developer tool).
func DebugConv(p *core.Program, tag string) {
	r := core.NewReport("dbg", "quick")
	tbl := converterSwitch(p, r, "dbg")
	if tbl == nil {
		fmt.Println("no table")
		return
	}
	cl := tbl.For(tag)
	fmt.Println(cl.Sig)
}

// DebugLoops prints loops of analysis units without a recognised variant (developer tool).
func DebugLoops(p *core.Program) {
	c := core.NewCanon(p)
	reach := p.ReachableFrom(p.EntryPoints()...)
	kinds := map[string]int{}
	anc := func(f *ssa.Function) bool { return core.IsAncestorFn(f) }
	for _, u := range units(p) {
		if !reach[p.Original(u)] {
			continue
		}
		loops, red := core.NaturalLoops(u)
		if !red {
			fmt.Println("IRREDUCIBLE", unitName(p, u))
		}
		for _, l := range loops {
			v := c.TerminationOf(l, anc)
			kinds[v.Kind]++
			if v.Kind == "" {
				fmt.Printf("%s\t%s\t%s\n", unitName(p, u), shortVal(v.Desc), v.Reason)
			}
		}
	}
	fmt.Println(kinds)
}
