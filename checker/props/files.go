package props

import "os"

var fileCache = map[string][]byte{}

func readFileCached(name string) ([]byte, error) {
	if b, ok := fileCache[name]; ok {
		return b, nil
	}
	b, err := os.ReadFile(name)
	if err == nil {
		fileCache[name] = b
	}
	return b, err
}
