package props

import (
	"go/types"

	"ddcheck/core"

	"golang.org/x/tools/go/ssa"
)

// Roles: unexported helpers that the rules treat as atomic questions. They are found by what
// they are (signature, what they call, where they are used) - never by name - and are declared
// once per program, before any rule runs, so that every rule sees the same expansion.
type roleSet struct {
	directDescendants *ssa.Function // (table) []*html.Node, below Classifier.Classify
	rowsAndColumns    *ssa.Function // (table) (int, int)
	hasOneOf          *ssa.Function // ([]*html.Node, map[string]bool) bool
	hasValidText      *ssa.Function // (node) bool, asks InnerText
	visibleWithin     *ssa.Function // (element, root) bool with a visibility loop, below ImageExtractor.Extract
}

var rolesOf = map[*core.Program]*roleSet{}

// Prepare identifies the role helpers of the program and declares them opaque.
func Prepare(p *core.Program) {
	if _, done := rolesOf[p]; done {
		return
	}
	rs := &roleSet{}
	rolesOf[p] = rs
	core.LowerBound = p.LowerBoundOf
	core.MayWriteField = p.LoopMayWriteField
	core.CanonOpaque[core.ExpandKey("mod/internal/webdoc.CanBeNested")] = true
	isNode := func(t types.Type) bool { return t.String() == "*golang.org/x/net/html.Node" }
	if cf := p.Func("(*" + core.ExpandKey(classifierPkg) + ".Classifier).Classify"); cf != nil {
		for _, f := range p.StaticRegion(cf)[1:] {
			sig := f.Signature
			res := sig.Results()
			var ptypes []string
			for i := 0; i < sig.Params().Len(); i++ {
				ptypes = append(ptypes, sig.Params().At(i).Type().String())
			}
			switch {
			case res.Len() >= 1 && res.At(0).Type().String() == "[]*golang.org/x/net/html.Node" && restBool(res, 1) && sig.Params().Len() >= 1 && isNode(sig.Params().At(0).Type()) && restBasic(sig, 1):
				rs.directDescendants = f
				if res.Len() > 1 {
					core.RoleFlagResults[f] = true
				}
			case res.Len() == 2 && res.At(0).Type().String() == "int" && res.At(1).Type().String() == "int":
				rs.rowsAndColumns = f
			case res.Len() == 1 && res.At(0).Type().String() == "bool" && sig.Params().Len() == 2 && ptypes[0] == "[]*golang.org/x/net/html.Node" && ptypes[1] == "map[string]bool":
				rs.hasOneOf = f
			case res.Len() == 1 && res.At(0).Type().String() == "bool" && sig.Params().Len() == 1 && isNode(sig.Params().At(0).Type()) && len(loopHeaders(f)) == 0 &&
				len(core.Calls(f, func(ci ssa.CallInstruction) bool { return core.IsCallTo(ci, "mod/internal/domutil.InnerText") })) > 0:
				rs.hasValidText = f
			}
		}
	}
	if exf := p.Func("(*" + core.ExpandKey("mod/internal/extractor/embed") + ".ImageExtractor).Extract"); exf != nil {
		for _, f := range p.StaticRegion(exf)[1:] {
			sig := f.Signature
			if sig.Results().Len() == 1 && sig.Results().At(0).Type().String() == "bool" && sig.Params().Len() == 2 && len(loopHeaders(f)) == 1 &&
				len(core.Calls(f, func(ci ssa.CallInstruction) bool { return core.IsCallTo(ci, domutilPkg+".IsProbablyVisible") })) > 0 {
				rs.visibleWithin = f
			}
		}
	}
	p.SetRole(rs.directDescendants, "directDescendants")
	p.SetRole(rs.rowsAndColumns, "rowsAndColumns")
	p.SetRole(rs.hasOneOf, "hasOneOf")
	p.SetRole(rs.hasValidText, "hasValidText")
	p.SetRole(rs.visibleWithin, "visibleWithin")
}

// restBasic: the parameters from index k on are plain flags/numbers (precomputed facts passed along).
func restBasic(sig *types.Signature, k int) bool {
	for i := k; i < sig.Params().Len(); i++ {
		if _, ok := sig.Params().At(i).Type().Underlying().(*types.Basic); !ok {
			return false
		}
	}
	return true
}

func roles(p *core.Program) *roleSet {
	Prepare(p)
	return rolesOf[p]
}

// restBool: the results from index k on are booleans (facts handed back along with the result).
func restBool(res *types.Tuple, k int) bool {
	for i := k; i < res.Len(); i++ {
		if bt, ok := res.At(i).Type().Underlying().(*types.Basic); !ok || bt.Kind() != types.Bool {
			return false
		}
	}
	return true
}
