package props

import (
	"fmt"
	"go/token"
	"go/types"
	"regexp"
	"sort"
	"strings"

	"ddcheck/core"
	"ddcheck/pea"

	"golang.org/x/tools/go/ssa"
)

func init() { Registry["C13"] = C13 }

var logPredicates = map[string]bool{"IsLogExtraction": true, "IsLogVisibility": true, "IsLogPagination": true, "IsLogTiming": true}

func isLoggerType(t types.Type) bool {
	s := t.String()
	return strings.HasSuffix(s, "internal/logutil.Logger") || strings.HasSuffix(s, "go-domdistiller.distillerLogger") || strings.HasSuffix(s, "logrus.Logger")
}

// flagTest classifies a branch condition as a test of a log flag / logger presence and returns
// whether the condition being TRUE means "logging enabled".
func flagTest(cond ssa.Value) (isFlag bool, enabledWhenTrue bool) {
	neg := false
	v := cond
	for i := 0; i < 6; i++ {
		v = core.StripConv(v)
		switch x := v.(type) {
		case *ssa.UnOp:
			if x.Op == token.NOT {
				neg = !neg
				v = x.X
				continue
			}
			return false, false
		case *ssa.Call:
			cc := x.Common()
			if cc.IsInvoke() && logPredicates[cc.Method.Name()] {
				return true, !neg
			}
			if f := cc.StaticCallee(); f != nil {
				if logPredicates[f.Name()] || (f.Name() == "hasFlag" && strings.Contains(f.String(), "distillerLogger")) {
					return true, !neg
				}
			}
			return false, false
		case *ssa.BinOp:
			if x.Op != token.EQL && x.Op != token.NEQ {
				return false, false
			}
			var other ssa.Value
			if core.IsNilConst(x.Y) {
				other = x.X
			} else if core.IsNilConst(x.X) {
				other = x.Y
			}
			if other == nil || !isLoggerType(other.Type()) {
				return false, false
			}
			// logger != nil  => enabled when true
			en := x.Op == token.NEQ
			if neg {
				en = !en
			}
			return true, en
		default:
			return false, false
		}
	}
	return false, false
}

// isLogSink: calls that only emit log output.
func isLogSink(call ssa.CallInstruction) bool {
	cc := call.Common()
	name := ""
	if cc.IsInvoke() {
		name = cc.Method.Name()
		if !isLoggerType(cc.Value.Type()) {
			return false
		}
	} else if f := cc.StaticCallee(); f != nil {
		name = f.Name()
		s := f.String()
		if !(strings.Contains(s, "distillerLogger") || strings.Contains(s, "logrus.") || strings.HasSuffix(s, ".printLog") || strings.HasSuffix(s, ".printArticleLog")) {
			return false
		}
	} else {
		return false
	}
	return strings.HasPrefix(name, "Print") || strings.HasPrefix(name, "print") || logPredicates[name] || name == "hasFlag"
}

// reviewed debug state: maps that exist only to build log messages
var debugFields = map[string]bool{
	core.ModPath + "/internal/pagination.PrevNextFinder.linkDebugInfo[]":     true,
	core.ModPath + "/internal/pagination.PrevNextFinder.linkDebugMessages[]": true,
	core.ModPath + "/internal/pagination.PrevNextFinder.linkDebugInfo":       true,
	core.ModPath + "/internal/pagination.PrevNextFinder.linkDebugMessages":   true,
}

// C13: options do only what they say.
// the exit test of a loop
var reLoopAtom = regexp.MustCompile(`^loop\d+\(`)

// "did the validation above fail": a merge of fresh errors and nil tested for nil (a helper that
// hands back the root element together with an error); its truth is fixed by the documented
// conditions decided before it
var reErrMergeAtom = regexp.MustCompile(`^μ\((errors\.New\("[^"]*"\)|nil)(\|(errors\.New\("[^"]*"\)|nil))+\) == nil$`)

func C13(p *core.Program, r *core.Report) {
	r.Explanation = "L1: values of log-flag predicates (Logger.IsLog*, hasFlag, logger==nil) are used only as branch conditions. L2: for every such branch the log region (the blocks that become unreachable when the logging-enabled edge is removed) is write-only: it stores only into locals created inside it or into the two reviewed debug maps, calls only log sinks, unanalysed standard-library formatting, or functions whose effect summary (PEA) writes no tracked region, parameter, package-level state or pre-existing struct field other than those debug maps; no value computed inside the region is merged back into the normal flow (phi) and no result-bearing return sits inside it. L3/L4: all decision paths of Apply are enumerated with the stores into Result as events: PaginationInfo is stored exactly when !SkipPagination && OriginalURL != nil (and, where Apply tests it, the URL has a host), URL exactly when OriginalURL != nil and from OriginalURL.String(), every other result field is stored on every successful path from values that mention neither pagination option, and Apply branches on nothing but the documented conditions. L5: the pagination finders write neither the document nor the page URL they are given (effect summaries), so the choice of algorithm cannot leak into later results. L6: no code below the entry points writes the caller's Options or the URL they point to (effect analysis, shared with C10), so Result.URL, rendered after extraction, is the supplied URL. L2 also treats append/copy into a re-slice of storage that exists outside the log region (filter-in-place) as a write. L7: ApplyForURL works with the supplied string parsed by url.Parse (fragment-aware), so Result.URL is the supplied URL. L8: the options ApplyForURL hands on are one whole-struct copy of the caller's with only OriginalURL set afterwards."
	r.NotCovered = "that both pagination algorithms agree with each other; wall-clock TimingInfo; effects of logging on the log output stream itself."

	a := runPEA(p)
	peaStats(r, a)

	// ---- L1 / L2
	nRegions := 0
	type pendingStore struct{ typ, msg string }
	type regionResult struct {
		key, pos string
		nblk     int
		problems []string
		pending  []pendingStore
	}
	var regions []regionResult
	type fieldAccess struct {
		typ            string
		write, inLog   bool
		fn, pos, canon string
	}
	var fieldAccesses []fieldAccess
	type mapAccess struct {
		field          string
		write, inLog   bool
		fn, pos, canon string
	}
	var mapAccesses []mapAccess
	// the units of analysis (exported functions with their unexported helpers expanded): a debug
	// helper that is only called under a log flag is then judged inside the log region of its
	// caller, however the bookkeeping is cut into helper methods or helper types
	for _, fn := range units(p) {
		if strings.Contains(fn.String(), "distillerLogger") {
			continue // the predicates' own implementation
		}
		// L1: uses of predicate values
		for _, b := range fn.Blocks {
			for _, in := range b.Instrs {
				call, ok := in.(*ssa.Call)
				if !ok {
					continue
				}
				isPred, _ := flagTest(call)
				if !isPred {
					continue
				}
				for _, ref := range *call.Referrers() {
					okUse := false
					switch u := ref.(type) {
					case *ssa.If, *ssa.DebugRef:
						okUse = true
					case *ssa.UnOp:
						okUse = u.Op == token.NOT
					case *ssa.Phi:
						okUse = true
						for _, r2 := range *u.Referrers() {
							if _, isIf := r2.(*ssa.If); !isIf {
								if _, dbg := r2.(*ssa.DebugRef); !dbg {
									okUse = false
								}
							}
						}
					}
					if !okUse {
						r.Add("L1", core.ShortKey(fn)+": log flag used as data", p.Pos(ref.Pos()), false, fmt.Sprintf("the value of %s is used by %T, not only as a branch condition", core.NewCanon(p).Of(call), ref))
					}
				}
			}
		}
		// L2: regions
		logBlocks := map[*ssa.BasicBlock]bool{} // union of the log regions of fn
		for _, b := range fn.Blocks {
			if len(b.Instrs) == 0 {
				continue
			}
			ifi, ok := b.Instrs[len(b.Instrs)-1].(*ssa.If)
			if !ok {
				continue
			}
			isFlag, enWhenTrue := flagTest(ifi.Cond)
			if !isFlag {
				continue
			}
			k := 0
			if !enWhenTrue {
				k = 1
			}
			cut := core.EdgeSet{core.Edge{From: b, K: k}: true}
			all := core.ReachableBlocks(fn, nil)
			without := core.ReachableBlocks(fn, cut)
			region := map[*ssa.BasicBlock]bool{}
			for blk := range all {
				if !without[blk] {
					region[blk] = true
				}
			}
			nRegions++
			for blk := range region {
				logBlocks[blk] = true
			}
			key := fmt.Sprintf("%s: log region of %s", unitName(p, fn), blockDesc(p, b))
			var problems []string
			var pending []pendingStore
			inRegion := func(v ssa.Value) bool {
				in, ok := v.(ssa.Instruction)
				return ok && in.Block() != nil && region[in.Block()]
			}
			for blk := range region {
				for _, in := range blk.Instrs {
					switch x := in.(type) {
					case *ssa.Store:
						if !storeIsLocal(x.Addr, inRegion) {
							msg := fmt.Sprintf("store to %s at %s", core.NewCanon(p).Of(x.Addr), p.Pos(x.Pos()))
							// a field of a record type: judged below, when it is known whether that
							// type is written by logging code only (records kept in a debug map)
							if tk := recordTypeOf(x.Addr); tk != "" {
								pending = append(pending, pendingStore{tk, msg})
							} else {
								problems = append(problems, msg)
							}
						}
					case *ssa.MapUpdate:
						if !inRegion(x.Map) && !isDebugMap(p, x.Map) {
							problems = append(problems, fmt.Sprintf("map update %s at %s", core.NewCanon(p).Of(x.Map), p.Pos(x.Pos())))
						}
					case *ssa.Return:
						if len(x.Results) > 0 {
							// after expansion every edge into a return block has a return of its own: a return
							// in the region is harmless when the path without logging returns the very same values
							same := false
							for _, other := range core.Returns(fn) {
								if region[other.Block()] || len(other.Results) != len(x.Results) {
									continue
								}
								eq := true
								for k := range x.Results {
									if other.Results[k] != x.Results[k] || inRegion(x.Results[k]) {
										eq = false
									}
								}
								same = same || eq
							}
							if !same {
								problems = append(problems, "result-bearing return inside the log region at "+p.Pos(x.Pos()))
							}
						}
					case *ssa.Go, *ssa.Defer, *ssa.Send:
						problems = append(problems, fmt.Sprintf("%T inside the log region at %s", x, p.Pos(in.Pos())))
					case ssa.CallInstruction:
						if b, isB := x.Common().Value.(*ssa.Builtin); isB {
							// filter-in-place: append to (or copy into) a re-slice of storage that exists
							// outside the region overwrites that storage
							if args := x.Common().Args; (b.Name() == "append" || b.Name() == "copy") && len(args) > 0 {
								if w := overwritesOutside(args[0], b.Name() == "copy", inRegion, storeIsLocal, map[ssa.Value]bool{}); w != nil {
									problems = append(problems, fmt.Sprintf("%s writes into the storage of %s, which exists outside the log region (at %s)", b.Name(), core.NewCanon(p).Of(w), p.Pos(in.Pos())))
								}
							}
							continue
						}
						if isLogSink(x) {
							continue
						}
						for _, callee := range a.SiteCallees(fn, x) {
							if !a.Analysed(callee) {
								// standard library (formatting): trusted pure apart from the modelled
								// mutators (sort.*, (*bytes.Buffer).Write, ...), which may only work on
								// something made inside the region
								for _, k := range a.ExternalMutates(callee) {
									args := x.Common().Args
									if x.Common().IsInvoke() || k >= len(args) {
										continue
									}
									if root := rootOfValue(args[k]); !inRegion(root) {
										problems = append(problems, fmt.Sprintf("call to %s rearranges/writes %s, which exists outside the log region (at %s)", core.ShortKey(callee), core.NewCanon(p).Of(args[k]), p.Pos(in.Pos())))
									}
								}
								continue
							}
							for _, ef := range a.TrackedMods(callee) {
								li := a.Label(ef.Target)
								if strings.Contains(li.Name, "github.com/sirupsen/logrus") {
									continue // the logging library's own state (reached through the log sinks the helper calls)
								}
								problems = append(problems, fmt.Sprintf("call to %s may write %s of %s (at %s)", core.ShortKey(callee), ef.Field, li.Name, p.Pos(in.Pos())))
								break
							}
							fw := a.FieldWrites(callee)
							var fws []string
							for f := range fw {
								if !debugFields[f] && !strings.Contains(f, "logrus.") {
									fws = append(fws, f)
								}
							}
							sort.Strings(fws)
							if len(fws) > 0 {
								problems = append(problems, fmt.Sprintf("call to %s changes state that survives it: %v (at %s)", core.ShortKey(callee), fws, p.Pos(in.Pos())))
							}
						}
					}
				}
			}
			// values flowing out of the region through phis
			for blk := range all {
				if region[blk] {
					continue
				}
				for _, in := range blk.Instrs {
					ph, ok := in.(*ssa.Phi)
					if !ok {
						break
					}
					for i, e := range ph.Edges {
						if region[blk.Preds[i]] {
							// value chosen on the logging path
							same := true
							for j, e2 := range ph.Edges {
								if j != i && !region[blk.Preds[j]] && e2 != e {
									same = false
								}
							}
							if !same {
								problems = append(problems, fmt.Sprintf("variable %q gets a different value on the logging path (%s) at %s", ph.Comment, core.NewCanon(p).Of(e), p.Pos(ph.Pos())))
							}
						}
					}
				}
			}
			regions = append(regions, regionResult{key, blockPos(p, b), len(region), problems, pending})
		}
		// L2 (converse), collected here and judged below: map-typed struct fields that are only
		// ever updated inside log regions hold entries only when logging is enabled, so whatever
		// reads them outside a log region lets the log flag steer the normal flow
		for _, b := range fn.Blocks {
			for _, in := range b.Instrs {
				switch x := in.(type) {
				case *ssa.Store:
					if tk := recordTypeOf(x.Addr); tk != "" {
						fieldAccesses = append(fieldAccesses, fieldAccess{tk, true, logBlocks[b], core.ShortKey(fn), p.Pos(in.Pos()), ""})
					}
				case *ssa.UnOp:
					if x.Op == token.MUL {
						if tk := recordTypeOf(x.X); tk != "" {
							fieldAccesses = append(fieldAccesses, fieldAccess{tk, false, logBlocks[b], core.ShortKey(fn), p.Pos(in.Pos()), core.NewCanon(p).Of(x)})
						}
					}
				}
			}
		}
		for _, b := range fn.Blocks {
			for _, in := range b.Instrs {
				var m ssa.Value
				write := false
				switch x := in.(type) {
				case *ssa.MapUpdate:
					m, write = x.Map, true
				case *ssa.Lookup:
					m = x.X
				case *ssa.Range:
					m = x.X
				case *ssa.Call:
					if bi, ok := x.Call.Value.(*ssa.Builtin); ok && bi.Name() == "len" && len(x.Call.Args) == 1 {
						m = x.Call.Args[0]
					}
				}
				if m == nil {
					continue
				}
				if _, isMap := m.Type().Underlying().(*types.Map); !isMap {
					continue
				}
				ld, ok := core.StripConv(m).(*ssa.UnOp)
				if !ok {
					continue
				}
				fa, ok := ld.X.(*ssa.FieldAddr)
				if !ok || core.NamedOf(fa.X.Type()) == nil {
					continue
				}
				key := fmt.Sprintf("%s#%d", core.NamedOf(fa.X.Type()).String(), fa.Field)
				mapAccesses = append(mapAccesses, mapAccess{key, write, logBlocks[b], core.ShortKey(fn), p.Pos(in.Pos()), core.NewCanon(p).Of(m)})
			}
		}
	}
	// record types written by logging code only
	debugType := map[string]bool{}
	for _, a := range fieldAccesses {
		if a.write {
			if _, seen := debugType[a.typ]; !seen {
				debugType[a.typ] = true
			}
			if !a.inLog {
				debugType[a.typ] = false
			}
		}
	}
	for _, rg := range regions {
		problems := rg.problems
		for _, pd := range rg.pending {
			if !debugType[pd.typ] {
				problems = append(problems, pd.msg)
			}
		}
		sort.Strings(problems)
		r.Add("L2", rg.key, rg.pos, len(problems) == 0, fmt.Sprintf("%d blocks in the region", rg.nblk), problems...)
	}
	for _, a := range fieldAccesses {
		if a.write || !debugType[a.typ] {
			continue
		}
		r.Add("L2", fmt.Sprintf("%s: read of debug record %s", a.fn, shortVal(a.canon)), a.pos, a.inLog,
			"records of this type are only written when logging is enabled: a read outside a log region makes the result depend on the log flag")
	}
	debugOnly := map[string]bool{}
	for _, a := range mapAccesses {
		if a.write {
			if _, seen := debugOnly[a.field]; !seen {
				debugOnly[a.field] = true
			}
			if !a.inLog {
				debugOnly[a.field] = false
			}
		}
	}
	nDebugReads := 0
	for _, a := range mapAccesses {
		if a.write || !debugOnly[a.field] {
			continue
		}
		nDebugReads++
		r.Add("L2", fmt.Sprintf("%s: read of debug state %s", a.fn, shortVal(a.canon)), a.pos, a.inLog,
			"this map is only filled when logging is enabled: a read outside a log region makes the result depend on the log flag")
	}
	r.Add("L2", "reads of maps that are only filled by logging code examined", "", nDebugReads >= 2, fmt.Sprintf("%d reads", nDebugReads))
	r.Stats["log_regions"] = nRegions
	r.Floor("L2", 10)

	// ---- L3 / L4
	ap := mustInl(p, r, "L3", core.ModPath+".Apply")
	if ap == nil {
		return
	}
	reStore := regexp.MustCompile(`^store &new\(distiller\.Result\)\.(\w+) = (.*)$`)
	opts := core.DecisionOpts{
		Outcome: func(in ssa.Instruction, c *core.Canon) (string, bool) {
			if ret, ok := in.(*ssa.Return); ok {
				if core.IsNilConst(ret.Results[0]) {
					return "error", true
				}
				return "ok " + c.Of(ret.Results[0]), true
			}
			return "", false
		},
		Event: func(in ssa.Instruction, c *core.Canon) (string, bool) {
			if st, ok := in.(*ssa.Store); ok {
				s := "store " + c.Of(st.Addr) + " = " + c.Of(st.Val)
				if reStore.MatchString(s) {
					return s, true
				}
			}
			return "", false
		},
	}
	paths, atoms, err := core.EnumerateDecisions(p, ap, opts)
	if err != nil {
		r.Undecided("L3", "Apply", err.Error())
		return
	}
	o := `μ($1|new(distiller.Options))`
	atomSkip := o + `.SkipPagination`
	atomNoURL := o + `.OriginalURL == nil`
	atomNoHost := o + `.OriginalURL.Host == ""`
	wantAtoms := map[string]bool{
		`$0.Type == html.ElementNode`:      true,
		`$1 == nil`:                        true,
		`$0 == nil`:                        true, // no document at all: an error (C01-T12)
		`dom.QuerySelector($0,"*") == nil`: true,
		atomNoURL:                          true,
		o + `.PaginationAlgo == distiller.PageNumber`: true,
		atomSkip: true,
		// a page URL without a host is no address to look for neighbours of (C16-Q7)
		atomNoHost: true,
	}
	var extra []string
	for at := range atoms {
		if wantAtoms[at] || reRootFound.MatchString(at) || strings.Contains(at, "distiller.LogTiming") || strings.Contains(at, ".IsLogTiming(") || reLoopAtom.MatchString(at) || reErrMergeAtom.MatchString(at) {
			continue
		}
		extra = append(extra, at)
	}
	sort.Strings(extra)
	r.Add("L3", "Apply branches only on the documented conditions", p.Pos(ap.Pos()), len(extra) == 0 && atoms[atomSkip] && atoms[atomNoURL],
		fmt.Sprintf("unexpected conditions: %v", extra))
	fieldVals := map[string]map[string]bool{}
	seenV := map[string]*core.Obligation{}
	nOK := 0
	for _, pa := range paths {
		if !strings.Contains(pa.Outcome, "ok ") {
			continue
		}
		nOK++
		skip, noURL, noHost := 0, 0, 0
		for _, l := range pa.Lits {
			switch l.Atom {
			case atomSkip:
				skip = tern(l.Val)
			case atomNoURL:
				noURL = tern(l.Val)
			case atomNoHost:
				noHost = tern(l.Val)
			}
		}
		stores := map[string]string{}
		evs := strings.Split(strings.SplitN(pa.Outcome, " => ", 2)[0], "; ")
		for _, ev := range evs {
			if m := reStore.FindStringSubmatch(ev); m != nil {
				stores[m[1]] = m[2]
				if fieldVals[m[1]] == nil {
					fieldVals[m[1]] = map[string]bool{}
				}
				fieldVals[m[1]][m[2]] = true
			}
		}
		_, hasPag := stores["PaginationInfo"]
		wantPag := skip == -1 && noURL == -1 && noHost != 1
		if hasPag != wantPag {
			addOnce(r, seenV, "L3", "PaginationInfo is filled exactly when pagination is requested and a page URL is given", pa.Pos,
				fmt.Sprintf("SkipPagination=%s OriginalURL==nil=%s but PaginationInfo stored=%v", ternS(skip), ternS(noURL), hasPag), pa.String())
		}
		u, hasURL := stores["URL"]
		if hasURL != (noURL == -1) || (hasURL && u != "url.URL.String("+o+".OriginalURL)") {
			addOnce(r, seenV, "L4", "Result.URL is the supplied page URL (empty if none)", pa.Pos,
				fmt.Sprintf("OriginalURL==nil=%s, URL stored=%v value=%s", ternS(noURL), hasURL, u), pa.String())
		}
		for _, f := range []string{"Node", "Text", "WordCount", "Title", "ContentImages", "MarkupInfo", "TimingInfo"} {
			if _, ok := stores[f]; !ok {
				addOnce(r, seenV, "L3", "Result."+f+" is filled on every successful path", pa.Pos, "missing on a path", pa.String())
			}
		}
	}
	r.Add("L3", "successful paths of Apply examined", p.Pos(ap.Pos()), nOK >= 8, fmt.Sprintf("%d successful decision paths", nOK))
	var fields []string
	for f := range fieldVals {
		fields = append(fields, f)
	}
	sort.Strings(fields)
	for _, f := range fields {
		if f == "PaginationInfo" || f == "TimingInfo" {
			continue
		}
		var vals []string
		dep := false
		for v := range fieldVals[f] {
			vals = append(vals, v)
			if strings.Contains(v, "SkipPagination") || strings.Contains(v, "PaginationAlgo") || strings.Contains(v, "pagination.") {
				dep = true
			}
		}
		r.Add("L3", "Result."+f+" does not depend on the pagination options", p.Pos(ap.Pos()), !dep && len(vals) == 1, fmt.Sprintf("%d distinct source expressions", len(vals)))
	}
	r.Add("L3", "sanity: result fields are seen", p.Pos(ap.Pos()), len(fields) >= 9, fmt.Sprintf("%v", fields))
	// L5: the pagination finders only read what Apply hands them (document and page URL)
	nFind := 0
	seenFinder := map[*ssa.Function]bool{}
	for _, fc := range finderCalls(p, ap) {
		for _, callee := range fc.callees {
			if seenFinder[callee] {
				continue
			}
			seenFinder[callee] = true
			nFind++
			// parameters after the receiver: the document and the page URL
			for j := 1; j <= len(fc.args) && j < len(callee.Params); j++ {
				mods := a.ParamMods(callee, j, true)
				var fs []string
				for f := range mods {
					fs = append(fs, f)
				}
				sort.Strings(fs)
				r.Add("L5", fmt.Sprintf("%s leaves argument #%d untouched", core.ShortKey(callee), j), p.Pos(fc.call.Pos()), len(fs) == 0, fmt.Sprintf("fields written: %v", fs))
			}
		}
	}
	r.Add("L5", "both pagination finders are examined", p.Pos(ap.Pos()), nFind == 2, fmt.Sprintf("%d finders called from Apply", nFind))
	// L6: Result.URL is rendered from the caller's URL after extraction: it is the supplied URL only
	// if nothing below the entry points writes the Options or the URL they point to (the C10
	// result for these two regions, re-evaluated here)
	for _, e := range entryPoints {
		fn := p.Func(core.ModPath + "." + e.name)
		if fn == nil {
			continue
		}
		bind := map[int]int32{e.opts: a.CallerOpts}
		if e.doc >= 0 {
			bind[e.doc] = a.CallerDoc
		}
		var hits []string
		seenHit := map[string]bool{}
		for _, ef := range a.EntryEffects(fn, bind) {
			li := a.Label(ef.Target)
			if li.Kind != pea.KCaller || (li.Name != "CallerOpts" && li.Name != "CallerURL") {
				continue
			}
			h := fmt.Sprintf("%s of %s written by %s", ef.Field, li.Name, core.ShortKey(ef.Fn))
			if !seenHit[h] && len(hits) < 4 {
				seenHit[h] = true
				hits = append(hits, h+" ("+strings.Join(a.Chain(ef), " > ")+")")
			}
		}
		r.Add("L6", e.name+": the options and the page URL are only read", p.Pos(fn.Pos()), len(hits) == 0, strings.Join(hits, "; "))
	}

	// L7: "Result.URL is the supplied page URL": ApplyForURL is given the page URL as a string. The
	// URL it works with (and reports) must be that string parsed as a URL reference, fragment
	// included: url.ParseRequestURI is documented to assume a URL without fragment and takes
	// "#section" for a part of the path (http://h/a#b -> http://h/a%23b).
	checkApplyForURLParse(p, r, "L7")
	checkApplyForURLOptions(p, r, "L8")

	// the option fields are read only to steer
	for _, b := range ap.Blocks {
		for _, in := range b.Instrs {
			ld, ok := in.(*ssa.UnOp)
			if !ok || ld.Op != token.MUL {
				continue
			}
			fa, ok := ld.X.(*ssa.FieldAddr)
			if !ok {
				continue
			}
			name := core.NewCanon(p).Of(ld)
			if !strings.HasSuffix(name, ".SkipPagination") && !strings.HasSuffix(name, ".PaginationAlgo") {
				continue
			}
			_ = fa
			okUse := true
			for _, ref := range *ld.Referrers() {
				switch u := ref.(type) {
				case *ssa.If, *ssa.DebugRef:
				case *ssa.BinOp:
					for _, r2 := range *u.Referrers() {
						if _, isIf := r2.(*ssa.If); !isIf {
							if _, dbg := r2.(*ssa.DebugRef); !dbg {
								okUse = false
							}
						}
					}
				case *ssa.UnOp:
				default:
					okUse = false
				}
			}
			r.Add("L3", "pagination option "+name[strings.LastIndex(name, ".")+1:]+" only steers the pagination branch", p.Pos(ld.Pos()), okUse, "")
		}
	}
}

// addOnce records one violated obligation per (rule, key) and counts further occurrences.
func addOnce(r *core.Report, seen map[string]*core.Obligation, rule, key, pos, why, witness string) {
	if o, ok := seen[rule+key]; ok {
		if len(o.Witness) < 3 {
			o.Witness = append(o.Witness, witness)
		}
		o.Why = strings.SplitN(o.Why, " [", 2)[0] + fmt.Sprintf(" [and further paths]")
		return
	}
	seen[rule+key] = r.Add(rule, key, pos, false, why, witness)
}

func tern(b bool) int {
	if b {
		return 1
	}
	return -1
}

func ternS(t int) string {
	switch t {
	case 1:
		return "true"
	case -1:
		return "false"
	}
	return "undecided"
}

func blockDesc(p *core.Program, b *ssa.BasicBlock) string {
	return fmt.Sprintf("flag branch #%d", nthFlagBranch(b))
}

func blockPos(p *core.Program, b *ssa.BasicBlock) string {
	for i := len(b.Instrs) - 1; i >= 0; i-- {
		if b.Instrs[i].Pos().IsValid() {
			return p.Pos(b.Instrs[i].Pos())
		}
	}
	return "-"
}

// nthFlagBranch numbers the flag branches of a function in block order (stable construct key).
func nthFlagBranch(b *ssa.BasicBlock) int {
	n := 0
	for _, x := range b.Parent().Blocks {
		if len(x.Instrs) == 0 {
			continue
		}
		if ifi, ok := x.Instrs[len(x.Instrs)-1].(*ssa.If); ok {
			if isF, _ := flagTest(ifi.Cond); isF {
				n++
				if x == b {
					return n
				}
			}
		}
	}
	return n
}

// storeIsLocal: the address is a local/fresh object created inside the region (or a field/element of one).
func storeIsLocal(addr ssa.Value, inRegion func(ssa.Value) bool) bool {
	for i := 0; i < 8; i++ {
		switch x := addr.(type) {
		case *ssa.Alloc:
			return inRegion(x)
		case *ssa.FieldAddr:
			addr = x.X
		case *ssa.IndexAddr:
			addr = x.X
		case *ssa.Slice:
			addr = x.X
		case *ssa.MakeSlice:
			return inRegion(x)
		default:
			return false
		}
	}
	return false
}

// overwritesOutside follows the destination of an append/copy through merges and earlier appends:
// it returns the sliced storage when the destination is a re-slice of something that was not made
// inside the region (direct: the value itself counts, as for copy).
func overwritesOutside(v ssa.Value, direct bool, inRegion func(ssa.Value) bool, local func(ssa.Value, func(ssa.Value) bool) bool, seen map[ssa.Value]bool) ssa.Value {
	if seen[v] {
		return nil
	}
	seen[v] = true
	switch x := v.(type) {
	case *ssa.Const:
		return nil
	case *ssa.MakeSlice:
		if direct && !inRegion(x) {
			return x
		}
		return nil
	case *ssa.Phi:
		for _, e := range x.Edges {
			if w := overwritesOutside(e, direct, inRegion, local, seen); w != nil {
				return w
			}
		}
		return nil
	case *ssa.Slice:
		if al, ok := x.X.(*ssa.Alloc); ok {
			if inRegion(al) {
				return nil
			}
			return x.X
		}
		return overwritesOutside(x.X, true, inRegion, local, seen)
	case *ssa.Call:
		if b, ok := x.Call.Value.(*ssa.Builtin); ok && b.Name() == "append" && len(x.Call.Args) > 0 {
			return overwritesOutside(x.Call.Args[0], direct, inRegion, local, seen)
		}
		if direct && !inRegion(x) {
			return x
		}
		return nil
	case *ssa.UnOp:
		if direct && !local(x.X, inRegion) {
			return x
		}
		return nil
	default:
		if direct && !inRegion(v) {
			return v
		}
		return nil
	}
}

func isDebugMap(p *core.Program, m ssa.Value) bool {
	s := core.NewCanon(p).Of(m)
	return strings.Contains(s, ".linkDebugInfo") || strings.Contains(s, ".linkDebugMessages")
}

// rootOfValue strips conversions, slicing and interface wrapping from a container value.
func rootOfValue(v ssa.Value) ssa.Value {
	for i := 0; i < 12; i++ {
		switch x := v.(type) {
		case *ssa.MakeInterface:
			v = x.X
		case *ssa.ChangeType:
			v = x.X
		case *ssa.Convert:
			v = x.X
		case *ssa.Slice:
			v = x.X
		case *ssa.ChangeInterface:
			v = x.X
		case *ssa.UnOp:
			if x.Op != token.MUL {
				return v
			}
			v = x.X // a load: where the loaded place lives (a spilled local or parameter, a field)
		case *ssa.FieldAddr:
			v = x.X
		case *ssa.IndexAddr:
			v = x.X
		default:
			return v
		}
	}
	return v
}

// recordTypeOf: addr is the address of a field of a named struct type of the module (reached
// through a pointer, not a local of the function): the type's name, else "".
func recordTypeOf(addr ssa.Value) string {
	fa, ok := addr.(*ssa.FieldAddr)
	if !ok {
		return ""
	}
	if _, isLocal := fa.X.(*ssa.Alloc); isLocal {
		return ""
	}
	n := core.NamedOf(fa.X.Type())
	if n == nil || n.Obj().Pkg() == nil || !core.IsModPkg(n.Obj().Pkg().Path()) {
		return ""
	}
	return n.String()
}

// checkApplyForURLParse (L7 of C13, shared with C06-U7).
func checkApplyForURLParse(p *core.Program, r *core.Report, rule string) {
	if au := mustInl(p, r, rule, core.ModPath+".ApplyForURL"); au != nil {
		cn := core.NewCanon(p)
		n, bad := 0, ""
		for _, in := range instrsOf(au) {
			if st, ok := in.(*ssa.Store); ok && strings.HasSuffix(cn.Of(st.Addr), ".OriginalURL") {
				n++
				if v := cn.Of(st.Val); v != "url.Parse($0)#0" {
					bad = v
				}
			}
		}
		// ... and it is used as parsed: nothing in ApplyForURL writes a part of it
		for _, in := range instrsOf(au) {
			if st, ok := in.(*ssa.Store); ok && strings.Contains(cn.Of(st.Addr), "url.Parse($0)#0") && !strings.HasSuffix(cn.Of(st.Addr), ".OriginalURL") {
				bad = "store to " + cn.Of(st.Addr) + " at " + p.Pos(st.Pos())
			}
		}
		r.Add(rule, "ApplyForURL: the page URL is the supplied string parsed as a URL (fragment-aware)", p.Pos(au.Pos()), n >= 1 && bad == "", fmt.Sprintf("%d stores to OriginalURL; other value: %s", n, bad))
	}

}

// checkApplyForURLOptions (C13-L8): "options do only what they say" also for ApplyForURL: the
// options it hands on are a whole copy of the caller's (one struct copy, taken only when the
// caller gave some) in which nothing but OriginalURL is set afterwards - a copy made field by
// field silently loses every option it does not name.
func checkApplyForURLOptions(p *core.Program, r *core.Report, rule string) {
	au := mustInl(p, r, rule, core.ModPath+".ApplyForURL")
	if au == nil {
		return
	}
	cn := core.NewCanon(p)
	var local *ssa.Alloc
	for _, call := range core.Calls(au, func(ci ssa.CallInstruction) bool { return core.IsCallTo(ci, core.ModPath+".ApplyForReader") }) {
		if a, ok := core.StripConv(call.Common().Args[1]).(*ssa.Alloc); ok {
			local = a
		}
	}
	if local == nil {
		r.Add(rule, "ApplyForURL hands on a private copy of the caller's options", p.Pos(au.Pos()), false, "the options given to ApplyForReader are not a local value")
		return
	}
	whole, fields := 0, []string{}
	for _, in := range instrsOf(au) {
		st, ok := in.(*ssa.Store)
		if !ok {
			continue
		}
		if st.Addr == ssa.Value(local) {
			if cn.Of(st.Val) == "*$2" {
				whole++
			}
			continue
		}
		if fa, ok := st.Addr.(*ssa.FieldAddr); ok && fa.X == ssa.Value(local) {
			fields = append(fields, core.FieldNameOf(fa))
		}
	}
	sort.Strings(fields)
	r.Add(rule, "ApplyForURL hands on a whole copy of the caller's options with only OriginalURL replaced", p.Pos(au.Pos()),
		whole == 1 && len(fields) == 1 && fields[0] == "OriginalURL", fmt.Sprintf("%d whole-struct copies of *opts; fields set afterwards: %v", whole, fields))
}
