package props

import (
	"fmt"
	"go/types"
	"os"
	"regexp"
	"sort"
	"strings"

	"ddcheck/core"
	"ddcheck/pea"

	"golang.org/x/tools/go/ssa"
)

func init() { Registry["C11"] = C11 }

// mapRangeLoops finds `for k, v := range <map>` loops of fn: the Range instruction and the loop header.
type mapLoop struct {
	fn     *ssa.Function
	rng    *ssa.Range
	header *ssa.BasicBlock
}

func findMapLoops(fn *ssa.Function) []mapLoop {
	var out []mapLoop
	for _, b := range fn.Blocks {
		for _, in := range b.Instrs {
			rg, ok := in.(*ssa.Range)
			if !ok {
				continue
			}
			if _, isMap := rg.X.Type().Underlying().(*types.Map); !isMap {
				continue
			}
			// the header is the block holding the Next on this iterator
			for _, ref := range *rg.Referrers() {
				if nx, ok := ref.(*ssa.Next); ok {
					out = append(out, mapLoop{fn, rg, nx.Block()})
				}
			}
		}
	}
	return out
}

// C11: the result is a deterministic function of document and options.
func C11(p *core.Program, r *core.Report) {
	r.Explanation = "D1: every `range` over a map in module code is enumerated; its body is extracted as the transition of one iteration (events: stores to non-local memory, map updates, effectful calls; outcomes: continue / return) and classified automatically as order-insensitive: (a) only inserts into other maps / set-insert helpers, (b) a pure for-all/exists scan whose early returns all yield the same constant, (c) collect-then-sort; anything else must be listed in the reviewed table with a reason, and the two reviewed entries that rely on a lemma have that lemma checked (single plain number scan before the arg-max in isPageNumberSequence; the only consumer of RelevantTagNames inserts into a set). D2: no other source of nondeterminism in module code: no goroutines/select, no math/rand, crypto/rand, environment or pointer formatting; values derived from time.Now/time.Since flow only into TimingInfo fields, AddEntry and timing log calls. D3: no state survives a call (effect analysis: no writes to package-level state, see C12). D4: ApplyForReader returns exactly Apply(dom.Parse(r), opts) or the parse error, ApplyForFile exactly ApplyForReader(file, opts) or the open error (decision-list conformance). D5: the third-party code reachable from Apply/ApplyForReader/ApplyForFile (neither module nor standard library) contains no go statement or select (one known finding: the charset guesser of dom.Parse). D3 also: module code does not fill sync.Map/sync.Pool or bump atomic counters (the effects analysis trusts those containers for C12, but what is put into one survives the call)."
	r.NotCovered = "determinism of third-party code and the standard library (trusted), map ranges inside third-party packages, floating point; the tie-break between equally good pagination patterns (reviewed exception, not proven order-independent)."

	// ---- D1
	nLoops := 0
	for _, fn := range units(p) {
		for _, ml := range findMapLoops(fn) {
			nLoops++
			c := core.NewCanon(p)
			key := fmt.Sprintf("%s: range %s", unitName(p, fn), c.Of(ml.rng.X))
			class, why := classifyMapLoop(p, ml)
			r.Add("D1", key, p.Pos(ml.rng.Pos()), class != "", strings.TrimSpace(class+" "+why))
		}
	}
	r.Stats["map_range_loops"] = nLoops
	r.Floor("D1", 12)
	d1Lemmas(p, r)

	// ---- D2
	checkNondeterminismSources(p, r, "D2")

	// ---- D5: the same for the third-party code the entry points run (everything reachable from
	// Apply/ApplyForReader/ApplyForFile that is neither module nor standard library): a goroutine
	// or a select there makes the answer depend on the scheduler like one in module code would
	{
		var roots []*ssa.Function
		for _, n := range []string{"Apply", "ApplyForReader", "ApplyForFile"} {
			if f := p.Func(core.ModPath + "." + n); f != nil {
				roots = append(roots, f)
			}
		}
		reach := p.ReachableFrom(roots...)
		var fns []*ssa.Function
		for f := range reach {
			pp := core.FnPkgPath(f)
			first := pp
			if i := strings.Index(pp, "/"); i >= 0 {
				first = pp[:i]
			}
			if pp == "" || core.IsModPkg(pp) || !strings.Contains(first, ".") || strings.HasPrefix(pp, "golang.org/x/tools") {
				continue
			}
			fns = append(fns, f)
		}
		sort.Slice(fns, func(i, j int) bool { return fns[i].String() < fns[j].String() })
		nDep := 0
		seenDep := map[string]bool{}
		for _, f := range fns {
			nDep++
			for _, b := range f.Blocks {
				for _, in := range b.Instrs {
					what := ""
					switch in.(type) {
					case *ssa.Go:
						what = "go statement"
					case *ssa.Select:
						what = "select"
					}
					owner := f
					for owner.Parent() != nil {
						owner = owner.Parent()
					}
					key := "dependency code run by the entry points: " + what + " in " + owner.String()
					if what == "" || seenDep[key] {
						continue
					}
					seenDep[key] = true
					r.Add("D5", key, p.Pos(in.Pos()), false, "goroutine scheduling / channel readiness decides what this code answers first")
				}
			}
		}
		r.Add("D5", "third-party functions reachable from Apply/ApplyForReader/ApplyForFile examined", "", nDep >= 50, fmt.Sprintf("%d functions", nDep))
		r.Stats["dependency_functions_reachable"] = nDep
	}

	// ---- D3
	a := runPEA(p)
	peaStats(r, a)
	gw := globalWrites(p, a)
	bad := 0
	var first *pea.Effect
	var firstKey string
	for k, ef := range gw {
		if !ef.Once {
			bad++
			if first == nil || k < firstKey {
				first, firstKey = ef, k
			}
		}
	}
	if bad == 0 {
		r.Add("D3", "no state survives a call (no write to package-level state from the entry points)", "", true, fmt.Sprintf("%d once-guarded initialisations only", len(gw)))
	} else {
		r.Add("D3", "state survives a call: "+firstKey, p.Pos(first.Pos), false, fmt.Sprintf("%d writes to package-level state; an earlier call can influence a later one (details: check C12)", bad), a.Chain(first)...)
	}

	// D3 also: the effects analysis trusts the synchronised containers of the standard library
	// to be safe for concurrent use (C12) - but what is put into one is state that survives a
	// call all the same: module code does not fill sync.Map / sync.Pool or bump atomic counters
	{
		mut := map[string]bool{"Store": true, "LoadOrStore": true, "LoadAndDelete": true, "Delete": true, "Swap": true, "CompareAndSwap": true, "CompareAndDelete": true, "Clear": true, "Put": true, "Add": true, "And": true, "Or": true}
		n := 0
		for _, fn := range p.ModFunctions(false) {
			for _, call := range core.Calls(fn, func(ci ssa.CallInstruction) bool {
				f := core.Callee(ci)
				if f == nil {
					return false
				}
				switch core.FnPkgPath(f) {
				case "sync":
					rt := ""
					if f.Signature.Recv() != nil {
						rt = f.Signature.Recv().Type().String()
					}
					return (strings.Contains(rt, "sync.Map") || strings.Contains(rt, "sync.Pool")) && mut[f.Name()]
				case "sync/atomic":
					nm := f.Name()
					return mut[nm] || strings.HasPrefix(nm, "Add") || strings.HasPrefix(nm, "Store") || strings.HasPrefix(nm, "Swap") || strings.HasPrefix(nm, "CompareAndSwap") || strings.HasPrefix(nm, "And") || strings.HasPrefix(nm, "Or")
				}
				return false
			}) {
				n++
				r.Add("D3", "state survives a call: "+core.ShortKey(fn)+" fills a synchronised container or counter ("+core.Callee(call).String()+")", p.Pos(call.Pos()), false, "what one call stores there a later call can read: the result would depend on the calls made before")
			}
		}
		r.Add("D3", "module code does not fill synchronised containers or atomic counters", "", n == 0, fmt.Sprintf("%d uses", n))
	}

	// D3b: a call must not change its own inputs either (a later call with the same objects would
	// see a different document / page URL)
	for _, e := range entryPoints {
		fn := p.Func(core.ModPath + "." + e.name)
		if fn == nil {
			continue
		}
		bind := map[int]int32{e.opts: a.CallerOpts}
		if e.doc >= 0 {
			bind[e.doc] = a.CallerDoc
		}
		var firstC *pea.Effect
		n := 0
		for _, ef := range a.EntryEffects(fn, bind) {
			if a.Label(ef.Target).Kind == pea.KCaller {
				n++
				if firstC == nil || len(a.Chain(ef)) < len(a.Chain(firstC)) {
					firstC = ef
				}
			}
		}
		if n == 0 {
			r.Add("D3", e.name+": inputs are left unchanged for later calls", p.Pos(fn.Pos()), true, "no effect on caller-owned memory (see C10)")
		} else {
			r.Add("D3", e.name+": a call changes its own inputs", p.Pos(firstC.Pos), false, fmt.Sprintf("%d effects on caller-owned memory: repeating the call with the same objects can give a different result (details: check C10)", n), a.Chain(firstC)...)
		}
	}

	// ---- D4
	retSpec := func(fnKey string, errAtom, errOutcome, okOutcome string) {
		fn := mustInl(p, r, "D4", fnKey)
		if fn == nil {
			return
		}
		paths, atoms, err := core.EnumerateDecisions(p, fn, core.DecisionOpts{Outcome: func(in ssa.Instruction, c *core.Canon) (string, bool) {
			if ret, ok := in.(*ssa.Return); ok {
				var s []string
				for _, x := range ret.Results {
					s = append(s, c.Of(x))
				}
				return "return " + strings.Join(s, " , "), true
			}
			return "", false
		}})
		if err != nil {
			r.Undecided("D4", fnKey, err.Error())
			return
		}
		spec := core.DecisionSpec{
			Atoms: map[string]string{"failed": q(errAtom)},
			Rules: []core.SpecRule{
				{Name: "input cannot be opened/parsed: error", Guard: core.Not(core.A("failed")), Outcome: errOutcome},
				{Name: "otherwise: delegate", Guard: core.True(), Outcome: okOutcome},
			},
		}
		short := fnKey[strings.LastIndex(fnKey, ".")+1:]
		core.CheckDecisionList(r, "D4", short, paths, atoms, spec)
		r.Add("D4", short+" has no other branch", p.Pos(fn.Pos()), len(atoms) == 1, fmt.Sprintf("%v", keys(atoms)))
		// no other module call and no store
		for _, b := range fn.Blocks {
			for _, in := range b.Instrs {
				if st, ok := in.(*ssa.Store); ok {
					if !storeIsLocal(st.Addr, func(ssa.Value) bool { return true }) {
						r.Add("D4", short+": no stores besides locals", p.Pos(st.Pos()), false, core.NewCanon(p).Of(st.Addr))
					}
				}
			}
		}
	}
	retSpec(core.ModPath+".ApplyForReader", `dom.Parse($0)#1 == nil`, `return nil , dom.Parse($0)#1`, `return go-domdistiller.Apply(dom.Parse($0)#0,$1)#0 , go-domdistiller.Apply(dom.Parse($0)#0,$1)#1`)
	retSpec(core.ModPath+".ApplyForFile", `os.Open($0)#1 == nil`, `return nil , fmt.Errorf("failed to open file: %v",{os.Open($0)#1})`, `return go-domdistiller.ApplyForReader(os.Open($0)#0,$1)#0 , go-domdistiller.ApplyForReader(os.Open($0)#0,$1)#1`)
}

func nthCall(fn *ssa.Function, target ssa.Instruction, prefix string) int {
	n := 0
	for _, b := range fn.Blocks {
		for _, in := range b.Instrs {
			if c, ok := in.(ssa.CallInstruction); ok {
				if f := core.Callee(c); f != nil && strings.HasPrefix(f.String(), prefix) {
					n++
					if in == target {
						return n
					}
				}
			}
		}
	}
	return n
}

// timeLeaks follows a clock-derived value and returns uses that are not timing sinks.
func timeLeaks(p *core.Program, v ssa.Value) []string {
	var bad []string
	seen := map[ssa.Value]bool{}
	var follow func(x ssa.Value)
	follow = func(x ssa.Value) {
		if seen[x] {
			return
		}
		seen[x] = true
		refs := x.Referrers()
		if refs == nil {
			return
		}
		for _, ref := range *refs {
			switch u := ref.(type) {
			case *ssa.DebugRef:
			case *ssa.Phi:
				follow(u)
			case *ssa.Extract:
				follow(u)
			case *ssa.MakeInterface:
				follow(u)
			case *ssa.ChangeType:
				follow(u)
			case *ssa.Convert:
				follow(u)
			case *ssa.Store:
				if u.Val != x {
					continue
				}
				// into a field of TimingInfo / TimingEntry, or a local that is followed through its loads
				c := core.NewCanon(p).Of(u.Addr)
				if strings.Contains(c, "TimingInfo") || strings.Contains(c, "TimingEntry") || strings.Contains(c, ".MarkupParsingTime") || strings.Contains(c, "Time") && strings.Contains(c, "imingInfo") {
					continue
				}
				if al, ok := u.Addr.(*ssa.Alloc); ok {
					for _, r2 := range *al.Referrers() {
						if ld, ok := r2.(*ssa.UnOp); ok {
							follow(ld)
						}
					}
					continue
				}
				if ia, ok := u.Addr.(*ssa.IndexAddr); ok {
					// varargs array of a log call
					if al, ok := ia.X.(*ssa.Alloc); ok {
						follow(al)
						for _, r2 := range *al.Referrers() {
							if sl, ok := r2.(*ssa.Slice); ok {
								follow(sl)
							}
						}
						continue
					}
				}
				bad = append(bad, "stored to "+c+" at "+p.Pos(u.Pos()))
			case ssa.CallInstruction:
				name := core.CalleeKey(u)
				okSink := strings.HasSuffix(name, ".AddEntry") || strings.Contains(name, "time.Time).Sub") || name == "time.Since" ||
					strings.Contains(name, "PrintTimingInfo") || strings.Contains(name, ".PrintTimingInfo")
				if okSink {
					if val, isVal := ref.(ssa.Value); isVal && (strings.Contains(name, ".Sub") || name == "time.Since") {
						follow(val)
					}
					continue
				}
				bad = append(bad, "passed to "+name+" at "+p.Pos(ref.Pos()))
			case *ssa.FieldAddr, *ssa.IndexAddr, *ssa.Slice:
				if val, ok := ref.(ssa.Value); ok {
					follow(val)
				}
			case *ssa.BinOp, *ssa.If, *ssa.Return, *ssa.MapUpdate:
				bad = append(bad, fmt.Sprintf("%T at %s", ref, p.Pos(ref.Pos())))
			}
		}
	}
	follow(v)
	sort.Strings(bad)
	return bad
}

var setInsertHelpers = regexp.MustCompile(`webdoc\.(TextBlock\.AddLabels|Text\.AddLabel)\(`)

// classifyMapLoop returns a non-empty class name when the loop is order-insensitive by construction.
func classifyMapLoop(p *core.Program, ml mapLoop) (class, why string) {
	fn := ml.fn
	opts := core.DecisionOpts{
		IterateAt:   ml.header,
		ExitOutcome: "exit",
		Outcome: func(in ssa.Instruction, c *core.Canon) (string, bool) {
			if ret, ok := in.(*ssa.Return); ok {
				var s []string
				for _, x := range ret.Results {
					s = append(s, c.Of(x))
				}
				return "return " + strings.Join(s, ","), true
			}
			return "", false
		},
		Event: func(in ssa.Instruction, c *core.Canon) (string, bool) {
			switch x := in.(type) {
			case *ssa.MapUpdate:
				return "mapinsert " + c.Of(x.Map), true
			case *ssa.Store:
				if _, isAlloc := x.Addr.(*ssa.Alloc); isAlloc {
					return "", false
				}
				if ia, ok := x.Addr.(*ssa.IndexAddr); ok {
					if _, isAlloc := ia.X.(*ssa.Alloc); isAlloc {
						return "", false // varargs array
					}
				}
				return "store " + c.Of(x.Addr), true
			case *ssa.Call:
				if b, ok := x.Call.Value.(*ssa.Builtin); ok {
					if b.Name() == "append" {
						return "append " + c.Of(x.Call.Args[0]), true
					}
					return "", false
				}
				s := c.Of(x)
				if setInsertHelpers.MatchString(s) {
					return "setinsert", true
				}
				f := x.Call.StaticCallee()
				if f != nil && core.IsStdPkg(core.FnPkgPath(f)) && !strings.HasPrefix(f.String(), "sort.") {
					return "", false // pure helpers of the standard library (strconv, strings, ...)
				}
				return "call " + s, true
			}
			return "", false
		},
	}
	paths, _, err := core.EnumerateDecisions(p, fn, opts)
	if err != nil || len(paths) == 0 {
		return "", "could not extract the loop body"
	}
	evKinds := map[string]bool{}
	rets := map[string]bool{}
	var appends []string
	for _, pa := range paths {
		parts := strings.SplitN(pa.Outcome, " => ", 2)
		final := parts[len(parts)-1]
		if len(parts) == 2 {
			for _, ev := range strings.Split(parts[0], "; ") {
				k := strings.SplitN(ev, " ", 2)[0]
				evKinds[k] = true
				if k == "append" {
					appends = append(appends, strings.TrimPrefix(ev, "append "))
				}
				if k == "call" {
					evKinds["call:"+ev] = true
				}
			}
		}
		if strings.HasPrefix(final, "return") || final == "exit" {
			rets[final] = true // "exit": a break that continues behind the loop
		}
	}
	onlyKinds := func(allowed ...string) bool {
		for k := range evKinds {
			if strings.HasPrefix(k, "call:") {
				continue
			}
			ok := false
			for _, a := range allowed {
				if k == a {
					ok = true
				}
			}
			if !ok {
				return false
			}
		}
		return true
	}
	// values carried from one iteration to the next: only order-insensitive accumulations are
	// accepted automatically (a boolean set to a constant, an integer sum); a maximum with its
	// position, a concatenation, "the last one seen" depend on the iteration order
	acc, collectors := orderSensitiveAccumulators(ml)
	if len(acc) > 0 {
		return "", fmt.Sprintf("order-sensitive shape: the loop carries %v from one iteration to the next - list it in rules/exceptions.json with the reason it is benign, or iterate in sorted key order", acc)
	}
	// (a) only inserts into other maps / sets
	if len(collectors) == 0 && len(rets) == 0 && len(evKinds) > 0 && onlyKinds("mapinsert", "setinsert") {
		return "(a) body only inserts into another map or set", ""
	}
	// (b) pure scan with a single early-return constant
	if len(evKinds) == 0 && len(collectors) == 0 {
		if len(rets) == 0 {
			return "(b) pure loop without effects or exits", ""
		}
		if len(rets) == 1 {
			for rv := range rets {
				if regexp.MustCompile(`^return (true|false|nil|"[^"]*"|-?\d+)$`).MatchString(rv) {
					return "(b) for-all/exists scan: the only early exit returns the constant " + strings.TrimPrefix(rv, "return "), ""
				}
			}
		}
	}
	// (c) collect then sort
	if len(rets) == 0 && onlyKinds("append") && len(appends) > 0 {
		c := core.NewCanon(p)
		for _, b := range fn.Blocks {
			for _, in := range b.Instrs {
				if call, ok := in.(*ssa.Call); ok {
					if f := call.Call.StaticCallee(); f != nil && strings.HasPrefix(f.String(), "sort.") && len(call.Call.Args) > 0 {
						sorted := c.Of(call.Call.Args[0])
						for _, ap := range appends {
							if sorted == ap || strings.Contains(sorted, "append(") {
								return "(c) collected keys are sorted before use (" + f.String() + ")", ""
							}
						}
					}
				}
			}
		}
	}
	var ks []string
	for k := range evKinds {
		if !strings.HasPrefix(k, "call:") {
			ks = append(ks, k)
		}
	}
	sort.Strings(ks)
	var rs []string
	for k := range rets {
		rs = append(rs, k)
	}
	sort.Strings(rs)
	return "", fmt.Sprintf("order-sensitive shape: effects %v, early exits %v - list it in rules/exceptions.json with the reason it is benign, or iterate in sorted key order", ks, rs)
}

// loopAccumulators returns the header phis of the map-range loop that are updated inside it.
func loopAccumulators(ml mapLoop) []*ssa.Phi {
	var out []*ssa.Phi
	var lp *core.Loop
	loops, _ := core.NaturalLoops(ml.fn)
	for _, l := range loops {
		if l.Header == ml.header {
			lp = l
		}
	}
	if lp == nil {
		return nil
	}
	for _, in := range ml.header.Instrs {
		ph, ok := in.(*ssa.Phi)
		if !ok {
			break
		}
		upd := false
		for i, pred := range ml.header.Preds {
			if lp.Body[pred] && ph.Edges[i] != ssa.Value(ph) {
				upd = true
			}
		}
		if upd {
			out = append(out, ph)
		}
	}
	return out
}

// orderSensitiveAccumulators: loop-carried values whose final value may depend on the order of
// the iterations.
func orderSensitiveAccumulators(ml mapLoop) (out []string, collectors []string) {
	var lp *core.Loop
	loops, _ := core.NaturalLoops(ml.fn)
	for _, l := range loops {
		if l.Header == ml.header {
			lp = l
		}
	}
	for _, ph := range loopAccumulators(ml) {
		ok := true
		for i, pred := range ml.header.Preds {
			if lp == nil || !lp.Body[pred] {
				continue
			}
			if !commutativeUpdate(ph.Edges[i], ph, lp, map[ssa.Value]bool{}) {
				ok = false
			}
		}
		if !ok {
			name := ph.Comment
			if name == "" {
				name = ph.Name()
			}
			// a slice that only grows by append: the elements are collected in iteration order;
			// acceptable only if the collection is sorted afterwards (class c)
			isCollector := true
			for i, pred := range ml.header.Preds {
				if lp == nil || !lp.Body[pred] {
					continue
				}
				if !appendUpdate(ph.Edges[i], ph, lp, map[ssa.Value]bool{}) {
					isCollector = false
				}
			}
			if isCollector {
				collectors = append(collectors, name)
				continue
			}
			out = append(out, name+" ("+ph.Type().String()+")")
		}
	}
	sort.Strings(out)
	return out, collectors
}

func appendUpdate(v ssa.Value, ph *ssa.Phi, lp *core.Loop, seen map[ssa.Value]bool) bool {
	if v == ssa.Value(ph) || seen[v] {
		return true
	}
	seen[v] = true
	switch x := v.(type) {
	case *ssa.Phi:
		if !lp.Body[x.Block()] {
			return false
		}
		for _, e := range x.Edges {
			if !appendUpdate(e, ph, lp, seen) {
				return false
			}
		}
		return true
	case *ssa.Call:
		if b, ok := x.Call.Value.(*ssa.Builtin); ok && b.Name() == "append" {
			return appendUpdate(x.Call.Args[0], ph, lp, seen)
		}
	}
	return false
}

// commutativeUpdate: v is ph itself, a boolean/numeric constant assigned to a boolean flag, or
// ph plus an integer (sum), through phis inside the loop.
func commutativeUpdate(v ssa.Value, ph *ssa.Phi, lp *core.Loop, seen map[ssa.Value]bool) bool {
	if v == ssa.Value(ph) || seen[v] {
		return true
	}
	seen[v] = true
	switch x := v.(type) {
	case *ssa.Const:
		_, isBool := core.ConstBool(x)
		return isBool
	case *ssa.Phi:
		if !lp.Body[x.Block()] {
			return false
		}
		for _, e := range x.Edges {
			if !commutativeUpdate(e, ph, lp, seen) {
				return false
			}
		}
		return true
	case *ssa.BinOp:
		if x.Op.String() == "+" {
			if bt, ok := x.Type().Underlying().(*types.Basic); ok && bt.Info()&types.IsInteger != 0 {
				return commutativeUpdate(x.X, ph, lp, seen) || commutativeUpdate(x.Y, ph, lp, seen)
			}
		}
	}
	return false
}

// d1Lemmas checks the facts that the reviewed D1 exceptions rely on.
func d1Lemmas(p *core.Program, r *core.Report) {
	// ListLinkInfo.Evaluate (with the page-number-sequence test expanded): the arg-max over the
	// map of consecutive runs can only influence `nEmptyURL <= 1`, which holds anyway because an
	// earlier scan rejects a second number without URL.
	if fn := mustInl(p, r, "D1-lemma", "(mod/internal/pagination/info.ListLinkInfo).Evaluate"); fn != nil {
		ok := false
		desc := "no loop of Evaluate rejects a second page number without URL"
		for _, h := range loopHeaders(fn) {
			paths, _, _ := core.EnumerateDecisions(p, fn, core.DecisionOpts{IterateAt: h, ExitOutcome: "exit", Outcome: func(in ssa.Instruction, c *core.Canon) (string, bool) {
				if ret, ok := in.(*ssa.Return); ok {
					return "return " + c.Of(ret.Results[0]), true
				}
				return "", false
			}})
			for _, pa := range paths {
				if os.Getenv("DDDEBUG") != "" {
					fmt.Println("LEMMA1", pa.String())
				}
				hasEmpty, hasState := false, false
				for _, l := range pa.Lits {
					if strings.HasSuffix(l.Atom, `.URL == ""`) && l.Val {
						hasEmpty = true
					}
					if regexp.MustCompile(`^state\d+$`).MatchString(l.Atom) && l.Val {
						hasState = true
					}
				}
				if hasEmpty && hasState && (pa.Outcome == "return false" || pa.Outcome == "return nil") {
					ok = true
					desc = pa.String()
				}
			}
		}
		r.Add("D1-lemma", "Evaluate rejects a list with a second number without URL before choosing the longest run", p.Pos(fn.Pos()), ok, desc)
		// and the chosen run is used for nothing but sub-slicing the list and comparisons `<= 1`
		nAcc := 0
		for _, ml := range findMapLoops(fn) {
			for _, ph := range loopAccumulators(ml) {
				nAcc++
				if leak := orderLeak(ph); leak != "" {
					r.Add("D1-lemma", "Evaluate: the order-dependent choice of the longest run feeds only `<= 1` tests", p.Pos(ml.rng.Pos()), false, leak)
				}
			}
		}
		r.Add("D1-lemma", "Evaluate: order-dependent accumulators of the longest-run search examined", p.Pos(fn.Pos()), nAcc >= 1, fmt.Sprintf("%d loop-carried values (a plain maximum is commutative; start and end of the run are the order-dependent ones)", nAcc))
	}
	// newDetectionStateFromMonotonicNumbers: the candidates are visited in map order; this is only
	// tolerable if evaluating one candidate cannot change what the next one sees.
	if ev := mustInl(p, r, "D1-lemma", "(mod/internal/pagination/info.ListLinkInfo).Evaluate"); ev != nil {
		a := runPEA(p)
		fw := a.FieldWrites(ev)
		var fs []string
		for f := range fw {
			// PageNumbersState / PageParamInfo / LinearFormula objects are created during the
			// evaluation itself; the shared inputs are the PageInfo and PageLinkInfo records
			if strings.Contains(f, "info.PageInfo.") || strings.Contains(f, "info.PageLinkInfo.") || strings.Contains(f, "PageInfoGroup") {
				fs = append(fs, f)
			}
		}
		sort.Strings(fs)
		var mods []string
		for _, ef := range a.TrackedMods(ev) {
			mods = append(mods, ef.Kind+" "+ef.Field)
		}
		r.Add("D1-lemma", "evaluating a pagination candidate does not modify the shared number list (or anything else)", p.Pos(ev.Pos()), len(fs) == 0 && len(mods) == 0,
			fmt.Sprintf("fields of pre-existing objects written by Evaluate and its callees: %v; other effects: %v", fs, mods))
	}
	// RelevantTagNames: the only consumer ranges over the result and inserts into a set
	if fn := mustInl(p, r, "D1-lemma", "mod/internal/converter.NewDomConverter"); fn != nil {
		calls := core.Calls(fn, func(ci ssa.CallInstruction) bool { return core.IsCallTo(ci, "iface:RelevantTagNames") })
		okAll := len(calls) == 1
		desc := fmt.Sprintf("%d calls in NewDomConverter", len(calls))
		for _, call := range calls {
			v := call.(ssa.Value)
			for _, ref := range *v.Referrers() {
				switch u := ref.(type) {
				case *ssa.DebugRef:
				case *ssa.Call:
					if b, ok := u.Call.Value.(*ssa.Builtin); !ok || b.Name() != "len" {
						okAll = false
					}
				case *ssa.IndexAddr:
					for _, r2 := range *u.Referrers() {
						ld, ok := r2.(*ssa.UnOp)
						if !ok {
							okAll = false
							continue
						}
						for _, r3 := range *ld.Referrers() {
							// used as a key only (an insertion, or the look-up of that key's own entry
							// before it is replaced): entries of different keys do not influence each other
							switch u3 := r3.(type) {
							case *ssa.MapUpdate:
								if u3.Key != ssa.Value(ld) {
									okAll = false
								}
							case *ssa.Lookup:
								if u3.Index != ssa.Value(ld) {
									okAll = false
								}
							case *ssa.DebugRef:
							default:
								okAll = false
							}
						}
					}
				default:
					okAll = false
				}
			}
		}
		// no other caller in the module
		n := 0
		for _, f2 := range p.ModFunctions(false) {
			n += len(core.Calls(f2, func(ci ssa.CallInstruction) bool { return core.IsCallTo(ci, "iface:RelevantTagNames") }))
			for _, s := range []string{"ImageExtractor", "TwitterExtractor", "VimeoExtractor", "YouTubeExtractor"} {
				n += len(core.Calls(f2, func(ci ssa.CallInstruction) bool {
					return core.IsCallTo(ci, "(*mod/internal/extractor/embed."+s+").RelevantTagNames")
				}))
			}
		}
		r.Add("D1-lemma", "RelevantTagNames: its map-ordered result is only used as map key", p.Pos(fn.Pos()), okAll && n == 1, fmt.Sprintf("%s; %d call sites in the module", desc, n))
	}
}

// orderLeak checks how the (order-dependent) result of the longest-run search is used after the
// loop. Accepted: comparisons with the constants 0/1, and use as a bound of a sub-slice of a list,
// provided that sub-slice is only read (len, element loads, comparisons) and the loops reading it
// carry nothing but their index and integer counters whose values are, in turn, only compared with
// 0/1. Anything else (a store, a call argument, a return, another computation) is a leak: a place
// where the iteration order of the map could become visible.
func orderLeak(start *ssa.Phi) string {
	fn := start.Parent()
	loops, _ := core.NaturalLoops(fn)
	bodyOf := func(h *ssa.BasicBlock) map[*ssa.BasicBlock]bool {
		for _, l := range loops {
			if l.Header == h {
				return l.Body
			}
		}
		return nil
	}
	search := bodyOf(start.Block())
	canon := core.NewCanon(nil)
	reCmp01 := regexp.MustCompile(` (<=|==) (0|1)$`)
	cmp01 := func(b *ssa.BinOp, v ssa.Value) bool {
		switch b.Op.String() {
		case "<", "<=", ">", ">=", "==", "!=":
			// in normal form (x < 2 is x <= 1) the value is compared with the constant 0 or 1
			atom, _ := canon.CondAtom(b)
			return reCmp01.MatchString(atom)
		}
		return false
	}
	// read-only use of a slice value; collects the loops in which it is read
	readLoops := map[*ssa.BasicBlock]bool{}
	var readOnly func(v ssa.Value, seen map[ssa.Value]bool) string
	readOnly = func(v ssa.Value, seen map[ssa.Value]bool) string {
		if seen[v] {
			return ""
		}
		seen[v] = true
		refs := v.Referrers()
		if refs == nil {
			return ""
		}
		for _, ref := range *refs {
			for _, l := range loops {
				if l.Body[ref.Block()] {
					readLoops[l.Header] = true
				}
			}
			switch x := ref.(type) {
			case *ssa.DebugRef, *ssa.If:
			case *ssa.Call:
				if b, ok := x.Call.Value.(*ssa.Builtin); !ok || (b.Name() != "len" && b.Name() != "cap") {
					return "the chosen sub-list is passed to " + x.String()
				}
				if s := readOnly(x, seen); s != "" {
					return s
				}
			case *ssa.IndexAddr, *ssa.Index, *ssa.FieldAddr, *ssa.Field, *ssa.BinOp, *ssa.Range, *ssa.Next, *ssa.Extract:
				if s := readOnly(x.(ssa.Value), seen); s != "" {
					return s
				}
			case *ssa.UnOp:
				if s := readOnly(x, seen); s != "" {
					return s
				}
			default:
				return fmt.Sprintf("the chosen sub-list is used by %T (%s)", ref, ref.String())
			}
		}
		return ""
	}
	refs := start.Referrers()
	if refs == nil {
		return ""
	}
	// an index that walks the chosen run: a header phi of another loop that starts at a result of
	// the search and is advanced by a constant (for i := start; i < end; i++)
	isRunIndex := func(v ssa.Value) (*ssa.Phi, bool) {
		ph, ok := v.(*ssa.Phi)
		if !ok || search[ph.Block()] || bodyOf(ph.Block()) == nil {
			return nil, false
		}
		fromSearch, stepped := false, false
		for _, e := range ph.Edges {
			if ep, ok := e.(*ssa.Phi); ok && ep.Block() == start.Block() {
				fromSearch = true
				continue
			}
			if b, ok := e.(*ssa.BinOp); ok && b.Op.String() == "+" && b.X == ssa.Value(ph) {
				if _, isC := b.Y.(*ssa.Const); isC {
					stepped = true
					continue
				}
			}
			return nil, false
		}
		return ph, fromSearch && stepped
	}
	// uses of such an index: its own step, the loop test against another result of the search,
	// and reading elements of a list
	indexUses := func(ix *ssa.Phi) string {
		readLoops[ix.Block()] = true
		if ix.Referrers() == nil {
			return ""
		}
		for _, u := range *ix.Referrers() {
			switch y := u.(type) {
			case *ssa.DebugRef:
			case *ssa.BinOp:
				if y.Op.String() == "+" && y.X == ssa.Value(ix) {
					continue
				}
				other := y.X
				if other == ssa.Value(ix) {
					other = y.Y
				}
				if op, ok := other.(*ssa.Phi); ok && op.Block() == start.Block() && y.Block() == ix.Block() {
					continue // i < end
				}
				return "the index over the chosen run is used in " + y.String()
			case *ssa.IndexAddr:
				if y.Index != ssa.Value(ix) {
					return "the index over the chosen run is used by " + y.String()
				}
				if s := readOnly(y, map[ssa.Value]bool{}); s != "" {
					return s
				}
			case *ssa.Index:
				if s := readOnly(y, map[ssa.Value]bool{}); s != "" {
					return s
				}
			default:
				return fmt.Sprintf("the index over the chosen run is used by %T (%s)", u, u.String())
			}
		}
		return ""
	}
	for _, ref := range *refs {
		if search[ref.Block()] {
			continue // part of the search itself
		}
		switch x := ref.(type) {
		case *ssa.DebugRef:
		case *ssa.Phi:
			ix, ok := isRunIndex(x)
			if !ok {
				return "used by " + x.String()
			}
			if s := indexUses(ix); s != "" {
				return s
			}
		case *ssa.BinOp:
			other := x.X
			if other == ssa.Value(start) {
				other = x.Y
			}
			if ix, ok := isRunIndex(other); ok && x.Block() == ix.Block() {
				continue // the loop test i < end of a walk over the chosen run (the walk itself is judged at its index)
			}
			if !cmp01(x, start) {
				return "used in " + x.String()
			}
		case *ssa.Slice:
			if x.Low != ssa.Value(start) && x.High != ssa.Value(start) {
				return "sliced: " + x.String()
			}
			if s := readOnly(x, map[ssa.Value]bool{}); s != "" {
				return s
			}
		default:
			return fmt.Sprintf("used by %T (%s)", ref, ref.String())
		}
	}
	// the loops that read the chosen sub-list carry only their index and 0/1-compared counters
	for h := range readLoops {
		body := bodyOf(h)
		for _, in := range h.Instrs {
			ph, ok := in.(*ssa.Phi)
			if !ok {
				break
			}
			if ph.Comment == "rangeindex" {
				continue
			}
			if bt, ok := ph.Type().Underlying().(*types.Basic); !ok || bt.Info()&types.IsInteger == 0 {
				return "a loop over the chosen sub-list carries " + ph.Comment + " (" + ph.Type().String() + ")"
			}
			if rs := ph.Referrers(); rs != nil {
				for _, u := range *rs {
					if body[u.Block()] {
						continue
					}
					b, ok := u.(*ssa.BinOp)
					if _, dbg := u.(*ssa.DebugRef); dbg {
						continue
					}
					if !ok || !cmp01(b, ph) {
						return "the count " + ph.Comment + " taken over the chosen sub-list is used in " + u.String()
					}
				}
			}
		}
	}
	return ""
}

// checkNondeterminismSources (D2 of C11, shared with C12-G5): no goroutines/select, random numbers,
// environment values or pointer formatting in module code, and clock values stay in timing data.
func checkNondeterminismSources(p *core.Program, r *core.Report, rule string) {
	nNow := 0
	for _, fn := range units(p) {
		for _, b := range fn.Blocks {
			for _, in := range b.Instrs {
				switch x := in.(type) {
				case *ssa.Select:
					r.Add(rule, unitName(p, fn)+": select", p.Pos(x.Pos()), false, "select chooses among ready channels nondeterministically")
				case *ssa.Go:
					r.Add(rule, unitName(p, fn)+": go statement", p.Pos(x.Pos()), false, "goroutine scheduling is a source of nondeterminism")
				case ssa.CallInstruction:
					f := core.Callee(x)
					if f == nil {
						continue
					}
					pp := core.FnPkgPath(f)
					name := f.String()
					switch {
					case pp == "math/rand" || pp == "math/rand/v2" || pp == "crypto/rand":
						r.Add(rule, unitName(p, fn)+": "+name, p.Pos(in.Pos()), false, "random numbers")
					case name == "os.Getenv" || name == "os.Environ" || name == "os.Hostname" || name == "os.Getpid" || name == "os.LookupEnv":
						r.Add(rule, unitName(p, fn)+": "+name, p.Pos(in.Pos()), false, "environment dependent value")
					case name == "time.Now" || name == "time.Since":
						nNow++
						if v, ok := in.(ssa.Value); ok {
							bad := timeLeaks(p, v)
							r.Add(rule, fmt.Sprintf("%s: clock value #%d stays in timing data", unitName(p, fn), nthCall(fn, in, "time.")), p.Pos(in.Pos()), len(bad) == 0, "every use must be TimingInfo/TimingEntry, AddEntry, Sub/Since or a timing log call", bad...)
						}
					case strings.HasPrefix(name, "fmt."):
						if len(x.Common().Args) > 0 {
							if s, ok := core.ConstString(x.Common().Args[0]); ok && strings.Contains(s, "%p") {
								r.Add(rule, unitName(p, fn)+": pointer formatting", p.Pos(in.Pos()), false, "%p prints an address")
							}
						}
					}
				}
			}
		}
	}
	r.Add(rule, "clock reads examined", "", nNow >= 8, fmt.Sprintf("%d time.Now/time.Since calls in module code", nNow))
}
