package props

import (
	"fmt"
	"regexp"
	"strings"

	"ddcheck/core"

	"golang.org/x/tools/go/ssa"
)

// pruneLoop is a loop of the image extractor that removes elements from a picture.
type pruneLoop struct {
	loop    *core.Loop
	picture ssa.Value // the element whose content is pruned
	sibling *ssa.Phi  // non-nil for the `for c := p.FirstChild; c != nil; c = c.NextSibling` form
	removes []ssa.CallInstruction
}

var detachKeys = []string{"(*golang.org/x/net/html.Node).RemoveChild", "github.com/go-shiori/dom.DetachChild"}

// removedNode returns the node a detach call takes out of the tree.
func removedNode(call ssa.CallInstruction) ssa.Value {
	args := call.Common().Args
	if core.IsCallTo(call, detachKeys[0]) && len(args) == 2 {
		return core.StripConv(args[1])
	}
	if len(args) >= 1 {
		return core.StripConv(args[0])
	}
	return nil
}

// findPruneLoops lists the loops of fn that detach nodes, with the element they walk over:
// a range over a snapshot list of the element's descendants/children, or a sibling walk that
// starts at the element's first child.
func findPruneLoops(fn *ssa.Function) []*pruneLoop {
	loops, _ := core.NaturalLoops(fn)
	var out []*pruneLoop
	for _, l := range loops {
		pl := &pruneLoop{loop: l}
		for b := range l.Body {
			for _, in := range b.Instrs {
				if ci, ok := in.(ssa.CallInstruction); ok && core.IsCallTo(ci, detachKeys...) {
					pl.removes = append(pl.removes, ci)
				}
			}
		}
		if len(pl.removes) == 0 {
			continue
		}
		// innermost loop only: a detach call belongs to the smallest loop containing it
		inner := true
		for _, l2 := range loops {
			if l2 != l && l.Body[l2.Header] {
				for _, rm := range pl.removes {
					if l2.Body[rm.Block()] {
						inner = false
					}
				}
			}
		}
		if !inner {
			continue
		}
		for _, in := range l.Header.Instrs {
			ph, ok := in.(*ssa.Phi)
			if !ok {
				break
			}
			for _, e := range ph.Edges {
				// sibling walk: init edge is X.FirstChild
				if ld, ok := e.(*ssa.UnOp); ok {
					if fa, ok := ld.X.(*ssa.FieldAddr); ok && fieldName(fa) == "FirstChild" {
						pl.sibling, pl.picture = ph, core.StripConv(fa.X)
					}
				}
			}
		}
		if pl.picture == nil {
			// range over a snapshot: the list indexed in the loop is a call result f(X, ..)
			for b := range l.Body {
				for _, in := range b.Instrs {
					ia, ok := in.(*ssa.IndexAddr)
					if !ok {
						continue
					}
					if call, ok := core.StripConv(ia.X).(*ssa.Call); ok && !l.Body[call.Block()] && len(call.Call.Args) >= 1 &&
						core.IsCallTo(call, "github.com/go-shiori/dom.GetElementsByTagName", "github.com/go-shiori/dom.Children", "github.com/go-shiori/dom.ChildNodes", "github.com/go-shiori/dom.QuerySelectorAll") {
						pl.picture = core.StripConv(call.Call.Args[0])
					}
				}
			}
		}
		out = append(out, pl)
	}
	return out
}

func fieldName(fa *ssa.FieldAddr) string {
	return core.FieldNameOf(fa)
}

// checkPicturePruning (shared by C04, C05 and C19): an Image or Figure element is deep-cloned
// into the output without any filtering, so what the image extractor stores as its Element must
// be free of foreign content: either a freshly created element, something decided not to be a
// <picture>, or a picture whose children other than img/source were removed. PP1: on every path
// to the store of the Element, unless the element's tag was decided to differ from "picture", a
// pruning loop over that very element is passed. PP2: one iteration of the pruning loop keeps
// img and source and detaches everything else. PP3: a sibling walk does not read NextSibling of
// a node it has detached.
func checkPicturePruning(p *core.Program, r *core.Report, rule string) {
	ex := mustInl(p, r, rule, "(*mod/internal/extractor/embed.ImageExtractor).Extract")
	if ex == nil {
		return
	}
	c := core.NewCanon(p)
	loops := findPruneLoops(ex)
	// ---- PP1
	nStores := 0
	for _, in := range instrsOf(ex) {
		st, ok := in.(*ssa.Store)
		if !ok {
			continue
		}
		addr := c.Of(st.Addr)
		if !strings.HasSuffix(addr, ".Element") || !(strings.Contains(addr, "webdoc.Image") || strings.Contains(addr, "webdoc.Figure")) {
			continue
		}
		nStores++
		v := core.StripConv(st.Val)
		vs := c.Of(v)
		key := "element stored as Image.Element: " + shortVal(vs)
		if call, isCall := v.(*ssa.Call); isCall && core.IsCallTo(call, "github.com/go-shiori/dom.CreateElement") {
			r.Add(rule, key, p.Pos(st.Pos()), true, "a freshly created element")
			continue
		}
		cut, _ := core.CutAtoms(p, ex, regexp.MustCompile(q(`dom.TagName(`+vs+`) == "picture"`)), false)
		headers := map[ssa.Instruction]bool{}
		for _, pl := range loops {
			if pl.picture == v && len(pl.loop.Header.Instrs) > 0 {
				headers[pl.loop.Header.Instrs[0]] = true
			}
		}
		ok2, w := core.MustPassThrough(ex, st, func(in ssa.Instruction) bool { return headers[in] }, cut)
		r.Add(rule, key, p.Pos(st.Pos()), ok2,
			fmt.Sprintf("unless its tag is decided not to be \"picture\", the element is pruned to img/source on every path before it is stored (%d pruning loops over this element)", len(headers)), w...)
	}
	r.Add(rule, "Image/Figure construction sites of the image extractor", "", nStores >= 2, fmt.Sprintf("%d stores of an Element", nStores))
	// ---- PP2 / PP3
	for i, pl := range loops {
		name := fmt.Sprintf("pruning loop #%d", i+1)
		paths, atoms, err := core.EnumerateDecisions(p, ex, core.DecisionOpts{IterateAt: pl.loop.Header, ExitOutcome: "exit", Outcome: noOutcome,
			Event: func(in ssa.Instruction, c *core.Canon) (string, bool) {
				if ci, ok := in.(ssa.CallInstruction); ok && core.IsCallTo(ci, detachKeys...) {
					return "detach " + c.Of(removedNode(ci)), true
				}
				return "", false
			}})
		if err != nil {
			r.Undecided(rule, name, err.Error())
			continue
		}
		// the element of the iteration: what the tag tests look at
		elem := ""
		reTag := regexp.MustCompile(`^dom\.TagName\((.*)\) == "(img|source)"$`)
		for a := range atoms {
			if m := reTag.FindStringSubmatch(a); m != nil {
				elem = m[1]
			}
		}
		if elem == "" {
			r.Add(rule, name+": keeps img and source, detaches everything else", p.Pos(pl.loop.Header.Instrs[0].Pos()), false, "no test of the element's tag against img/source in the loop")
			continue
		}
		bad := 0
		var wit []string
		nIter := 0
		for _, pa := range paths {
			if !strings.HasPrefix(pa.Outcome, "next(") && !strings.Contains(pa.Outcome, "=> next(") {
				continue
			}
			nIter++
			img, src := 0, 0
			notElement := false
			for _, l := range pa.Lits {
				if l.Atom == elem+".Type == html.ElementNode" && !l.Val {
					notElement = true // text/comment children (a walk over child nodes): not an element to prune
				}
				switch l.Atom {
				case `dom.TagName(` + elem + `) == "img"`:
					img = tern(l.Val)
				case `dom.TagName(` + elem + `) == "source"`:
					src = tern(l.Val)
				}
			}
			evs := pathEvents(pa)
			keep := img == 1 || src == 1
			var okP bool
			switch {
			case keep || notElement:
				okP = len(evs) == 0
			case img == -1 && src == -1:
				okP = len(evs) == 1 && evs[0] == "detach "+elem
			default:
				okP = false // the tag is not fully decided on this iteration path
			}
			if !okP {
				bad++
				if len(wit) < 2 {
					wit = append(wit, pa.String())
				}
			}
		}
		r.Add(rule, name+": keeps img and source, detaches everything else", p.Pos(pl.loop.Header.Instrs[0].Pos()), bad == 0 && nIter >= 3,
			fmt.Sprintf("%d iteration paths over %s, %d deviate", nIter, shortVal(elem), bad), wit...)
		if pl.sibling != nil {
			// PP3: after detaching the current node its NextSibling is nil: the link must have been read before
			leak := ""
			for _, rm := range pl.removes {
				if removedNode(rm) != ssa.Value(pl.sibling) {
					continue
				}
				for b := range pl.loop.Body {
					for _, in := range b.Instrs {
						fa, ok := in.(*ssa.FieldAddr)
						if !ok || fa.X != ssa.Value(pl.sibling) || fieldName(fa) != "NextSibling" {
							continue
						}
						if reachesWithin(pl.loop, rm, fa) {
							leak = p.Pos(fa.Pos())
						}
					}
				}
			}
			r.Add(rule, name+": the walk does not read NextSibling of a node it detached", p.Pos(pl.loop.Header.Instrs[0].Pos()), leak == "",
				"RemoveChild/DetachChild clear the sibling links of the node: reading .NextSibling afterwards ends the walk early (read at "+leak+")")
		}
	}
	r.Add(rule, "pruning loops of the image extractor", "", len(loops) >= 1, fmt.Sprintf("%d", len(loops)))
}

// reachesWithin: can control flow from instruction a to instruction b inside the loop without
// passing the header again (same iteration)?
func reachesWithin(l *core.Loop, a, b ssa.Instruction) bool {
	if a.Block() == b.Block() {
		ia, ib := -1, -1
		for i, in := range a.Block().Instrs {
			if in == a {
				ia = i
			}
			if in == b {
				ib = i
			}
		}
		if ia < ib {
			return true
		}
	}
	seen := map[*ssa.BasicBlock]bool{}
	stack := append([]*ssa.BasicBlock{}, a.Block().Succs...)
	for len(stack) > 0 {
		x := stack[len(stack)-1]
		stack = stack[:len(stack)-1]
		if seen[x] || !l.Body[x] || x == l.Header {
			continue
		}
		seen[x] = true
		if x == b.Block() {
			return true
		}
		stack = append(stack, x.Succs...)
	}
	return false
}
