package props

import (
	"fmt"
	"go/ast"
	"go/types"
	"regexp"
	"sort"
	"strconv"
	"strings"

	"ddcheck/core"

	"golang.org/x/tools/go/ssa"
)

func init() { Registry["C06"] = C06 }

const (
	absLinksKey  = "mod/internal/domutil.MakeAllLinksAbsolute"
	absSrcKey    = "mod/internal/domutil.MakeAllSrcAttributesAbsolute"
	absSrcSetKey = "mod/internal/domutil.MakeAllSrcSetAbsolute"
	createAbsKey = "mod/internal/stringutil.CreateAbsoluteURL"
)

// stringConstsIn collects the string constants passed to calls into the given package paths.
func stringConstsIn(fn *ssa.Function, pkgs ...string) map[string]bool {
	out := map[string]bool{}
	for _, c := range core.Calls(fn, func(c ssa.CallInstruction) bool {
		f := core.Callee(c)
		if f == nil {
			return false
		}
		for _, pp := range pkgs {
			if core.FnPkgPath(f) == pp {
				return true
			}
		}
		return false
	}) {
		for _, a := range c.Common().Args {
			if s, ok := core.ConstString(a); ok {
				out[s] = true
			}
		}
	}
	return out
}

// C06: with a page URL, every link and media URL in the output is absolute.
func C06(p *core.Program, r *core.Report) {
	r.Explanation = "U1 (field-initialisation completeness): every webdoc element type with a PageURL field gets it assigned at every construction site (for Text: on the only path from TextBuilder.Build to the document, in flushBlock) from a *url.URL that is not nil. U2 (absolutise before serialise): in every GenerateOutput the serialised tree was, as the same SSA value, passed through the absolutiser(s) of its kind with the element's own PageURL on every path - or comes from a helper/field that always does so. U2 for Video includes srcset (a <source> may carry it). U3 (reference = the value with the ASCII white space of the URL standard trimmed - strings.Trim with exactly tab, LF, FF, CR, space, not strings.TrimSpace): the absolutisers cover a[href], area[href], video[poster], img|source|track|video[src] and [srcset] (constant extraction) and CreateAbsoluteURL's decision list is the documented one (pass-through for empty, no base, #, data:, javascript:, already absolute, unparseable; otherwise resolve against the base); every test and every outcome is on the value with the surrounding white space removed, that trimmed value; data: and javascript: are recognised in any case, a scheme being case-insensitive). U4: ContentImages are read from the same processed clones that are serialised, the srcset writer and reader tokenise with one and the same constant pattern, and Document.GetImageURLs appends nothing but the answers of the elements' own URL readers. U5: the URL object used as base is never written (effect analysis). U6: Apply hands Options.OriginalURL itself, on every path, to the content extractor. U4 also: the compiled srcset pattern yields exactly the candidate URLs of fixed srcset values (density, width, width plus height descriptors, descriptors written with an exponent, commas inside URLs). U7: ApplyForURL resolves against the supplied string parsed by url.Parse with no part rewritten (shared with C13-L7)."
	r.NotCovered = "RFC 3986 resolution itself (net/url), what the srcset regular expression matches, images inside Text elements (not produced by this port)."

	// ---- U6: the base is the page URL the caller supplied
	checkExtractorGetsCallerURL(p, r, "U6")

	// ---- U1
	for _, tn := range []string{"Image", "Table", "Video"} {
		n := 0
		for _, fn := range p.ModFunctions(false) {
			for _, a := range allocsOf(fn, "/internal/webdoc", tn) {
				if a.Comment != "complit" {
					continue
				}
				n++
				fs := fieldStores(a)
				ok := len(fs["PageURL"]) == 1 && !core.IsNilConst(fs["PageURL"][0])
				desc := "no PageURL in the literal"
				if len(fs["PageURL"]) == 1 {
					desc = "PageURL = " + core.NewCanon(p).Of(fs["PageURL"][0])
				}
				r.Add("U1", fmt.Sprintf("%s: webdoc.%s literal sets PageURL", core.ShortKey(fn), tn), p.Pos(a.Pos()), ok, desc)
			}
		}
		r.Add("U1", "construction sites of webdoc."+tn+" found", "", n >= 1, fmt.Sprintf("%d literals", n))
	}
	{
		// every Text that a builder method appends to the document got the builder's page URL
		// first (builder methods with helpers expanded; the page URL is the builder's *url.URL field)
		c := core.NewCanon(p)
		nSites := 0
		for _, fn := range p.ModFunctions(false) {
			if !strings.Contains(fn.String(), "webdoc.WebDocumentBuilder)") || !ast.IsExported(fn.Name()) {
				continue
			}
			m := p.Inlined(fn)
			for _, add := range core.Calls(m, func(ci ssa.CallInstruction) bool { return core.IsCallTo(ci, "(*"+webdocPkg+".Document).AddElements") }) {
				isText := false
				for _, a := range add.Common().Args[1:] {
					if el := appendedElem2(a); el != nil {
						a = el
					}
					if nt := core.NamedOf(core.StripConv(a).Type()); nt != nil && nt.Obj().Name() == "Text" {
						isText = true
					}
				}
				if !isText {
					continue
				}
				nSites++
				// the appended object (or the object it was copied from, before the copy) has its
				// PageURL field stored with the builder's *url.URL on every path to the append
				ok, w := false, []string(nil)
				for _, a := range add.Common().Args[1:] {
					if el := appendedElem2(a); el != nil {
						a = el
					}
					if nt := core.NamedOf(core.StripConv(a).Type()); nt != nil && nt.Obj().Name() == "Text" {
						ok, w = fieldSetBefore(m, core.StripConv(a), add, "PageURL", func(v ssa.Value) bool { return c.Of(v) == "$0.‹*url.URL›" }, 0)
					}
				}
				r.Add("U1", "every Text gets the builder's page URL before it enters the document: "+fn.Name(), p.Pos(add.Pos()), ok, "a store text.PageURL = <builder's page URL> must precede the append on every path", w...)
			}
		}
		r.Add("U1", "builder methods that append text elements found", "", nSites >= 4, fmt.Sprintf("%d append sites", nSites))
		// Text values are constructed only by TextBuilder.Build
		for _, fn := range p.ModFunctions(false) {
			for _, a := range allocsOf(fn, "/internal/webdoc", "Text") {
				if a.Comment == "complit" {
					bd := p.Func("(*" + core.ExpandKey(webdocPkg) + ".TextBuilder).Build")
					r.Add("U1", "webdoc.Text is constructed by "+core.ShortKey(fn), p.Pos(a.Pos()), bd != nil && inRegion(p, bd, fn), "Text elements must come from TextBuilder.Build so that flushing can set their PageURL")
				}
			}
		}
	}
	// NewWebDocumentBuilder / NewDomConverter / extractors receive the extractor's page URL
	if cw := mustInl(p, r, "U1", "(*"+extractorPkg+".ContentExtractor).ExtractContent"); cw != nil {
		c := core.NewCanon(p)
		for _, call := range core.Calls(cw, func(ci ssa.CallInstruction) bool {
			return core.IsCallTo(ci, webdocPkg+".NewWebDocumentBuilder", converterPkg+".NewDomConverter")
		}) {
			found := false
			for _, a := range call.Common().Args {
				if c.Of(a) == "$0.‹*url.URL›" {
					found = true
				}
			}
			r.Add("U1", core.ShortKey(core.Callee(call))+" receives the extractor's page URL", p.Pos(call.Pos()), found, "")
		}
	}

	// ---- U2
	absLinks := nodeProcessors(p, absLinksKey)
	absSrc := nodeProcessors(p, absSrcKey, absSrcSetKey)
	kinds := map[string][]string{
		"Text":   {absLinksKey},
		"Table":  {absLinksKey},
		"Figure": {}, // wrapper: image part + caption part, checked through its children
		"Image":  {absSrcKey, absSrcSetKey},
		"Video":  {absSrcKey, absSrcSetKey}, // a <source> of a video may carry srcset, which StripAttributes keeps
	}
	for _, fn := range outputFuncs(p) {
		for i, o := range outputReturns(p, fn) {
			if o.serializer != "dom.OuterHTML" && o.serializer != "dom.InnerHTML" {
				continue
			}
			key := fmt.Sprintf("%s.GenerateOutput return #%d (%s)", o.typ, i+1, shortVal(o.value))
			switch o.typ {
			case "Embed":
				r.Add("U2", key, p.Pos(o.ret.Pos()), true, "embed placeholders are exempt by the property")
			case "Figure":
				// children of the wrapper: processed image (src/srcset) and processed caption (links)
				okAll := true
				var whys []string
				for _, call := range core.Calls(fn, func(ci ssa.CallInstruction) bool { return core.IsCallTo(ci, "github.com/go-shiori/dom.AppendChild") }) {
					child := call.Common().Args[1]
					ok1, w1 := processedBeforeReturn(p, fn, call, child, absLinks, nil, absLinksKey)
					ok2, w2 := processedBeforeReturn(p, fn, call, child, absSrc, nil, absSrcKey, absSrcSetKey)
					if !ok1 && !ok2 {
						okAll = false
						whys = append(whys, w1+" / "+w2)
					}
				}
				r.Add("U2", key, p.Pos(o.ret.Pos()), okAll, "image part and caption part are absolutised clones "+strings.Join(whys, "; "))
			default:
				procs := absLinks
				if o.typ == "Image" || o.typ == "Video" {
					procs = absSrc
				}
				ok, why := processedBeforeReturn(p, fn, o.ret, o.root, procs, nil, kinds[o.typ]...)
				r.Add("U2", key, p.Pos(o.ret.Pos()), ok, why)
			}
		}
	}
	r.Floor("U2", 6)
	// the base handed to the absolutisers is the element's own PageURL
	c := core.NewCanon(p)
	nBase := 0
	doneBase := map[string]bool{}
	for _, u := range units(p) {
		fn := p.Original(u)
		if core.FnPkgPath(fn) != core.ExpandKey(webdocPkg) {
			continue
		}
		for _, call := range core.Calls(u, func(ci ssa.CallInstruction) bool {
			return core.IsCallTo(ci, absLinksKey, absSrcKey, absSrcSetKey, createAbsKey, domutilPkg+".CloneAndProcessTree", domutilPkg+".CloneAndProcessList")
		}) {
			nBase++
			base := c.Of(call.Common().Args[1])
			if fn.Name() == "GenerateOutput" && strings.Contains(fn.String(), "Embed") {
				continue
			}
			ok := base == "$0.PageURL" || base == "$0.Image.PageURL"
			key := fmt.Sprintf("%s: base URL of %s", unitName(p, u), core.Callee(call).Name())
			if doneBase[key+p.Pos(call.Pos())] {
				continue
			}
			doneBase[key+p.Pos(call.Pos())] = true
			r.Add("U2", key, p.Pos(call.Pos()), ok, "base = "+base)
		}
	}
	r.Add("U2", "absolutiser call sites in package webdoc", "", nBase >= 8, fmt.Sprintf("%d", nBase))
	// Video poster
	if vg := mustInl(p, r, "U2", "(*"+webdocPkg+".Video).GenerateOutput"); vg != nil {
		found := false
		for _, call := range core.Calls(vg, func(ci ssa.CallInstruction) bool { return core.IsCallTo(ci, "github.com/go-shiori/dom.SetAttribute") }) {
			if k, _ := core.ConstString(call.Common().Args[1]); k == "poster" {
				v := c.Of(call.Common().Args[2])
				found = strings.HasPrefix(v, "stringutil.CreateAbsoluteURL(dom.GetAttribute(") && strings.HasSuffix(v, `"poster"),$0.PageURL)`)
			}
		}
		r.Add("U2", "Video poster is absolutised against the page URL", p.Pos(vg.Pos()), found, "")
	}
	// CloneAndProcessList absolutises with its pageURL parameter
	if cl := mustInl(p, r, "U2", domutilPkg+".CloneAndProcessList"); cl != nil {
		ok := false
		for _, call := range core.Calls(cl, func(ci ssa.CallInstruction) bool { return core.IsCallTo(ci, absLinksKey) }) {
			ok = c.Of(call.Common().Args[1]) == "$1"
		}
		r.Add("U2", "CloneAndProcessList absolutises with the URL it is given", p.Pos(cl.Pos()), ok && absLinks[p.Original(cl)], "")
	}

	// ---- U7: ApplyForURL resolves against the supplied URL as parsed (shared with C13-L7)
	checkApplyForURLParse(p, r, "U7")

	// ---- U3
	want := map[string][]string{
		absLinksKey:  {"a", "area", "href", "video", "poster"},
		absSrcKey:    {"img", "source", "track", "video", "src", "img,source,track,video"},
		absSrcSetKey: {"srcset", "[srcset]"},
	}
	var ks []string
	for k := range want {
		ks = append(ks, k)
	}
	sort.Strings(ks)
	for _, k := range ks {
		fn := mustInl(p, r, "U3", k)
		if fn == nil {
			continue
		}
		got := stringConstsIn(fn, "github.com/go-shiori/dom")
		// switch labels on the tag name are string comparisons, collect them too
		for _, b := range fn.Blocks {
			for _, in := range b.Instrs {
				if bo, ok := in.(*ssa.BinOp); ok {
					for _, side := range []ssa.Value{bo.X, bo.Y} {
						if s, ok := core.ConstString(side); ok {
							got[s] = true
						}
					}
				}
			}
		}
		// constants kept in a private table that the function reads
		for _, in := range instrsOf(fn) {
			if ld, ok := in.(*ssa.UnOp); ok {
				if g, ok := ld.X.(*ssa.Global); ok {
					if s, ok := p.GlobalConst(g); ok {
						for _, q := range reQuoted.FindAllString(s, -1) {
							if u, err := strconv.Unquote(q); err == nil {
								got[u] = true
							}
						}
					}
				}
			}
		}
		var missing []string
		for _, w := range want[k] {
			if !got[w] {
				missing = append(missing, w)
			}
		}
		r.Add("U3", core.ShortKey(fn)+" covers its documented elements/attributes", p.Pos(fn.Pos()), len(missing) == 0, fmt.Sprintf("missing: %v", missing))
	}
	if ml := mustInl(p, r, "U3", absLinksKey); ml != nil {
		n1 := len(core.Calls(ml, func(ci ssa.CallInstruction) bool { return core.IsCallTo(ci, absSrcKey) }))
		n2 := len(core.Calls(ml, func(ci ssa.CallInstruction) bool { return core.IsCallTo(ci, absSrcSetKey) }))
		r.Add("U3", "MakeAllLinksAbsolute also absolutises src and srcset", p.Pos(ml.Pos()), n1 == 1 && n2 == 1, "")
		// every rewrite writes back CreateAbsoluteURL(GetAttribute(x, k), pageURL) under the same key
		for _, fnKey := range []string{absLinksKey, absSrcKey} {
			fn := p.Func(fnKey)
			if fn == nil {
				continue
			}
			for _, call := range core.Calls(fn, func(ci ssa.CallInstruction) bool { return core.IsCallTo(ci, "github.com/go-shiori/dom.SetAttribute") }) {
				k, _ := core.ConstString(call.Common().Args[1])
				node := c.Of(call.Common().Args[0])
				v := c.Of(call.Common().Args[2])
				wantV := fmt.Sprintf(`stringutil.CreateAbsoluteURL(dom.GetAttribute(%s,%q),$1)`, node, k)
				r.Add("U3", fmt.Sprintf("%s rewrites %s from its own resolved value", core.ShortKey(fn), k), p.Pos(call.Pos()), v == wantV, v)
			}
		}
	}
	if ca := mustInl(p, r, "U3", createAbsKey); ca != nil {
		paths, atoms, err := core.EnumerateDecisions(p, ca, core.DecisionOpts{Outcome: func(in ssa.Instruction, c *core.Canon) (string, bool) {
			if ret, ok := in.(*ssa.Return); ok {
				return "return " + c.Of(ret.Results[0]), true
			}
			return "", false
		}})
		if err != nil {
			r.Undecided("U3", "CreateAbsoluteURL", err.Error())
		}
		// the reference is the attribute value without the white space around it (as in the URL
		// standard: leading and trailing blanks of an attribute are not part of the URL)
		// - the ASCII white space of the URL standard (tab, LF, FF, CR, space) and only that:
		// for a browser a value that starts with a no-break space is a relative reference, so
		// strings.TrimSpace, which also strips Unicode blanks, reads another URL than the page
		// means (and lets " https://www.youtube.com/..." behind a U+00A0 pass a host test)
		ref := `strings.TrimSpace($0)`
		{
			cn := core.NewCanon(p)
			nTrim := 0
			for _, call := range core.Calls(ca, func(ci ssa.CallInstruction) bool { return core.IsCallTo(ci, "strings.Trim") }) {
				args := call.Common().Args
				if _, isParam := args[0].(*ssa.Parameter); !isParam {
					continue
				}
				if cut, ok := core.ConstString(args[1]); ok {
					set := map[rune]bool{}
					for _, ch := range cut {
						set[ch] = true
					}
					if len(set) == 5 && set[' '] && set['\t'] && set['\n'] && set['\f'] && set['\r'] {
						nTrim++
						ref = cn.Of(call.(ssa.Value))
					}
				}
			}
			r.Add("U3", "CreateAbsoluteURL: the reference is the value without the ASCII white space around it (tab, LF, FF, CR, space - not Unicode blanks)", p.Pos(ca.Pos()), nTrim == 1, fmt.Sprintf("%d strings.Trim of the parameter with exactly that cutset", nTrim))
		}
		pr := `url.ParseRequestURI(` + ref + `)`
		spec := core.DecisionSpec{
			Atoms: map[string]string{
				"empty":  q(ref + ` == ""`),
				"nobase": q(`$1 == nil`),
				// a reference that starts with '#' (spelled with HasPrefix or as a test of the first
				// byte; the empty string has been returned before)
				// spellings of "starts with #" (the string is known to be non-empty at that point)
				"fragment": `^(strings\.HasPrefix\(` + regexp.QuoteMeta(ref) + `,"#"\)|` + regexp.QuoteMeta(ref) + `\[0\] == 35|` + regexp.QuoteMeta(ref) + `\[:1\] == "#"|` + regexp.QuoteMeta(`strings.HasPrefix(strings.ToLower(`+ref+`),strings.ToLower("#"))`) + `|` + regexp.QuoteMeta(`strings.HasPrefix(strings.ToLower(`+ref+`),"#")`) + `)$`,
				// a scheme is case-insensitive: JavaScript: and DATA: are the same pass-through cases
				"data":     `^(` + regexp.QuoteMeta(`stringutil.HasPrefixIgnoreCase(`+ref+`,"data:")`) + `|` + regexp.QuoteMeta(`strings.HasPrefix(strings.ToLower(`+ref+`),"data:")`) + `|` + regexp.QuoteMeta(`strings.HasPrefix(strings.ToLower(`+ref+`),strings.ToLower("data:"))`) + `)$`,
				"js":       `^(` + regexp.QuoteMeta(`stringutil.HasPrefixIgnoreCase(`+ref+`,"javascript:")`) + `|` + regexp.QuoteMeta(`strings.HasPrefix(strings.ToLower(`+ref+`),"javascript:")`) + `|` + regexp.QuoteMeta(`strings.HasPrefix(strings.ToLower(`+ref+`),strings.ToLower("javascript:"))`) + `)$`,
				"uri.ok":   q(pr + `#1 == nil`),
				"noscheme": q(pr + `#0.Scheme == ""`),
				"nohost":   q(`url.URL.Hostname(` + pr + `#0) == ""`),
				"parse.ok": q(`url.Parse(` + ref + `)#1 == nil`),
			},
			Rules: []core.SpecRule{
				{Name: "empty value", Guard: core.A("empty"), Outcome: "return " + ref},
				{Name: "no page URL", Guard: core.A("nobase"), Outcome: "return " + ref},
				{Name: "fragment-only", Guard: core.A("fragment"), Outcome: "return " + ref},
				{Name: "data:", Guard: core.A("data"), Outcome: "return " + ref},
				{Name: "javascript:", Guard: core.A("js"), Outcome: "return " + ref},
				{Name: "already absolute", Guard: core.And(core.A("uri.ok"), core.Not(core.A("noscheme")), core.Not(core.A("nohost"))), Outcome: "return " + ref},
				{Name: "unparseable", Guard: core.And(core.Or(core.Not(core.A("uri.ok")), core.A("noscheme"), core.A("nohost")), core.Not(core.A("parse.ok"))), Outcome: "return " + ref},
				{Name: "resolve against the page URL", Guard: core.True(), Outcome: "return url.URL.String(url.URL.ResolveReference($1,url.Parse(" + ref + ")#0))"},
			},
		}
		core.CheckDecisionList(r, "U3", "CreateAbsoluteURL", paths, atoms, spec)
		if hp := p.Func("mod/internal/stringutil.HasPrefixIgnoreCase"); hp != nil {
			got := ""
			for _, ret := range core.Returns(hp) {
				got = core.NewCanon(p).Of(ret.Results[0])
			}
			r.Add("U3", "HasPrefixIgnoreCase compares the lower-cased value with the lower-cased prefix", p.Pos(hp.Pos()), got == `strings.HasPrefix(strings.ToLower($0),strings.ToLower($1))`, got)
		}
	}

	// ---- U5: the base itself is stable: nothing reachable from the entry points writes the page URL
	a := runPEA(p)
	for _, e := range entryPoints {
		fn := p.Func(core.ModPath + "." + e.name)
		if fn == nil {
			continue
		}
		bind := map[int]int32{e.opts: a.CallerOpts}
		if e.doc >= 0 {
			bind[e.doc] = a.CallerDoc
		}
		n := 0
		var w []string
		pos := p.Pos(fn.Pos())
		for _, ef := range a.EntryEffects(fn, bind) {
			if ef.Target == a.CallerURL || ef.Target == a.CallerOpts {
				n++
				if w == nil {
					w = a.Chain(ef)
					pos = p.Pos(ef.Pos)
				}
			}
		}
		r.Add("U5", e.name+": the page URL used as base is never modified", pos, n == 0, "a rewritten base would make later calls resolve references against a different URL (see C10)", w...)
	}

	// ---- U4
	checkImageURLSources(p, r, "U4")
	checkSrcsetAgreement(p, r, "U4")
}

// checkImageURLSources: GetURLs / GetImageURLs read the cached processed clone that is serialised.
func checkImageURLSources(p *core.Program, r *core.Report, rule string) {
	c := core.NewCanon(p)
	for _, key := range []string{"(*" + webdocPkg + ".Image).GetURLs", "(*" + webdocPkg + ".Table).GetImageURLs"} {
		fn := mustInl(p, r, rule, key)
		if fn == nil {
			continue
		}
		n := 0
		okAll := true
		var srcs []string
		for _, call := range core.Calls(fn, func(ci ssa.CallInstruction) bool {
			return core.IsCallTo(ci, "github.com/go-shiori/dom.GetAttribute", "github.com/go-shiori/dom.QuerySelectorAll", domutilPkg+".GetAllSrcSetURLs", domutilPkg+".GetSrcSetURLs")
		}) {
			if v, isV := call.(ssa.Value); !isV || !flowsToReturn(v) {
				continue // not a source of the returned URLs (e.g. attribute handling while the clone is made)
			}
			n++
			a0 := c.Of(call.Common().Args[0])
			srcs = append(srcs, a0)
			if a0 != "$0.‹*html.Node›" && !strings.HasPrefix(a0, "elem(dom.QuerySelectorAll($0.‹*html.Node›,") {
				okAll = false
			}
		}
		r.Add(rule, core.ShortKey(fn)+" reads the processed clone that is serialised", p.Pos(fn.Pos()), okAll && n >= 2, strings.Join(srcs, " ; "))
	}
	if fg := mustInl(p, r, rule, "(*"+webdocPkg+".Document).GetImageURLs"); fg != nil {
		hs := loopHeaders(fg)
		if len(hs) == 1 {
			paths, _, _ := core.EnumerateDecisions(p, fg, core.DecisionOpts{IterateAt: hs[0], Outcome: noOutcome, Event: func(in ssa.Instruction, c *core.Canon) (string, bool) {
				if call, ok := in.(*ssa.Call); ok {
					if f := call.Call.StaticCallee(); f != nil && (f.Name() == "GetURLs" || f.Name() == "GetImageURLs") {
						return "urls " + f.Name(), true
					}
				}
				return "", false
			}})
			bad := 0
			for _, pa := range paths {
				isContent := 0
				for _, l := range pa.Lits {
					if strings.HasPrefix(l.Atom, "iface.IsContent(") {
						isContent = tern(l.Val)
					}
				}
				if strings.Contains(pa.Outcome, "urls ") && isContent != 1 {
					bad++
				}
			}
			r.Add(rule, "ContentImages only from retained elements", p.Pos(fg.Pos()), bad == 0 && len(paths) >= 4, fmt.Sprintf("%d iteration paths, %d collect URLs from an element that is not content", len(paths), bad))
		} else {
			r.Undecided(rule, "Document.GetImageURLs loop", "expected one loop")
		}
		// nothing else gets into the list: every append adds the answer of an element's own URL
		// reader (which reads the processed clone, see above) - not an attribute of the page's
		// element read here
		nApp, badApp := 0, []string{}
		for _, call := range core.Calls(fg, func(ci ssa.CallInstruction) bool {
			b, ok := ci.Common().Value.(*ssa.Builtin)
			return ok && b.Name() == "append"
		}) {
			args := call.Common().Args
			if len(args) < 2 {
				continue
			}
			if st, ok := args[0].Type().Underlying().(*types.Slice); !ok || !types.Identical(st.Elem(), types.Typ[types.String]) {
				continue
			}
			nApp++
			src, ok := args[1].(*ssa.Call)
			if ok {
				f := src.Call.StaticCallee()
				ok = f != nil && (f.Name() == "GetURLs" || f.Name() == "GetImageURLs") && core.FnPkgPath(f) == core.ExpandKey(webdocPkg)
			}
			if !ok {
				badApp = append(badApp, p.Pos(call.Pos())+": "+shortVal(c.Of(args[1])))
			}
		}
		r.Add(rule, "ContentImages holds only what the elements' URL readers return", p.Pos(fg.Pos()), len(badApp) == 0 && nApp >= 1, fmt.Sprintf("%d appends to the list; from another source: %v", nApp, badApp))
	}
}

// checkSrcsetAgreement: the function that rewrites srcset and the function that lists its URLs
// must tokenise the attribute with the same regular expression (and nothing else).
func checkSrcsetAgreement(p *core.Program, r *core.Report, rule string) {
	srcsetPats := map[string]bool{}
	perFn := map[string][]string{}
	for _, key := range []string{domutilPkg + ".MakeAllSrcSetAbsolute", domutilPkg + ".GetSrcSetURLs"} {
		fn := mustInl(p, r, rule, key)
		if fn == nil {
			continue
		}
		usesRx := false
		var other []string
		fns := append([]*ssa.Function{fn}, closuresOf(fn)...)
		for _, f := range fns {
			for _, b := range f.Blocks {
				for _, in := range b.Instrs {
					call, ok := in.(*ssa.Call)
					if !ok {
						continue
					}
					cf := call.Call.StaticCallee()
					if cf == nil {
						continue
					}
					name := cf.String()
					if strings.HasPrefix(name, "(*regexp.Regexp).") {
						if a := core.NewCanon(p).Of(call.Call.Args[0]); strings.HasPrefix(a, "rx‹") {
							srcsetPats[a] = true
						}
						if a := core.NewCanon(p).Of(call.Call.Args[0]); strings.HasPrefix(a, "rx‹") {
							usesRx = true
							perFn[key] = append(perFn[key], a)
						} else {
							other = append(other, name+" on "+a)
						}
					}
					if name == "strings.Split" || name == "strings.Fields" || name == "strings.SplitN" || name == "strings.FieldsFunc" {
						other = append(other, name)
					}
				}
			}
		}
		r.Add(rule, core.ShortKey(fn)+" tokenises srcset with a constant pattern only", p.Pos(fn.Pos()), usesRx && len(other) == 0, fmt.Sprintf("other tokenisers: %v", other))
	}
	// writer and reader use one and the same pattern (what it has to do is asked below)
	r.Add(rule, "the srcset writer and reader tokenise with the same single pattern", "", len(srcsetPats) == 1 && len(perFn) == 2, fmt.Sprintf("patterns: %v", sortedKeys(srcsetPats)))
	// what the pattern constant says about fixed srcset values (compiled here, no code of the
	// repository runs): group 1 of its matches are the candidate URLs, descriptors - a width with
	// an optional height, or a density - belong to none of them
	for _, pat := range sortedKeys(srcsetPats) {
		re, err := regexp.Compile(strings.TrimSuffix(strings.TrimPrefix(pat, "rx‹"), "›"))
		if err != nil {
			continue
		}
		var wrong []string
		for _, w := range []struct {
			in   string
			want []string
		}{{"a.jpg", []string{"a.jpg"}}, {"a.jpg 1x, b.jpg 2x", []string{"a.jpg", "b.jpg"}}, {"a.jpg 1.5x,b.jpg 2x", []string{"a.jpg", "b.jpg"}},
			{"a-480.jpg 480w, a-800.jpg 800w", []string{"a-480.jpg", "a-800.jpg"}}, {"a-640.jpg 640w 480h, b.jpg 2x", []string{"a-640.jpg", "b.jpg"}},
			{"img/a,b.jpg 1x, c.jpg 2x", []string{"img/a,b.jpg", "c.jpg"}},
			// a descriptor is a floating-point number with its unit: exponents are numbers too
			{"img/a.png 1e0x, img/b.png 2e0x", []string{"img/a.png", "img/b.png"}}, {"a-big.jpg 1e3x", []string{"a-big.jpg"}}, {"a.jpg 1.5E+1x, b.jpg 25e-1x", []string{"a.jpg", "b.jpg"}}} {
			var got []string
			for _, m := range re.FindAllStringSubmatch(w.in, -1) {
				if len(m) > 1 {
					got = append(got, m[1])
				}
			}
			if strings.Join(got, "|") != strings.Join(w.want, "|") {
				wrong = append(wrong, fmt.Sprintf("%q -> %v", w.in, got))
			}
		}
		r.Add(rule, "the srcset pattern takes exactly the candidate URLs of a srcset value", "", len(wrong) == 0, strings.Join(wrong, "; ")+" [pattern "+pat+"]")
	}
}

// fieldSetBefore reports whether, on every path to `at`, the struct that obj points to had its
// field stored with an accepted value: either a store obj.field = v precedes `at` on every path,
// or obj was filled by a whole-struct copy *obj = *src that precedes `at` on every path and the
// same holds for src at the point of the copy.
func fieldSetBefore(fn *ssa.Function, obj ssa.Value, at ssa.Instruction, field string, accept func(ssa.Value) bool, depth int) (bool, []string) {
	if depth > 4 {
		return false, []string{"copy chain too long"}
	}
	isField := func(addr ssa.Value) bool {
		fa, ok := addr.(*ssa.FieldAddr)
		if !ok || fa.X != obj {
			return false
		}
		st, ok := fa.X.Type().Underlying().(*types.Pointer).Elem().Underlying().(*types.Struct)
		return ok && st.Field(fa.Field).Name() == field
	}
	ok, w := core.MustPassThrough(fn, at, func(in ssa.Instruction) bool {
		st, isSt := in.(*ssa.Store)
		return isSt && isField(st.Addr) && accept(st.Val)
	}, nil)
	if ok {
		return true, nil
	}
	// whole-struct copies into obj
	var copies []*ssa.Store
	if refs := obj.Referrers(); refs != nil {
		for _, ref := range *refs {
			if st, isSt := ref.(*ssa.Store); isSt && st.Addr == obj {
				copies = append(copies, st)
			}
		}
	}
	if len(copies) != 1 {
		return false, w
	}
	cp := copies[0]
	if ok2, w2 := core.MustPassThrough(fn, at, func(in ssa.Instruction) bool { return in == ssa.Instruction(cp) }, nil); !ok2 {
		return false, w2
	}
	// no store to the field of obj other than accepted ones may follow the copy (a later
	// overwrite with something else is not looked for: stores to the field are all inspected)
	if refs := obj.Referrers(); refs != nil {
		for _, ref := range *refs {
			if fa, isFA := ref.(*ssa.FieldAddr); isFA && isField(fa) && fa.Referrers() != nil {
				for _, r2 := range *fa.Referrers() {
					if st, isSt := r2.(*ssa.Store); isSt && st.Addr == ssa.Value(fa) && !accept(st.Val) {
						return false, []string{"the field is also stored with another value"}
					}
				}
			}
		}
	}
	load, isLoad := cp.Val.(*ssa.UnOp)
	if !isLoad {
		return false, append(w, "the object is filled from a value that is not a copy of another object")
	}
	return fieldSetBefore(fn, load.X, load, field, accept, depth+1)
}

// checkExtractorGetsCallerURL (C06-U6, shared as C19-H11): Apply hands Options.OriginalURL
// itself - unconditionally - to the content extractor, which passes it to every element kind and
// to the embed extractors: relative references (frame sources included) are resolved against
// the page URL the caller supplied, or not at all, never against an address found in the page.
func checkExtractorGetsCallerURL(p *core.Program, r *core.Report, rule string) {
	if ap := mustInl(p, r, rule, core.ModPath+".Apply"); ap != nil {
		cn := core.NewCanon(p)
		n, bad := 0, ""
		for _, call := range core.Calls(ap, func(ci ssa.CallInstruction) bool { return core.IsCallTo(ci, extractorPkg+".NewContentExtractor") }) {
			n++
			for _, a := range call.Common().Args {
				if nm := core.NamedOf(a.Type()); nm != nil && nm.Obj().Name() == "URL" {
					if u := cn.Of(a); !strings.HasSuffix(u, ".OriginalURL") || !strings.Contains(u, "$1") {
						bad = u
					}
				}
			}
		}
		r.Add(rule, "the content extractor is given the caller's page URL itself", p.Pos(ap.Pos()), n == 1 && bad == "", fmt.Sprintf("%d NewContentExtractor calls; other URL: %s", n, shortVal(bad)))
	}
}
