package props

import (
	"fmt"
	"regexp"
	"sort"
	"strconv"
	"strings"

	"ddcheck/core"

	"golang.org/x/tools/go/ssa"
)

func init() { Registry["C18"] = C18 }

// the documented tables of the classifier, as private fixed tables are rendered (core.GlobalConst)
const (
	tcTableRoles      = `set‹"grid","treegrid"›`
	tcDescendantRoles = `set‹"columnheader","gridcell","row","rowgroup","rowheader"›`
	tcLandmarkRoles   = `set‹"application","banner","complementary","contentinfo","form","main","navigation","search"›`
	tcHeaderTags      = `map‹"col":false,"colgroup":false,"th":true›`
	tcObjectTags      = `map‹"applet":false,"embed":false,"iframe":false,"object":false›`
)

const classifierPkg = "mod/internal/tableclass"

// C18: tables are classified by the documented rule cascade.
//
// Rule T1 (decision-list conformance): the branch structure of Classifier.Classify, extracted
// as normalised decision paths, must decide exactly like the ordered cascade of the property
// text. Rule T2: the role/tag tables have the documented key sets. Rule T3: direct descendants
// exclude the content of nested tables. Rule T4: the converter makes data tables atomic and
// walks layout tables.
func C18(p *core.Program, r *core.Report) {
	r.Explanation = "T6: the visibility predicate behind the has-valid-text question conforms (shared with C04-V3). T7: DomConverter.Convert does nothing to its deep clone between cloning and walking (no DOM mutator call and no store that reaches the clone), so the classifier sees the table as written. Decision-list conformance: every normalised branch path of tableclass.Classifier.Classify (loops unrolled once, comparisons normalised to x<=c / x==c, trivial helpers inlined) is replayed against the ordered cascade written down from the property text with three-valued logic; the code may not reach an outcome before a higher rule is decided and must reach the same (type, reason). Literal role/tag tables are compared by key set; getDirectDescendants and the converter's table case are checked the same way."
	r.NotCovered = "the summation arithmetic of rowspan/colspan in getRowAndColumnCount (only which elements/attributes are counted is decided), hasValidText, CSS based rules of the original heuristic (not ported), behaviour for more than one loop iteration (loops are abstracted to 0/1 iterations)."

	// The helpers that the cascade treats as atomic questions are identified by what they are
	// (signature, what they call; see roles.go), not by their names, and keep a role name in
	// canonical forms.
	ddFn, rcFn := roles(p).directDescendants, roles(p).rowsAndColumns
	classify := mustInl(p, r, "T1", "(*"+classifierPkg+".Classifier).Classify")
	var classifyAtoms map[string]bool
	if classify != nil {
		opts := core.DecisionOpts{Outcome: func(in ssa.Instruction, c *core.Canon) (string, bool) {
			if ret, ok := in.(*ssa.Return); ok {
				var s []string
				for _, x := range ret.Results {
					s = append(s, strings.TrimPrefix(c.Of(x), "tableclass."))
				}
				return strings.Join(s, "/"), true
			}
			return "", false
		}}
		paths, atoms, err := core.EnumerateDecisions(p, classify, opts)
		if err != nil {
			r.Undecided("T1", "Classify", err.Error())
		}
		// a fact handed back by the direct-descendants helper stands for the condition it reports
		if ddFn != nil {
			paths, atoms = substituteFlagResults(p, ddFn, "directDescendants", paths, atoms)
		}
		classifyAtoms = atoms
		r.Stats["classify_paths"] = len(paths)
		r.Stats["classify_atoms"] = len(atoms)
		td := `elem(μ(…append(…)…))`
		dd := `@directDescendants($1)`
		par := `μ($1.Parent|@0.Parent)`
		role := `strings.ToLower(dom.GetAttribute($1,"role"))`
		drole := `strings.ToLower(dom.GetAttribute(elem(` + dd + `),"role"))`
		spec := core.DecisionSpec{
			Atoms: map[string]string{
				"loop.ancestors":    q(`loop1(` + par + ` == nil)`),
				"anc.input":         q(`dom.TagName(` + par + `) == "input"`),
				"anc.editable":      q(`strings.ToLower(dom.GetAttribute(` + par + `,"contenteditable")) == "true"`),
				"role.presentation": q(role + ` == "presentation"`),
				"role.landmark":     q(`in(` + tcLandmarkRoles + `,` + role + `)`),
				"role.grid":         q(`in(` + tcTableRoles + `,` + role + `)`),
				"loop.desc":         qw(`loop2(… < len(` + dd + `))`),
				"desc.landmark":     q(`in(` + tcLandmarkRoles + `,` + drole + `)`),
				"desc.tablerole":    q(`in(` + tcDescendantRoles + `,` + drole + `)`),
				"datatable0":        q(`dom.GetAttribute($1,"datatable") == "0"`),
				"no.nested":         q(`len(dom.GetElementsByTagName($1,"table")) <= 0`),
				"rows<=1":           q(`@rowsAndColumns($1)#0 <= 1`),
				"cols<=1":           q(`@rowsAndColumns($1)#1 <= 1`),
				"no.caption":        q(`dom.QuerySelector($1,"caption") == nil`),
				"caption.text":      q(`@hasValidText(dom.QuerySelector($1,"caption"))`),
				"no.thead":          q(`dom.QuerySelector($1,"thead") == nil`),
				"no.tfoot":          q(`dom.QuerySelector($1,"tfoot") == nil`),
				"header.tags":       q(`@hasOneOf(` + dd + `,` + tcHeaderTags + `)`),
				"loop.collect":      qw(`loop3(… < len(` + dd + `))`),
				"collect.td":        q(`dom.TagName(elem(` + dd + `)) == "td"`),
				"loop.td":           qw(`loop4(… < len(μ(…append(…)…)))`),
				"td.abbr":           qw(`dom.HasAttribute(` + td + `,"abbr")`),
				"td.headers":        qw(`dom.HasAttribute(` + td + `,"headers")`),
				"td.scope":          qw(`dom.HasAttribute(` + td + `,"scope")`),
				"td.onechild":       qw(`len(dom.GetElementsByTagName(` + td + `,"*")) == 1`),
				"td.child.abbr":     qw(`dom.TagName(dom.GetElementsByTagName(` + td + `,"*")[0]) == "abbr"`),
				"summary":           q(`dom.HasAttribute($1,"summary")`),
				"cols<=4":           q(`@rowsAndColumns($1)#1 <= 4`),
				"rows<=19":          q(`@rowsAndColumns($1)#0 <= 19`),
				"cells<=10":         qw(`len(μ(…append(…)…)) <= 10`),
				"object.tags":       q(`@hasOneOf(` + dd + `,` + tcObjectTags + `)`),
			},
			Rules: []core.SpecRule{
				{"1 editable ancestor -> layout", core.And(core.Not(core.A("loop.ancestors")), core.Or(core.A("anc.input"), core.A("anc.editable"))), "Layout/InsideEditableArea"},
				{"2 role=presentation -> layout", core.A("role.presentation"), "Layout/RoleTable"},
				{"3 grid/treegrid/landmark role -> data", core.Or(core.A("role.landmark"), core.A("role.grid")), "Data/RoleTable"},
				{"4 table/landmark role on descendant -> data", core.And(core.A("loop.desc"), core.Or(core.A("desc.landmark"), core.A("desc.tablerole"))), "Data/RoleDescendant"},
				{"5 datatable=0 -> layout", core.A("datatable0"), "Layout/Datatable0"},
				{"6 nested table -> layout", core.Not(core.A("no.nested")), "Layout/NestedTable"},
				{"7a <=1 row -> layout", core.A("rows<=1"), "Layout/LessEq1Row"},
				{"7b <=1 column -> layout", core.A("cols<=1"), "Layout/LessEq1Col"},
				{"8a caption/thead/tfoot/colgroup/col/th -> data", core.Or(
					core.And(core.Not(core.A("no.caption")), core.A("caption.text")),
					core.Not(core.A("no.thead")), core.Not(core.A("no.tfoot")), core.A("header.tags")), "Data/CaptionTheadTfootColgroupColTh"},
				{"8b cell with abbr/headers/scope -> data", core.And(core.A("loop.td"), core.Or(core.A("td.abbr"), core.A("td.headers"), core.A("td.scope"))), "Data/AbbrHeadersScope"},
				{"8c cell with lone abbr child -> data", core.And(core.A("loop.td"), core.A("td.onechild"), core.A("td.child.abbr")), "Data/OnlyHasAbbr"},
				{"10 summary -> data", core.A("summary"), "Data/Summary"},
				{"11 >=5 columns -> data", core.Not(core.A("cols<=4")), "Data/MoreEq5Cols"},
				{"14 >=20 rows -> data", core.Not(core.A("rows<=19")), "Data/MoreEq20Rows"},
				{"15 <=10 cells -> layout", core.A("cells<=10"), "Layout/LessEq10Cells"},
				{"16 embed/object/applet/iframe -> layout", core.A("object.tags"), "Layout/EmbedObjectAppletIframe"},
				{"18 otherwise data", core.True(), "Data/Default"},
			},
		}
		core.CheckDecisionList(r, "T1", "Classify", paths, atoms, spec)
		r.Floor("T1-path", 100)
		r.Floor("T1-rule", 17)
		r.Floor("T1-atom", 31)
	}

	// T2: the documented tables are the ones Classify consults. Private tables are rendered by
	// content in canonical forms, so the T1 atoms above pin keys and values; T2 records, per
	// documented table, that some branch condition of Classify consults exactly that table.
	if classifyAtoms != nil {
		atoms := classifyAtoms
		for _, t := range []struct{ name, content string }{
			{"grid/treegrid roles", tcTableRoles}, {"table-part roles of descendants", tcDescendantRoles}, {"landmark roles", tcLandmarkRoles},
			{"header tags (th needs text, col/colgroup do not)", tcHeaderTags}, {"object tags", tcObjectTags}} {
			n := 0
			for a := range atoms {
				if strings.Contains(a, t.content) {
					n++
				}
			}
			r.Add("T2", "table of "+t.name, "", n > 0, fmt.Sprintf("%d branch conditions of Classify consult %s", n, t.content))
		}
	}

	// T3: getDirectDescendants
	var gdd *ssa.Function
	if ddFn == nil {
		r.Undecided("T3", "the helper that collects the direct descendants of a table", "no helper of Classify with the signature (table) []*html.Node found")
	} else {
		gdd = p.Inlined(ddFn)
	}
	if gdd != nil {
		opts := core.DecisionOpts{Outcome: func(in ssa.Instruction, c *core.Canon) (string, bool) {
			if call, ok := in.(*ssa.Call); ok {
				if b, ok := call.Call.Value.(*ssa.Builtin); ok && b.Name() == "append" {
					return "append", true
				}
			}
			if ret, ok := in.(*ssa.Return); ok {
				return "return " + c.Of(ret.Results[0]), true
			}
			return "", false
		}}
		paths, atoms, err := core.EnumerateDecisions(p, gdd, opts)
		if err != nil {
			r.Undecided("T3", "getDirectDescendants", err.Error())
		}
		// the table parameter (position differs between the method and a function form); flags
		// handed in by the caller stand for the condition the caller computed
		T := fmt.Sprintf("$%d", paramIndexOfType(gdd, "*html.Node"))
		if classify != nil {
			paths, atoms = substituteFlagParams(p, ddFn, classify, paths, atoms)
		}
		all := `dom.GetElementsByTagName(` + T + `,"*")`
		par := `μ(@0.Parent|elem(` + all + `).Parent)`
		spec := core.DecisionSpec{
			Atoms: map[string]string{
				"no.nested":     q(`len(dom.GetElementsByTagName(` + T + `,"table")) <= 0`),
				"loop.all":      qw(`loop1(… < len(` + all + `))`),
				"loop.ancestor": q(`loop2(` + par + ` == nil)`),
				"anc.table":     q(`dom.TagName(` + par + `) == "table"`),
				"anc.is.t":      "^(" + regexp.QuoteMeta(T+` == `+par) + "|" + regexp.QuoteMeta(par+` == `+T) + ")$",
			},
			Rules: []core.SpecRule{
				{"no nested tables: all descendants", core.A("no.nested"), `return ` + all},
				{"nearest table ancestor is t: keep", core.And(core.A("loop.all"), core.Not(core.A("loop.ancestor")), core.A("anc.table"), core.A("anc.is.t")), "append"},
				{"otherwise: not kept", core.True(), "return μ(…)"},
			},
		}
		// normalise the return of the accumulated slice
		for i := range paths {
			if strings.HasPrefix(paths[i].Outcome, "return μ(") {
				paths[i].Outcome = "return μ(…)"
			}
		}
		core.CheckDecisionList(r, "T3", "getDirectDescendants", paths, atoms, spec)
	}

	// T4: converter: data tables atomic, layout tables walked
	checkConverterTableCase(p, r)

	// T6: "has valid text" (rule 8a: caption, th) asks InnerText, which leaves out what
	// IsProbablyVisible rejects: the visibility predicate conforms (shared with C04-V3)
	checkVisibilityRules(p, r, "T6")
	// T7: the classifier counts rows, columns and cells of the table as written (hidden ones
	// included): the tree the converter walks - and hands to the classifier - is an unmodified
	// deep clone of the document
	checkConvertWalksFaithfulClone(p, r, "T7")

	// T5: what counts as a row / a column: rows are tr elements (rowspan aware), columns are the
	// td cells of a row (colspan aware). Decided on the constants handed to the DOM helpers.
	var rc *ssa.Function
	if rcFn == nil {
		r.Undecided("T5", "the helper that counts rows and columns", "no helper of Classify returning (int, int) found")
	} else {
		rc = p.Inlined(rcFn)
	}
	if rc != nil {
		consts := map[string]bool{}
		for _, c := range core.Calls(rc, func(c ssa.CallInstruction) bool {
			f := core.Callee(c)
			return f != nil && core.FnPkgPath(f) == "github.com/go-shiori/dom"
		}) {
			for _, a := range c.Common().Args {
				if s, ok := core.ConstString(a); ok {
					consts[s] = true
				}
			}
		}
		var got []string
		for s := range consts {
			got = append(got, s)
		}
		sort.Strings(got)
		want := []string{"colspan", "rowspan", "td", "tr"}
		r.Add("T5", "row/column count: selectors and span attributes", p.Pos(rc.Pos()), sameSet(got, want),
			fmt.Sprintf("DOM selector/attribute constants used: %v; documented: rows=tr (rowspan), columns=td cells per row (colspan): %v", got, want))
	}
}

func exprText(e any) string {
	type namer interface{ String() string }
	switch x := e.(type) {
	case nil:
		return "<none>"
	case namer:
		return x.String()
	}
	return fmt.Sprint(e)
}

// checkConverterTableCase: in the converter's element visitor, the value of Classify decides:
// Data -> AddDataTable(node) and the subtree is not walked (return false); otherwise the table
// is walked like any container (StartNode, return true).
func checkConverterTableCase(p *core.Program, r *core.Report) {
	fn, _ := walkHandlers(p, r, "T4")
	if fn == nil {
		return
	}
	classifyKey := "(*" + classifierPkg + ".Classifier).Classify"
	calls := core.Calls(fn, func(c ssa.CallInstruction) bool { return core.IsCallTo(c, classifyKey) })
	if len(calls) != 1 {
		r.Undecided("T4", "the element visitor calls Classify", fmt.Sprintf("expected exactly one call to Classify, found %d", len(calls)))
		return
	}
	call := calls[0].(*ssa.Call)
	// the comparison Classify(...)#0 == Data must exist as a branch (however it is spelled)
	reData := regexp.MustCompile(`^tableclass\.Classifier\.Classify\(.*\)#0 == tableclass\.Data$`)
	cutData, mData := core.CutAtoms(p, fn, reData, true)
	cutNotData, _ := core.CutAtoms(p, fn, reData, false)
	if len(mData) != 1 {
		r.Add("T4", "element visitor: branch on Classify()==Data", p.Pos(call.Pos()), false, fmt.Sprintf("expected one branch comparing the classification with tableclass.Data, found %d", len(mData)))
		return
	}
	addTables := core.Calls(fn, func(c ssa.CallInstruction) bool { return core.IsCallTo(c, "iface:AddDataTable") })
	if len(addTables) == 0 {
		r.Add("T4", "element visitor: AddDataTable", p.Pos(call.Pos()), false, "no call to DocumentBuilder.AddDataTable: data tables are never kept as a unit")
		return
	}
	for _, at := range addTables {
		// reachable only when type == Data
		ok := !core.InstrReachable(fn, cutData, at)
		r.Add("T4", "AddDataTable only for data tables", p.Pos(at.Pos()), ok, "with the Classify()==Data edge removed the call must be unreachable")
		// argument is the visited node itself
		arg := at.Common().Args[0]
		_, isParam := arg.(*ssa.Parameter)
		r.Add("T4", "AddDataTable receives the table node itself", p.Pos(at.Pos()), isParam, "argument: "+core.NewCanon(p).Of(arg))
	}
	// after AddDataTable every path returns false without StartNode
	for _, ret := range core.Returns(fn) {
		if len(ret.Results) != 1 {
			continue
		}
		bv, isConst := core.ConstBool(ret.Results[0])
		// a return true must not be reachable once AddDataTable was executed
		if isConst && bv {
			okPath, w := core.MustPassThrough(fn, ret, func(in ssa.Instruction) bool { return false }, nil)
			_ = okPath
			_ = w
			// is this `return true` reachable from the AddDataTable call?
			reach := reachableFrom(addTables[0].Block(), ret.Block())
			r.Add("T4", "data table subtree is not walked", p.Pos(ret.Pos()), !reach, "no `return true` may follow AddDataTable")
		}
	}
	// layout tables (not Data) must be able to reach StartNode + return true
	starts := core.Calls(fn, func(c ssa.CallInstruction) bool { return core.IsCallTo(c, "iface:StartNode") })
	reachStart := false
	for _, s := range starts {
		if core.InstrReachable(fn, cutNotData, s) && reachableFrom(call.Block(), s.Block()) {
			reachStart = true
		}
	}
	r.Add("T4", "layout tables are walked like containers", p.Pos(call.Pos()), reachStart, "StartNode must stay reachable after Classify()!=Data")
	// every table the visitor walks into was classified first (decision paths of the visitor for
	// the tag: a path that starts the node or lets the walk descend has decided Classify()==Data false)
	if tbl := converterSwitch(p, r, "T4"); tbl != nil {
		n, bad := 0, 0
		var wit []string
		for _, pa := range tbl.PathsFor("table") {
			walked := pathResult(pa) == "return true"
			for _, ev := range builderCalls(pa) {
				if strings.HasPrefix(ev, "StartNode(") {
					walked = true
				}
			}
			if !walked {
				continue
			}
			n++
			decided := false
			for _, l := range pa.Lits {
				if reData.MatchString(l.Atom) && !l.Val {
					decided = true
				}
			}
			if !decided {
				bad++
				if len(wit) < 2 {
					wit = append(wit, pa.String())
				}
			}
		}
		r.Add("T4", "a table is walked as a container only after the classifier said it is not a data table", tbl.Pos, n > 0 && bad == 0,
			fmt.Sprintf("%d visitor paths walk into a <table>, %d of them without the classification", n, bad), wit...)
	}
}

func reachableFrom(from, to *ssa.BasicBlock) bool {
	seen := map[*ssa.BasicBlock]bool{from: true}
	stack := []*ssa.BasicBlock{from}
	for len(stack) > 0 {
		b := stack[len(stack)-1]
		stack = stack[:len(stack)-1]
		if b == to {
			return true
		}
		for _, s := range b.Succs {
			if !seen[s] {
				seen[s] = true
				stack = append(stack, s)
			}
		}
	}
	return false
}

var domMutatorKeys = append([]string{"(*golang.org/x/net/html.Node).AppendChild", "(*golang.org/x/net/html.Node).InsertBefore",
	"github.com/go-shiori/dom.AppendChild", "github.com/go-shiori/dom.PrependChild", "github.com/go-shiori/dom.SetAttribute", "github.com/go-shiori/dom.RemoveAttribute"}, removalKeys...)

// checkConvertWalksFaithfulClone: in Convert (helpers expanded; the walk callbacks are separate
// functions) the deep clone of the argument is handed to WalkNodes and nothing else touches it:
// no DOM mutator is called on, and no store goes to, anything derived from the clone.
func checkConvertWalksFaithfulClone(p *core.Program, r *core.Report, rule string) {
	conv := mustInl(p, r, rule, "(*"+converterPkg+".DomConverter).Convert")
	if conv == nil {
		return
	}
	c := core.NewCanon(p)
	clone := "dom.Clone($1,true)"
	walks := core.Calls(conv, func(ci ssa.CallInstruction) bool { return core.IsCallTo(ci, domutilPkg+".WalkNodes") })
	okWalk := len(walks) == 1 && c.Of(walks[0].Common().Args[0]) == clone
	r.Add(rule, "Convert walks a deep clone of its argument", p.Pos(conv.Pos()), okWalk, fmt.Sprintf("%d WalkNodes calls", len(walks)))
	// exempt: the pass of C05-S4, which only touches elements it has looked up by one of the names
	// whose text the serializer writes verbatim (none of them is a table part)
	lit := map[string]bool{}
	names, _ := serializerLiteralNames(p)
	for _, n := range names {
		lit[n] = true
	}
	confined := func(v string) bool {
		q := "dom.GetElementsByTagName(" + clone + ","
		if strings.Count(v, clone) != strings.Count(v, q) {
			return false
		}
		for _, s := range reQuoted.FindAllString(v, -1) {
			if u, err := strconv.Unquote(s); err != nil || !lit[u] {
				return false
			}
		}
		return true
	}
	// exempt as well: the pruning pass of C20-F8 - removals of elements taken from the list of all
	// elements of the clone, reachable only when SkipUnlikelies is set (what that pass removes is
	// C20's obligation; a table inside an unlikely subtree never reached the classifier before either)
	cutSet, _ := core.CutAtoms(p, conv, regexp.MustCompile(`^\(\$0\.‹converter\.ConverterFlag› & converter\.SkipUnlikelies\) == converter\.Default$`), false)
	pruning := func(in ssa.Instruction, v string) bool {
		q := "dom.GetElementsByTagName(" + clone + `,"*")`
		return strings.Count(v, clone) == strings.Count(v, q) && core.IsCallTo(in, removalKeys...) && !core.InstrReachable(conv, cutSet, in)
	}
	var hits []string
	for _, in := range instrsOf(conv) {
		switch x := in.(type) {
		case ssa.CallInstruction:
			if !core.IsCallTo(x, domMutatorKeys...) {
				continue
			}
			for _, a := range x.Common().Args {
				if v := c.Of(a); strings.Contains(v, clone) && !confined(v) && !pruning(in, v) {
					hits = append(hits, fmt.Sprintf("%s at %s", core.Callee(x).Name(), p.Pos(in.Pos())))
					break
				}
			}
		case *ssa.Store:
			if strings.Contains(c.Of(x.Addr), clone) {
				hits = append(hits, fmt.Sprintf("store to %s at %s", shortVal(c.Of(x.Addr)), p.Pos(in.Pos())))
			}
		}
	}
	r.Add(rule, "nothing alters the clone before it is walked", p.Pos(conv.Pos()), len(hits) == 0, strings.Join(hits, "; "))
}
