package props

import (
	"fmt"
	"go/ast"
	"go/token"
	"go/types"
	"regexp"
	"sort"
	"strings"

	"ddcheck/core"

	"golang.org/x/tools/go/ssa"
)

func init() { Registry["C04"] = C04 }

var skipTags = []string{"head", "style", "script", "noscript", "svg", "iframe", "object", "embed", "applet", "form", "input", "button", "select", "option", "textarea"}

// regexpLiterals returns the pattern strings of package-level `regexp.MustCompile("...")` variables.
func regexpLiterals(p *core.Program, pkgRel string) map[string]string {
	out := map[string]string{}
	pkg := p.AllPkgs[core.ModPath+"/"+pkgRel]
	if pkg == nil {
		return out
	}
	for _, f := range pkg.Syntax {
		for _, d := range f.Decls {
			gd, ok := d.(*ast.GenDecl)
			if !ok {
				continue
			}
			for _, sp := range gd.Specs {
				vs, ok := sp.(*ast.ValueSpec)
				if !ok {
					continue
				}
				for i, n := range vs.Names {
					if i >= len(vs.Values) {
						continue
					}
					call, ok := vs.Values[i].(*ast.CallExpr)
					if !ok || len(call.Args) != 1 {
						continue
					}
					if s, ok := core.ConstStringOf(pkg, call.Args[0]); ok {
						out[n.Name] = s
					}
				}
			}
		}
	}
	return out
}

// C04: non-rendered and non-reading content never leaks into the output.
func C04(p *core.Program, r *core.Report) {
	r.Explanation = "V1 (every source->output enumerator is gated): all decision paths of the converter's element visitor are enumerated with builder calls as events; any path that hands anything to the builder or lets the walk descend requires IsProbablyVisible(node) to have been decided true first; text reaches the builder only as real text nodes of the walked tree (never via TextContent); the dispatcher drops comments/doctypes; the visitor of GetOutputNodes (tables, captions, embeds) admits a descendant only if it is not script/style and probably visible (decision-list conformance). V2: wholesale copies in output code are reviewed. V3: IsProbablyVisible's decision list is the documented one (display none, hidden attribute, visibility hidden/collapse, aria-hidden=true), GetDisplayStyle lets an inline display override the tag default and maps script/style/meta/link to none, and the two regular expressions are the reviewed patterns. V4: the converter's switch sends every listed non-reading tag to a clause that returns false without StartNode. V3 also asks the two compiled pattern constants about fixed declarations (display/visibility in any position, with blanks around the colon, with !important; no other property). V5: InnerText does not descend into script/style (by tag, whatever their style says) nor into elements that are not probably visible and every text view is rendered through it (or is empty). V1 also: the ancestor loop of the caption visibility check starts at the element itself. V6: no pass rewrites the clone before the visibility gate of the walk sees it, except the two reviewed removal passes (shared with C18-T7). V7: the foreign-content pass of C05-S4 re-attaches the children only of an xmp/plaintext that is itself probably visible; never-rendered kinds (noscript, iframe, noembed, noframes, script, style) are removed with their text."
	r.NotCovered = "style sheets and computed CSS (the port only sees inline style and attributes: NEED-COMPUTE-CSS), what the two regular expressions match beyond their reviewed text, text inside embed placeholders (exempt by the property)."

	// ---- V1 main walk: the visit callback of Convert (helpers expanded), whatever it is called
	if vm := visitor(p, r, "V1"); vm != nil {
		ungated, notFirst, nElem := 0, 0, 0
		badText := map[string]bool{}
		badOther := 0
		var wit []string
		for _, pa := range vm.paths {
			evs := builderCalls(pa)
			res := pathResult(pa)
			isText := litOf(pa, `$1.Type == html.TextNode`) == 1
			isElem := litOf(pa, `$1.Type == html.ElementNode`) == 1
			switch {
			case isText:
				// a text node of a walked element: handed to the builder as it is, never descended
				if len(evs) != 1 || evs[0] != "AddTextNode($1)" || res != "return false" {
					badOther++
					wit = append(wit, pa.String())
				}
			case !isElem:
				// comments, doctypes, anything else: dropped
				if len(evs) != 0 || res != "return false" {
					badOther++
					wit = append(wit, pa.String())
				}
			default:
				nElem++
				admits := res != "return false" || len(evs) > 0
				vis, first := 0, ""
				for _, l := range pa.Lits {
					if strings.HasPrefix(l.Atom, "$1.Type == ") {
						continue
					}
					if first == "" {
						first = l.Atom
					}
					if l.Atom == "domutil.IsProbablyVisible($1)" {
						vis = tern(l.Val)
					}
				}
				if admits && vis != 1 {
					ungated++
					wit = append(wit, pa.String())
				}
				if admits && first != "domutil.IsProbablyVisible($1)" {
					notFirst++
				}
				for _, ev := range evs {
					if strings.HasPrefix(ev, "AddTextNode(") && ev != "AddTextNode(dom.ChildNodes($1)[0])" {
						badText[ev] = true
					}
				}
			}
		}
		if len(wit) > 3 {
			wit = wit[:3]
		}
		r.Add("V1", "visit callback: text nodes are handed over as they are, other non-elements are dropped", vm.pos, badOther == 0, fmt.Sprintf("%d deviating paths", badOther), wit...)
		r.Add("V1", "element visitor: nothing is admitted unless the element is probably visible", vm.pos, ungated == 0 && nElem > 100, fmt.Sprintf("%d of %d element paths admit content (builder call or descent) without IsProbablyVisible(node) decided true", ungated, nElem), wit...)
		r.Add("V1", "element visitor: visibility is decided before anything else", vm.pos, notFirst == 0, fmt.Sprintf("%d admitting paths start with another test", notFirst))
		var bt []string
		for k := range badText {
			bt = append(bt, k)
		}
		sort.Strings(bt)
		r.Add("V1", "element visitor: text enters the builder only as text nodes of the walked tree", vm.pos, len(bt) == 0, fmt.Sprintf("other text sources: %v (text computed from a subtree bypasses the per-element gate)", bt))
	}
	// WalkNodes: children of a node are visited only if the visitor returned true
	if wn := walkerBody(p, r, "V1"); wn != nil {
		// every path that descends (re-enters the walk for a child) carries a true answer of the
		// visit callback - a function value called with the node of this step
		N := fmt.Sprintf("$%d", paramIndexOfType(wn, "*html.Node"))
		paths, _, _ := core.EnumerateDecisions(p, wn, core.DecisionOpts{Outcome: noOutcome, Event: func(in ssa.Instruction, c *core.Canon) (string, bool) {
			if call, ok := in.(*ssa.Call); ok && isSelfCall(p, wn, call) {
				return "descend", true
			}
			return "", false
		}})
		bad := 0
		for _, pa := range paths {
			if !strings.Contains(pa.Outcome, "descend") {
				continue
			}
			okV := false
			for _, l := range pa.Lits {
				if l.Val && strings.Contains(l.Atom, "dyn:") && strings.Contains(l.Atom, "("+N+")") {
					okV = true
				}
			}
			if !okV {
				bad++
			}
		}
		r.Add("V1", "WalkNodes descends only where the visitor said so", p.Pos(wn.Pos()), bad == 0 && len(paths) >= 3, fmt.Sprintf("%d descending paths without a true visitor result", bad))
	}
	checkOutputNodesGate(p, r, "V1")

	// V1 continued: the roots handed to the wholesale cloner are themselves known visible. Tables and
	// embeds are picked by the gated element visitor; a figure's caption is picked by the image
	// extractor and must be either synthesised from visible text or checked up to the figure.
	visWithin := roles(p).visibleWithin
	if ex := mustInl(p, r, "V1", "(*mod/internal/extractor/embed.ImageExtractor).Extract"); ex != nil {
		paths, _, err := core.EnumerateDecisions(p, ex, core.DecisionOpts{ResolvePhis: true,
			Outcome: func(in ssa.Instruction, c *core.Canon) (string, bool) {
				if _, ok := in.(*ssa.Return); ok {
					return "return", true
				}
				return "", false
			},
			Event: func(in ssa.Instruction, c *core.Canon) (string, bool) {
				if st, ok := in.(*ssa.Store); ok && strings.HasSuffix(c.Of(st.Addr), "webdoc.Figure).Caption") {
					return "caption=" + c.Of(st.Val), true
				}
				return "", false
			}})
		if err != nil {
			r.Undecided("V1", "ImageExtractor.Extract", err.Error())
		}
		nCap, bad := 0, 0
		var wit []string
		for _, pa := range paths {
			i := strings.Index(pa.Outcome, "caption=")
			if i < 0 {
				continue
			}
			nCap++
			v := strings.SplitN(pa.Outcome[i+8:], " => ", 2)[0]
			if v == `dom.CreateElement("figcaption")` {
				continue // synthesised from visible text (V5)
			}
			checked := false
			for _, l := range pa.Lits {
				if strings.HasPrefix(l.Atom, "@visibleWithin(") && strings.Contains(l.Atom, v) && l.Val {
					checked = true
				}
			}
			if !checked {
				bad++
				wit = append(wit, pa.String())
			}
		}
		if len(wit) > 2 {
			wit = wit[:2]
		}
		r.Add("V1", "figure captions taken from the page are checked for visibility up to the figure", p.Pos(ex.Pos()), nCap >= 2 && bad == 0, fmt.Sprintf("%d paths set a caption, %d of them use an unchecked source element", nCap, bad), wit...)
	}
	if visWithin == nil {
		r.Undecided("V1", "visibility check of page captions", "no (element, root) bool helper with a visibility loop found below ImageExtractor.Extract")
	} else {
		iv := p.Inlined(visWithin)
		hs := loopHeaders(iv)
		ok := false
		if len(hs) == 1 {
			paths, _, _ := core.EnumerateDecisions(p, iv, core.DecisionOpts{IterateAt: hs[0], Outcome: func(in ssa.Instruction, c *core.Canon) (string, bool) {
				if ret, isR := in.(*ssa.Return); isR {
					return "return " + c.Of(ret.Results[0]), true
				}
				return "", false
			}})
			for _, pa := range paths {
				for _, l := range pa.Lits {
					if strings.HasPrefix(l.Atom, "domutil.IsProbablyVisible(") && !l.Val && pa.Outcome == "return false" {
						ok = true
					}
				}
			}
		}
		r.Add("V1", "the caption visibility check rejects an element with a hidden ancestor", p.Pos(iv.Pos()), ok, "")
		// ... and it starts at the element itself (CloneAndProcessTree keeps the root it is given
		// whatever its own attributes say, so the element's own visibility is tested here or nowhere)
		startsAtSelf := false
		if len(hs) == 1 {
			cv := core.NewCanon(p)
			for _, in := range hs[0].Instrs {
				ph, isPhi := in.(*ssa.Phi)
				if !isPhi {
					break
				}
				if !strings.HasSuffix(ph.Type().String(), "html.Node") {
					continue
				}
				for _, e := range ph.Edges {
					if par, isPar := e.(*ssa.Parameter); isPar && len(iv.Params) > 0 && (par == iv.Params[0] || len(iv.Params) > 1 && par == iv.Params[1] && iv.Signature.Recv() != nil) {
						startsAtSelf = true
					}
				}
				_ = cv
			}
		}
		r.Add("V1", "the caption visibility check starts at the element itself", p.Pos(iv.Pos()), startsAtSelf, "the cursor of the ancestor loop must start at the element parameter, not at its parent")
	}

	// ---- V2
	checkWholesaleCopies(p, r, "V2")
	checkPicturePruning(p, r, "V2")
	checkPicturePruning(p, r, "V2")

	// ---- V3
	checkVisibilityRules(p, r, "V3")

	// ---- V4
	if tbl := converterSwitch(p, r, "V4"); tbl != nil {
		for _, tag := range skipTags {
			cl := tbl.For(tag)
			ok := cl.Paths > 0 && cl.AlwaysReturnsFalse && !cl.Calls["StartNode"] && !cl.Calls["AddTextNode"] && !cl.Calls["AddDataTable"]
			r.Add("V4", "converter never walks into <"+tag+">", tbl.Pos, ok, cl.Describe())
		}
	}

	// ---- V5
	checkInnerTextCollector(p, r, "V5")
	// ---- V6: what the visibility gate reads (hidden, style, aria-hidden, class) is what the page
	// says: no pass rewrites the clone before the walk, except the two reviewed removal passes
	// (shared with C18-T7)
	checkConvertWalksFaithfulClone(p, r, "V6")
	// ---- V7: what the foreign-content pass of C05-S4 may turn into ordinary text
	checkForeignUnwrapKeeps(p, r, "V7")
	for _, fn := range outputFuncs(p) {
		for i, o := range outputReturns(p, fn) {
			if o.textOnly != 1 {
				continue
			}
			ok := o.value == `""` || o.serializer == "domutil.InnerText"
			r.Add("V5", fmt.Sprintf("%s.GenerateOutput text view #%d is visibility-aware", o.typ, i+1), p.Pos(o.ret.Pos()), ok, shortVal(o.value))
		}
	}
	// captions synthesised by the image extractor use InnerText as well
	if cf := mustInl(p, r, "V5", "(*mod/internal/extractor/embed.ImageExtractor).Extract"); cf != nil {
		c := core.NewCanon(p)
		v := ""
		for _, call := range core.Calls(cf, func(ci ssa.CallInstruction) bool { return core.IsCallTo(ci, "github.com/go-shiori/dom.SetTextContent") }) {
			v = c.Of(call.Common().Args[1])
		}
		inner := ""
		for _, call := range core.Calls(cf, func(ci ssa.CallInstruction) bool { return core.IsCallTo(ci, "github.com/go-shiori/dom.SetInnerHTML") }) {
			inner = c.Of(call.Common().Args[1])
		}
		r.Add("V5", "synthesised figure captions are rendered with InnerText from a re-parsed fragment", p.Pos(cf.Pos()),
			v == `strings.TrimSpace(domutil.InnerText(dom.CreateElement("div")))` && strings.HasPrefix(inner, "domutil.InnerText("), "caption = "+v+"; fragment = "+inner)
	}
}

// checkVisibilityRules (V3 of C04, shared with C02-O7 and C07-N4): IsProbablyVisible decides by the
// documented list, an inline display value overrides the tag default, script/style default to
// none. The two regular expressions are pinned by the atoms (private regexps are named by pattern).
func checkVisibilityRules(p *core.Program, r *core.Report, rule string) {
	if iv := mustInl(p, r, rule, domutilPkg+".IsProbablyVisible"); iv != nil {
		paths, atoms, err := core.EnumerateDecisions(p, iv, core.DecisionOpts{Outcome: func(in ssa.Instruction, c *core.Canon) (string, bool) {
			if ret, ok := in.(*ssa.Return); ok {
				return "return " + c.Of(ret.Results[0]), true
			}
			return "", false
		}})
		if err != nil {
			r.Undecided(rule, "IsProbablyVisible", err.Error())
		}
		spec := core.DecisionSpec{
			Atoms: map[string]string{
				"display.none": q(`domutil.GetDisplayStyle($0) == "none"`),
				"hidden.attr":  q(`dom.HasAttribute($0,"hidden")`),
				"visibility":   q(`regexp.Regexp.MatchString(` + rxVisibility + `,dom.GetAttribute($0,"style"))`),
				"aria.absent":  q(`dom.GetAttribute($0,"aria-hidden") == ""`),
				"aria.true":    q(`dom.GetAttribute($0,"aria-hidden") == "true"`),
			},
			Rules: []core.SpecRule{
				{Name: "display:none (inline style or tag default)", Guard: core.A("display.none"), Outcome: "return false"},
				{Name: "hidden attribute", Guard: core.A("hidden.attr"), Outcome: "return false"},
				{Name: "visibility:hidden/collapse", Guard: core.A("visibility"), Outcome: "return false"},
				{Name: "no aria-hidden", Guard: core.A("aria.absent"), Outcome: "return true"},
				{Name: "aria-hidden other than true", Guard: core.Not(core.A("aria.true")), Outcome: "return true"},
				{Name: "aria-hidden=true: only the Wikimedia math fallback image stays", Guard: core.True(), Outcome: `return strings.Contains(dom.GetAttribute($0,"class"),"fallback-image")`},
			},
			Excl: [][2]string{{"aria.absent", "aria.true"}},
		}
		core.CheckDecisionList(r, rule, "IsProbablyVisible", paths, atoms, spec)
		// The reviewed text of the pattern is pinned by the atom above (any other text is reported
		// for review); in addition, what the pattern says about declarations (it is a constant of the
		// source; it is compiled here and asked about fixed declarations - no code of the
		// repository runs): it recognises the `visibility` property in any position of an inline
		// style and no other property whose name merely ends in "visibility"
		// (backface-visibility:hidden leaves the element visible; the unanchored pattern dropped
		// such cells from retained data tables - defect repaired in domutil)
		for a := range atoms {
			if !strings.HasPrefix(a, "regexp.Regexp.MatchString(rx‹") || !strings.HasSuffix(a, `›,dom.GetAttribute($0,"style"))`) {
				continue
			}
			pat := strings.TrimSuffix(strings.TrimPrefix(a, "regexp.Regexp.MatchString(rx‹"), `›,dom.GetAttribute($0,"style"))`)
			re, err := regexp.Compile(pat)
			if err != nil {
				r.Undecided(rule, "the visibility pattern", err.Error())
				continue
			}
			var wrong []string
			for _, s := range []string{"visibility:hidden", "visibility: collapse", "visibility:collapse", "VISIBILITY:HIDDEN", "Visibility: Hidden", "visibility:hidden;", "color:red;visibility:hidden", "color:red; visibility: hidden",
				"color:red;\tvisibility:collapse", "color:red;\nvisibility:hidden;display:block", "visibility:  hidden", "visibility : hidden", "color:red;visibility :collapse"} {
				if !re.MatchString(s) {
					wrong = append(wrong, "misses "+s)
				}
			}
			for _, s := range []string{"backface-visibility:hidden", "-webkit-backface-visibility: hidden", "color:red;backface-visibility:hidden", "visibility:visible", "display:block"} {
				if re.MatchString(s) {
					wrong = append(wrong, "matches "+s)
				}
			}
			r.Add(rule, "the visibility pattern recognises the visibility property and only that", "", len(wrong) == 0, strings.Join(wrong, "; ")+" [pattern "+pat+"]")
		}
	}
	if gd := mustInl(p, r, rule, domutilPkg+".GetDisplayStyle"); gd != nil {
		// the inline style decides first
		checkDisplayPattern(p, r, rule, gd)
		// (merges are resolved along each path: a helper that hands back the value together
		// with a "found" flag is the same decision)
		paths, _, _ := core.EnumerateDecisions(p, gd, core.DecisionOpts{MaxPaths: 100000, ResolvePhis: true, Outcome: func(in ssa.Instruction, c *core.Canon) (string, bool) {
			if ret, ok := in.(*ssa.Return); ok {
				return "return " + c.Of(ret.Results[0]), true
			}
			return "", false
		}})
		ok := false
		inlineOutcome := ""
		for _, pa := range paths {
			sub := `regexp.Regexp.FindStringSubmatch(` + rxDisplay + `,dom.GetAttribute($0,"style"))[1]`
			if len(pa.Lits) == 1 && inlineDisplayGiven(pa.Lits[0]) && (strings.HasSuffix(pa.Outcome, sub) || strings.HasSuffix(pa.Outcome, sub+")")) {
				ok = true
				inlineOutcome = pa.Outcome
			}
		}
		r.Add(rule, "an inline display value overrides the tag default", p.Pos(gd.Pos()), ok, "first decision of GetDisplayStyle: rxDisplay on the style attribute")
		// CSS keywords are case-insensitive: the value is compared with "none"/"inline"/... in lower case
		r.Add(rule, "the inline display value is normalised to lower case", p.Pos(gd.Pos()),
			inlineOutcome == `return strings.ToLower(regexp.Regexp.FindStringSubmatch(`+rxDisplay+`,dom.GetAttribute($0,"style"))[1])`,
			"display: NONE hides an element like display: none; returned: "+inlineOutcome)
		// (template: its content is inert markup a script may instantiate, never rendered)
		for _, t := range []string{"script", "style", "template"} {
			n, okT := 0, true
			for _, pa := range consistentWith(paths, "dom.TagName($0)", t) {
				if len(pa.Lits) > 0 && inlineDisplayGiven(pa.Lits[0]) {
					continue // inline display given
				}
				n++
				if pa.Outcome != `return "none"` {
					okT = false
				}
			}
			r.Add(rule, "default display of <"+t+"> is none", p.Pos(gd.Pos()), okT && n > 0, fmt.Sprintf("%d decision paths for the tag without inline display", n))
		}
	}
	// (the two patterns are pinned by the atoms above: private regexps are named by their pattern)

}

// checkDisplayPattern: what the display pattern (a constant of the source, compiled here - no
// code of the repository runs) says about fixed declarations: it finds the value of the display
// property in any position of an inline style, with blanks around the colon and with a trailing
// !important, and takes no other property for it.
func checkDisplayPattern(p *core.Program, r *core.Report, rule string, gd *ssa.Function) {
	c := core.NewCanon(p)
	pats := map[string]bool{}
	for _, call := range core.Calls(gd, func(ci ssa.CallInstruction) bool { return core.IsCallTo(ci, "(*regexp.Regexp).FindStringSubmatch") }) {
		if a := c.Of(call.Common().Args[0]); strings.HasPrefix(a, "rx‹") && strings.HasSuffix(c.Of(call.Common().Args[1]), `"style")`) {
			pats[strings.TrimSuffix(strings.TrimPrefix(a, "rx‹"), "›")] = true
		}
	}
	if len(pats) != 1 {
		r.Undecided(rule, "the display pattern", fmt.Sprintf("%d patterns applied to the style attribute in GetDisplayStyle", len(pats)))
		return
	}
	for pat := range pats {
		re, err := regexp.Compile(pat)
		if err != nil {
			r.Undecided(rule, "the display pattern", err.Error())
			return
		}
		var wrong []string
		for _, w := range [][2]string{{"display:none", "none"}, {"display: none;", "none"}, {"DISPLAY:NONE", "NONE"}, {"display:none !important", "none"}, {"display:none!important", "none"},
			{"display: none ! important;color:red", "none"}, {"display : none", "none"}, {"display :none;", "none"}, {"color:red;display:none", "none"}, {"color:red; display: inline-block ;", "inline-block"},
			{"color:red;\tdisplay:none", "none"}} {
			m := re.FindStringSubmatch(w[0])
			if len(m) < 2 || m[1] != w[1] {
				wrong = append(wrong, "misses "+w[0])
			}
		}
		for _, s := range []string{"visibility:hidden", "display-mode:none", "color:red", "display:", "display:none foo;"} {
			if m := re.FindStringSubmatch(s); len(m) >= 2 {
				wrong = append(wrong, "matches "+s)
			}
		}
		r.Add(rule, "the display pattern reads the display property in every spelling of an inline declaration", p.Pos(gd.Pos()), len(wrong) == 0, strings.Join(wrong, "; ")+" [pattern "+pat+"]")
	}
}

// checkInnerTextCollector (V5 of C04; shared with C02-O11 and C08-E11): the recursive text
// collector of domutil.InnerText conforms to its documented decision list - what it writes for a
// text node (the data between two blanks, so that neighbouring nodes never run together), what it
// does not descend into (line breaks, script/style, elements that are not probably visible), and
// that everything else is rendered through its children.
func checkInnerTextCollector(p *core.Program, r *core.Report, rule string) {
	var innerFinder *ssa.Function
	if itf := mustFunc(p, r, rule, domutilPkg+".InnerText"); itf != nil {
		for _, f := range recursiveWorkers(p, itf) {
			if len(core.Calls(p.Inlined(f), func(ci ssa.CallInstruction) bool {
				return isSinkWrite(ci)
			})) > 0 {
				innerFinder = f
			}
		}
		if innerFinder == nil {
			r.Undecided(rule, "InnerText: the recursive text collector", "no self-recursive closure/helper of InnerText writes to the buffer")
		}
	}
	if it := p.Inlined(innerFinder); it != nil {
		paths, atoms, err := core.EnumerateDecisions(p, it, core.DecisionOpts{
			Outcome: func(in ssa.Instruction, c *core.Canon) (string, bool) {
				if _, ok := in.(*ssa.Return); ok {
					return "done", true
				}
				return "", false
			},
			Event: func(in ssa.Instruction, c *core.Canon) (string, bool) {
				if call, ok := in.(*ssa.Call); ok {
					if s, ok := sinkWritten(call, c); ok {
						return "write " + s, true
					}
					if isSelfCall(p, innerFinder, call) {
						var nodes []string
						for _, a := range call.Call.Args {
							if types.TypeString(a.Type(), func(p *types.Package) string { return p.Name() }) == "*html.Node" {
								nodes = append(nodes, c.Of(a))
							}
						}
						return "recurse " + strings.Join(nodes, ","), true
					}
				}
				return "", false
			},
		})
		if err != nil {
			r.Undecided(rule, "InnerText", err.Error())
		}
		// the node parameter of the collector ($0 for the closure form, any position for a named helper)
		N := fmt.Sprintf("$%d", paramIndexOfType(it, "*html.Node"))
		child := `μ(` + N + `.FirstChild|@0.NextSibling)`
		spec := core.DecisionSpec{
			Atoms: map[string]string{
				"text":    q(`` + N + `.Type == html.TextNode`),
				"element": q(`` + N + `.Type == html.ElementNode`),
				"br":      q(`` + N + `.Data == "br"`),
				"visible": q(`domutil.IsProbablyVisible(` + N + `)`),
				// (the element name read as n.Data or through dom.TagName)
				"script":   `^(` + regexp.QuoteMeta(N+`.Data`) + `|` + regexp.QuoteMeta(`dom.TagName(`+N+`)`) + `) == "script"$`,
				"style":    `^(` + regexp.QuoteMeta(N+`.Data`) + `|` + regexp.QuoteMeta(`dom.TagName(`+N+`)`) + `) == "style"$`,
				"children": q(`loop1(` + child + ` == nil)`),
			},
			Rules: []core.SpecRule{
				{Name: "text node (no children)", Guard: core.And(core.A("text"), core.A("children")), Outcome: `write ((" " + ` + N + `.Data) + " ") => done`},
				{Name: "text node", Guard: core.A("text"), Outcome: `write ((" " + ` + N + `.Data) + " "); recurse ` + child + ` => done`},
				{Name: "line break", Guard: core.And(core.A("element"), core.A("br")), Outcome: `write "|\\/|" => done`},
				{Name: "script or style: source code, not descended whatever its style says", Guard: core.And(core.A("element"), core.Or(core.A("script"), core.A("style"))), Outcome: "done"},
				{Name: "hidden element: not descended", Guard: core.And(core.A("element"), core.Not(core.A("visible"))), Outcome: "done"},
				{Name: "no children", Guard: core.A("children"), Outcome: "done"},
				{Name: "visible element / other node: children are rendered", Guard: core.True(), Outcome: "recurse " + child + " => done"},
			},
			// a node has one type; an element has one name
			Excl: [][2]string{{"text", "element"}, {"br", "script"}, {"br", "style"}, {"script", "style"}},
		}
		core.CheckDecisionList(r, rule, "InnerText(finder)", paths, atoms, spec)
	}
	// and nothing gets around the collector: every string InnerText returns is made from the
	// buffer the collector fills (or is a constant) - a shortcut that returns the text of a
	// child directly skips the tests above for the element itself
	if itf := p.Func(core.ExpandKey(domutilPkg + ".InnerText")); itf != nil && innerFinder != nil {
		fn := p.Inlined(itf)
		var bad []string
		nRet := 0
		seen := map[ssa.Value]bool{}
		var walk func(v ssa.Value, pos token.Pos)
		walk = func(v ssa.Value, pos token.Pos) {
			if seen[v] {
				return
			}
			seen[v] = true
			switch x := v.(type) {
			case *ssa.Const:
			case *ssa.Phi:
				for _, e := range x.Edges {
					walk(e, pos)
				}
			case *ssa.BinOp:
				walk(x.X, pos)
				walk(x.Y, pos)
			case *ssa.Slice:
				walk(x.X, pos)
			case *ssa.Call:
				if core.IsCallTo(x, "(*bytes.Buffer).String", "(*strings.Builder).String") {
					return
				}
				n := 0
				for _, a := range x.Call.Args {
					if bt, ok := a.Type().Underlying().(*types.Basic); ok && bt.Info()&types.IsString != 0 {
						if _, isC := a.(*ssa.Const); !isC {
							n++
							walk(a, pos)
						}
					} else if st, ok := a.Type().Underlying().(*types.Slice); ok {
						if bt, ok := st.Elem().Underlying().(*types.Basic); ok && bt.Info()&types.IsString != 0 {
							n++
							walk(a, pos)
						}
					}
				}
				if n == 0 {
					bad = append(bad, p.Pos(pos)+": "+shortVal(core.NewCanon(p).Of(v)))
				}
			default:
				bad = append(bad, p.Pos(pos)+": "+shortVal(core.NewCanon(p).Of(v)))
			}
		}
		for _, ret := range core.Returns(fn) {
			for _, res := range ret.Results {
				nRet++
				walk(res, ret.Pos())
			}
		}
		r.Add(rule, "InnerText returns only what its collector gathered", p.Pos(itf.Pos()), nRet >= 1 && len(bad) == 0, fmt.Sprintf("%d returned values; made from something else than the collector's buffer: %v", nRet, bad))
	}
}
