package props

import (
	"fmt"
	"go/token"
	"strings"

	"ddcheck/core"

	"golang.org/x/tools/go/ssa"
)

// checkHrefBase (C16-Q6): a returned pagination URL is "the normalised target of an anchor" only
// if the anchor's href is resolved against the page URL as the caller gave it. The finders also
// make trimmed copies of that URL (no trailing slash, no fragment) for their comparisons; such a
// copy is a different base for relative references. Every base handed to
// stringutil.CreateAbsoluteURL below package pagination must therefore be, through the chain of
// module callers, the very pageURL parameter of a FindPagination method (or of an exported
// function nobody in the module calls) - never a local copy, a re-parsed or a loaded value.
func checkHrefBase(p *core.Program, r *core.Report, rule string) {
	pag := core.ExpandKey("mod/internal/pagination")
	cg := p.CallGraph()
	c := core.NewCanon(p)
	var trace func(fn *ssa.Function, v ssa.Value, depth int, seen map[ssa.Value]bool) (bool, string)
	trace = func(fn *ssa.Function, v ssa.Value, depth int, seen map[ssa.Value]bool) (bool, string) {
		if depth > 12 || seen[v] {
			return true, ""
		}
		seen[v] = true
		switch x := v.(type) {
		case *ssa.Parameter:
			if fn.Name() == "FindPagination" {
				return true, ""
			}
			idx := -1
			for i, pa := range fn.Params {
				if pa == x {
					idx = i
				}
			}
			node := cg.Nodes[fn]
			if idx < 0 || node == nil {
				return false, "parameter of " + core.ShortKey(fn) + " cannot be followed"
			}
			for _, e := range node.In {
				caller := e.Caller.Func
				if e.Site == nil || caller == nil || !core.IsModPkg(core.FnPkgPath(caller)) {
					continue
				}
				args := e.Site.Common().Args
				k := idx
				if e.Site.Common().IsInvoke() {
					k = idx - 1 // the receiver is not among the arguments of an interface call
				}
				if k < 0 || k >= len(args) {
					continue
				}
				if ok, why := trace(caller, args[k], depth+1, seen); !ok {
					return false, why
				}
			}
			return true, ""
		case *ssa.FreeVar:
			par := fn.Parent()
			if par == nil {
				return false, "free variable without parent"
			}
			idx := -1
			for i, fv := range fn.FreeVars {
				if fv == x {
					idx = i
				}
			}
			for _, b := range par.Blocks {
				for _, in := range b.Instrs {
					if mc, ok := in.(*ssa.MakeClosure); ok && mc.Fn == fn && idx >= 0 && idx < len(mc.Bindings) {
						if ok, why := trace(par, mc.Bindings[idx], depth+1, seen); !ok {
							return false, why
						}
					}
				}
			}
			return true, ""
		case *ssa.Phi:
			for _, e := range x.Edges {
				if ok, why := trace(fn, e, depth+1, seen); !ok {
					return false, why
				}
			}
			return true, ""
		}
		return false, fmt.Sprintf("%s in %s (%s)", shortVal(c.Of(v)), core.ShortKey(fn), p.Pos(valuePos(v, fn)))
	}
	n := 0
	for _, fn := range p.ModFunctions(false) {
		pp := core.FnPkgPath(fn)
		if pp != pag {
			continue
		}
		for _, call := range core.Calls(fn, func(ci ssa.CallInstruction) bool {
			return core.IsCallTo(ci, "mod/internal/stringutil.CreateAbsoluteURL")
		}) {
			n++
			ok, why := trace(fn, call.Common().Args[1], 0, map[ssa.Value]bool{})
			if !ok {
				why = "hrefs are resolved against " + why + ", not against the page URL handed to the finder"
			}
			r.Add(rule, "hrefs are resolved against the caller's page URL: "+core.ShortKey(fn), p.Pos(call.Pos()), ok, strings.TrimSpace(why))
		}
	}
	r.Floor(rule, 2)
	_ = n
}

func valuePos(v ssa.Value, fn *ssa.Function) token.Pos {
	if v.Pos().IsValid() {
		return v.Pos()
	}
	if in, ok := v.(ssa.Instruction); ok && in.Pos().IsValid() {
		return in.Pos()
	}
	return fn.Pos()
}
