package props

import (
	"fmt"
	"go/types"
	"regexp"
	"sort"
	"strings"

	"ddcheck/core"

	"golang.org/x/tools/go/ssa"
)

func init() { Registry["C16"] = C16 }

const paginationPkg = "mod/internal/pagination"

// C16: pagination links are real, same-site, fetchable URLs.
func C16(p *core.Program, r *core.Report) {
	r.Explanation = "Q5: stringutil.UnescapedString, which renders the allowed prefix scheme://host/ and every compared URL, writes the scheme, host, path and query of its argument as they are (the trailing slash of the prefix is what excludes look-alike hosts). Sink sanitisation. Q1 (PrevNext): the only append to the candidate list is unreachable once the `ParseRequestURI(href) succeeded` edge or the `href has the scheme://host/ prefix of the page` edge is removed (guard-cut); the stored link is the normalised absolute href of an anchor of the document; the function returns \"\" or the linkHref of a candidate. Q2 (PageNumber sources): every PageInfo.URL in the module is \"\", a copy of another PageInfo.URL, the current document's own URL (two reviewed sites in the detector), or - in getPageInfoAndText, by decision-path enumeration - the normalised href of an anchor that parsed, has the page's host and an http/https scheme; NextPagingURL fields only ever receive such URLs. Q3 (PageNumber sinks): PrevPage is stored only from a PageInfo.URL that is not the current page (normalised comparison) and NextPage only from NextPagingURL. Q6: every base handed to stringutil.CreateAbsoluteURL below package pagination is, through the chain of module callers, the very pageURL parameter of a FindPagination method - never a trimmed copy, a re-parsed or a loaded value. Q7: Apply runs the finders only for a page URL with a host: every FindPagination call (direct, through a helper of the root package or through an interface) is unreachable once the edges on which the host is known to be non-empty are removed."
	r.NotCovered = "that the link is the right one (C17), host equality subtleties (ports, case) and what counts as the same site beyond scheme and host, the regular expressions scoring the links."

	c := core.NewCanon(p)
	// ---- Q1
	fo := mustInl(p, r, "Q1", "(*"+paginationPkg+".PrevNextFinder).FindOutlink")
	if fo != nil {
		href := `stringutil.CreateAbsoluteURL(dom.GetAttribute(elem(dom.GetElementsByTagName($1,"a")),"href"),$2)`
		var appends []*ssa.Call
		for _, b := range fo.Blocks {
			for _, in := range b.Instrs {
				if call, ok := in.(*ssa.Call); ok {
					if bi, ok := call.Call.Value.(*ssa.Builtin); ok && bi.Name() == "append" && strings.Contains(call.Type().String(), "pagingLinkScore") {
						appends = append(appends, call)
					}
				}
			}
		}
		r.Add("Q1", "FindOutlink: one admission point for candidates", p.Pos(fo.Pos()), len(appends) == 1, fmt.Sprintf("%d appends to the candidate list", len(appends)))
		cutParse, m1 := core.CutAtoms(p, fo, regexp.MustCompile(q(`url.ParseRequestURI(`+href+`)#1 == nil`)), true)
		// same site: the href starts with the page's scheme://host/ prefix, or the host of the
		// parsed href equals the host of the page URL (case-insensitively; the scheme is tested
		// separately)
		hostEq := `(strings\.EqualFold|stringutil\.EqualsIgnoreCase)\(url\.(ParseRequestURI|Parse)\(` + regexp.QuoteMeta(href) + `\)#0\.Host,\$2\.Host\)`
		cutPrefix, m2 := core.CutAtoms(p, fo, regexp.MustCompile(`^(strings\.HasPrefix\(strings\.ToLower\(`+regexp.QuoteMeta(href)+`\),strings\.ToLower\(stringutil\.UnescapedString\(url\.Parse\(url\.URL\.String\(\$2\)\)#0\)\)\)|`+hostEq+`)$`), true)
		byHost := len(m2) == 1 && !strings.HasPrefix(m2[0], "strings.HasPrefix(")
		// http(s) only: the prefix test alone admits whatever scheme the page URL has (ftp://,
		// file://); the page-number finder tests the scheme of every link, so must this one
		cutScheme, m3 := core.CutAtoms(p, fo, regexp.MustCompile(`^(url\.(ParseRequestURI|Parse)\(`+regexp.QuoteMeta(href)+`\)#0\.Scheme == "https?"|in\((set|map)‹"http"(:[^,›]*)?,"https"(:[^,›]*)?›,url\.(ParseRequestURI|Parse)\(`+regexp.QuoteMeta(href)+`\)#0\.Scheme\))$`), true)
		for _, ap := range appends {
			r.Add("Q1", "candidate links have the scheme http or https", p.Pos(ap.Pos()), len(m3) >= 1 && !core.InstrReachable(fo, cutScheme, ap), fmt.Sprintf("matching tests: %v", m3))
		}
		for _, ap := range appends {
			r.Add("Q1", "candidate links parse as absolute request URIs", p.Pos(ap.Pos()), len(m1) == 1 && !core.InstrReachable(fo, cutParse, ap), fmt.Sprintf("matching tests: %v", m1))
			r.Add("Q1", "candidate links are on the page's host (scheme://host/ prefix, or equal hosts)", p.Pos(ap.Pos()), len(m2) == 1 && !core.InstrReachable(fo, cutPrefix, ap), fmt.Sprintf("matching tests: %d", len(m2)))
		}
		// the allowed prefix is rendered after the path was reset to "/"
		var unesc []ssa.CallInstruction
		for _, call := range core.Calls(fo, func(ci ssa.CallInstruction) bool { return core.IsCallTo(ci, "mod/internal/stringutil.UnescapedString") }) {
			if c.Of(call.Common().Args[0]) == "url.Parse(url.URL.String($2))#0" {
				unesc = append(unesc, call)
			}
		}
		okPrefix := false
		if len(unesc) == 3 {
			okPath, _ := core.MustPassThrough(fo, unesc[2], func(in ssa.Instruction) bool {
				st, isSt := in.(*ssa.Store)
				if !isSt {
					return false
				}
				s, isC := core.ConstString(st.Val)
				return isC && s == "/" && c.Of(st.Addr) == "&url.Parse(url.URL.String($2))#0.Path"
			}, nil)
			okPrefix = okPath
		}
		r.Add("Q1", "the allowed prefix is the page URL with its path reset to \"/\"", p.Pos(fo.Pos()), okPrefix || byHost, fmt.Sprintf("%d renderings of the page URL (not needed when hosts are compared)", len(unesc)))
		// stored link and returned value
		linkField := ""
		for _, a := range allocsOfAny(fo) {
			if !strings.HasSuffix(a.Type().String(), "pagingLinkScore") {
				continue
			}
			fs := fieldStores(a)
			// the candidate's link: the string field that receives the normalised href
			for label, vals := range fs {
				nNorm := 0
				if len(vals) == 1 && allPhiLeaves(vals[0], func(v ssa.Value) bool {
					if s, isC := core.ConstString(v); isC && s == "" {
						return true // the "could not be cleaned" alternative (such a link is skipped; an empty link is no URL)
					}
					if c.Of(v) == "stringutil.UnescapedString(url.Parse("+href+")#0)" {
						nNorm++
						return true
					}
					return false
				}, map[ssa.Value]bool{}) && nNorm > 0 {
					linkField = label
				}
			}
		}
		r.Add("Q1", "a candidate's link is the normalised absolute href of a document anchor", p.Pos(fo.Pos()), linkField != "", "link field: "+linkField)
		for _, ret := range core.Returns(fo) {
			ok := linkField != "" && returnIsLinkHrefOrEmpty(ret.Results[0], linkField, map[ssa.Value]bool{})
			r.Add("Q1", "FindOutlink returns \"\" or the link of a candidate", p.Pos(ret.Pos()), ok, shortVal(c.Of(ret.Results[0])))
		}
		r.Floor("Q1", 6)
	}

	// ---- Q2
	// the helper that turns a numbered anchor into a PageInfo is found by what it is: the
	// unexported function below PageNumberFinder.FindOutlink that takes the anchor and the page URL
	// and makes an info.PageInfo (its name, receiver and extra results may change)
	var gp *ssa.Function
	if fo2 := mustFunc(p, r, "Q2", "(*"+paginationPkg+".PageNumberFinder).FindOutlink"); fo2 != nil {
		var cands []*ssa.Function
		for _, f := range p.StaticRegion(fo2)[1:] {
			if paramIndexOfType(f, "*html.Node") < 0 || paramIndexOfType(f, "*url.URL") < 0 || len(allocsOf(f, "/internal/pagination/info", "PageInfo")) == 0 {
				continue
			}
			if res := f.Signature.Results(); res.Len() == 0 || !strings.HasSuffix(res.At(0).Type().String(), "info.PageInfo") {
				continue
			}
			cands = append(cands, f)
		}
		if len(cands) == 1 {
			gp = p.Inlined(cands[0])
		} else {
			r.Undecided("Q2", "the helper that makes a PageInfo from a numbered anchor", fmt.Sprintf("expected one unexported function (anchor, page URL) -> *info.PageInfo below PageNumberFinder.FindOutlink, found %d", len(cands)))
		}
	}
	if gp != nil {
		href := fmt.Sprintf(`stringutil.CreateAbsoluteURL(dom.GetAttribute($%d,"href"),$%d)`, paramIndexOfType(gp, "*html.Node"), paramIndexOfType(gp, "*url.URL"))
		pr := `url.ParseRequestURI(` + href + `)`
		U := fmt.Sprintf("$%d", paramIndexOfType(gp, "*url.URL"))
		paths, _, err := core.EnumerateDecisions(p, gp, core.DecisionOpts{
			ResolvePhis: true, // the recorded URL may be a merge of a helper's results: render it per path
			Outcome: func(in ssa.Instruction, c *core.Canon) (string, bool) {
				if ret, ok := in.(*ssa.Return); ok {
					return "return " + c.Of(ret.Results[0]), true
				}
				return "", false
			},
			Event: func(in ssa.Instruction, c *core.Canon) (string, bool) {
				if st, ok := in.(*ssa.Store); ok && c.Of(st.Addr) == "&new(info.PageInfo).URL" {
					return "url=" + c.Of(st.Val), true
				}
				return "", false
			}})
		if err != nil {
			r.Undecided("Q2", "getPageInfoAndText", err.Error())
		}
		nURL, bad := 0, 0
		var wit []string
		for _, pa := range paths {
			i := strings.Index(pa.Outcome, "url=")
			if i < 0 {
				continue
			}
			v := strings.SplitN(pa.Outcome[i+4:], " => ", 2)[0]
			if v == `""` {
				continue
			}
			nURL++
			lit := map[string]int{}
			for _, l := range pa.Lits {
				lit[l.Atom] = tern(l.Val)
			}
			ok := strings.HasPrefix(v, "url.URL.String(") && strings.Contains(v, "url.Parse("+href+")#0") &&
				lit[pr+`#1 == nil`] == 1 && (lit[U+`.Host == `+pr+`#0.Host`] == 1 || lit[pr+`#0.Host == `+U+`.Host`] == 1) &&
				(lit[pr+`#0.Scheme == "http"`] == 1 || lit[pr+`#0.Scheme == "https"`] == 1 || lit[`in(set‹"http","https"›,`+pr+`#0.Scheme)`] == 1)
			if !ok {
				bad++
				wit = append(wit, pa.String())
			}
		}
		if len(wit) > 2 {
			wit = wit[:2]
		}
		r.Add("Q2", "numbered links are collected only with a parsed, same-host, http(s) target", p.Pos(gp.Pos()), nURL >= 1 && bad == 0, fmt.Sprintf("%d paths record a link URL, %d without the full validation", nURL, bad), wit...)
	}
	// all PageInfo.URL sources in the module, per analysis unit (exported function with its
	// unexported helpers expanded, so that a site is named and judged in the context of its
	// exported caller however the helpers are cut)
	docURL := map[string]string{ // the current document's URL as the unit receives it
		"internal/pagination/parser.DetectParamInfo":                "url.URL.String(url.ParseRequestURI($1)#0)",
		"(*internal/pagination/info.PageParamInfo).InsertFirstPage": "$1",
	}
	reviewedDoc := map[string]string{
		"internal/pagination/parser.DetectParamInfo":                "two-page documents: the current document's URL stands in for the plain number (the current page is filtered again in FindPagination, Q3)",
		"(*internal/pagination/info.PageParamInfo).InsertFirstPage": "inserts the current document as first page (filtered in FindPagination, Q3)",
	}
	var gpOrig *ssa.Function
	if gp != nil {
		gpOrig = p.Original(gp)
	}
	var pagUnits []*ssa.Function
	for _, u := range units(p) {
		if strings.Contains(core.FnPkgPath(p.Original(u)), "/internal/pagination") {
			pagUnits = append(pagUnits, u)
		}
	}
	nSrc := 0
	for _, fn := range pagUnits {
		key := unitName(p, fn)
		inGP := map[*ssa.BasicBlock]bool{}
		for _, reg := range p.InlineRegions(fn) {
			if reg.Callee == gpOrig {
				for b := range reg.Blocks {
					inGP[b] = true
				}
			}
		}
		for _, b := range fn.Blocks {
			for _, in := range b.Instrs {
				st, ok := in.(*ssa.Store)
				if !ok {
					continue
				}
				addr := c.Of(st.Addr)
				if !(strings.HasSuffix(addr, ".URL") && strings.Contains(addr, "info.PageInfo")) {
					continue
				}
				nSrc++
				v := c.Of(st.Val)
				class := ""
				switch {
				case v == `""`:
					class = "empty"
				case gpOrig != nil && (p.Original(fn) == gpOrig || inGP[b]):
					class = "validated anchor (see previous obligation)"
				case isPageInfoURLCopy(st.Val, map[ssa.Value]bool{}):
					class = "copy of another PageInfo.URL"
				case reviewedDoc[key] != "" && v == docURL[key]:
					class = "current document: " + reviewedDoc[key]
				case strings.HasSuffix(key, "MonotonicPageInfoGroups).AddNumber") && v == "$2":
					class = "parameter (call sites checked below)"
				case strings.HasSuffix(key, "ListLinkInfo).Evaluate") && v == "$3":
					class = "parameter firstPageURL (call sites checked below)"
				}
				r.Add("Q2", fmt.Sprintf("%s: source of PageInfo.URL (%s)", key, shortVal(v)), p.Pos(st.Pos()), class != "", class)
			}
		}
	}
	r.Floor("Q2", 6)
	for _, fn := range units(p) {
		key := unitName(p, fn)
		for _, call := range core.Calls(fn, func(ci ssa.CallInstruction) bool {
			return core.IsCallTo(ci, "(*"+paginationPkg+"/info.MonotonicPageInfoGroups).AddNumber")
		}) {
			v := c.Of(call.Common().Args[2])
			r.Add("Q2", key+": plain numbers carry no URL", p.Pos(call.Pos()), v == `""`, "AddNumber(_, "+v+")")
		}
		for _, call := range core.Calls(fn, func(ci ssa.CallInstruction) bool {
			return core.IsCallTo(ci, "("+paginationPkg+"/info.ListLinkInfo).Evaluate")
		}) {
			a3 := call.Common().Args[3]
			s0, isEmpty := core.ConstString(a3)
			r.Add("Q2", key+": the first-page URL given to Evaluate is a collected page URL", p.Pos(call.Pos()), (isEmpty && s0 == "") || isPageInfoURLCopy(a3, map[ssa.Value]bool{}), shortVal(c.Of(a3)))
		}
		for _, call := range core.Calls(fn, func(ci ssa.CallInstruction) bool {
			return core.IsCallTo(ci, "(*"+paginationPkg+"/info.PageParamInfo).InsertFirstPage", "(*"+paginationPkg+"/info.PageParamInfo).CanInsertFirstPage")
		}) {
			v := c.Of(call.Common().Args[1])
			// the document URL as it is, or rendered from a private copy of the parsed URL whose
			// path (and nothing else) lost its trailing slash. Trimming the rendered string is not
			// the same: it eats the slash a query or fragment ends with and yields a URL that is
			// neither the document's nor any anchor's (defect repaired in the detector).
			ok := docURL[key] != "" && (v == docURL[key] || isPathTrimmedCopy(c, call.Common().Args[1], strings.TrimSuffix(strings.TrimPrefix(docURL[key], "url.URL.String("), ")")))
			r.Add("Q2", key+": the inserted first page is the document URL, at most without the trailing slash of its path", p.Pos(call.Pos()), ok, core.Callee(call).Name()+"(_, "+v+")")
		}
	}
	// NextPagingURL only receives PageInfo URLs
	nNext := 0
	for _, fn := range pagUnits {
		for _, b := range fn.Blocks {
			for _, in := range b.Instrs {
				st, ok := in.(*ssa.Store)
				if !ok || !strings.HasSuffix(c.Of(st.Addr), ".NextPagingURL") {
					continue
				}
				nNext++
				v := c.Of(st.Val)
				ok2 := v == `""` || isPageInfoURLCopy(st.Val, map[ssa.Value]bool{}) || strings.HasSuffix(v, ".NextPagingURL")
				r.Add("Q2", unitName(p, fn)+": NextPagingURL is the URL of a collected page", p.Pos(st.Pos()), ok2, shortVal(v))
			}
		}
	}
	r.Add("Q2", "writers of NextPagingURL examined", "", nNext >= 4, fmt.Sprintf("%d stores", nNext))

	// ---- Q6
	checkHrefBase(p, r, "Q6")
	// ---- Q7: "never an empty-host URL": both finders compare links with the scheme://host/ prefix
	// of the page URL; for a page URL without a host that prefix is "scheme:///" and the links
	// that pass are host-less themselves. Apply runs the finders only for a page URL with a host
	// (ApplyForURL refuses such a URL anyway, L7): every FindPagination call is unreachable once
	// the edges are removed on which the host is known to be non-empty.
	if ap := mustInl(p, r, "Q7", core.ModPath+".Apply"); ap != nil {
		cut, m := core.CutAtoms(p, ap, regexp.MustCompile(`^(.*\.OriginalURL\.Host|url\.URL\.Hostname\(.*\.OriginalURL\)) == ""$`), false)
		n, bad := 0, 0
		// the finders are called in Apply itself or in a helper of the root package
		finderCallers := map[*ssa.Function]bool{}
		for _, f := range p.ModFunctions(false) {
			if core.FnPkgPath(f) != core.ModPath {
				continue
			}
			if len(core.Calls(f, func(ci ssa.CallInstruction) bool {
				if cc := ci.Common(); cc.IsInvoke() && cc.Method.Name() == "FindPagination" {
					return true
				}
				g := core.Callee(ci)
				return g != nil && g.Name() == "FindPagination"
			})) > 0 {
				finderCallers[f] = true
			}
		}
		for _, call := range core.Calls(ap, func(ci ssa.CallInstruction) bool {
			if cc := ci.Common(); cc.IsInvoke() && cc.Method.Name() == "FindPagination" {
				return true // through an interface both finders implement
			}
			f := core.Callee(ci)
			return f != nil && (f.Name() == "FindPagination" || finderCallers[p.Original(f)] && p.Original(f) != p.Original(ap))
		}) {
			n++
			if len(m) == 0 || core.InstrReachable(ap, cut, call) {
				bad++
			}
		}
		r.Add("Q7", "Apply looks for pagination links only when the page URL has a host", p.Pos(ap.Pos()), n >= 1 && bad == 0, fmt.Sprintf("%d calls of the finders, %d reachable without the host test; tests found: %v", n, bad, m))
	}

	// ---- Q5: the same-site test of PrevNext compares with the rendering of scheme://host/ by
	// UnescapedString: the trailing "/" of that prefix is what stops a look-alike host
	// (example.com.evil.org, example.community). The renderer writes scheme, host, path and query
	// of the URL it is given as they are.
	if us := mustInl(p, r, "Q5", "mod/internal/stringutil.UnescapedString"); us != nil {
		c5 := core.NewCanon(p)
		written := map[string]bool{}
		for _, call := range core.Calls(us, func(ci ssa.CallInstruction) bool { return core.IsCallTo(ci, "(*strings.Builder).WriteString") }) {
			if a := call.Common().Args; len(a) == 2 {
				written[c5.Of(a[1])] = true
			}
		}
		var missing []string
		for _, w := range []string{"$0.Scheme", "$0.Host", "$0.Path", "$0.RawQuery"} {
			if !written[w] {
				missing = append(missing, w)
			}
		}
		r.Add("Q5", "UnescapedString writes scheme, host, path and query unmodified", p.Pos(us.Pos()), len(missing) == 0, fmt.Sprintf("parts not written as they are: %v (written: %v)", missing, sortedKeys(written)))
	}

	// ---- Q3
	fp := mustInl(p, r, "Q3", "(*"+paginationPkg+".PageNumberFinder).FindPagination")
	if fp != nil {
		var results []string
		// local function values with the shape of a "is this the current page" test
		var curTests []*ssa.Function
		for _, cl := range closuresOf(fp) {
			if sig := cl.Signature; sig.Params().Len() == 1 && sig.Results().Len() == 1 && types.TypeString(sig.Results().At(0).Type(), nil) == "bool" {
				curTests = append(curTests, cl)
			}
		}
		paths, fpAtoms, err := core.EnumerateDecisions(p, fp, core.DecisionOpts{ResolvePhis: true,
			Outcome: func(in ssa.Instruction, c *core.Canon) (string, bool) {
				if _, ok := in.(*ssa.Return); ok {
					return "return", true
				}
				return "", false
			},
			Event: func(in ssa.Instruction, c *core.Canon) (string, bool) {
				if st, ok := in.(*ssa.Store); ok {
					a := c.Of(st.Addr)
					if strings.HasSuffix(a, ".PrevPage") || strings.HasSuffix(a, ".NextPage") {
						return a[strings.LastIndex(a, ".")+1:] + "=" + c.Of(st.Val), true
					}
				}
				return "", false
			}})
		if err != nil {
			r.Undecided("Q3", "FindPagination", err.Error())
		}
		badPrev, badNext, nPrev := 0, 0, 0
		var wit []string
		for _, pa := range paths {
			evs := strings.Split(strings.SplitN(pa.Outcome, " => ", 2)[0], "; ")
			for _, ev := range evs {
				switch {
				case strings.HasPrefix(ev, "PrevPage="):
					v := strings.TrimPrefix(ev, "PrevPage=")
					if v == `""` {
						continue
					}
					nPrev++
					okP := false
					notSame, parseFails, notSameNorm := false, false, false
					for _, l := range pa.Lits {
						// the test as a local function value ...
						for _, cl := range curTests {
							if strings.Contains(l.Atom, cl.Name()+"(") && strings.Contains(l.Atom, v) && !l.Val {
								okP = true
							}
						}
						// ... or written out / in an expanded helper: not the page URL as given, and
						// (not parseable, or not the page URL in normalised spelling)
						if strings.HasPrefix(l.Atom, v+" == ") && !strings.HasSuffix(l.Atom, `== ""`) && !l.Val {
							notSame = true
						}
						if l.Atom == "url.Parse("+v+")#1 == nil" && !l.Val {
							parseFails = true
						}
						if (strings.HasPrefix(l.Atom, "stringutil.UnescapedString(url.Parse("+v+")#0) == ") || strings.HasSuffix(l.Atom, " == stringutil.UnescapedString(url.Parse("+v+")#0)")) && !l.Val {
							notSameNorm = true
						}
						if l.Atom == v+` == ""` && l.Val {
							okP = true // the stored value is empty on this path
						}
					}
					if notSame && (parseFails || notSameNorm) {
						okP = true
					}
					if !okP || !strings.HasSuffix(v, ".URL") {
						badPrev++
						wit = append(wit, pa.String())
					}
					results = append(results, v)
				case strings.HasPrefix(ev, "NextPage="):
					v := strings.TrimPrefix(ev, "NextPage=")
					if !strings.HasSuffix(v, ".NextPagingURL") && v != `""` {
						badNext++
					}
				}
			}
		}
		if len(wit) > 2 {
			wit = wit[:2]
		}
		r.Add("Q3", "PrevPage is a collected page URL that is not the current page", p.Pos(fp.Pos()), badPrev == 0 && nPrev >= 2, fmt.Sprintf("%d non-empty PrevPage stores on %d paths, %d without the is-current-page test", nPrev, len(paths), badPrev), wit...)
		r.Add("Q3", "NextPage is the detector's NextPagingURL", p.Pos(fp.Pos()), badNext == 0, "")
		// the current-page test compares normalised spellings
		okNorm, descNorm := false, "no normalising comparison found in FindPagination"
		for _, cl := range curTests {
			var rets []string
			for _, ret := range core.Returns(cl) {
				rets = append(rets, c.Of(ret.Results[0]))
			}
			// (the test may in turn call a helper of the package that does the comparing)
			if icl := p.Inlined(cl); icl != nil && icl != cl {
				for _, ret := range core.Returns(icl) {
					rets = append(rets, c.Of(ret.Results[0]))
				}
			}
			sort.Strings(rets)
			for _, s := range rets {
				if strings.Contains(s, "stringutil.UnescapedString(url.Parse($0)#0) == ") || strings.Contains(s, "== stringutil.UnescapedString(url.Parse($0)#0)") {
					okNorm, descNorm = true, strings.Join(rets, " | ")
				}
			}
		}
		for a := range fpAtoms {
			if strings.Contains(a, " == ") && strings.Contains(a, "stringutil.UnescapedString(url.Parse(") && strings.Contains(a, ".URL)#0)") {
				okNorm, descNorm = true, a
			}
		}
		r.Add("Q3", "the current page is recognised in any spelling (normalised comparison)", p.Pos(fp.Pos()), okNorm, descNorm)
	}
	// Apply stores PaginationInfo from the two finders only
	if ap := mustInl(p, r, "Q3", core.ModPath+".Apply"); ap != nil {
		n := 0
		okAll := true
		fcs := finderCalls(p, ap)
		for _, b := range ap.Blocks {
			for _, in := range b.Instrs {
				if st, ok := in.(*ssa.Store); ok && c.Of(st.Addr) == "&new(distiller.Result).PaginationInfo" {
					n++
					// every alternative that can be stored is the answer of one of the two finders
					if !allPhiLeaves(st.Val, func(v ssa.Value) bool { return isFinderResult(fcs, v) }, map[ssa.Value]bool{}) {
						okAll = false
					}
				}
			}
		}
		r.Add("Q3", "Result.PaginationInfo comes from the two finders only", p.Pos(ap.Pos()), okAll && n >= 1, fmt.Sprintf("%d stores", n))
		// Q4: "same site" is the site of the page URL the caller supplied: both finders are given
		// Options.OriginalURL itself (not a URL derived from the document)
		badArg := ""
		finders := map[*ssa.Function]bool{}
		for _, fc := range fcs {
			for _, callee := range fc.callees {
				finders[callee] = true
			}
			if len(fc.args) < 2 {
				badArg = "?"
				continue
			}
			if u := c.Of(fc.args[1]); !strings.HasSuffix(u, ".OriginalURL") || !strings.Contains(u, "$1") {
				badArg = u
			}
		}
		nFind := len(finders)
		r.Add("Q4", "the pagination finders are given the caller's page URL", p.Pos(ap.Pos()), nFind == 2 && badArg == "", fmt.Sprintf("%d finder calls; other URL: %s", nFind, badArg))
	}
	if pf := mustInl(p, r, "Q3", "(*"+paginationPkg+".PrevNextFinder).FindPagination"); pf != nil {
		for _, ret := range core.Returns(pf) {
			_ = ret
		}
		n := len(core.Calls(pf, func(ci ssa.CallInstruction) bool {
			return core.IsCallTo(ci, "(*"+paginationPkg+".PrevNextFinder).FindOutlink")
		}))
		r.Add("Q3", "PrevNext results are FindOutlink results", p.Pos(pf.Pos()), n == 2, fmt.Sprintf("%d FindOutlink calls", n))
	}
}

// returnIsLinkHrefOrEmpty: the value is "" or a load of a linkHref field (through phis).
func returnIsLinkHrefOrEmpty(v ssa.Value, linkField string, seen map[ssa.Value]bool) bool {
	if seen[v] {
		return true
	}
	seen[v] = true
	switch x := v.(type) {
	case *ssa.Const:
		s, ok := core.ConstString(x)
		return ok && s == ""
	case *ssa.Phi:
		for _, e := range x.Edges {
			if !returnIsLinkHrefOrEmpty(e, linkField, seen) {
				return false
			}
		}
		return true
	case *ssa.UnOp:
		if fa, ok := x.X.(*ssa.FieldAddr); ok {
			return strings.HasSuffix(core.NewCanon(nil).Of(fa), "."+linkField)
		}
	}
	return false
}

// isPageInfoURLCopy: the value is a load of the URL field of a PageInfo (through phis).
func isPageInfoURLCopy(v ssa.Value, seen map[ssa.Value]bool) bool {
	if seen[v] {
		return true
	}
	seen[v] = true
	switch x := v.(type) {
	case *ssa.Phi:
		for _, e := range x.Edges {
			if s, ok := core.ConstString(e); ok && s == "" {
				continue
			}
			if !isPageInfoURLCopy(e, seen) {
				return false
			}
		}
		return true
	case *ssa.UnOp:
		if fa, ok := x.X.(*ssa.FieldAddr); ok {
			t := derefT(fa.X.Type())
			if n := core.NamedOf(t); n != nil && n.Obj().Name() == "PageInfo" {
				return true
			}
		}
	}
	return false
}

// allPhiLeaves: every value that can flow into v through phis (and loads of locals that were
// stored once) satisfies pred.
func allPhiLeaves(v ssa.Value, pred func(ssa.Value) bool, seen map[ssa.Value]bool) bool {
	if seen[v] {
		return true
	}
	seen[v] = true
	v = core.StripConv(v)
	if ph, ok := v.(*ssa.Phi); ok {
		for _, e := range ph.Edges {
			if !allPhiLeaves(e, pred, seen) {
				return false
			}
		}
		return true
	}
	if u, ok := v.(*ssa.UnOp); ok && u.Op.String() == "*" {
		if al, ok := u.X.(*ssa.Alloc); ok {
			n, okAll := 0, true
			for _, ref := range *al.Referrers() {
				if st, ok := ref.(*ssa.Store); ok && st.Addr == ssa.Value(al) {
					n++
					if !allPhiLeaves(st.Val, pred, seen) {
						okAll = false
					}
				}
			}
			return n > 0 && okAll
		}
	}
	return pred(v)
}

// isPathTrimmedCopy: v is (*url.URL).String() of a local url.URL that was copied whole from the
// URL rendered as `parsed` and in which only Path/RawPath were overwritten, each with
// strings.TrimSuffix(<that field>, "/").
func isPathTrimmedCopy(c *core.Canon, v ssa.Value, parsed string) bool {
	call, ok := core.StripConv(v).(*ssa.Call)
	if !ok || !core.IsCallTo(call, "(*net/url.URL).String") || len(call.Call.Args) != 1 {
		return false
	}
	al, ok := call.Call.Args[0].(*ssa.Alloc)
	if !ok || al.Referrers() == nil {
		return false
	}
	copied := false
	for _, ref := range *al.Referrers() {
		switch x := ref.(type) {
		case *ssa.Store:
			if x.Addr != ssa.Value(al) {
				return false
			}
			ld, isLd := x.Val.(*ssa.UnOp)
			if !isLd || c.Of(ld.X) != parsed {
				return false
			}
			copied = true
		case *ssa.FieldAddr:
			name := core.FieldNameOf(x)
			if x.Referrers() == nil {
				continue
			}
			for _, r2 := range *x.Referrers() {
				st, isSt := r2.(*ssa.Store)
				if !isSt {
					continue // a load
				}
				if st.Addr != ssa.Value(x) || (name != "Path" && name != "RawPath") {
					return false
				}
				ts, isCall := st.Val.(*ssa.Call)
				if !isCall || !core.IsCallTo(ts, "strings.TrimSuffix") {
					return false
				}
				if s, isC := core.ConstString(ts.Call.Args[1]); !isC || s != "/" {
					return false
				}
				src, isLd := ts.Call.Args[0].(*ssa.UnOp)
				if !isLd {
					return false
				}
				fa, isFA := src.X.(*ssa.FieldAddr)
				if !isFA || core.FieldNameOf(fa) != name || (fa.X != ssa.Value(al) && c.Of(fa.X) != parsed) {
					return false
				}
			}
		case *ssa.Call:
			if !core.IsCallTo(x, "(*net/url.URL).String") {
				return false
			}
		case *ssa.DebugRef:
		default:
			return false
		}
	}
	return copied
}
